#!/usr/bin/env python3
"""Run a check against a property-PRESERVING change (refactoring, optimisation, legal alternative
behaviour) written by an independent sub-agent: the check must stay silent (exit 0).

  lib/benigneval.py <ID> <dir with patch.diff, meta.json> [--keep-as <name>] [--ids C01,C15]

Steps (scratch copy of /repo outside /repo and /verif, removed afterwards): the patch applies, the
touched modules build, the repository's own tests of the touched packages pass, then
`./check <ID> quick` with VERIF_REPO=<copy>. rc 0 = silent (good); rc 1 = alarm -> triage by hand:
the change really breaks the property (author's error) or the check demands more than the statement
(false alarm: correct the machinery); rc 2 = the harness no longer builds against the change.
With --keep-as the change is stored under /verif/benign/<name>/ once its verdict is settled.
"""
import json
import os
import re
import shutil
import subprocess
import sys
import time

VERIF = os.path.dirname(os.path.dirname(os.path.abspath(__file__)))
ENV = dict(os.environ, GOFLAGS="-mod=mod", GOPROXY="off", GOSUMDB="off", GOTOOLCHAIN="local")


def sh(cmd, cwd=None, timeout=3600, env=None):
    p = subprocess.run(cmd, shell=True, cwd=cwd, env=env or ENV, stdout=subprocess.PIPE, stderr=subprocess.STDOUT, text=True, timeout=timeout, errors="replace")
    return p.returncode, p.stdout


def module_of(root, path):
    d = os.path.dirname(os.path.join(root, path))
    while d.startswith(root):
        if os.path.exists(os.path.join(d, "go.mod")):
            return d
        d = os.path.dirname(d)
    return root


def main():
    pid, src = sys.argv[1], os.path.abspath(sys.argv[2])
    keep, ids = None, [pid]
    a = sys.argv[3:]
    while a:
        if a[0] == "--keep-as":
            keep = a[1]
        elif a[0] == "--ids":
            ids = a[1].split(",")
        a = a[2:]
    meta = json.load(open(os.path.join(src, "meta.json")))
    tag = re.sub(r"[^A-Za-z0-9]+", "-", pid + "-" + os.path.basename(src))
    mut = "/tmp/benignrun-%s" % tag
    res = {"property": pid, "source": src}
    try:
        shutil.rmtree(mut, ignore_errors=True)
        sh("rsync -a --exclude .git /repo/ %s/" % mut)
        rc, out = sh("patch -p1 --no-backup-if-mismatch < %s" % os.path.join(src, "patch.diff"), cwd=mut)
        res["patch_applies"] = rc == 0
        if rc != 0:
            res["patch_output"] = out[-800:]
            print(json.dumps(res, indent=1))
            return 2
        files = [f for f in re.findall(r"^\+\+\+ b/(\S+)", open(os.path.join(src, "patch.diff")).read(), re.M) if f.endswith(".go")]
        res["files_changed"] = files
        ok, logs = True, []
        for d in sorted({os.path.dirname(f) for f in files}):
            m = module_of(mut, os.path.join(d, "x.go"))
            rel = "./" + os.path.relpath(os.path.join(mut, d), m)
            rc, out = sh("go vet %s && go test -count=1 -timeout 20m %s" % (rel, rel), cwd=m)
            logs.append("%s: rc=%d %s" % (d, rc, out.strip().splitlines()[-1] if out.strip() else ""))
            ok = ok and rc == 0
        res["existing_tests_pass_with_patch"] = ok
        res["existing_tests"] = logs
        res["checks"] = {}
        for cid in ids:
            t0 = time.time()
            rc, out = sh("./check %s quick" % cid, cwd=VERIF, env=dict(ENV, VERIF_REPO=mut, VERIF_SCRATCH_TAG="-benign-" + tag))
            keys = re.findall(r"^\s+key: (.+)$", out, re.M)
            res["checks"][cid] = {"rc": rc, "wall_s": round(time.time() - t0, 1), "new_keys": keys,
                                  "summary": out.strip().splitlines()[-1] if out.strip() else ""}
            if rc not in (0, 1):
                res["checks"][cid]["tail"] = out[-1500:]
        res["silent"] = all(c["rc"] == 0 for c in res["checks"].values())
        print(json.dumps(res, indent=1))
        if keep and ok:
            dst = os.path.join(VERIF, "benign", keep)
            os.makedirs(dst, exist_ok=True)
            if os.path.abspath(src) != os.path.abspath(dst):
                shutil.copy(os.path.join(src, "patch.diff"), dst)
            meta["evaluated"] = {"existing_tests": logs, "checks": res["checks"], "silent": res["silent"],
                                 "how": "lib/benigneval.py %s <dir> --ids %s" % (pid, ",".join(ids))}
            json.dump(meta, open(os.path.join(dst, "meta.json"), "w"), indent=1)
        return 0
    finally:
        shutil.rmtree(mut, ignore_errors=True)


if __name__ == "__main__":
    sys.exit(main())
