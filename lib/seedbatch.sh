#!/bin/bash
# usage: lib/seedbatch.sh "C19 A" "C19 B" ...
for spec in "$@"; do set -- $spec; python3 /verif/lib/seedeval.py $1 ${SEED_OUT:-/tmp/seed-out}/$1/$2 --keep-as $1-${SEED_TAG:-}$2 2>&1 | python3 -c "
import sys,json
t=sys.stdin.read()
try:
    r=json.loads(t[t.index('{'):]); print('$1-$2','applies',r.get('patch_applies'),'tests_pass', r.get('existing_tests_pass_with_patch'), 'demo', r.get('demo_confirms'), 'caught', r.get('caught'), r.get('check',{}).get('new_keys',[])[:5], r.get('patch_output','')[:300], [l for l in r.get('existing_tests',[]) if 'rc=0' not in l][:3])
except Exception as e: print('$1-$2 ERR',e,t[-600:])"; done
