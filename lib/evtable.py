#!/usr/bin/env python3
"""Print a markdown table of what the last run of every check covered (from evidence/*.json).

  lib/evtable.py            table on stdout
  lib/evtable.py --write    replace the block between the EVTABLE markers in DESIGN.md
"""
import glob
import json
import os
import re
import sys

VERIF = os.path.dirname(os.path.dirname(os.path.abspath(__file__)))


def fmt(n):
    if n >= 10**7:
        return "%.1fe%d" % (n / 10 ** (len(str(n)) - 1), len(str(n)) - 1)
    return str(n)


def table():
    rows = ["| id | tier | jobs | executions (schedules) | evaluations (inputs/histories) | states | transitions | distinct outcomes | exhaustive | caps | known findings printed | wall s |",
            "|---|---|---|---|---|---|---|---|---|---|---|---|"]
    for p in sorted(glob.glob(os.path.join(VERIF, "evidence", "C*.json"))):
        e = json.load(open(p))
        c = e["coverage"]
        rows.append("| %s | %s | %d | %s | %s | %s | %s | %d | %s | %d | %d | %.0f |" % (
            e["property_id"], e["tier"], len(c.get("jobs", [])), fmt(c.get("executions", 0)), fmt(c.get("evaluations", 0)),
            fmt(c.get("states", 0)), fmt(c.get("transitions", 0)), c.get("distinct_nontrivial", 0),
            "yes" if c.get("exhaustive") else "no", len([x for x in c.get("caps_hit", []) if "budget" in x and ": " in x and x.count(":") == 1]),
            len(c.get("known_findings_reported", [])), e.get("wall_s", 0)))
    return "\n".join(rows)


def main():
    t = table()
    if "--write" in sys.argv:
        p = os.path.join(VERIF, "DESIGN.md")
        s = open(p).read()
        s2, n = re.subn(r"(<!-- EVTABLE:BEGIN -->\n).*?(<!-- EVTABLE:END -->)", lambda m: m.group(1) + t + "\n" + m.group(2), s, flags=re.S)
        if n != 1:
            sys.exit("EVTABLE markers not found in DESIGN.md")
        open(p, "w").write(s2)
    else:
        print(t)


if __name__ == "__main__":
    main()
