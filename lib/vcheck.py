"""Driver shared by all checks: scratch copy of the repository's working tree -> harness files
dropped in -> (optional) scheduler instrumentation -> go test -c -> run the jobs over a process
pool -> aggregate the per-job result files into evidence/<ID>.json, replays and the exit status.
"""
import concurrent.futures as cf
import fcntl
import hashlib
import json
import os
import re
import shutil
import subprocess
import sys
import time

VERIF = os.path.dirname(os.path.dirname(os.path.abspath(__file__)))
REPO = os.environ.get("VERIF_REPO", "/repo")
JOBS = int(os.environ.get("VERIF_JOBS", "16"))
SEED = int(os.environ.get("VERIF_SEED", "0") or 0)


def scratch_root():
    r = os.environ.get("VERIF_SCRATCH")
    if r:
        return r
    if os.path.isdir("/dev/shm") and os.access("/dev/shm", os.W_OK):
        return "/dev/shm/verif-scratch"
    return "/var/tmp/verif-scratch"


def goenv(extra=None):
    e = dict(os.environ)
    e.update({"GOFLAGS": "-mod=mod", "GOPROXY": "off", "GOSUMDB": "off", "GOTOOLCHAIN": "local",
              "GONOSUMDB": "*", "GONOSUMCHECK": "1", "CGO_ENABLED": e.get("CGO_ENABLED", "1")})
    for k in ("VERIF_JOB", "VERIF_OUT", "VERIF_LIST", "VERIF_REPLAY", "VERIF_STATUS"):
        e.pop(k, None)
    if extra:
        e.update(extra)
    return e


def log(*a):
    print(*a, flush=True)


def run(cmd, cwd=None, env=None, timeout=None):
    p = subprocess.run(cmd, cwd=cwd, env=env or goenv(), stdout=subprocess.PIPE, stderr=subprocess.STDOUT,
                       text=True, timeout=timeout, errors="replace")
    return p.returncode, p.stdout


class HarnessError(Exception):
    pass


_INSTRUMENTED = {}


# ----------------------------------------------------------------------------- tools

def ensure_tools():
    """Build bin/vprep if it is missing or older than its source."""
    binp = os.path.join(VERIF, "bin", "vprep")
    src = os.path.join(VERIF, "cmd", "vprep", "main.go")
    if os.path.exists(binp) and os.path.getmtime(binp) >= os.path.getmtime(src):
        return binp
    os.makedirs(os.path.dirname(binp), exist_ok=True)
    lock = open(os.path.join(VERIF, "bin", ".lock"), "w")
    fcntl.flock(lock, fcntl.LOCK_EX)
    try:
        if os.path.exists(binp) and os.path.getmtime(binp) >= os.path.getmtime(src):
            return binp
        rc, out = run(["go", "build", "-o", binp + ".new", "."], cwd=os.path.join(VERIF, "cmd", "vprep"))
        if rc != 0:
            raise HarnessError("vprep does not build:\n" + out)
        os.replace(binp + ".new", binp)
    finally:
        fcntl.flock(lock, fcntl.LOCK_UN)
    return binp


# ----------------------------------------------------------------------------- preparation

def load_spec(pid):
    p = os.path.join(VERIF, "harness", pid, "spec.json")
    if not os.path.exists(p):
        raise HarnessError("no harness for property %s" % pid)
    with open(p) as f:
        return json.load(f)


def prepare_scratch(tag):
    root = scratch_root()
    os.makedirs(root, exist_ok=True)
    lockf = open(os.path.join(root, tag + ".lock"), "w")
    fcntl.flock(lockf, fcntl.LOCK_EX)
    d = os.path.join(root, tag)
    if os.path.exists(d):
        shutil.rmtree(d, ignore_errors=True)
    os.makedirs(d)
    repo = os.path.join(d, "repo")
    rc, out = run(["rsync", "-a", "--exclude", ".git", REPO.rstrip("/") + "/", repo + "/"])
    if rc != 0:
        raise HarnessError("rsync failed: " + out)
    os.makedirs(os.path.join(d, "bin"))
    os.makedirs(os.path.join(d, "out"))
    return d, lockf


def mod_edit(moddir):
    mc = os.path.join(VERIF, "mc")
    rc, out = run(["go", "mod", "edit", "-require=verif/mc@v0.0.0", "-replace=verif/mc=" + mc], cwd=moddir)
    if rc != 0:
        raise HarnessError("go mod edit failed in %s: %s" % (moddir, out))


def build_unit(pid, unit, sdir):
    """Copy the harness of one unit into the scratch tree, instrument, build. Returns binary path."""
    repo = os.path.join(sdir, "repo")
    hdir = os.path.join(VERIF, "harness", pid)
    moddir = os.path.normpath(os.path.join(repo, unit.get("module", ".")))
    pkgdir = os.path.normpath(os.path.join(repo, unit["pkg"]))
    if not os.path.isdir(pkgdir):
        raise HarnessError("package directory %s does not exist in this tree" % unit["pkg"])
    if not unit.get("keep_tests"):
        for fn in os.listdir(pkgdir):
            if fn.endswith("_test.go"):
                os.remove(os.path.join(pkgdir, fn))
    for fn in unit["files"]:
        shutil.copy(os.path.join(hdir, fn), os.path.join(pkgdir, os.path.basename(fn)))
    for ex in unit.get("extra", []):
        dst = os.path.join(repo, ex["dst"])
        os.makedirs(os.path.dirname(dst), exist_ok=True)
        shutil.copy(os.path.join(hdir, ex["src"]), dst)
    for ts in unit.get("textsubs", []):
        # {"file": "<path in the tree>", "subs": [[from, to], ...]}: literal replacements in the scratch
        # copy (a seam the harness needs inside an existing file); a file or text that is not there is
        # left alone -- the harness finds out whether its seam is live
        fp = os.path.join(repo, ts["file"])
        if os.path.isfile(fp):
            with open(fp) as f:
                txt = f.read()
            for a, b in ts["subs"]:
                txt = txt.replace(a, b)
            with open(fp, "w") as f:
                f.write(txt)
    mods = [moddir] + [os.path.normpath(os.path.join(repo, m)) for m in unit.get("mods", [])]
    for m in mods:
        mod_edit(m)
    for ins in unit.get("instrument", []):
        # {"module": "sdk", "patterns": ["./trace"]}
        imod = os.path.normpath(os.path.join(repo, ins.get("module", unit.get("module", "."))))
        if imod not in mods:
            mod_edit(imod)
            mods.append(imod)
        env = goenv()
        if ins.get("skip_files"):
            env["VPREP_SKIP"] = ",".join(ins["skip_files"])
        # a package is instrumented once per scratch tree, however many units name it
        pats = [p for p in ins["patterns"] if (imod, p) not in _INSTRUMENTED.setdefault(sdir, set())]
        if not pats:
            continue
        _INSTRUMENTED[sdir].update((imod, p) for p in pats)
        rc, out = run([ensure_tools(), imod] + pats, env=env)
        if rc != 0:
            raise HarnessError("instrumenter failed on %s %s:\n%s" % (imod, ins["patterns"], out))
    binp = os.path.join(sdir, "bin", unit["name"] + ".test")
    rel = "./" + os.path.relpath(pkgdir, moddir)
    cmd = ["go", "test", "-c", "-o", binp]
    if unit.get("race"):
        cmd += ["-race", "-gcflags=verif/mc/...=-race=false"]
    if unit.get("tags"):
        cmd += ["-tags", unit["tags"]]
    cmd.append(rel)
    rc, out = run(cmd, cwd=moddir)
    if rc != 0 or not os.path.exists(binp):
        raise HarnessError("harness %s/%s does not build against this tree:\n%s" % (pid, unit["name"], out[-6000:]))
    return binp, pkgdir


def passthrough(pid, spec, sdir):
    """Standing check of the instrumenter (thorough tier): the repository's OWN tests of the
    instrumented packages, rewritten the same way, must pass on the instrumented copy with the
    shims in pass-through mode (no scheduler active => every shim is the std primitive)."""
    out = []
    for i, pt in enumerate(spec.get("passthrough", [])):
        root = os.path.join(sdir, "pt%d" % i)
        rc, o = run(["rsync", "-a", "--exclude", ".git", REPO.rstrip("/") + "/", root + "/"])
        if rc != 0:
            raise HarnessError("rsync failed: " + o)
        mod = os.path.normpath(os.path.join(root, pt["module"]))
        mod_edit(mod)
        env = goenv({"INSTR_TESTS": "1"})
        if pt.get("skip_files"):
            env["VPREP_SKIP"] = ",".join(pt["skip_files"])
        rc, o = run([ensure_tools(), mod] + pt["patterns"], env=env)
        if rc != 0:
            raise HarnessError("instrumenter (with tests) failed on %s %s:\n%s" % (pt["module"], pt["patterns"], o[-3000:]))
        rc, o = run(["go", "test", "-count=1", "-timeout", "20m", "-json"] + pt["patterns"], cwd=mod, timeout=1500)
        passed = len(re.findall(r'"Action":"pass","Package":"[^"]+","Test":"', o))
        failed = re.findall(r'"Action":"fail","Package":"[^"]+","Test":"([^"]+)"', o)
        shutil.rmtree(root, ignore_errors=True)
        if rc != 0 or failed:
            raise HarnessError("the repository's own tests FAIL on the instrumented copy of %s %s (instrumenter changed semantics?): %s\n%s" % (pt["module"], pt["patterns"], failed[:10], o[-2000:]))
        out.append({"module": pt["module"], "packages": pt["patterns"], "repository_tests_passed_on_instrumented_copy": passed})
    return out


def list_jobs(unit, binp, pkgdir, tier):
    env = goenv({"VERIF_LIST": "1", "VERIF_TIER": tier})
    rc, out = run([binp, "-test.run", "^%s$" % unit["test"]], cwd=pkgdir, env=env, timeout=120)
    jobs = re.findall(r"^VERIF-JOB (.+)$", out, re.M)
    if rc != 0:
        raise HarnessError("listing jobs of %s failed:\n%s" % (unit["name"], out[-3000:]))
    return jobs or [""]


# ----------------------------------------------------------------------------- running

def safe(s):
    return re.sub(r"[^A-Za-z0-9_.-]+", "_", s)[:120] or "default"


def run_job(pid, unit, binp, pkgdir, job, tier, sdir, deadline, replay=None):
    outp = os.path.join(sdir, "out", "%s.%s.json" % (unit["name"], safe(job)))
    statp = outp + ".status"
    logp = outp + ".log"
    for p in (outp, statp):
        if os.path.exists(p):
            os.remove(p)
    remaining = max(5.0, deadline - time.time())
    extra = {"VERIF_TIER": tier, "VERIF_JOB": job, "VERIF_OUT": outp, "VERIF_STATUS": statp,
             "VERIF_DEADLINE_S": "%.1f" % remaining, "VERIF_SEED": str(SEED), "VERIF_PROPERTY": pid}
    if unit.get("gomaxprocs"):
        extra["GOMAXPROCS"] = str(unit["gomaxprocs"])
    if unit.get("race"):
        extra["GORACE"] = "halt_on_error=1 exitcode=66"
    if unit.get("env"):
        extra.update(unit["env"])
    if replay:
        extra["VERIF_REPLAY"] = replay
    grace = float(unit.get("grace_s", 45))
    cmd = [binp, "-test.run", "^%s$" % unit["test"], "-test.timeout", "%ds" % int(remaining + grace + 30), "-test.v"]
    t0 = time.time()
    mem = unit.get("mem_kb", 12 * 1024 * 1024)
    killed = False
    with open(logp, "w") as lf:
        p = subprocess.Popen(["bash", "-c", "ulimit -v %d; exec \"$@\"" % mem, "sh"] + cmd, cwd=pkgdir,
                             env=goenv(extra), stdout=lf, stderr=subprocess.STDOUT)
        try:
            rc = p.wait(timeout=remaining + grace)
        except subprocess.TimeoutExpired:
            p.kill()
            p.wait()
            rc = -9
            killed = True
    res = None
    if os.path.exists(outp):
        try:
            with open(outp) as f:
                res = json.load(f)
        except Exception as e:  # truncated file
            res = None
    tail = ""
    try:
        with open(logp, errors="replace") as f:
            tail = f.read()[-8000:]
    except Exception:
        pass
    status = None
    if os.path.exists(statp):
        try:
            with open(statp, errors="replace") as f:
                status = f.read()
        except Exception:
            pass
    return {"unit": unit["name"], "job": job, "rc": rc, "killed": killed, "res": res, "tail": tail,
            "status": status, "wall": time.time() - t0}


RACE_FRAME = re.compile(r"^\s+(\S+)\(\)\n\s+(\S+?):(\d+)", re.M)


def race_key(tail, sdir):
    """Stable key for a race report: the innermost repository frames of the two conflicting accesses."""
    blocks = re.split(r"\n\s*\n", tail[tail.find("WARNING: DATA RACE"):])
    sites = []
    for b in blocks[:2]:
        site = None
        for m in RACE_FRAME.finditer(b):
            fn, path = m.group(1), m.group(2)
            if "/repo/" in path and "_test.go" not in path and "verif/mc" not in path:
                site = fn.split("/")[-1]
                break
        sites.append(site or "?")
    return "data-race|" + " vs ".join(sorted(sites))


def crash_violation(pid, jr, sdir):
    """A job died without writing its result. If the harness had announced the case it was
    executing (status file), the death is attributed to that case."""
    st = jr["status"]
    if not st:
        return None
    try:
        sj = json.loads(st)
    except Exception:
        return None
    tail = jr["tail"]
    if jr["rc"] == 66 and "WARNING: DATA RACE" in tail:
        key = race_key(tail, sdir)
        msg = tail[tail.find("WARNING: DATA RACE"):][:3000]
    else:
        key = sj.get("key") or "crash"
        m = re.search(r"^(panic: .*|fatal error: .*)$", tail, re.M)
        msg = (m.group(1) if m else "process died (rc=%s)" % jr["rc"]) + "\n" + tail[-2500:]
    if not key.startswith(pid + "|"):
        key = pid + "|" + key
    return {"key": key, "msg": msg, "case": sj.get("case"), "replay": sj.get("replay"), "count": 1, "job": jr["job"]}


# ----------------------------------------------------------------------------- findings

def load_known():
    p = os.path.join(VERIF, "known_findings.json")
    if not os.path.exists(p):
        return []
    with open(p) as f:
        return json.load(f).get("findings", [])


def write_replay(pid, unit, tier, v):
    h = hashlib.sha1(v["key"].encode()).hexdigest()[:10]
    rdir = os.environ.get("VERIF_REPLAY_DIR")
    if not rdir:
        # runs against another tree (mutants, candidate fixes) must not litter /verif/replays
        rdir = os.path.join(VERIF, "replays") if os.path.realpath(REPO) == "/repo" else os.path.join(scratch_root(), "replays-other-tree")
    os.makedirs(rdir, exist_ok=True)
    path = os.path.join(rdir, "%s-%s.json" % (pid, h))
    body = {"property": pid, "key": v["key"], "msg": v["msg"], "case": v.get("case"), "unit": unit,
            "job": v.get("job", ""), "tier": tier, "replay": v.get("replay"), "count": v.get("count", 1),
            "how": "./check replay " + path}
    with open(path, "w") as f:
        json.dump(body, f, indent=1, default=str)
    return path


# ----------------------------------------------------------------------------- main flows

def check(pid, tier):
    t0 = time.time()
    spec = load_spec(pid)
    units = [u for u in spec["units"] if tier in u.get("tiers", ["quick", "thorough"])]
    sdir, lockf = prepare_scratch("%s-%s%s" % (pid, tier, os.environ.get("VERIF_SCRATCH_TAG", "")))
    keep = os.environ.get("VERIF_KEEP") == "1"
    try:
        ensure_tools()
        built = {}
        # units that share a package directory (or a module that gets instrumented) must be
        # prepared one after the other; units in different modules build in parallel
        groups = {}
        for u in units:
            groups.setdefault(u.get("module", "."), []).append(u)

        def build_group(us):
            return [(u["name"], build_unit(pid, u, sdir)) for u in us]
        with cf.ThreadPoolExecutor(max_workers=4) as ex:
            for res in ex.map(build_group, list(groups.values())):
                for name, b in res:
                    built[name] = b
        pt = passthrough(pid, spec, sdir) if (tier == "thorough" or os.environ.get("VERIF_PASSTHROUGH") == "1") else []
        spec["_passthrough_result"] = pt
        t_build = time.time() - t0
        budget = float(os.environ.get("VERIF_BUDGET_S", spec.get("budget_s", {}).get(tier, 150 if tier == "quick" else 1500)))
        tasks = []
        for u in units:
            binp, pkgdir = built[u["name"]]
            for j in list_jobs(u, binp, pkgdir, tier):
                if os.environ.get("VERIF_ONLY") and not re.search(os.environ["VERIF_ONLY"], u["name"] + "/" + j):
                    continue  # development aid: run a subset of the jobs (the evidence then covers only those)
                tasks.append((u, binp, pkgdir, j))
        deadline = time.time() + budget
        results = []
        with cf.ThreadPoolExecutor(max_workers=JOBS) as ex:
            futs = [ex.submit(run_job, pid, u, b, d, j, tier, sdir, deadline) for (u, b, d, j) in tasks]
            for f in futs:
                results.append(f.result())
        return aggregate(pid, tier, spec, results, sdir, t0, t_build)
    finally:
        if not keep:
            shutil.rmtree(sdir, ignore_errors=True)
        fcntl.flock(lockf, fcntl.LOCK_UN)


def aggregate(pid, tier, spec, results, sdir, t0, t_build):
    cov = {"evaluations": 0, "states": 0, "transitions": 0, "executions": 0}
    outcomes = set()
    outcome_overflow = 0
    exhaustive = True
    caps, notes, samples, jobs_tbl = [], [], [], []
    bounds, counters = {}, {}
    viols = {}
    harness_fail = []
    engine_err = []
    for jr in results:
        res = jr["res"]
        row = {"unit": jr["unit"], "job": jr["job"], "wall_s": round(jr["wall"], 2)}
        if res is None:
            # a job this script killed itself at the wall-clock budget did not die of the code under
            # test, whatever case it had announced: a cap, never a finding
            v = None if jr["killed"] else crash_violation(pid, jr, sdir)
            if v is not None:
                v["unit"] = jr["unit"]
                viols.setdefault(v["key"], v)
                row["died"] = v["key"]
                exhaustive = False
                caps.append("job %s/%s died on an attributed case" % (jr["unit"], jr["job"]))
            elif jr["killed"]:
                exhaustive = False
                caps.append("job %s/%s killed at the wall-clock budget before reporting" % (jr["unit"], jr["job"]))
                row["killed"] = True
            else:
                harness_fail.append(jr)
            jobs_tbl.append(row)
            continue
        if jr["rc"] == 3 or "VERIF-ENGINE-ERROR" in jr["tail"]:
            engine_err.append(jr)
        elif jr["rc"] != 0:
            harness_fail.append(jr)
        for k in cov:
            cov[k] += int(res.get(k) or 0)
        for h in res.get("outcomes") or []:
            outcomes.add(h)
        outcome_overflow += int(res.get("outcome_n") or 0)
        if not res.get("exhaustive", True):
            exhaustive = False
        for c in res.get("caps_hit") or []:
            c = "%s/%s: %s" % (jr["unit"], jr["job"], c)
            if c not in caps:
                caps.append(c)
        for n in res.get("notes") or []:
            notes.append("%s/%s: %s" % (jr["unit"], jr["job"], n))
        for k, v in (res.get("bounds") or {}).items():
            vs = bounds.setdefault(jr["unit"], {}).setdefault(k, [])
            if v not in vs:
                vs.append(v)
        for k, v in (res.get("counters") or {}).items():
            counters[k] = counters.get(k, 0) + v
        for s in (res.get("samples") or [])[:3]:
            if len(samples) < 24:
                samples.append({"unit": jr["unit"], "job": jr["job"], "case": s})
        for v in res.get("violations") or []:
            v["unit"] = jr["unit"]
            if v["key"] in viols:
                viols[v["key"]]["count"] += v.get("count", 1)
            else:
                viols[v["key"]] = v
        row.update({"evaluations": res.get("evaluations"), "states": res.get("states"),
                    "transitions": res.get("transitions"), "executions": res.get("executions"),
                    "outcomes": len(res.get("outcomes") or []), "violations": len(res.get("violations") or []),
                    "exhaustive": res.get("exhaustive", True)})
        jobs_tbl.append(row)

    for u in bounds:
        for k in bounds[u]:
            if len(bounds[u][k]) == 1:
                bounds[u][k] = bounds[u][k][0]
    known = {k["key"]: k for k in load_known() if k.get("property") == pid}
    new, old = [], []
    for key in sorted(viols):
        (old if key in known else new).append(viols[key])
    for v in old:
        log("KNOWN-FINDING: property=%s %s — %s" % (pid, v["key"], known[v["key"]].get("what", "")))
    replay_paths = []
    for v in new:
        path = write_replay(pid, v.get("unit"), tier, v)
        replay_paths.append(path)
        log("VIOLATION property=%s replay=%s" % (pid, path))
        log("  key: %s\n  %s" % (v["key"], str(v["msg"])[:1500].replace("\n", "\n  ")))
    distinct = len(outcomes) + outcome_overflow
    level = spec.get("level", "model_checking")
    states = cov["states"] or max(distinct, 1)
    ev = {
        "property_id": pid, "tier": tier, "seed": SEED, "level": level,
        "coverage": {
            "states": states,
            "transitions": cov["transitions"] or cov["evaluations"] or cov["executions"] or 0,
            "traces_validated_against_impl": cov["executions"] or cov["evaluations"],
            "evaluations": cov["evaluations"] or cov["executions"],
            "executions": cov["executions"],
            "distinct_nontrivial": distinct,
            "rule": spec.get("rule", ""),
            "exhaustive": exhaustive and not harness_fail,
            "caps_hit": caps, "bounds": bounds, "counters": counters,
            "samples": samples, "jobs": jobs_tbl, "notes": notes[:40],
            "known_findings_reported": [v["key"] for v in old],
            "instrumenter_passthrough": spec.get("_passthrough_result", []),
            "build_s": round(t_build, 1),
        },
        "assumptions": spec.get("assumptions", []),
        "wall_s": round(time.time() - t0, 2),
        "violations": len(new),
    }
    # evidence/<ID>.json describes runs against /repo itself; a run against another tree (VERIF_REPO:
    # seeded-change evaluation, mutants) leaves it alone and writes next to its scratch copies
    evdir = os.path.join(VERIF, "evidence") if os.path.realpath(REPO) == "/repo" else os.path.join(scratch_root(), "evidence-other-tree")
    os.makedirs(evdir, exist_ok=True)
    evp = os.path.join(evdir, pid + ".json")
    with open(evp + ".tmp", "w") as f:
        json.dump(ev, f, indent=1, default=str)
    os.replace(evp + ".tmp", evp)
    log("%s %s: evaluations=%d executions=%d states=%d transitions=%d distinct_outcomes=%d exhaustive=%s known=%d new=%d wall=%.1fs (build %.1fs)" % (
        pid, tier, cov["evaluations"], cov["executions"], states, ev["coverage"]["transitions"], distinct,
        ev["coverage"]["exhaustive"], len(old), len(new), ev["wall_s"], t_build))
    if engine_err:
        for jr in engine_err:
            log("ENGINE-ERROR in %s/%s:\n%s" % (jr["unit"], jr["job"], jr["tail"][-3000:]))
    if new:
        return 1  # a violation with its replay file stands, whatever else went wrong in another job
    if engine_err:
        return 3
    if harness_fail:
        for jr in harness_fail:
            log("HARNESS-FAILURE in %s/%s (rc=%s):\n%s" % (jr["unit"], jr["job"], jr["rc"], jr["tail"][-4000:]))
        return 2
    return 0


def replay(path):
    with open(path) as f:
        rp = json.load(f)
    pid, tier = rp["property"], rp.get("tier", "quick")
    spec = load_spec(pid)
    unit = [u for u in spec["units"] if u["name"] == rp["unit"]]
    if not unit:
        raise HarnessError("unit %s not found" % rp["unit"])
    unit = unit[0]
    sdir, lockf = prepare_scratch("%s-replay%s" % (pid, os.environ.get("VERIF_SCRATCH_TAG", "")))
    try:
        binp, pkgdir = build_unit(pid, unit, sdir)
        jr = run_job(pid, unit, binp, pkgdir, rp.get("job", ""), tier, sdir, time.time() + 600, replay=os.path.abspath(path))
        sys.stdout.write(jr["tail"][-6000:] + "\n")
        res = jr["res"]
        found = []
        if res is None:
            v = crash_violation(pid, jr, sdir)
            if v:
                found.append(v)
        else:
            found = res.get("violations") or []
        same = [v for v in found if v["key"] == rp["key"]]
        if same:
            log("VIOLATION property=%s replay=%s" % (pid, path))
            log("  reproduced: %s" % same[0]["msg"][:2000])
            return 1
        log("replay of %s did not reproduce %s (found: %s)" % (path, rp["key"], [v["key"] for v in found]))
        return 0
    finally:
        if os.environ.get("VERIF_KEEP") != "1":
            shutil.rmtree(sdir, ignore_errors=True)
        fcntl.flock(lockf, fcntl.LOCK_UN)


def setup():
    t0 = time.time()
    ensure_tools()
    log("vprep built (%.1fs)" % (time.time() - t0))
    rc, out = run(["go", "vet", "./..."], cwd=os.path.join(VERIF, "mc"))
    rc, out = run(["go", "test", "-count=1", "-timeout", "300s", "./..."], cwd=os.path.join(VERIF, "mc"), timeout=400)
    log(out[-3000:])
    if rc != 0:
        log("engine self-tests FAILED")
        return 2
    log("engine self-tests passed (%.1fs)" % (time.time() - t0))
    if os.environ.get("VERIF_SETUP_WARM", "1") == "1":
        # warm the build cache: build every harness once (no jobs are run)
        pids = sorted(p for p in os.listdir(os.path.join(VERIF, "harness"))
                      if os.path.exists(os.path.join(VERIF, "harness", p, "spec.json")))

        def warm(pid):
            try:
                spec = load_spec(pid)
                sdir, lockf = prepare_scratch("%s-quick" % pid)
                try:
                    for u in spec["units"]:
                        build_unit(pid, u, sdir)
                finally:
                    shutil.rmtree(sdir, ignore_errors=True)
                    fcntl.flock(lockf, fcntl.LOCK_UN)
                return pid, None
            except HarnessError as e:
                return pid, str(e)
        with cf.ThreadPoolExecutor(max_workers=4) as ex:
            for pid, err in ex.map(warm, pids):
                log("warm %s: %s" % (pid, "ok" if err is None else "FAILED\n" + err[-2000:]))
    log("setup done in %.1fs" % (time.time() - t0))
    return 0


def main(argv):
    if not argv:
        print(__doc__)
        return 2
    try:
        if argv[0] == "setup":
            return setup()
        if argv[0] == "list":
            for p in sorted(os.listdir(os.path.join(VERIF, "harness"))):
                if os.path.exists(os.path.join(VERIF, "harness", p, "spec.json")):
                    print(p)
            return 0
        if argv[0] == "replay":
            return replay(argv[1])
        pid = argv[0]
        tier = argv[1] if len(argv) > 1 else os.environ.get("VERIF_TIER", "quick")
        if tier not in ("quick", "thorough"):
            tier = "quick"
        return check(pid, tier)
    except HarnessError as e:
        log("HARNESS-ERROR: %s" % e)
        return 2
