#!/usr/bin/env python3
"""Mechanical mutation campaign: a systematic (not creative) complement to the independently seeded
changes of seeded/. It measures oracle strength; it is not a verification step itself.

  lib/mutate.py <file relative to /repo> <ID>[,<ID>...] [--max N] [--offset K] [--slot S] [--out DIR]

For every mutant (one token-level change on one line of the file): copy /repo's working tree to a
slot directory outside /repo and /verif, apply it, build the module, run the repository's own tests
of the package (the mutant must *survive* them to be interesting), then run `./check <ID> quick` of
each listed property against the copy (VERIF_REPO). Result lines go to <out>/<file>.jsonl:
  killed-by-build | killed-by-tests | caught (by which check, keys) | missed.
Missed mutants are triaged by hand (equivalent / outside every property / a gap to close).
"""
import json
import os
import re
import shutil
import subprocess
import sys
import time

VERIF = os.path.dirname(os.path.dirname(os.path.abspath(__file__)))
ENV = dict(os.environ, GOFLAGS="-mod=mod", GOPROXY="off", GOSUMDB="off", GOTOOLCHAIN="local")

OPS = [
    (r"(?<![<>=!:+\-*/&|])<=(?!=)", "<"), (r"(?<![<>=!:\-])<(?![<=\-])", "<="),
    (r"(?<![<>=!:\-])>=(?!=)", ">"), (r"(?<![<>=!:\-])>(?![>=])", ">="),
    (r"==", "!="), (r"!=", "=="),
    (r"&&", "||"), (r"\|\|", "&&"),
    (r"\+ 1\b", "+ 0"), (r"- 1\b", "- 0"), (r"\+= 1\b", "+= 0"), (r"\+\+", "--"),
    (r"\btrue\b", "false"), (r"\bfalse\b", "true"),
    (r"\breturn err\b", "return nil"),
    (r"\bcontinue\b", "break"), (r"\bbreak\b", "continue"),
    (r"\[1:\]", "[0:]"), (r"\[:0\]", "[:]"),
    (r"\bdefer ", ""),
]
# statement deletion: a line that is a plain call or assignment (no control flow, no declaration)
DEL = re.compile(r"^\s+[A-Za-z_][\w\.\[\]\(\)\*&]*(\.[A-Za-z_]\w*)*\s*(\(|=|\+=|-=|\.Store\(|\.Add\()")


def mutants(src):
    lines = src.split("\n")
    out = []
    incomment = False
    for i, ln in enumerate(lines):
        s = ln.strip()
        if s.startswith("/*"):
            incomment = True
        if incomment:
            if "*/" in s:
                incomment = False
            continue
        if not s or s.startswith("//") or s.startswith("import") or s.startswith("package"):
            continue
        code = ln.split("//")[0] if '"' not in ln else ln
        for pat, rep in OPS:
            for m in re.finditer(pat, code):
                # skip matches inside string literals (rough: odd number of quotes before)
                if code[:m.start()].count('"') % 2 == 1 or code[:m.start()].count("`") % 2 == 1:
                    continue
                new = code[:m.start()] + rep + code[m.end():]
                out.append((i, "%s->%s" % (m.group(0), rep or "(removed)"), new))
        if DEL.match(ln) and not s.endswith("{") and not s.startswith("return") and ":=" not in ln and s.endswith(")") | ("=" in s):
            if not re.match(r"^\s*(if|for|switch|select|go|defer|case|var|const|type|func)\b", ln):
                out.append((i, "delete-stmt", re.match(r"^\s*", ln).group(0) + "_ = 0"))
    return lines, out


def sh(cmd, cwd, timeout=900, env=None):
    try:
        p = subprocess.run(cmd, shell=True, cwd=cwd, env=env or ENV, stdout=subprocess.PIPE, stderr=subprocess.STDOUT,
                           text=True, timeout=timeout, errors="replace")
        return p.returncode, p.stdout
    except subprocess.TimeoutExpired as e:
        return 124, "timeout"


def module_of(root, path):
    d = os.path.dirname(os.path.join(root, path))
    while d.startswith(root):
        if os.path.exists(os.path.join(d, "go.mod")):
            return d
        d = os.path.dirname(d)
    return root


def main():
    f, ids = sys.argv[1], sys.argv[2].split(",")
    a = sys.argv[3:]
    mx, off, slot, outd, jobs = 30, 0, "0", "/root/mut", "8"
    while a:
        if a[0] == "--max":
            mx = int(a[1])
        elif a[0] == "--offset":
            off = int(a[1])
        elif a[0] == "--slot":
            slot = a[1]
        elif a[0] == "--out":
            outd = a[1]
        elif a[0] == "--jobs":
            jobs = a[1]
        a = a[2:]
    os.makedirs(outd, exist_ok=True)
    src = open(os.path.join("/repo", f)).read()
    lines, ms = mutants(src)
    # deterministic spread over the file
    if len(ms) > mx:
        step = len(ms) / float(mx)
        ms = [ms[int(off + k * step) % len(ms)] for k in range(mx)]
    slotdir = "/dev/shm/mut-slot-" + slot
    res = open(os.path.join(outd, f.replace("/", "_") + ".jsonl"), "a")
    shutil.rmtree(slotdir, ignore_errors=True)
    sh("rsync -a --exclude .git /repo/ %s/" % slotdir, "/")
    mod = module_of(slotdir, f)
    rel = "./" + os.path.relpath(os.path.dirname(os.path.join(slotdir, f)), mod)
    for (i, what, new) in ms:
        r = {"file": f, "line": i + 1, "mut": what, "old": lines[i].strip(), "new": new.strip()}
        ml = list(lines)
        ml[i] = new
        open(os.path.join(slotdir, f), "w").write("\n".join(ml))
        t0 = time.time()
        rc, out = sh("go build ./... && go vet %s" % rel, mod, 600)
        if rc != 0:
            r["result"] = "killed-by-build"
        else:
            rc, out = sh("go test -count=1 -timeout 8m %s" % rel, mod, 600)
            if rc != 0:
                r["result"] = "killed-by-tests"
            else:
                r["result"] = "missed"
                r["checks"] = {}
                for pid in ids:
                    rc, out = sh("./check %s quick" % pid, VERIF, 1500,
                                 dict(ENV, VERIF_REPO=slotdir, VERIF_SCRATCH_TAG="-mut" + slot, VERIF_JOBS=jobs))
                    keys = re.findall(r"^\s+key: (.+)$", out, re.M)
                    r["checks"][pid] = {"rc": rc, "keys": keys[:6]}
                    if rc == 1:
                        r["result"] = "caught"
                        r["by"] = pid
                        break
                    if rc not in (0, 1):
                        r["checks"][pid]["tail"] = out[-400:]
        r["wall_s"] = round(time.time() - t0, 1)
        res.write(json.dumps(r) + "\n")
        res.flush()
        print(r["result"], f, i + 1, what, r.get("by", ""), flush=True)
    open(os.path.join(slotdir, f), "w").write(src)
    shutil.rmtree(slotdir, ignore_errors=True)


if __name__ == "__main__":
    main()
