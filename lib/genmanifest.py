#!/usr/bin/env python3
"""Regenerates /verif/MANIFEST.json from harness/<ID>/spec.json ("manifest" member) and
properties.jsonl. Properties without a harness are listed under not_applicable."""
import json, os, sys
V = os.path.dirname(os.path.dirname(os.path.abspath(__file__)))
props = [json.loads(l) for l in open(os.path.join(V, "properties.jsonl"))]
na_reasons = {}
p = os.path.join(V, "harness", "not_applicable.json")
if os.path.exists(p):
    na_reasons = json.load(open(p))
checks, na = [], []
engines = {"S": [], "Q": []}
for pr in props:
    pid = pr["id"]
    sp = os.path.join(V, "harness", pid, "spec.json")
    enabled = open(os.path.join(V, "harness", "ENABLED")).read().split()
    if not os.path.exists(sp) or pid not in enabled:
        na.append({"property_id": pid, "reason": na_reasons.get(pid, "no check registered yet: the harness planned in DESIGN.md section 5 for this property has not been built in this round")})
        continue
    spec = json.load(open(sp))
    m = spec["manifest"]
    for e in m.get("engines", []):
        engines[e].append(pid)
    c = {
        "property_id": pid,
        "quick_cmd": "./check %s quick" % pid,
        "thorough_cmd": "./check %s thorough" % pid,
        "evidence_file": "/verif/evidence/%s.json" % pid,
        "replay_cmd_template": "./check replay {path}",
        "engine": " + ".join({"S": "Engine S (controlled scheduler, deviation-bounded DFS)", "Q": "Engine Q (explicit-state / bounded-exhaustive enumeration vs reference model)"}[e] for e in m.get("engines", [])),
        "level_claimed": {"category": spec.get("level", "model_checking"), "text": m["level_text"], "design_ref": m.get("design_ref", "DESIGN.md section 5, " + pid)},
        "level_note": m["level_note"],
        "technique": m["technique"],
    }
    checks.append(c)
man = {
    "version": 1,
    "setup_cmd": "./check setup",
    "hooks": {
        "guard": "verif",
        "enable": "no hooks are committed in /repo: every check copies /repo's working tree to a scratch directory and instruments the copy mechanically (cmd/vprep rewrites sync, sync/atomic, time, context imports and channel/select/go statements to the verif/mc shims); the build tag 'verif' is reserved and unused",
        "baseline_off_cmd": "cd /repo && for m in $(find . -name go.mod -not -path './internal/tools/*' -exec dirname {} \; | sort); do (cd $m && GOFLAGS=-mod=mod go test -vet=off -count=1 -timeout 25m ./...) || exit 1; done",
        "source_commits": [],
        "add_only": True,
    },
    "engines": [
        {"name": "Engine S", "path": "mc/sched (+ mc/vsync, mc/vatomic, mc/vtime, mc/vctx, cmd/vprep)", "serves_properties": engines["S"],
         "kind_free_text": "stateless model checking of the real implementation: source-instrumented copy of the package runs under a cooperative scheduler; depth-first enumeration of all schedules up to a preemption bound and an environment-deviation bound (timers, deadlines, select choices, exporter answers), happens-before caching, per-schedule race detection in a -race build"},
        {"name": "Engine Q", "path": "mc/enum + harness/<ID>", "serves_properties": engines["Q"],
         "kind_free_text": "explicit-state breadth-first search / bounded-exhaustive enumeration of operation sequences, inputs, fault sequences and configuration products executed on the real functions and compared step by step with reference models written in Go"},
    ],
    "checks": checks,
    "not_applicable": na,
    "notes": "All checks: cwd /verif, honour VERIF_REPO (default /repo), VERIF_JOBS, VERIF_SEED, VERIF_BUDGET_S. Exit 0 held / 1 VIOLATION / 2 harness or tool failure / 3 engine nondeterminism. known_findings.json lists recorded genuine defects (KNOWN-FINDING lines) and fixed ones.",
}
json.dump(man, open(os.path.join(V, "MANIFEST.json"), "w"), indent=1)
print("checks:", [c["property_id"] for c in checks], "not_applicable:", [n["property_id"] for n in na])
