#!/usr/bin/env python3
"""Confirm an independently written property-breaking change and run the checks against it.

  lib/seedeval.py <ID> <dir with patch.diff, meta.json, demo> [--tier quick|thorough] [--keep-as <name>]

Steps (all in scratch copies of /repo outside /repo and /verif, removed afterwards):
  1. the patch applies to a clean copy and the touched modules build;
  2. the repository's own tests of every touched package still pass with the patch;
  3. the demonstration fails with the patch and passes without it;
  4. ./check <ID> <tier> against the patched copy: exit 1 (caught) or 0 (missed), with the keys.
With --keep-as the confirmed change is stored under /verif/seeded/<name>/ (patch.diff, demo, meta.json).
"""
import glob
import json
import os
import re
import shutil
import subprocess
import sys
import time

VERIF = os.path.dirname(os.path.dirname(os.path.abspath(__file__)))
ENV = dict(os.environ, GOFLAGS="-mod=mod", GOPROXY="off", GOSUMDB="off", GOTOOLCHAIN="local")


def sh(cmd, cwd=None, timeout=3600, env=None):
    p = subprocess.run(cmd, shell=True, cwd=cwd, env=env or ENV, stdout=subprocess.PIPE, stderr=subprocess.STDOUT, text=True, timeout=timeout, errors="replace")
    return p.returncode, p.stdout


def module_of(root, path):
    d = os.path.dirname(os.path.join(root, path))
    while d.startswith(root):
        if os.path.exists(os.path.join(d, "go.mod")):
            return d
        d = os.path.dirname(d)
    return root


def main():
    pid, src = sys.argv[1], os.path.abspath(sys.argv[2])
    tier, keep = "quick", None
    a = sys.argv[3:]
    while a:
        if a[0] == "--tier":
            tier = a[1]
            a = a[2:]
        elif a[0] == "--keep-as":
            keep = a[1]
            a = a[2:]
        else:
            a = a[1:]
    meta = json.load(open(os.path.join(src, "meta.json")))
    tag = re.sub(r"[^A-Za-z0-9]+", "-", pid + "-" + os.path.basename(src))
    mut, clean = "/tmp/seedrun-%s-mut" % tag, "/tmp/seedrun-%s-clean" % tag
    res = {"property": pid, "source": src, "tier": tier}
    try:
        for d in (mut, clean):
            shutil.rmtree(d, ignore_errors=True)
            sh("rsync -a --exclude .git /repo/ %s/" % d)
        rc, out = sh("patch -p1 --no-backup-if-mismatch < %s" % os.path.join(src, "patch.diff"), cwd=mut)
        res["patch_applies"] = rc == 0
        if rc != 0:
            res["patch_output"] = out[-1500:]
            print(json.dumps(res, indent=1))
            return 2
        files = re.findall(r"^\+\+\+ b/(\S+)", open(os.path.join(src, "patch.diff")).read(), re.M)
        files = [f for f in files if f.endswith(".go") or f.endswith(".tmpl")]
        res["files_changed"] = files
        # 2. existing tests of the touched packages
        pk = sorted({os.path.dirname(f) for f in files if f.endswith(".go")})
        ok = True
        logs = []
        for d in pk:
            m = module_of(mut, os.path.join(d, "x.go"))
            rel = "./" + os.path.relpath(os.path.join(mut, d), m)
            rc, out = sh("go vet %s && go test -count=1 -timeout 20m %s" % (rel, rel), cwd=m)
            logs.append("%s: rc=%d %s" % (d, rc, out.strip().splitlines()[-1] if out.strip() else ""))
            ok = ok and rc == 0
        res["existing_tests_pass_with_patch"] = ok
        res["existing_tests"] = logs
        # 3. demonstration
        demo = meta.get("demo", {})
        copy_to, run = demo.get("copy_to"), demo.get("run")
        demo_files = [f for f in glob.glob(os.path.join(src, "*")) if os.path.basename(f) not in ("patch.diff", "meta.json") and not f.endswith(".txt") and not f.endswith(".log") and os.path.isfile(f)]
        res["demo_files"] = [os.path.basename(f) for f in demo_files]
        if copy_to and run:
            outs = {}
            for name, root in (("with_patch", mut), ("clean", clean)):
                dst = os.path.join(root, copy_to)
                os.makedirs(dst, exist_ok=True)
                for f in demo_files:
                    shutil.copy(f, dst)
                tests = []
                for f in demo_files:
                    if f.endswith("_test.go"):
                        tests += re.findall(r"^func (Test\w+)\(", open(f).read(), re.M)
                if tests:
                    # run exactly the demonstration's tests in the package they were written for
                    cmd = "cd %s && go test -count=1 -timeout 20m -run '^(%s)$' ." % (dst, "|".join(tests))
                else:
                    cmd = re.sub(r"/tmp/seed2?-C\d+[A-Za-z0-9_-]*", root, run)
                    if not cmd.strip().startswith("cd "):
                        cmd = "cd %s && %s" % (dst, cmd)
                rc, out = sh(cmd, cwd=root, timeout=1800)
                outs[name] = {"rc": rc, "tail": out[-600:]}
                for f in demo_files:
                    try:
                        os.remove(os.path.join(dst, os.path.basename(f)))
                    except OSError:
                        pass
            res["demo"] = outs
            res["demo_confirms"] = outs["with_patch"]["rc"] != 0 and outs["clean"]["rc"] == 0
        # 4. the check
        t0 = time.time()
        rc, out = sh("./check %s %s" % (pid, tier), cwd=VERIF, env=dict(ENV, VERIF_REPO=mut, VERIF_SCRATCH_TAG="-seed-" + tag))
        keys = re.findall(r"^\s+key: (.+)$", out, re.M)
        res["check"] = {"rc": rc, "wall_s": round(time.time() - t0, 1), "new_keys": keys, "summary": out.strip().splitlines()[-1] if out.strip() else ""}
        res["caught"] = rc == 1
        print(json.dumps(res, indent=1))
        if keep and res.get("existing_tests_pass_with_patch") and res.get("demo_confirms"):
            dst = os.path.join(VERIF, "seeded", keep)
            os.makedirs(dst, exist_ok=True)
            shutil.copy(os.path.join(src, "patch.diff"), dst)
            for f in demo_files:
                shutil.copy(f, dst)
            meta["confirmed"] = {"patch_applies": True, "existing_tests_pass_with_patch": True, "existing_tests": logs,
                                 "demo_fails_with_patch_passes_without": True,
                                 "check": res["check"], "caught": res["caught"], "tier": tier,
                                 "how": "lib/seedeval.py %s <dir> --tier %s" % (pid, tier)}
            json.dump(meta, open(os.path.join(dst, "meta.json"), "w"), indent=1)
        return 0
    finally:
        for d in (mut, clean):
            shutil.rmtree(d, ignore_errors=True)


if __name__ == "__main__":
    sys.exit(main())
