#!/bin/bash
# usage: lib/seedregress.sh <seeded-dir-name>...   (re-runs ./check <ID> quick against each stored change; prints caught / MISSED)
export GOFLAGS=-mod=mod GOPROXY=off GOSUMDB=off GOTOOLCHAIN=local
for name in "$@"; do
  id=${name%%-*}
  d=/tmp/seedregress-$name
  rm -rf $d; rsync -a --exclude .git /repo/ $d/
  if ! (cd $d && patch -p1 -s --no-backup-if-mismatch < /verif/seeded/$name/patch.diff >/dev/null 2>&1); then echo "$name PATCH-DOES-NOT-APPLY"; rm -rf $d; continue; fi
  out=$(cd /verif && VERIF_REPO=$d VERIF_SCRATCH_TAG=-regress-$name ./check $id quick 2>&1); rc=$?
  if [ $rc -eq 1 ]; then echo "$name caught"; else echo "$name MISSED rc=$rc $(echo "$out" | tail -1 | cut -c1-200)"; fi
  rm -rf $d
done
