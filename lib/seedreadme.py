#!/usr/bin/env python3
"""Regenerates seeded/README.md from seeded/*/meta.json."""
import glob, json, os
V = os.path.dirname(os.path.dirname(os.path.abspath(__file__)))
rows = []
for d in sorted(glob.glob(os.path.join(V, "seeded", "*", "meta.json"))):
    m = json.load(open(d))
    c = m.get("confirmed", {})
    name = os.path.basename(os.path.dirname(d))
    keys = c.get("check", {}).get("new_keys", [])
    rows.append((name, m.get("property"), ", ".join(m.get("files_changed", []))[:80], (m.get("what_it_needs_to_manifest") or "")[:260].replace("\n", " ").replace("|", "/"),
                 "caught" if c.get("caught") else "MISSED", c.get("tier", ""), "; ".join(k.replace("|", " / ") for k in keys[:3]) + (" …" if len(keys) > 3 else "")))
out = ["# Independently seeded property-breaking changes", "",
       "Each directory holds one change written by a fresh sub-agent that was given only the property text and its own scratch",
       "worktree of the repository (nothing from /verif): `patch.diff`, a demonstration that fails with the change and passes",
       "without it, and `meta.json` (what it breaks, what it needs to manifest, what was run). `lib/seedeval.py` confirmed for",
       "each: the patch applies to /repo's tree, the repository's own tests of every touched package still pass, the",
       "demonstration fails with the patch and passes without it; then it ran the property's check against the patched copy.",
       "`meta.json.confirmed` records those results and the finding keys the check raised.", "",
       "Where a change was first missed the harness was strengthened (DESIGN.md section 7 says how) and the evaluation repeated.", "",
       "| change | property | files | needs, in order to manifest | check | tier | keys raised |", "|---|---|---|---|---|---|---|"]
for r in rows:
    out.append("| %s | %s | %s | %s | %s | %s | %s |" % r)
open(os.path.join(V, "seeded", "README.md"), "w").write("\n".join(out) + "\n")
print(len(rows), "seeded changes;", sum(1 for r in rows if r[4] == "caught"), "caught")
