#!/usr/bin/env python3
"""Re-run the checks against every stored property-preserving change (benign/<name>/patch.diff):
each must stay silent under its own property's check AND under the checks of every other property
whose anchored code the change touches.  lib/benignregress.py [name-regex]  -> benign/RESULTS.md"""
import json, os, re, subprocess, sys
V = os.path.dirname(os.path.dirname(os.path.abspath(__file__)))
MAP = [
    (r"sdk/trace/batch_span_processor\.go", "C01 C15 C09 C20"), (r"sdk/trace/span\.go", "C04 C10 C09"),
    (r"sdk/trace/provider\.go", "C15 C10 C01 C20"), (r"sdk/trace/tracer\.go", "C09 C10"), (r"sdk/trace/evictedqueue\.go", "C04"),
    (r"sdk/trace/sampler_env\.go|sdk/internal/env/", "C20 C09"), (r"sdk/log/(batch|exporter)\.go", "C06 C15 C20"),
    (r"sdk/log/(simple|provider)\.go", "C15 C17"), (r"sdk/log/setting\.go", "C20"),
    (r"sdk/metric/internal/aggregate/", "C02 C07 C08 C12"), (r"sdk/metric/(pipeline|instrument)\.go", "C02 C08 C12"),
    (r"sdk/metric/periodic_reader\.go", "C02 C15"), (r"internal/global/", "C16"), (r"exporters/prometheus/", "C18"),
    (r"attribute/", "C05 C12 C19"), (r"exporters/otlp/.*/retry/|internal/shared/otlp/retry", "C14"),
    (r"exporters/otlp/.*/client\.go", "C14 C13 C20"), (r"exporters/otlp/.*/config\.go|otlpconfig|oconf", "C20 C14"),
]
def ids_for(name, files):
    ids = [name.split("-")[0]]
    for f in files:
        for pat, ps in MAP:
            if re.search(pat, f):
                for p in ps.split():
                    if p not in ids:
                        ids.append(p)
    return ids
rx = re.compile(sys.argv[1]) if len(sys.argv) > 1 else None
rows = []
for name in sorted(os.listdir(os.path.join(V, "benign"))):
    d = os.path.join(V, "benign", name)
    if not os.path.isfile(os.path.join(d, "patch.diff")) or (rx and not rx.search(name)):
        continue
    files = re.findall(r"^\+\+\+ b/(\S+)", open(os.path.join(d, "patch.diff")).read(), re.M)
    ids = ids_for(name, files)
    p = subprocess.run([sys.executable, os.path.join(V, "lib", "benigneval.py"), ids[0], d, "--ids", ",".join(ids), "--keep-as", name],
                       stdout=subprocess.PIPE, stderr=subprocess.STDOUT, text=True)
    try:
        r = json.loads(p.stdout[p.stdout.index("{"):])
    except Exception:
        rows.append((name, ids, "ERROR", p.stdout[-300:])); print(name, "ERROR", flush=True); continue
    verdict = "silent" if r.get("silent") and r.get("existing_tests_pass_with_patch") else "ATTENTION"
    detail = " ".join("%s:rc=%d" % (k, v["rc"]) for k, v in r.get("checks", {}).items())
    rows.append((name, ids, verdict, detail)); print(name, verdict, detail, flush=True)
# the table lists every stored change with its LAST evaluation (this run's or an earlier one's)
rows = []
for name in sorted(os.listdir(os.path.join(V, "benign"))):
    mp = os.path.join(V, "benign", name, "meta.json")
    if not os.path.isfile(mp):
        continue
    ev = json.load(open(mp)).get("evaluated", {})
    ids = list(ev.get("checks", {}))
    verdict = "silent" if ev.get("silent") else "ATTENTION"
    rows.append((name, ids, verdict, " ".join("%s:rc=%d" % (k, v["rc"]) for k, v in ev.get("checks", {}).items())))
with open(os.path.join(V, "benign", "RESULTS.md"), "w") as f:
    f.write("# Property-preserving changes: every check must stay silent\n\nWritten by `lib/benignregress.py` (each change: the repository's tests of the touched packages, then `./check <ID> quick` of its own property and of every property anchored in the files it touches, against a scratch copy with the change applied).\n\n| change | files | checks run | verdict |\n|---|---|---|---|\n")
    for name, ids, verdict, detail in rows:
        m = json.load(open(os.path.join(V, "benign", name, "meta.json")))
        if m.get("triage") and verdict != "silent":
            verdict += ": " + m["triage"]
        f.write("| %s | %s | %s | %s |\n" % (name, ", ".join(m.get("files_changed", []))[:160], detail, verdict))
print(sum(1 for r in rows if r[2] == "silent"), "of", len(rows), "silent")
