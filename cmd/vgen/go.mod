module gen
go 1.23
