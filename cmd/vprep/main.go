// instr (SPIKE): type-aware source rewriter for scheduler instrumentation.
// usage: instr <module-dir> <pkg-pattern>...   (rewrites files IN PLACE; run on a scratch copy)
package main

import (
	"bytes"
	"fmt"
	"go/ast"
	"go/format"
	"go/token"
	"go/types"
	"os"
	"sort"
	"strconv"
	"strings"

	"golang.org/x/tools/go/ast/astutil"
	"golang.org/x/tools/go/packages"
)

const schedName = "__sched"

var importMap = map[string][2]string{ // std path -> {shim path, default local name}
	"sync":        {"verif/mc/vsync", "sync"},
	"sync/atomic": {"verif/mc/vatomic", "atomic"},
	"time":        {"verif/mc/vtime", "time"},
	"context":     {"verif/mc/vctx", "context"},
}

func main() {
	dir := os.Args[1]
	withTests := os.Getenv("INSTR_TESTS") == "1"
	skipFiles := map[string]bool{}
	for _, f := range strings.Split(os.Getenv("VPREP_SKIP"), ",") {
		if f != "" {
			skipFiles[f] = true
		}
	}
	done := map[string]bool{}
	cfg := &packages.Config{
		Tests: withTests,
		Mode: packages.NeedName | packages.NeedFiles | packages.NeedSyntax | packages.NeedTypes |
			packages.NeedTypesInfo | packages.NeedImports | packages.NeedDeps | packages.NeedCompiledGoFiles,
		Dir: dir,
	}
	pkgs, err := packages.Load(cfg, os.Args[2:]...)
	if err != nil {
		fatal(err)
	}
	// process test variants first: they contain the non-test files too, with full type info.
	sort.SliceStable(pkgs, func(i, j int) bool { return len(pkgs[i].Syntax) > len(pkgs[j].Syntax) })
	for _, p := range pkgs {
		if strings.HasSuffix(p.ID, ".test") {
			continue
		}
		if len(p.Errors) > 0 {
			fatal(fmt.Errorf("%s: %v", p.PkgPath, p.Errors))
		}
		st := &stats{}
		for i, f := range p.Syntax {
			name := p.CompiledGoFiles[i]
			if (strings.HasSuffix(name, "_test.go") && !withTests) || done[name] || !strings.HasPrefix(name, dir) {
				continue
			}
			if skipFiles[name[strings.LastIndex(name, "/")+1:]] {
				continue // VPREP_SKIP: files left un-instrumented (pure logging plumbing)
			}
			done[name] = true
			r := &rewriter{pkg: p, fset: p.Fset, file: f, st: st, skip: map[ast.Node]bool{}}
			r.run()
			if !r.changed {
				continue
			}
			var buf bytes.Buffer
			if err := format.Node(&buf, p.Fset, f); err != nil {
				fatal(fmt.Errorf("%s: %v", name, err))
			}
			if err := os.WriteFile(name, buf.Bytes(), 0o644); err != nil {
				fatal(err)
			}
		}
		fmt.Printf("%s: %+v\n", p.PkgPath, *st)
	}
}

func fatal(err error) { fmt.Fprintln(os.Stderr, "instr:", err); os.Exit(1) }

type stats struct{ Imports, Go, Send, Recv, Select, Close, LenCap, RangeChan, RangeMap int }

type rewriter struct {
	pkg       *packages.Package
	fset      *token.FileSet
	file      *ast.File
	st        *stats
	skip      map[ast.Node]bool
	changed   bool
	needSched bool
	tmp       int
}

func (r *rewriter) typeOf(e ast.Expr) types.Type { return r.pkg.TypesInfo.TypeOf(e) }

func (r *rewriter) chanDir(e ast.Expr) (types.ChanDir, bool) {
	t := r.typeOf(e)
	if t == nil {
		return 0, false
	}
	// a type parameter constrained to chans is not handled (none in the targets)
	c, ok := t.Underlying().(*types.Chan)
	if !ok {
		return 0, false
	}
	return c.Dir(), true
}

func sel(x, name string) ast.Expr { return &ast.SelectorExpr{X: ast.NewIdent(x), Sel: ast.NewIdent(name)} }

func call(fun ast.Expr, args ...ast.Expr) *ast.CallExpr { return &ast.CallExpr{Fun: fun, Args: args} }

func method(recv ast.Expr, name string, args ...ast.Expr) *ast.CallExpr {
	return call(&ast.SelectorExpr{X: recv, Sel: ast.NewIdent(name)}, args...)
}

// chS / chR wrap a channel expression for send-side / receive-side use.
func (r *rewriter) chS(ch ast.Expr) ast.Expr { r.needSched = true; return call(sel(schedName, "ChS"), ch) }
func (r *rewriter) chR(ch ast.Expr) ast.Expr { r.needSched = true; return call(sel(schedName, "ChR"), ch) }

func (r *rewriter) fresh(prefix string) string {
	r.tmp++
	return fmt.Sprintf("__%s%d", prefix, r.tmp)
}

func unparen(e ast.Expr) ast.Expr {
	for {
		p, ok := e.(*ast.ParenExpr)
		if !ok {
			return e
		}
		e = p.X
	}
}

func (r *rewriter) run() {
	// 1. imports
	for _, imp := range r.file.Imports {
		path, _ := strconv.Unquote(imp.Path.Value)
		if m, ok := importMap[path]; ok {
			if imp.Name == nil {
				imp.Name = ast.NewIdent(m[1])
			}
			imp.Path.Value = strconv.Quote(m[0])
			r.changed = true
			r.st.Imports++
		}
	}
	// 2. statements / expressions
	astutil.Apply(r.file, r.pre, r.post)
	if r.needSched {
		astutil.AddNamedImport(r.fset, r.file, schedName, "verif/mc/sched")
		r.changed = true
	}
}

func (r *rewriter) pre(c *astutil.Cursor) bool {
	switch n := c.Node().(type) {
	case *ast.SelectStmt:
		// communication clauses are rewritten as a whole in post; protect their comm nodes.
		for _, s := range n.Body.List {
			cc := s.(*ast.CommClause)
			switch comm := cc.Comm.(type) {
			case *ast.SendStmt:
				r.skip[comm] = true
			case *ast.ExprStmt:
				r.skip[unparen(comm.X)] = true
			case *ast.AssignStmt:
				r.skip[unparen(comm.Rhs[0])] = true
				r.skip[comm] = true
			}
		}
	case *ast.AssignStmt:
		// v, ok := <-ch  (outside select)
		if len(n.Lhs) == 2 && len(n.Rhs) == 1 && !r.skip[n] {
			if u, ok := unparen(n.Rhs[0]).(*ast.UnaryExpr); ok && u.Op == token.ARROW {
				r.skip[u] = true
				n.Rhs[0] = method(r.chR(u.X), "Recv2")
				r.st.Recv++
			}
		}
	case *ast.ValueSpec:
		if len(n.Names) == 2 && len(n.Values) == 1 {
			if u, ok := unparen(n.Values[0]).(*ast.UnaryExpr); ok && u.Op == token.ARROW {
				r.skip[u] = true
				n.Values[0] = method(r.chR(u.X), "Recv2")
				r.st.Recv++
			}
		}
	}
	return true
}

func (r *rewriter) post(c *astutil.Cursor) bool {
	switch n := c.Node().(type) {
	case *ast.SendStmt:
		if r.skip[n] {
			return true
		}
		c.Replace(&ast.ExprStmt{X: method(r.chS(n.Chan), "Send", n.Value)})
		r.st.Send++
	case *ast.UnaryExpr:
		if n.Op != token.ARROW || r.skip[n] {
			return true
		}
		c.Replace(method(r.chR(n.X), "Recv"))
		r.st.Recv++
	case *ast.CallExpr:
		id, ok := n.Fun.(*ast.Ident)
		if !ok || len(n.Args) != 1 {
			return true
		}
		if _, isBuiltin := r.pkg.TypesInfo.Uses[id].(*types.Builtin); !isBuiltin {
			return true
		}
		switch id.Name {
		case "close":
			r.needSched = true
			c.Replace(call(sel(schedName, "Close"), n.Args[0]))
			r.st.Close++
		case "len", "cap":
			dir, isChan := r.chanDir(n.Args[0])
			if !isChan {
				return true
			}
			w := r.chR(n.Args[0])
			if dir == types.SendOnly {
				w = r.chS(n.Args[0])
			}
			c.Replace(method(w, strings.ToUpper(id.Name[:1])+id.Name[1:]))
			r.st.LenCap++
		}
	case *ast.GoStmt:
		c.Replace(r.rewriteGo(n))
		r.st.Go++
	case *ast.SelectStmt:
		c.Replace(r.rewriteSelect(n))
		r.st.Select++
	case *ast.RangeStmt:
		t := r.typeOf(n.X)
		if t == nil {
			return true
		}
		switch t.Underlying().(type) {
		case *types.Chan:
			c.Replace(r.rewriteRangeChan(n))
			r.st.RangeChan++
		case *types.Map:
			if s := r.rewriteRangeMap(n); s != nil {
				c.Replace(s)
				r.st.RangeMap++
			}
		}
	case *ast.LabeledStmt:
		// a label that pointed at a select now points at a block: move it onto the inner switch.
		if b, ok := n.Stmt.(*ast.BlockStmt); ok && len(b.List) > 0 {
			if sw, ok := b.List[len(b.List)-1].(*ast.SwitchStmt); ok && r.skip[sw] {
				b.List[len(b.List)-1] = &ast.LabeledStmt{Label: n.Label, Stmt: sw}
				c.Replace(b)
			}
		}
	}
	return true
}

func (r *rewriter) rewriteGo(g *ast.GoStmt) ast.Stmt {
	r.needSched = true
	callExpr := g.Call
	if lit, ok := callExpr.Fun.(*ast.FuncLit); ok && len(callExpr.Args) == 0 {
		return &ast.ExprStmt{X: call(sel(schedName, "Go"), lit)}
	}
	// evaluate function value and arguments now, run later.
	var lhs, rhs []ast.Expr
	var fnExpr ast.Expr
	if r.hoistFun(callExpr.Fun) {
		fn := r.fresh("f")
		lhs = append(lhs, ast.NewIdent(fn))
		rhs = append(rhs, callExpr.Fun)
		fnExpr = ast.NewIdent(fn)
	} else {
		fnExpr = callExpr.Fun
	}
	var args []ast.Expr
	for _, a := range callExpr.Args {
		v := r.fresh("a")
		lhs = append(lhs, ast.NewIdent(v))
		rhs = append(rhs, a)
		args = append(args, ast.NewIdent(v))
	}
	inner := &ast.CallExpr{Fun: fnExpr, Args: args, Ellipsis: callExpr.Ellipsis}
	if callExpr.Ellipsis.IsValid() {
		inner.Ellipsis = 1
	}
	body := &ast.BlockStmt{List: []ast.Stmt{&ast.ExprStmt{X: inner}}}
	lit := &ast.FuncLit{Type: &ast.FuncType{Params: &ast.FieldList{}}, Body: body}
	goCall := &ast.ExprStmt{X: call(sel(schedName, "Go"), lit)}
	if len(lhs) == 0 {
		return goCall
	}
	return &ast.BlockStmt{List: []ast.Stmt{
		&ast.AssignStmt{Lhs: lhs, Tok: token.DEFINE, Rhs: rhs},
		goCall,
	}}
}

// hoistFun reports whether the function expression of a go statement must be
// evaluated at the go statement (func-typed variables, method values). Package
// level functions, builtins and already-rewritten nodes stay in place.
func (r *rewriter) hoistFun(f ast.Expr) bool {
	switch x := unparen(f).(type) {
	case *ast.Ident:
		switch r.pkg.TypesInfo.Uses[x].(type) {
		case *types.Func, *types.Builtin, nil:
			return false
		}
		return true
	case *ast.SelectorExpr:
		if s, ok := r.pkg.TypesInfo.Selections[x]; ok {
			_ = s
			return true // method value or field: bind receiver now
		}
		return false // qualified identifier (pkg.Func) or rewritten node
	case *ast.FuncLit:
		return false
	}
	return r.typeOf(f) != nil
}

func (r *rewriter) rewriteSelect(s *ast.SelectStmt) ast.Stmt {
	r.needSched = true
	selVar := r.fresh("sel")
	hasDefault := false
	for _, st := range s.Body.List {
		if st.(*ast.CommClause).Comm == nil {
			hasDefault = true
		}
	}
	pre := []ast.Stmt{&ast.AssignStmt{
		Lhs: []ast.Expr{ast.NewIdent(selVar)}, Tok: token.DEFINE,
		Rhs: []ast.Expr{call(sel(schedName, "NewSelect"), ast.NewIdent(strconv.FormatBool(hasDefault)))},
	}}
	sw := &ast.SwitchStmt{Tag: method(ast.NewIdent(selVar), "Wait"), Body: &ast.BlockStmt{}}
	idx := 0
	for _, st := range s.Body.List {
		cc := st.(*ast.CommClause)
		if cc.Comm == nil {
			sw.Body.List = append(sw.Body.List, &ast.CaseClause{List: nil, Body: cc.Body})
			continue
		}
		clause := &ast.CaseClause{List: []ast.Expr{&ast.BasicLit{Kind: token.INT, Value: strconv.Itoa(idx)}}}
		switch comm := cc.Comm.(type) {
		case *ast.SendStmt:
			pre = append(pre, &ast.ExprStmt{X: method(r.chS(comm.Chan), "SendCase", ast.NewIdent(selVar), comm.Value)})
			clause.Body = cc.Body
		case *ast.ExprStmt:
			u := unparen(comm.X).(*ast.UnaryExpr)
			pre = append(pre, &ast.ExprStmt{X: method(r.chR(u.X), "RecvCase", ast.NewIdent(selVar))})
			clause.Body = cc.Body
		case *ast.AssignStmt:
			u := unparen(comm.Rhs[0]).(*ast.UnaryExpr)
			cv := r.fresh("c")
			pre = append(pre, &ast.AssignStmt{
				Lhs: []ast.Expr{ast.NewIdent(cv)}, Tok: token.DEFINE,
				Rhs: []ast.Expr{method(r.chR(u.X), "RecvCase", ast.NewIdent(selVar))},
			})
			rhs := []ast.Expr{sel(cv, "V")}
			if len(comm.Lhs) == 2 {
				rhs = append(rhs, sel(cv, "OK"))
			}
			assign := &ast.AssignStmt{Lhs: comm.Lhs, Tok: comm.Tok, Rhs: rhs}
			clause.Body = append([]ast.Stmt{assign}, cc.Body...)
		}
		sw.Body.List = append(sw.Body.List, clause)
		idx++
	}
	if !hasDefault {
		sw.Body.List = append(sw.Body.List, &ast.CaseClause{List: nil, Body: []ast.Stmt{
			&ast.ExprStmt{X: call(ast.NewIdent("panic"), &ast.BasicLit{Kind: token.STRING, Value: strconv.Quote("sched: select chose no case")})}}})
	}
	r.skip[sw] = true // marker: "this switch came from a select" (for label fix-up)
	return &ast.BlockStmt{List: append(pre, sw)}
}

func (r *rewriter) rewriteRangeChan(n *ast.RangeStmt) ast.Stmt {
	// for v := range ch { body }  =>  for { v, ok := Recv2(ch); if !ok { break }; body }
	okVar := r.fresh("ok")
	var lhs ast.Expr = ast.NewIdent("_")
	tok := token.DEFINE
	if n.Key != nil {
		lhs = n.Key
		if n.Tok == token.ASSIGN {
			// need: v, ok = ... with ok declared; declare ok first
			tok = token.ASSIGN
		}
	}
	var stmts []ast.Stmt
	if tok == token.ASSIGN {
		stmts = append(stmts, &ast.DeclStmt{Decl: &ast.GenDecl{Tok: token.VAR, Specs: []ast.Spec{
			&ast.ValueSpec{Names: []*ast.Ident{ast.NewIdent(okVar)}, Type: ast.NewIdent("bool")}}}})
	}
	stmts = append(stmts,
		&ast.AssignStmt{Lhs: []ast.Expr{lhs, ast.NewIdent(okVar)}, Tok: tok, Rhs: []ast.Expr{method(r.chR(n.X), "Recv2")}},
		&ast.IfStmt{Cond: &ast.UnaryExpr{Op: token.NOT, X: ast.NewIdent(okVar)}, Body: &ast.BlockStmt{List: []ast.Stmt{&ast.BranchStmt{Tok: token.BREAK}}}},
	)
	stmts = append(stmts, n.Body.List...)
	return &ast.ForStmt{Body: &ast.BlockStmt{List: stmts}}
}

func (r *rewriter) rewriteRangeMap(n *ast.RangeStmt) ast.Stmt {
	// for k, v := range m { body } => for _, k := range SortedKeys(m) { v, __ok := m[k]; if !__ok { continue }; body }
	if n.Tok != token.DEFINE && n.Key != nil {
		return nil // assignment form: leave alone (rare)
	}
	r.needSched = true
	mv := r.fresh("m")
	kv := r.fresh("k")
	var key ast.Expr = ast.NewIdent(kv)
	if id, ok := n.Key.(*ast.Ident); ok && id.Name != "_" {
		key = ast.NewIdent(id.Name)
	}
	body := []ast.Stmt{}
	okVar := r.fresh("ok")
	var val ast.Expr = ast.NewIdent("_")
	if id, ok := n.Value.(*ast.Ident); ok && id.Name != "_" {
		val = ast.NewIdent(id.Name)
	}
	body = append(body,
		&ast.AssignStmt{Lhs: []ast.Expr{val, ast.NewIdent(okVar)}, Tok: token.DEFINE,
			Rhs: []ast.Expr{&ast.IndexExpr{X: ast.NewIdent(mv), Index: key}}},
		&ast.IfStmt{Cond: &ast.UnaryExpr{Op: token.NOT, X: ast.NewIdent(okVar)}, Body: &ast.BlockStmt{List: []ast.Stmt{&ast.BranchStmt{Tok: token.CONTINUE}}}},
	)
	body = append(body, &ast.BlockStmt{List: n.Body.List})
	loop := &ast.RangeStmt{Key: ast.NewIdent("_"), Value: key, Tok: token.DEFINE,
		X: call(sel(schedName, "SortedKeys"), ast.NewIdent(mv)), Body: &ast.BlockStmt{List: body}}
	return &ast.BlockStmt{List: []ast.Stmt{
		&ast.AssignStmt{Lhs: []ast.Expr{ast.NewIdent(mv)}, Tok: token.DEFINE, Rhs: []ast.Expr{n.X}},
		loop,
	}}
}
