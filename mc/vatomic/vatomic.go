// Package vatomic: SPIKE passthrough shims for sync/atomic.
package vatomic

import (
	"sync/atomic"
	"unsafe"

	"verif/mc/sched"
)

func pt(kind string, obj any) {
	if x := sched.Cur(); x != nil {
		x.Point(kind, obj, func() bool { return true })
	}
}

// res reports the value an operation returned (for loop detection) and passes it through.
func res[T any](v T, h func(T) uint64) T {
	if x := sched.Cur(); x != nil {
		x.NoteResult(h(v))
	}
	return v
}

func hb(b bool) uint64 {
	if b {
		return 1
	}
	return 0
}
func h32(v int32) uint64   { return uint64(uint32(v)) }
func h64(v int64) uint64   { return uint64(v) }
func hu32(v uint32) uint64 { return uint64(v) }
func hu64(v uint64) uint64 { return v }

type Bool struct{ v atomic.Bool }

func (b *Bool) Load() bool       { pt("Load", b); return res(b.v.Load(), hb) }
func (b *Bool) Store(x bool)     { pt("Store", b); b.v.Store(x) }
func (b *Bool) Swap(x bool) bool { pt("Swap", b); return res(b.v.Swap(x), hb) }
func (b *Bool) CompareAndSwap(o, n bool) bool {
	pt("CompareAndSwap", b)
	return res(b.v.CompareAndSwap(o, n), hb)
}

type Int32 struct{ v atomic.Int32 }

func (b *Int32) Load() int32        { pt("Load", b); return res(b.v.Load(), h32) }
func (b *Int32) Store(x int32)      { pt("Store", b); b.v.Store(x) }
func (b *Int32) Swap(x int32) int32 { pt("Swap", b); return res(b.v.Swap(x), h32) }
func (b *Int32) Add(x int32) int32  { pt("Add", b); return res(b.v.Add(x), h32) }
func (b *Int32) CompareAndSwap(o, n int32) bool {
	pt("CompareAndSwap", b)
	return res(b.v.CompareAndSwap(o, n), hb)
}

type Int64 struct{ v atomic.Int64 }

func (b *Int64) Load() int64        { pt("Load", b); return res(b.v.Load(), h64) }
func (b *Int64) Store(x int64)      { pt("Store", b); b.v.Store(x) }
func (b *Int64) Swap(x int64) int64 { pt("Swap", b); return res(b.v.Swap(x), h64) }
func (b *Int64) Add(x int64) int64  { pt("Add", b); return res(b.v.Add(x), h64) }
func (b *Int64) CompareAndSwap(o, n int64) bool {
	pt("CompareAndSwap", b)
	return res(b.v.CompareAndSwap(o, n), hb)
}

type Uint32 struct{ v atomic.Uint32 }

func (b *Uint32) Load() uint32         { pt("Load", b); return res(b.v.Load(), hu32) }
func (b *Uint32) Store(x uint32)       { pt("Store", b); b.v.Store(x) }
func (b *Uint32) Swap(x uint32) uint32 { pt("Swap", b); return res(b.v.Swap(x), hu32) }
func (b *Uint32) Add(x uint32) uint32  { pt("Add", b); return res(b.v.Add(x), hu32) }
func (b *Uint32) CompareAndSwap(o, n uint32) bool {
	pt("CompareAndSwap", b)
	return res(b.v.CompareAndSwap(o, n), hb)
}

type Uint64 struct{ v atomic.Uint64 }

func (b *Uint64) Load() uint64         { pt("Load", b); return res(b.v.Load(), hu64) }
func (b *Uint64) Store(x uint64)       { pt("Store", b); b.v.Store(x) }
func (b *Uint64) Swap(x uint64) uint64 { pt("Swap", b); return res(b.v.Swap(x), hu64) }
func (b *Uint64) Add(x uint64) uint64  { pt("Add", b); return res(b.v.Add(x), hu64) }
func (b *Uint64) CompareAndSwap(o, n uint64) bool {
	pt("CompareAndSwap", b)
	return res(b.v.CompareAndSwap(o, n), hb)
}

type Value struct{ v atomic.Value }

func (b *Value) Load() any      { pt("Load", b); return b.v.Load() }
func (b *Value) Store(x any)    { pt("Store", b); b.v.Store(x) }
func (b *Value) Swap(x any) any { pt("Swap", b); return b.v.Swap(x) }
func (b *Value) CompareAndSwap(o, n any) bool {
	pt("CompareAndSwap", b)
	return res(b.v.CompareAndSwap(o, n), hb)
}

type Pointer[T any] struct{ v atomic.Pointer[T] }

func (b *Pointer[T]) Load() *T     { pt("Load", b); return b.v.Load() }
func (b *Pointer[T]) Store(x *T)   { pt("Store", b); b.v.Store(x) }
func (b *Pointer[T]) Swap(x *T) *T { pt("Swap", b); return b.v.Swap(x) }
func (b *Pointer[T]) CompareAndSwap(o, n *T) bool {
	pt("CompareAndSwap", b)
	return res(b.v.CompareAndSwap(o, n), hb)
}

func AddInt32(a *int32, d int32) int32 { pt("AddInt32", a); return res(atomic.AddInt32(a, d), h32) }
func AddInt64(a *int64, d int64) int64 { pt("AddInt64", a); return res(atomic.AddInt64(a, d), h64) }
func AddUint32(a *uint32, d uint32) uint32 {
	pt("AddUint32", a)
	return res(atomic.AddUint32(a, d), hu32)
}
func AddUint64(a *uint64, d uint64) uint64 {
	pt("AddUint64", a)
	return res(atomic.AddUint64(a, d), hu64)
}
func LoadInt32(a *int32) int32          { pt("LoadInt32", a); return res(atomic.LoadInt32(a), h32) }
func LoadInt64(a *int64) int64          { pt("LoadInt64", a); return res(atomic.LoadInt64(a), h64) }
func LoadUint32(a *uint32) uint32       { pt("LoadUint32", a); return res(atomic.LoadUint32(a), hu32) }
func LoadUint64(a *uint64) uint64       { pt("LoadUint64", a); return res(atomic.LoadUint64(a), hu64) }
func StoreInt32(a *int32, v int32)      { pt("StoreInt32", a); atomic.StoreInt32(a, v) }
func StoreInt64(a *int64, v int64)      { pt("StoreInt64", a); atomic.StoreInt64(a, v) }
func StoreUint32(a *uint32, v uint32)   { pt("StoreUint32", a); atomic.StoreUint32(a, v) }
func StoreUint64(a *uint64, v uint64)   { pt("StoreUint64", a); atomic.StoreUint64(a, v) }
func SwapInt32(a *int32, v int32) int32 { pt("SwapInt32", a); return res(atomic.SwapInt32(a, v), h32) }
func SwapInt64(a *int64, v int64) int64 { pt("SwapInt64", a); return res(atomic.SwapInt64(a, v), h64) }
func SwapUint32(a *uint32, v uint32) uint32 {
	pt("SwapUint32", a)
	return res(atomic.SwapUint32(a, v), hu32)
}
func SwapUint64(a *uint64, v uint64) uint64 {
	pt("SwapUint64", a)
	return res(atomic.SwapUint64(a, v), hu64)
}
func CompareAndSwapInt32(a *int32, o, n int32) bool {
	pt("CompareAndSwapInt32", a)
	return res(atomic.CompareAndSwapInt32(a, o, n), hb)
}
func CompareAndSwapInt64(a *int64, o, n int64) bool {
	pt("CompareAndSwapInt64", a)
	return res(atomic.CompareAndSwapInt64(a, o, n), hb)
}
func CompareAndSwapUint32(a *uint32, o, n uint32) bool {
	pt("CompareAndSwapUint32", a)
	return res(atomic.CompareAndSwapUint32(a, o, n), hb)
}
func CompareAndSwapUint64(a *uint64, o, n uint64) bool {
	pt("CompareAndSwapUint64", a)
	return res(atomic.CompareAndSwapUint64(a, o, n), hb)
}
func LoadPointer(a *unsafe.Pointer) unsafe.Pointer {
	pt("LoadPointer", a)
	return atomic.LoadPointer(a)
}
func StorePointer(a *unsafe.Pointer, v unsafe.Pointer) {
	pt("StorePointer", a)
	atomic.StorePointer(a, v)
}

// Peek methods read the current value without a scheduling point (harness oracles only).
func (b *Bool) Peek() bool     { return b.v.Load() }
func (b *Int32) Peek() int32   { return b.v.Load() }
func (b *Int64) Peek() int64   { return b.v.Load() }
func (b *Uint32) Peek() uint32 { return b.v.Load() }
func (b *Uint64) Peek() uint64 { return b.v.Load() }
func (b *Value) Peek() any     { return b.v.Load() }
func (b *Pointer[T]) Peek() *T { return b.v.Load() }

// ---- the rest of sync/atomic's surface (Go 1.23): And / Or, Uintptr, the uintptr function forms.
// Nothing in the pinned tree uses them; a change to the repository may, and must then still build
// under instrumentation (an unknown identifier would end a check with "harness does not build").

func (b *Int32) And(m int32) int32    { pt("And", b); return res(b.v.And(m), h32) }
func (b *Int32) Or(m int32) int32     { pt("Or", b); return res(b.v.Or(m), h32) }
func (b *Int64) And(m int64) int64    { pt("And", b); return res(b.v.And(m), h64) }
func (b *Int64) Or(m int64) int64     { pt("Or", b); return res(b.v.Or(m), h64) }
func (b *Uint32) And(m uint32) uint32 { pt("And", b); return res(b.v.And(m), hu32) }
func (b *Uint32) Or(m uint32) uint32  { pt("Or", b); return res(b.v.Or(m), hu32) }
func (b *Uint64) And(m uint64) uint64 { pt("And", b); return res(b.v.And(m), hu64) }
func (b *Uint64) Or(m uint64) uint64  { pt("Or", b); return res(b.v.Or(m), hu64) }

func hup(v uintptr) uint64 { return uint64(v) }

type Uintptr struct{ v atomic.Uintptr }

func (b *Uintptr) Load() uintptr          { pt("Load", b); return res(b.v.Load(), hup) }
func (b *Uintptr) Store(x uintptr)        { pt("Store", b); b.v.Store(x) }
func (b *Uintptr) Swap(x uintptr) uintptr { pt("Swap", b); return res(b.v.Swap(x), hup) }
func (b *Uintptr) Add(x uintptr) uintptr  { pt("Add", b); return res(b.v.Add(x), hup) }
func (b *Uintptr) And(m uintptr) uintptr  { pt("And", b); return res(b.v.And(m), hup) }
func (b *Uintptr) Or(m uintptr) uintptr   { pt("Or", b); return res(b.v.Or(m), hup) }
func (b *Uintptr) CompareAndSwap(o, n uintptr) bool {
	pt("CompareAndSwap", b)
	return res(b.v.CompareAndSwap(o, n), hb)
}
func (b *Uintptr) Peek() uintptr { return b.v.Load() }

func AndInt32(a *int32, m int32) int32     { pt("AndInt32", a); return res(atomic.AndInt32(a, m), h32) }
func OrInt32(a *int32, m int32) int32      { pt("OrInt32", a); return res(atomic.OrInt32(a, m), h32) }
func AndInt64(a *int64, m int64) int64     { pt("AndInt64", a); return res(atomic.AndInt64(a, m), h64) }
func OrInt64(a *int64, m int64) int64      { pt("OrInt64", a); return res(atomic.OrInt64(a, m), h64) }
func AndUint32(a *uint32, m uint32) uint32 { pt("AndUint32", a); return res(atomic.AndUint32(a, m), hu32) }
func OrUint32(a *uint32, m uint32) uint32  { pt("OrUint32", a); return res(atomic.OrUint32(a, m), hu32) }
func AndUint64(a *uint64, m uint64) uint64 { pt("AndUint64", a); return res(atomic.AndUint64(a, m), hu64) }
func OrUint64(a *uint64, m uint64) uint64  { pt("OrUint64", a); return res(atomic.OrUint64(a, m), hu64) }
func AndUintptr(a *uintptr, m uintptr) uintptr {
	pt("AndUintptr", a)
	return res(atomic.AndUintptr(a, m), hup)
}
func OrUintptr(a *uintptr, m uintptr) uintptr {
	pt("OrUintptr", a)
	return res(atomic.OrUintptr(a, m), hup)
}
func AddUintptr(a *uintptr, d uintptr) uintptr {
	pt("AddUintptr", a)
	return res(atomic.AddUintptr(a, d), hup)
}
func LoadUintptr(a *uintptr) uintptr     { pt("LoadUintptr", a); return res(atomic.LoadUintptr(a), hup) }
func StoreUintptr(a *uintptr, v uintptr) { pt("StoreUintptr", a); atomic.StoreUintptr(a, v) }
func SwapUintptr(a *uintptr, v uintptr) uintptr {
	pt("SwapUintptr", a)
	return res(atomic.SwapUintptr(a, v), hup)
}
func CompareAndSwapUintptr(a *uintptr, o, n uintptr) bool {
	pt("CompareAndSwapUintptr", a)
	return res(atomic.CompareAndSwapUintptr(a, o, n), hb)
}
func SwapPointer(a *unsafe.Pointer, v unsafe.Pointer) unsafe.Pointer {
	pt("SwapPointer", a)
	return atomic.SwapPointer(a, v)
}
func CompareAndSwapPointer(a *unsafe.Pointer, o, n unsafe.Pointer) bool {
	pt("CompareAndSwapPointer", a)
	return res(atomic.CompareAndSwapPointer(a, o, n), hb)
}
