module verif/mc

go 1.23
