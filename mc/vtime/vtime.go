// Package vtime (SPIKE): virtual timers under the scheduler, real time otherwise.
package vtime

import (
	std "time"

	"verif/mc/sched"
)

type Timer struct {
	C  <-chan Time
	t  *std.Timer
	ts *sched.TimerState
	f  func()
}

func NewTimer(d Duration) *Timer {
	if sched.Cur() != nil {
		ch := make(chan Time, 1)
		ts := &sched.TimerState{Armed: true}
		sched.RegisterTimerChan(ch, ts)
		return &Timer{C: ch, ts: ts}
	}
	t := std.NewTimer(d)
	return &Timer{C: t.C, t: t}
}

// Stop follows Go 1.23 semantics: true iff the timer was armed and no value has been received.
func (t *Timer) Stop() bool {
	if t.ts != nil {
		if x := sched.Cur(); x != nil {
			x.Point("Timer.Stop", t.ts, func() bool { return true })
		}
		was := t.ts.Armed
		t.ts.Armed = false
		return was
	}
	return t.t.Stop()
}

func (t *Timer) Reset(d Duration) bool {
	if t.ts != nil {
		if x := sched.Cur(); x != nil {
			x.Point("Timer.Reset", t.ts, func() bool { return true })
		}
		was := t.ts.Armed
		t.ts.Armed = true
		t.ts.Recvd = false
		return was
	}
	return t.t.Reset(d)
}

func AfterFunc(d Duration, f func()) *Timer {
	if sched.Cur() != nil {
		panic("vtime.AfterFunc under scheduler: not in spike")
	}
	t := std.AfterFunc(d, f)
	return &Timer{t: t}
}

type Ticker struct {
	C  <-chan Time
	t  *std.Ticker
	ts *sched.TimerState
}

func NewTicker(d Duration) *Ticker {
	if sched.Cur() != nil {
		ch := make(chan Time, 1)
		ts := &sched.TimerState{Armed: true, Periodic: true}
		sched.RegisterTimerChan(ch, ts)
		return &Ticker{C: ch, ts: ts}
	}
	t := std.NewTicker(d)
	return &Ticker{C: t.C, t: t}
}

func (t *Ticker) Stop() {
	if t.ts != nil {
		if x := sched.Cur(); x != nil {
			x.Point("Ticker.Stop", t.ts, func() bool { return true })
		}
		t.ts.Armed = false
		return
	}
	t.t.Stop()
}

func (t *Ticker) Reset(d Duration) {
	if t.ts != nil {
		if x := sched.Cur(); x != nil {
			x.Point("Ticker.Reset", t.ts, func() bool { return true })
		}
		t.ts.Armed = true
		return
	}
	t.t.Reset(d)
}

func After(d Duration) <-chan Time {
	if sched.Cur() != nil {
		return NewTimer(d).C
	}
	return std.After(d)
}
func Tick(d Duration) <-chan Time { return NewTicker(d).C }
func Sleep(d Duration) {
	if sched.Cur() != nil {
		sched.SpinYield()
		return
	}
	std.Sleep(d)
}

var base = std.Date(2026, 1, 1, 0, 0, 0, 0, std.UTC)

func Now() Time {
	if x := sched.Cur(); x != nil {
		return base.Add(Duration(x.Tick()) * Microsecond)
	}
	return std.Now()
}
func Since(t Time) Duration { return Now().Sub(t) }
func Until(t Time) Duration { return t.Sub(Now()) }
