// Package vsync (SPIKE): sync shims = enabledness model + real primitive.
package vsync

import (
	"sync"
	"unsafe"

	"verif/mc/sched"
)

type Locker = sync.Locker

type Mutex struct {
	m     sync.Mutex
	held  bool
	owner int // scheduler thread id + 1 of the holder (deadlock cycle reporting)
	rel   relSites
}

// relSites: where a lock instance is released from and whether TryLock is used on it (see
// "Release points" in sched.go).
type relSites struct {
	tried bool
	n     uint8
	pcs   [6]uintptr
}

// release is called (two frames below the caller of Unlock) before the lock is given up.
//
//go:noinline
func (r *relSites) release(x *sched.Exec, obj any) {
	if !sched.TrySeen() {
		return // nobody uses TryLock in this process: a switch inside a critical section is unobservable
	}
	pc := sched.CallerPC(2)
	if r.tried {
		sched.AddUnlockSite(pc)
	} else {
		known := false
		for i := uint8(0); i < r.n; i++ {
			known = known || r.pcs[i] == pc
		}
		if !known {
			if int(r.n) == len(r.pcs) {
				sched.AllUnlockPoints()
			} else {
				r.pcs[r.n] = pc
				r.n++
			}
		}
	}
	x.UnlockPointAt(obj, pc)
}

func (r *relSites) try() {
	sched.NoteTryLock()
	r.tried = true
	for i := uint8(0); i < r.n; i++ {
		sched.AddUnlockSite(r.pcs[i])
	}
}

// Owner returns the scheduler thread holding the mutex, or -1.
func (m *Mutex) Owner() int { return m.owner - 1 }

func (m *Mutex) Lock() {
	if x := sched.Cur(); x != nil {
		x.Point("Lock", m, func() bool { return !m.held })
		m.held = true
		m.owner = x.RunningID() + 1
	}
	m.m.Lock()
}

func (m *Mutex) Unlock() {
	if x := sched.Cur(); x != nil {
		m.rel.release(x, m)
		m.held = false
		m.owner = 0
	}
	m.m.Unlock()
}

func (m *Mutex) TryLock() bool {
	if x := sched.Cur(); x != nil {
		m.rel.try()
		x.Point("TryLock", m, func() bool { return true })
		if m.held {
			return false
		}
		m.held = true
		m.owner = x.RunningID() + 1
		m.m.Lock()
		return true
	}
	return m.m.TryLock()
}

type RWMutex struct {
	m       sync.RWMutex
	writer  bool
	pending bool // a writer has announced itself and waits for the active readers to leave
	readers int
	owner   int
	rel     relSites
}

// Owner returns the scheduler thread holding the write lock, or -1.
func (m *RWMutex) Owner() int { return m.owner - 1 }

// Lock follows sync.RWMutex: a writer first announces itself -- from that moment on NEW readers
// block, also a thread that already holds a read lock and asks for a second one -- and then waits
// for the active readers to leave. The announcement is a step of its own only when there are
// active readers (otherwise announcing and acquiring are one atomic step, as in the real
// primitive), so code that never read-locks recursively explores the same schedules as with a
// plain "enabled iff free" model, and the writer-preference deadlock (RLock; <writer arrives>;
// RLock) exists in the explored space.
func (m *RWMutex) Lock() {
	if x := sched.Cur(); x != nil {
		x.Point("Lock", m, func() bool { return !m.writer && !m.pending })
		if m.readers > 0 {
			m.pending = true
			x.Point("LockWaitReaders", m, func() bool { return m.readers == 0 })
			m.pending = false
		}
		m.writer = true
		m.owner = x.RunningID() + 1
	}
	m.m.Lock()
}

func (m *RWMutex) Unlock() {
	if x := sched.Cur(); x != nil {
		m.rel.release(x, m)
		m.writer = false
		m.owner = 0
	}
	m.m.Unlock()
}

func (m *RWMutex) RLock() {
	if x := sched.Cur(); x != nil {
		x.Point("RLock", m, func() bool { return !m.writer && !m.pending })
		m.readers++
	}
	m.m.RLock()
}

func (m *RWMutex) RUnlock() {
	if x := sched.Cur(); x != nil {
		m.rel.release(x, m)
		m.readers--
	}
	m.m.RUnlock()
}

func (m *RWMutex) TryLock() bool {
	if x := sched.Cur(); x != nil {
		m.rel.try()
		x.Point("TryLock", m, func() bool { return true })
		if m.writer || m.pending || m.readers > 0 {
			return false
		}
		m.writer = true
		m.owner = x.RunningID() + 1
		m.m.Lock()
		return true
	}
	return m.m.TryLock()
}

func (m *RWMutex) TryRLock() bool {
	if x := sched.Cur(); x != nil {
		m.rel.try()
		x.Point("TryRLock", m, func() bool { return true })
		if m.writer || m.pending {
			return false
		}
		m.readers++
		m.m.RLock()
		return true
	}
	return m.m.TryRLock()
}

func (m *RWMutex) RLocker() Locker { return rlocker{m} }

type rlocker struct{ m *RWMutex }

func (r rlocker) Lock()   { r.m.RLock() }
func (r rlocker) Unlock() { r.m.RUnlock() }

type WaitGroup struct {
	w sync.WaitGroup
	n int
}

func (w *WaitGroup) Add(n int) {
	if sched.Cur() != nil {
		w.n += n
	}
	w.w.Add(n)
}

func (w *WaitGroup) Done() {
	if x := sched.Cur(); x != nil {
		x.Point("Done", w, func() bool { return true })
		w.n--
	}
	w.w.Done()
}

func (w *WaitGroup) Wait() {
	if x := sched.Cur(); x != nil {
		x.Point("Wait", w, func() bool { return w.n == 0 })
	}
	w.w.Wait()
}

type Once struct {
	mu   Mutex
	done bool
	o    sync.Once
}

func (o *Once) Do(f func()) {
	if sched.Cur() == nil && !o.done {
		o.o.Do(func() { f(); o.done = true })
		return
	}
	if o.done {
		return
	}
	o.mu.Lock()
	defer o.mu.Unlock()
	if !o.done {
		defer func() {
			o.done = true
			// a Once that outlives this execution (package level) must not leak its state
			sched.AtExecEnd(func() { o.done = false; o.o = sync.Once{} })
		}()
		f()
	}
}

func OnceFunc(f func()) func() {
	var o Once
	return func() { o.Do(f) }
}

func OnceValue[T any](f func() T) func() T {
	var o Once
	var v T
	return func() T { o.Do(func() { v = f() }); return v }
}

func OnceValues[T1, T2 any](f func() (T1, T2)) func() (T1, T2) {
	var o Once
	var v1 T1
	var v2 T2
	return func() (T1, T2) { o.Do(func() { v1, v2 = f() }); return v1, v2 }
}

// Pool: deterministic LIFO under the scheduler, real pool otherwise.
type Pool struct {
	New   func() any
	p     sync.Pool
	items []any
	token int // race-detector token: Put releases, Get acquires (sync.Pool's memory-model edge)
}

func (p *Pool) Get() any {
	if sched.Cur() != nil {
		if n := len(p.items); n > 0 {
			v := p.items[n-1]
			p.items = p.items[:n-1]
			sched.RaceAcquire(unsafe.Pointer(&p.token))
			return v
		}
		if p.New != nil {
			return p.New()
		}
		return nil
	}
	if v := p.p.Get(); v != nil {
		return v
	}
	if p.New != nil {
		return p.New()
	}
	return nil
}

func (p *Pool) Put(x any) {
	if c := sched.Cur(); c != nil {
		if len(p.items) == 0 {
			sched.AtExecEnd(func() { p.items = nil })
		}
		sched.RaceRelease(unsafe.Pointer(&p.token))
		p.items = append(p.items, x)
		// A scheduling point AFTER the object is back in the pool: another thread may Get it now,
		// while the thread that put it back is still running -- the window in which a reference
		// kept past Put (a classic pool misuse, invisible to sequential use) does its damage.
		c.Point("Pool.Put(done)", p, func() bool { return true })
		return
	}
	p.p.Put(x)
}

type Map struct{ m sync.Map }

func (m *Map) pt(k string) {
	if x := sched.Cur(); x != nil {
		x.Point(k, m, func() bool { return true })
	}
}
func (m *Map) Load(k any) (any, bool) { m.pt("Map.Load"); return m.m.Load(k) }
func (m *Map) Store(k, v any)         { m.pt("Map.Store"); m.m.Store(k, v) }
func (m *Map) LoadOrStore(k, v any) (any, bool) {
	m.pt("Map.LoadOrStore")
	return m.m.LoadOrStore(k, v)
}
func (m *Map) LoadAndDelete(k any) (any, bool) {
	m.pt("Map.LoadAndDelete")
	return m.m.LoadAndDelete(k)
}
func (m *Map) Delete(k any)                    { m.pt("Map.Delete"); m.m.Delete(k) }
func (m *Map) Range(f func(k, v any) bool)     { m.pt("Map.Range"); m.m.Range(f) }
func (m *Map) Swap(k, v any) (any, bool)       { m.pt("Map.Swap"); return m.m.Swap(k, v) }
func (m *Map) CompareAndSwap(k, o, n any) bool { m.pt("Map.CAS"); return m.m.CompareAndSwap(k, o, n) }
func (m *Map) CompareAndDelete(k, o any) bool  { m.pt("Map.CAD"); return m.m.CompareAndDelete(k, o) }
func (m *Map) Clear()                          { m.pt("Map.Clear"); m.m.Clear() }

type Cond struct {
	L Locker
	c *sync.Cond
}

func NewCond(l Locker) *Cond { return &Cond{L: l, c: sync.NewCond(l)} }
func (c *Cond) Wait()        { c.c.Wait() }
func (c *Cond) Signal()      { c.c.Signal() }
func (c *Cond) Broadcast()   { c.c.Broadcast() }
