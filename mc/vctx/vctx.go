// Package vctx (SPIKE): cancelable contexts whose Done channels are closed through
// the scheduler and whose deadlines are environment events.
package vctx

import (
	std "context"
	"time"

	"verif/mc/sched"
)

type cancelCtx struct {
	std.Context // parent
	done        chan struct{}
	err         error
	children    []*cancelCtx // creation order (no map: the race detector instruments runtime map helpers)
	deadline    time.Time
	hasDeadline bool
	env         *sched.EnvHandle
}

type keyT int

var cancelKey keyT

func (c *cancelCtx) Done() <-chan struct{} { return c.done }
func (c *cancelCtx) Err() error {
	if x := sched.Cur(); x != nil {
		x.Point("ctx.Err", c, func() bool { return true })
	}
	return c.err
}
func (c *cancelCtx) Value(k any) any {
	if k == &cancelKey {
		return c
	}
	return c.Context.Value(k)
}
func (c *cancelCtx) Deadline() (time.Time, bool) {
	if c.hasDeadline {
		return c.deadline, true
	}
	return c.Context.Deadline()
}

func (c *cancelCtx) cancel(err error, fromParent bool) {
	if x := sched.Cur(); x != nil && !fromParent {
		x.Point("ctx.cancel", c, func() bool { return true })
	}
	c.cancelQuiet(err, fromParent)
}

// cancelQuiet performs the cancellation without scheduling points (one atomic step).
func (c *cancelCtx) cancelQuiet(err error, fromParent bool) {
	if c.err != nil {
		return
	}
	c.err = err
	if x := sched.Cur(); x != nil {
		x.TouchW(c)
	}
	kids := c.children
	c.children = nil
	if c.env != nil {
		c.env.Disarm()
	}
	sched.CloseQuiet(c.done)
	for _, k := range kids {
		if k != nil {
			k.cancelQuiet(err, true)
		}
	}
	if !fromParent {
		if p, ok := c.Context.Value(&cancelKey).(*cancelCtx); ok {
			for i, k := range p.children {
				if k == c {
					p.children[i] = nil
				}
			}
		}
	}
}

func newCancel(parent Context) *cancelCtx {
	c := &cancelCtx{Context: parent, done: make(chan struct{})}
	if p, ok := parent.Value(&cancelKey).(*cancelCtx); ok {
		if p.err != nil {
			c.err = p.err
			sched.CloseQuiet(c.done)
			return c
		}
		if p.children == nil {
			p.children = make([]*cancelCtx, 0, 16)
		}
		p.children = append(p.children, c)
	} else if parent.Done() != nil {
		// foreign cancelable parent: fall back to a watcher thread.
		sched.Go(func() {
			s := sched.NewSelect(false)
			sched.ChR(parent.Done()).RecvCase(s)
			sched.ChR(c.Done()).RecvCase(s)
			if s.Wait() == 0 {
				c.cancel(parent.Err(), true)
			}
		})
	}
	return c
}

func WithCancel(p Context) (Context, CancelFunc) {
	if sched.Cur() == nil {
		return std.WithCancel(p)
	}
	c := newCancel(p)
	return c, func() { c.cancel(std.Canceled, false) }
}

func WithDeadline(p Context, t time.Time) (Context, CancelFunc) {
	if sched.Cur() == nil {
		return std.WithDeadline(p, t)
	}
	c := newCancel(p)
	c.deadline, c.hasDeadline = t, true
	if c.err == nil {
		c.env = sched.AddEnv("deadline", func() { c.cancelQuiet(std.DeadlineExceeded, false) })
	}
	return c, func() { c.cancel(std.Canceled, false) }
}

func WithTimeout(p Context, d time.Duration) (Context, CancelFunc) {
	if sched.Cur() == nil {
		return std.WithTimeout(p, d)
	}
	return WithDeadline(p, time.Date(2026, 1, 1, 0, 0, 0, 0, time.UTC).Add(d))
}

func WithCancelCause(p Context) (Context, CancelCauseFunc) {
	if sched.Cur() == nil {
		return std.WithCancelCause(p)
	}
	c := newCancel(p)
	return c, func(cause error) { c.cancel(std.Canceled, false) }
}
func WithTimeoutCause(p Context, d time.Duration, c error) (Context, CancelFunc) {
	return WithTimeout(p, d)
}
func WithDeadlineCause(p Context, t time.Time, c error) (Context, CancelFunc) {
	return WithDeadline(p, t)
}
func AfterFunc(ctx Context, f func()) func() bool { return std.AfterFunc(ctx, f) }
func WithoutCancel(p Context) Context             { return std.WithoutCancel(p) }
func Cause(c Context) error                       { return std.Cause(c) }
