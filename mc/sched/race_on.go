//go:build race

package sched

import (
	"runtime"
	"unsafe"
)

func raceDisable() { runtime.RaceDisable() }
func raceEnable()  { runtime.RaceEnable() }

func raceRelease(p unsafe.Pointer) { runtime.RaceReleaseMerge(p) }
func raceAcquire(p unsafe.Pointer) { runtime.RaceAcquire(p) }

const RaceEnabled = true
