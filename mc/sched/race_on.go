//go:build race

package sched

import (
	"runtime"
	"unsafe"
)

func raceDisable() { runtime.RaceDisable() }
func raceEnable()  { runtime.RaceEnable() }

func raceRelease(p unsafe.Pointer) { runtime.RaceReleaseMerge(p) }
func raceAcquire(p unsafe.Pointer) { runtime.RaceAcquire(p) }

const RaceEnabled = true

// RaceRelease / RaceAcquire let shims announce happens-before edges that the real primitive
// guarantees but the shim's deterministic replacement does not perform (sync.Pool Put -> Get).
func RaceRelease(p unsafe.Pointer) { runtime.RaceReleaseMerge(p) }
func RaceAcquire(p unsafe.Pointer) { runtime.RaceAcquire(p) }
