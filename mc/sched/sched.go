// Package sched (SPIKE): cooperative controlled scheduler + deviation-bounded DFS.
package sched

import (
	"fmt"
	"os"
	"runtime"
	"strings"
	"unsafe"
)

// ---------------------------------------------------------------------------
// execution state

type thread struct {
	id      int
	wake    chan struct{}
	done    bool
	started bool
	pend    *pending // operation the thread is parked on (nil while running)
	name    string
	spin    bool     // unused
	waitFor uint64   // fair yield: bitmask of thread ids that must step (or stop being enabled) first
	hist    []uint64 // hashes of (operation, result) since another thread last stepped (stutter detection)
	polling bool     // the thread is inside a loop whose iterations repeat the same operations with the same results
	loop    []uint64 // the (operation, result) hashes of that loop's body
	exited  chan struct{}
	hb      uint64 // hash of this thread's last step
	seq     int
}

// pending describes what a parked thread wants to do next.
type pending struct {
	kind    string
	obj     any
	enabled func() bool // simple ops
	sel     *Sel        // channel ops / selects
	done    bool        // completed by a rendezvous partner
	env     bool        // enabled only at a cost (timer etc.)
	site    string      // calling function and position in the code under test (trace mode only)
	pcs     uint64      // hash of the return addresses above the shim: WHERE in the code the operation is made
}

type candKind int

const (
	candThread candKind = iota
	candEnv
)

type cand struct {
	th   *thread
	env  *envEvent
	cost int // 0 free, 1 preemption, 2 environment deviation
}

const (
	costFree = 0
	costP    = 1
	costE    = 2
)

// Point is one recorded choice point.
type Point struct {
	N      int   // number of alternatives
	Costs  []int // cost class of each alternative
	Chosen int
	Desc   string
	FP     uint64 // happens-before fingerprint of the prefix at this point
	Run    int    // id of the thread that was running
}

type envEvent struct {
	id   int
	name string
	fire func()
	live bool
}

type abortT struct{}

// Exec is one execution of a harness body under a choice sequence.
type Exec struct {
	prefix  []int
	Points  []Point
	threads []*thread
	running *thread
	steps   int
	maxStep int

	chans []*chanState
	envs  []*envEvent

	aborting bool
	Status   string // "", "deadlock", "horizon", "panic: ..."
	Trace    []string
	KeepTrc  bool
	freeFire int
	ghist    []uint64 // global (thread, operation) history since the last environment event
	idleDue  bool     // the whole system repeats a block of steps: time must pass

	Violations []Fault
	vclock     int64
	stepHash   uint64 // hash of the most recent step / environment event
	seqHash    uint64 // order-sensitive hash of the executed operation sequence (determinism check)
	envSeq     int
	cleanup    []func()
	IdleFires  int      // times a timer/deadline fired for free because all running threads were polling in a loop
	Stack      string   // stack of the panicking thread (not part of Status: addresses vary)
	Blocked    []string // descriptions of the threads that were blocked when a deadlock was declared
	fp         uint64
	token      int
	objs       []*objHB
	FairK      int // force a free switch after this many consecutive points of one thread (0 = off)
	consec     int
	lastRun    *thread
}

var cur *Exec

// Cur returns the active execution or nil (passthrough mode).
//
//go:noinline
func Cur() *Exec { return cur }

// Release points. A context switch inside a critical section that contains no visible operation
// cannot be told from a switch before it -- unless some thread uses TryLock, which observes "held"
// without blocking. So: the shims remember, per lock instance, where it is released from; once a
// TryLock / TryRLock is executed on an instance, those release sites (return addresses of the
// callers of Unlock) enter a process-wide set, and releasing ANY lock from a site in the set is a
// scheduling point: a thread can be parked while it holds such a lock. Every growth of the set
// bumps unlockGen and makes Explore start over (explore.go), so the pass whose counters are
// reported ran with one fixed set from its first execution to its last. Replay files carry the
// set as "function:line" names. No maps here: the race build instruments runtime map helpers.
var (
	trySeen         bool
	allUnlocks      = os.Getenv("VERIF_UNLOCK_POINTS") == "1"
	unlockSites     [64]uintptr
	unlockSiteNames [64]string
	nUnlockSites    int
	unlockGen       int
	replaySites     []string // replay mode: the recorded set, matched by name
)

// NoteTryLock is called by the lock shims whenever a TryLock / TryRLock is executed.
//
//go:noinline
func NoteTryLock() {
	if !trySeen {
		trySeen = true
		unlockGen++
	}
}

// TrySeen reports whether any TryLock has been executed in this process (or a replay says so).
//
//go:noinline
func TrySeen() bool { return trySeen }

// AllUnlockPoints makes every lock release a scheduling point (fallback when a lock instance
// is released from more places than a shim records).
//
//go:noinline
func AllUnlockPoints() {
	if !allUnlocks {
		allUnlocks = true
		unlockGen++
	}
}

// AddUnlockSite adds a release site of a lock instance on which TryLock is used.
//
//go:noinline
func AddUnlockSite(pc uintptr) {
	for i := 0; i < nUnlockSites; i++ {
		if unlockSites[i] == pc {
			return
		}
	}
	if nUnlockSites == len(unlockSites) {
		AllUnlockPoints()
		return
	}
	unlockSites[nUnlockSites], unlockSiteNames[nUnlockSites] = pc, siteName(pc)
	nUnlockSites++
	unlockGen++
}

func siteName(pc uintptr) string {
	f := runtime.FuncForPC(pc - 1)
	if f == nil {
		return "?"
	}
	_, line := f.FileLine(pc - 1)
	return fmt.Sprintf("%s:%d", f.Name(), line)
}

// CallerPC returns the return address skip frames above its caller (1 = the caller's caller).
//
//go:noinline
func CallerPC(skip int) uintptr {
	var pcs [1]uintptr
	if runtime.Callers(skip+2, pcs[:]) == 0 {
		return 0
	}
	return pcs[0]
}

// UnlockPointAt is called by the lock shims before a lock is released from site pc.
//
//go:noinline
func (x *Exec) UnlockPointAt(obj any, pc uintptr) {
	if x.aborting {
		return
	}
	on := allUnlocks
	if !on && replaySites != nil {
		n := siteName(pc)
		for _, s := range replaySites {
			on = on || s == n
		}
	} else if !on {
		for i := 0; i < nUnlockSites; i++ {
			on = on || unlockSites[i] == pc
		}
	}
	if on {
		x.point(&pending{kind: "Unlock", obj: obj, enabled: func() bool { return true }})
	}
}

func unlockSiteList() []string {
	out := make([]string, 0, nUnlockSites)
	for i := 0; i < nUnlockSites; i++ {
		out = append(out, unlockSiteNames[i])
	}
	return out
}

// Fault is one oracle failure of an execution, under a stable finding key.
type Fault struct{ Key, Msg string }

// Fail records an oracle violation in the current execution.
//
//go:noinline
func (x *Exec) Fail(key, format string, a ...any) {
	for _, f := range x.Violations {
		if f.Key == key {
			return
		}
	}
	x.Violations = append(x.Violations, Fault{key, fmt.Sprintf(format, a...)})
}

// Steps returns the number of scheduler steps of the execution.
func (x *Exec) Steps() int { return x.steps }

// Choices returns the choice sequence that reproduces this execution.
func (x *Exec) Choices() []int {
	c := make([]int, len(x.Points))
	for i, p := range x.Points {
		c[i] = p.Chosen
	}
	return c
}

// Step returns the logical time (number of scheduler steps so far).
//
//go:noinline
func (x *Exec) Step() int { return x.steps }

// Run executes body as thread 0 under the given choice prefix.
var DefaultFairK = 0

func Run(prefix []int, maxSteps int, keepTrace bool, body func(x *Exec)) *Exec {
	x := &Exec{FairK: DefaultFairK, prefix: prefix, maxStep: maxSteps, chans: make([]*chanState, 0, 64), KeepTrc: keepTrace}
	x.Points = make([]Point, 0, 8192)
	x.Violations = make([]Fault, 0, 32)
	x.threads = make([]*thread, 0, 64)
	x.envs = make([]*envEvent, 0, 64)
	x.objs = make([]*objHB, 0, 256)
	cur = x
	root := &thread{id: 0, wake: make(chan struct{}, 1), name: "root", started: true, exited: make(chan struct{})}
	x.threads = append(x.threads, root)
	x.running = root
	go func() {
		defer close(root.exited)
		defer raceRelease(unsafe.Pointer(&x.token))
		defer x.threadExit(root)
		body(x)
	}()
	raceDisable()
	for i := 0; i < len(x.threads); i++ { // threads may be appended while we wait
		<-x.threads[i].exited
	}
	raceEnable()
	raceAcquire(unsafe.Pointer(&x.token))
	cur = nil
	for i := len(x.cleanup) - 1; i >= 0; i-- {
		x.cleanup[i]()
	}
	x.cleanup = nil
	return x
}

// AtExecEnd registers f to run after the current execution has completely ended. Shims
// use it to reset state that outlives an execution (package-level Once, Pool contents),
// so that every execution starts from the same state.
func AtExecEnd(f func()) {
	if x := cur; x != nil {
		x.cleanup = append(x.cleanup, f)
	}
}

// Counter is a harness-side recorder invisible to the race detector (this package is
// compiled without race instrumentation).
type Counter struct{ N int }

func (c *Counter) Inc() { c.N++ }

// threadExit runs deferred in every thread goroutine.
func (x *Exec) threadExit(t *thread) {
	if r := recover(); r != nil {
		if _, ok := r.(abortT); !ok {
			if x.Status == "" {
				buf := make([]byte, 8192)
				n := runtime.Stack(buf, false)
				x.Status = fmt.Sprintf("panic in thread %d(%s): %v", t.id, t.name, r)
				x.Stack = string(buf[:n])
			}
		}
	}
	t.done = true
	t.pend = nil
	if x.aborting {
		return
	}
	if t.id == 0 {
		// root finished (or died): abandon everything else and end the execution.
		x.abortOthers(t)
		return
	}
	// hand control to somebody else
	x.schedule(t)
}

// abortOthers wakes every other live thread in abort mode, one at a time, and
// waits until its goroutine has fully unwound.
func (x *Exec) abortOthers(self *thread) {
	x.aborting = true
	for i := 0; i < len(x.threads); i++ {
		t := x.threads[i]
		if t == self || t.done {
			continue
		}
		raceDisable()
		t.wake <- struct{}{}
		<-t.exited
		raceEnable()
	}
}

// Go starts f as a new scheduler thread (or a plain goroutine in passthrough mode).
func Go(f func()) {
	x := cur
	if x == nil {
		go f()
		return
	}
	if x.aborting {
		return // no new threads while unwinding
	}
	t := &thread{id: len(x.threads), wake: make(chan struct{}, 1), exited: make(chan struct{})}
	x.threads = append(x.threads, t)
	t.pend = &pending{kind: "start", enabled: func() bool { return true }}
	go func() {
		defer close(t.exited)
		defer raceRelease(unsafe.Pointer(&x.token))
		raceDisable()
		<-t.wake
		raceEnable()
		t.started = true
		if x.aborting {
			t.done = true
			return
		}
		t.pend = nil
		defer x.threadExit(t)
		f()
	}()
}

// point parks the calling thread on p until the scheduler chooses it.
func (x *Exec) point(p *pending) {
	if x.aborting {
		panic(abortT{}) // blocking-capable operation while unwinding: keep unwinding
	}
	t := x.running
	if x.KeepTrc {
		p.site = callSite()
	}
	p.pcs = pcHash()
	t.pend = p
	x.schedule(t)
	t.pend = nil
}

func enginePkg(fn string) bool {
	for _, p := range [...]string{"verif/mc/sched.", "verif/mc/vsync.", "verif/mc/vatomic.", "verif/mc/vtime.", "verif/mc/vctx.", "verif/mc/enum."} {
		if strings.Contains(fn, p) {
			return true
		}
	}
	return false
}

// pcHash identifies the place an operation is made from by the raw return addresses of the
// innermost frames (shim frames are the same for every use of an operation, the frames above them
// are the code under test and its caller). No symbolisation: cheap enough for every step.
func pcHash() uint64 {
	var pcs [10]uintptr
	n := runtime.Callers(3, pcs[:])
	h := uint64(1469598103934665603)
	for _, pc := range pcs[:n] {
		h = mix(h, uint64(pc))
	}
	return h
}

// callSite returns "function file:line" of the innermost frame outside verif/mc.
func callSite() string {
	var pcs [24]uintptr
	n := runtime.Callers(3, pcs[:])
	fr := runtime.CallersFrames(pcs[:n])
	for {
		f, more := fr.Next()
		if !enginePkg(f.Function) && f.Function != "" {
			fn := f.Function
			if i := strings.LastIndex(fn, "/"); i >= 0 {
				fn = fn[i+1:]
			}
			file := f.File
			if i := strings.LastIndex(file, "/"); i >= 0 {
				file = file[i+1:]
			}
			return fmt.Sprintf("%s %s:%d", fn, file, f.Line)
		}
		if !more {
			return ""
		}
	}
}

// Point is the entry for simple (non-channel) operations.
func (x *Exec) Point(kind string, obj any, enabled func() bool) {
	x.point(&pending{kind: kind, obj: obj, enabled: enabled})
}

// SpinYield disables the caller until some other thread has taken a step.
func SpinYield() {
	x := cur
	if x == nil {
		runtime.Gosched()
		return
	}
	t := x.running
	if len(t.hist) > 0 {
		t.loop = append(t.loop[:0], t.hist...)
	}
	t.polling = true
	x.yield(t)
	x.point(&pending{kind: "spin", enabled: func() bool { return true }})
}

// yield lowers t's priority below every thread that is enabled right now (CHESS fair yield).
func (x *Exec) yield(t *thread) {
	t.waitFor = 0
	for _, u := range x.threads {
		if u == t || u.done || u.pend == nil {
			continue
		}
		if ok, costly := u.pend.isEnabled(x, u); ok && !costly {
			t.waitFor |= 1 << uint(u.id)
		}
	}
	t.hist = nil
}

// Choose is an explicit environment choice; 0 is the default answer.
func Choose(n int, label string) int {
	x := cur
	if x == nil || x.aborting || n <= 1 {
		return 0
	}
	costs := make([]int, n)
	for i := 1; i < n; i++ {
		costs[i] = costE
	}
	c := x.choose(costs, "choose:"+label)
	x.foldResult(x.running, mix(hashStr(label), uint64(c)+1))
	if x.KeepTrc {
		x.Trace = append(x.Trace, fmt.Sprintf("T%d choose %s -> %d", x.running.id, label, c))
	}
	return c
}

// foldResult appends a pseudo-step to t's chain: a nondeterministic result (environment
// answer, select case) that the happens-before fingerprint must distinguish.
func (x *Exec) foldResult(t *thread, v uint64) {
	if t == nil {
		return
	}
	t.seq++
	h := mix(mix(uint64(t.id)<<32|uint64(t.seq), t.hb), v)
	t.hb = h
	x.fp ^= h
	x.stepHash = h
	x.seqHash = mix(x.seqHash, h)
}

// NoteResult folds the result of the operation the running thread has just performed (value
// returned by an atomic, chosen select case and channel occupancy) into the repetition
// histories: a loop is treated as polling only if its operations also return the same results.
func (x *Exec) NoteResult(v uint64) {
	if n := len(x.ghist); n > 0 {
		x.ghist[n-1] = mix(x.ghist[n-1], v+1)
	}
	if t := x.running; t != nil {
		if n := len(t.hist); n > 0 {
			t.hist[n-1] = mix(t.hist[n-1], v+1)
		}
	}
}

// TouchW marks obj as written by the current step / environment event (used by shims
// whose single step changes several objects, e.g. a cancellation closing Done channels).
func (x *Exec) TouchW(obj any) {
	if obj == nil {
		return
	}
	ob := x.objOf(obj)
	ob.lastWrite, ob.reads = mix(x.stepHash, uint64(ob.id)), 0
}

func (x *Exec) choose(costs []int, desc string) int {
	i := len(x.Points)
	c := 0
	if i < len(x.prefix) {
		c = x.prefix[i]
		if c >= len(costs) {
			panic(fmt.Sprintf("sched: replay divergence at point %d (%s): choice %d of %d", i, desc, c, len(costs)))
		}
	}
	run := -1
	if x.running != nil {
		run = x.running.id
	}
	x.Points = append(x.Points, Point{N: len(costs), Costs: costs, Chosen: c, Desc: desc, FP: x.fp ^ x.pendHash(), Run: run})
	return c
}

func (p *pending) isEnabled(x *Exec, self *thread) (ok bool, costly bool) {
	if p.done {
		return true, false
	}
	if p.sel != nil {
		free, paid := p.sel.ready(x, self)
		if len(free) > 0 || p.sel.hasDef {
			return true, false
		}
		if len(paid) > 0 {
			return true, true
		}
		return false, false
	}
	return p.enabled(), false
}

// schedule is called by thread t (parked on t.pend, or done) to pick who runs next.
func (x *Exec) schedule(t *thread) {
	for {
		x.steps++
		if x.steps > x.maxStep && x.Status == "" {
			x.Status = "horizon"
		}
		if x.Status != "" && !x.aborting {
			x.endFromInside(t)
			return
		}
		var free, paid []cand
		for _, u := range x.threads {
			if u.done || u.pend == nil {
				continue
			}
			ok, costly := u.pend.isEnabled(x, u)
			if !ok {
				continue
			}
			if u.waitFor != 0 {
				for _, w := range x.threads {
					bit := uint64(1) << uint(w.id)
					if u.waitFor&bit == 0 {
						continue
					}
					if w.done || w.pend == nil {
						u.waitFor &^= bit
						continue
					}
					if wok, wcostly := w.pend.isEnabled(x, w); !wok || wcostly {
						u.waitFor &^= bit // no longer enabled: priority edge removed
					}
				}
				if u.waitFor != 0 {
					continue
				}
			}
			if costly {
				paid = append(paid, cand{th: u, cost: costE})
			} else {
				free = append(free, cand{th: u})
			}
		}
		for _, e := range x.envs {
			if e.live {
				paid = append(paid, cand{env: e, cost: costE})
			}
		}
		// canonical order: running thread first if enabled for free, then ascending ids.
		var cands []cand
		curEnabled := false
		starved := x.FairK > 0 && x.lastRun == t && x.consec >= x.FairK && len(free) > 1
		for _, c := range free {
			if c.th == t && !starved {
				curEnabled = true
				cands = append(cands, c)
			}
		}
		if starved {
			// fairness: the spinner goes to the back of the line, switching away is free.
			var rest []cand
			for _, c := range free {
				if c.th != t {
					rest = append(rest, c)
				}
			}
			for _, c := range free {
				if c.th == t {
					c.cost = costP // keeping a starving spinner on the CPU is the deviation
					rest = append(rest, c)
				}
			}
			free = rest
		}
		for _, c := range free {
			if c.th != t {
				if curEnabled {
					c.cost = costP
				}
				cands = append(cands, c)
			} else if starved {
				cands = append(cands, c)
			}
		}
		if len(free) == 0 {
			// nothing can run for free: time passes. First costly candidate is free.
			if len(paid) == 0 {
				x.Status = "deadlock"
				x.noteBlocked()
				x.endFromInside(t)
				return
			}
			x.freeFire++
			if x.freeFire > 8 {
				x.Status = "deadlock(timers only)"
				x.noteBlocked()
				x.endFromInside(t)
				return
			}
			paid[0].cost = costFree
		} else {
			x.freeFire = 0
		}
		allPolling := len(free) > 0
		for _, c := range free {
			if !c.th.polling {
				allPolling = false
			}
		}
		if (x.idleDue || allPolling) && len(free) > 0 && len(paid) > 0 {
			// the running threads only repeat themselves: the earliest timer/deadline fires by
			// default (the other armed ones remain paid alternatives); continuing to poll is still
			// possible but costs a preemption, so the subtree of "keep polling" stays bounded
			paid[0].cost = costFree
			spin := cands
			cands = append([]cand{}, paid[0])
			for _, c := range spin {
				c.cost = costP // going on polling instead of letting time pass is a (bounded) deviation
				cands = append(cands, c)
			}
			cands = append(cands, paid[1:]...)
			x.IdleFires++
		} else {
			cands = append(cands, paid...)
		}
		idx := 0
		if len(cands) > 1 {
			costs := make([]int, len(cands))
			for i, c := range cands {
				costs[i] = c.cost
			}
			idx = x.choose(costs, "sched")
			if x.KeepTrc {
				var d []string
				for i, c := range cands {
					n := "?"
					if c.th != nil {
						n = fmt.Sprintf("T%d", c.th.id)
					} else if c.env != nil {
						n = fmt.Sprintf("env %s#%d", c.env.name, c.env.id)
					}
					d = append(d, fmt.Sprintf("%d:%s/cost%d", i, n, c.cost))
				}
				x.Trace = append(x.Trace, fmt.Sprintf("    choice #%d among [%s] -> %d", len(x.Choices())-1, strings.Join(d, " "), idx))
			}
		}
		c := cands[idx]
		if c.env != nil {
			c.env.live = false
			if x.KeepTrc {
				x.Trace = append(x.Trace, fmt.Sprintf("env %s#%d fires", c.env.name, c.env.id))
			}
			x.ghist = x.ghist[:0]
			x.idleDue = false
			for _, v := range x.threads {
				v.polling = false // time has passed: whatever they poll for may have changed
			}
			h := mix(hashStr("env:"+c.env.name), uint64(c.env.id))
			x.fp ^= h
			x.stepHash = h
			x.seqHash = mix(x.seqHash, h)
			c.env.fire()
			continue // re-evaluate
		}
		u := c.th
		x.account(u)
		sig := u.pend.describe()
		for _, v := range x.threads {
			if v != u {
				v.waitFor &^= 1 << uint(u.id)
				v.hist = nil
			}
		}
		if u.polling && len(u.hist) > 0 {
			last, in := u.hist[len(u.hist)-1], false
			for _, h := range u.loop {
				if h == last {
					in = true
					break
				}
			}
			if !in && last != hashStr("spin <nil>") {
				u.polling = false // it left the loop (an operation or a result not seen in the loop body)
			}
		}
		// Repetition checks run on the entries recorded so far: their results have been folded in
		// (NoteResult), the entry of the step chosen now is appended afterwards.
		if n := len(x.ghist); n >= 18 {
			// the same block of (thread, operation, result) steps three times in a row
			for k := 6; k <= 48 && 3*k <= n; k++ {
				same := true
				for i := 0; i < k; i++ {
					if x.ghist[n-1-i] != x.ghist[n-1-k-i] || x.ghist[n-1-i] != x.ghist[n-1-2*k-i] {
						same = false
						break
					}
				}
				if same {
					// several threads poll each other in a loop that changes nothing visible:
					// only the passage of time (a timer, a deadline) can end it.
					x.idleDue = true
					break
				}
			}
			if n > 256 {
				x.ghist = append(x.ghist[:0], x.ghist[n-160:]...)
			}
		}
		// A stutter loop: the same block of steps -- same operations, made from the same places in the
		// code, with the same results -- three times in a row with nobody else stepping. (Operation
		// kinds alone are not enough: two different API calls often go through "load a flag, take a
		// lock" one after the other, and a thread wrongly taken for a spinner is held back until every
		// other thread has stepped, which removes real schedules from the bounded search.)
		if n := len(u.hist); n >= 6 {
			for k := 2; k <= 8 && 3*k <= n; k++ {
				same := true
				for i := 0; i < k; i++ {
					if u.hist[n-1-i] != u.hist[n-1-k-i] || u.hist[n-1-i] != u.hist[n-1-2*k-i] {
						same = false
						break
					}
				}
				if same {
					u.loop = append(u.loop[:0], u.hist[n-k:]...)
					u.polling = true
					x.yield(u) // identical block repeated with nobody else stepping: stutter loop
					break
				}
			}
		}
		hs := hashStr(sig)
		if u.pend.kind != "spin" {
			hs = mix(hs, u.pend.pcs)
		}
		u.hist = append(u.hist, hs)
		x.ghist = append(x.ghist, mix(uint64(u.id)+1, hs))
		if x.KeepTrc {
			x.Trace = append(x.Trace, fmt.Sprintf("T%d %s @ %s", u.id, u.pend.describe(), u.pend.site))
		}
		if u == x.lastRun {
			x.consec++
		} else {
			x.lastRun, x.consec = u, 1
		}
		if u == t {
			return
		}
		x.running = u
		x.handoff(t, u)
		return
	}
}

// RunningID returns the id of the thread that is executing.
func (x *Exec) RunningID() int {
	if x.running == nil {
		return -1
	}
	return x.running.id
}

type lockOwner interface{ Owner() int }

func (x *Exec) noteBlocked() {
	// threads that wait for a lock held by a thread that itself waits for a lock ...: if the
	// wait-for graph has a cycle, only its members are reported (bystanders blocked behind
	// the cycle would make the finding key depend on the driver)
	waitsFor := map[int]int{}
	for _, u := range x.threads {
		if u.done || u.pend == nil || u.pend.obj == nil {
			continue
		}
		if lo, ok := u.pend.obj.(lockOwner); ok && lo.Owner() >= 0 {
			waitsFor[u.id] = lo.Owner()
		}
	}
	inCycle := map[int]bool{}
	for start := range waitsFor {
		seen := map[int]bool{}
		for t, ok := start, true; ok && !seen[t]; t, ok = waitsFor[t], waitsFor[t] != 0 || hasKey(waitsFor, t) {
			seen[t] = true
			if nx, has := waitsFor[t]; has && nx == start {
				for k := range seen {
					inCycle[k] = true
				}
			}
			if _, has := waitsFor[t]; !has {
				break
			}
		}
	}
	for _, u := range x.threads {
		if u.done || u.pend == nil {
			continue
		}
		if len(inCycle) > 0 && !inCycle[u.id] {
			continue
		}
		d := fmt.Sprintf("T%d %s", u.id, u.pend.describe())
		if u.pend.site != "" {
			d += " @ " + u.pend.site
		}
		x.Blocked = append(x.Blocked, d)
	}
}

func hasKey(m map[int]int, k int) bool { _, ok := m[k]; return ok }

func (p *pending) describe() string {
	if p.sel != nil {
		return p.sel.describe()
	}
	return fmt.Sprintf("%s %T", p.kind, p.obj)
}

// handoff wakes u and parks t (unless t is done).
func (x *Exec) handoff(t, u *thread) {
	raceDisable()
	u.wake <- struct{}{}
	if t.done {
		raceEnable()
		return
	}
	<-t.wake
	raceEnable()
	if x.aborting {
		panic(abortT{})
	}
}

// endFromInside ends the execution from whichever thread detected the end
// condition: everybody else is unwound first, then the caller.
func (x *Exec) endFromInside(t *thread) {
	x.abortOthers(t)
	if !t.done {
		panic(abortT{})
	}
}

func (x *Exec) String() string {
	var b strings.Builder
	for i, p := range x.Points {
		fmt.Fprintf(&b, "%d:%d/%d ", i, p.Chosen, p.N)
	}
	return b.String()
}

// ---------------------------------------------------------------------------
// environment events (deadlines) and virtual clock

type EnvHandle struct{ e *envEvent }

func (h *EnvHandle) Disarm() {
	if h != nil && h.e != nil {
		h.e.live = false
	}
}

// AddEnv registers an event the environment may fire at any scheduling point.
func AddEnv(name string, fire func()) *EnvHandle {
	x := cur
	if x == nil {
		return nil
	}
	x.envSeq++
	e := &envEvent{id: x.envSeq, name: name, fire: fire, live: true}
	x.envs = append(x.envs, e)
	return &EnvHandle{e}
}

// Tick advances and returns the virtual clock.
func (x *Exec) Tick() int64 { x.vclock++; return x.vclock }

// ---------------------------------------------------------------------------
// happens-before fingerprint (Mazurkiewicz trace hash)

type objHB struct {
	key       any
	id        int
	lastWrite uint64
	reads     uint64 // xor of read-step hashes since last write
}

func mix(a, b uint64) uint64 {
	a ^= b + 0x9e3779b97f4a7c15 + (a << 6) + (a >> 2)
	a *= 0xff51afd7ed558ccd
	a ^= a >> 33
	return a
}

func hashStr(s string) uint64 {
	var h uint64 = 1469598103934665603
	for i := 0; i < len(s); i++ {
		h ^= uint64(s[i])
		h *= 1099511628211
	}
	return h
}

func (x *Exec) objOf(o any) *objHB {
	for _, h := range x.objs {
		if h.key == o {
			return h
		}
	}
	h := &objHB{key: o, id: len(x.objs) + 1}
	x.objs = append(x.objs, h)
	return h
}

// account folds the step thread u is about to take into the fingerprint.
func (x *Exec) account(u *thread) {
	p := u.pend
	u.seq++
	h := mix(uint64(u.id)<<32|uint64(u.seq), u.hb)
	h = mix(h, hashStr(p.kind))
	touch := func(o any, write bool) {
		if o == nil {
			return
		}
		ob := x.objOf(o)
		h = mix(h, uint64(ob.id))
		h = mix(h, ob.lastWrite)
		if write {
			h = mix(h, ob.reads)
		}
	}
	commit := func(o any, write bool) {
		if o == nil {
			return
		}
		ob := x.objOf(o)
		if write {
			ob.lastWrite, ob.reads = h, 0
		} else {
			ob.reads ^= h
		}
	}
	isRead := p.kind == "Load" || p.kind == "ctx.Err" || strings.HasPrefix(p.kind, "Load")
	if p.sel != nil {
		for _, c := range p.sel.cases {
			if c.st != nil {
				touch(c.st, true)
				if c.st.timer != nil {
					touch(c.st.timer, true)
				}
			}
		}
		for _, c := range p.sel.cases {
			if c.st != nil {
				commit(c.st, true)
				if c.st.timer != nil {
					commit(c.st.timer, true)
				}
			}
		}
	} else {
		touch(p.obj, !isRead)
		commit(p.obj, !isRead)
	}
	u.hb = h
	x.fp ^= h
	x.stepHash = h
	x.seqHash = mix(x.seqHash, h)
}

// pendHash summarises which threads exist / are done (cheap guard against collisions between
// prefixes with equal event sets but different scheduler-visible status).
func (x *Exec) pendHash() uint64 {
	var h uint64
	for _, t := range x.threads {
		if t.waitFor != 0 {
			h ^= mix(uint64(t.id), 77)
		}
	}
	return h
}

// Yield is an explicit scheduling point of harness-side fakes (e.g. "the export is in
// flight"): other threads may run here, at the price of a preemption.
func Yield(label string, obj any) {
	if x := cur; x != nil && !x.aborting {
		x.Point(label, obj, func() bool { return true })
	}
}
