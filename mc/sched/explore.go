package sched

import (
	"encoding/json"
	"fmt"
	"os"
	"sort"
	"strconv"
	"strings"

	"verif/mc/enum"
)

// Config describes one exploration: a closed driver (Body), the deviation bounds and
// how executions are judged.
type Config struct {
	Name     string // scenario / configuration label (part of replay files)
	MaxP     int    // preemption bound
	MaxE     int    // environment-deviation bound (timers, deadlines, select choices, Choose)
	MaxSteps int    // step horizon per execution (default 20000)
	NoCache  bool   // disable happens-before caching
	Body     func(x *Exec)
	// Outcome summarises what was observed in the execution that just ended (called from
	// the explorer, after the execution); used for the distinct-outcome count.
	Outcome func(x *Exec) string
	// DeadlockOK: deadlocked executions are counted, not reported (properties without a
	// no-blocking clause; their safety oracles still ran on the prefix).
	DeadlockOK bool
	// KeyPrefix is prepended to engine-generated finding keys (deadlock, panic).
	KeyPrefix string
	// NoLadder skips the small-bounds-first runs.
	NoLadder bool
}

// Stats is what one exploration covered.
type Stats struct {
	Execs, Steps, Deadlocks, Horizon, Panics, Violating, Pruned int64
	States                                                      int
	Outcomes                                                    map[string]int64
	Complete                                                    bool // the bounded tree was enumerated completely
}

const maxSeen = 6_000_000

var longTrace = func() int { n, _ := strconv.Atoi(os.Getenv("VERIF_TRACE_LONG")); return n }()

type explorer struct {
	idleExecs, idleFires int64 // executions in which / times the idle rule fired a timer by default
	cfg                  Config
	r                    *enum.R
	st                   Stats
	seen                 map[[2]uint64][][2]int8
	maxP                 int
	maxE                 int
	cache                bool
	stop                 bool
	nth                  int64
	gen0                 int  // unlockGen when this exploration (re)started
	flipped              bool // the set of release points grew: start over with it
}

type replayData struct {
	Name    string `json:"name"`
	Choices []int  `json:"choices"`
	// the release points in force when the choices were recorded (sched.go, "Release points")
	UnlockAll   bool     `json:"unlock_all,omitempty"`
	UnlockSites []string `json:"unlock_sites,omitempty"`
}

// EngineError reports nondeterminism of the engine / harness (never a property violation).
func EngineError(format string, a ...any) {
	fmt.Printf("VERIF-ENGINE-ERROR "+format+"\n", a...)
}

// Explore enumerates every execution of cfg.Body within the bounds and reports into r.
func Explore(r *enum.R, cfg Config) Stats {
	if cfg.MaxSteps == 0 {
		cfg.MaxSteps = 20000
	}
	e := &explorer{cfg: cfg, r: r}
	e.st.Outcomes = map[string]int64{}
	if r.Replaying() {
		var rd replayData
		if d := r.ReplayData(); d != nil && json.Unmarshal(d, &rd) == nil && rd.Name == cfg.Name {
			allUnlocks = rd.UnlockAll
			if rd.UnlockAll || len(rd.UnlockSites) > 0 {
				trySeen, replaySites = true, append([]string{}, rd.UnlockSites...)
			}
			x := Run(rd.Choices, cfg.MaxSteps, true, cfg.Body)
			fmt.Printf("replay of %s, choices %v\n", cfg.Name, rd.Choices)
			for _, l := range x.Trace {
				fmt.Println("  " + l)
			}
			fmt.Printf("status=%q violations=%v blocked=%v\n", x.Status, x.Violations, x.Blocked)
			e.judge(x, true)
		}
		return e.st
	}
	type b struct{ p, e int }
	ladder := []b{}
	if !cfg.NoLadder {
		for _, c := range []b{{0, 0}, {1, 0}, {0, 1}, {1, 1}} {
			if c.p <= cfg.MaxP && c.e <= cfg.MaxE && (c.p < cfg.MaxP || c.e < cfg.MaxE) {
				ladder = append(ladder, c)
			}
		}
	}
	ladder = append(ladder, b{cfg.MaxP, cfg.MaxE})
restart:
	e.gen0 = unlockGen
	for i, c := range ladder {
		e.maxP, e.maxE = c.p, c.e
		e.seen = map[[2]uint64][][2]int8{}
		e.cache = !cfg.NoCache && os.Getenv("VERIF_NOCACHE") == "" // VERIF_NOCACHE=1: development aid, full enumeration without happens-before pruning
		last := i == len(ladder)-1
		if last {
			// coverage counters describe the final (largest) bound; the ladder runs are subsets
			e.st.Execs, e.st.Steps, e.st.Pruned = 0, 0, 0
			e.st.Deadlocks, e.st.Horizon, e.st.Panics, e.st.Violating = 0, 0, 0, 0
		}
		e.explore(nil)
		if e.flipped {
			// the schedules explored so far lacked some release points; all of them are legal, none is
			// kept in the counters: the space is enumerated again from the start, with the larger set
			e.flipped, e.stop = false, false
			e.st = Stats{Outcomes: map[string]int64{}}
			e.idleExecs, e.idleFires = 0, 0
			r.Count("restarts_after_release_points_grew", 1)
			goto restart
		}
		if e.stop {
			break
		}
		if last {
			e.st.Complete = true
		}
	}
	e.st.States = len(e.seen)
	r.Executions(e.st.Execs)
	r.Transitions(e.st.Steps)
	r.AddStates(int64(e.st.States))
	r.Count("deadlocked_executions", e.st.Deadlocks)
	r.Count("horizon_hits", e.st.Horizon)
	r.Count("hb_pruned_subtrees", e.st.Pruned)
	r.Count("panicking_executions", e.st.Panics)
	// how often the idle rule (a timer fires by default because every running thread only repeats
	// itself) shaped the schedules: visible, so that a heuristic that fires too eagerly shows
	r.Count("executions_with_idle_timer_fires", e.idleExecs)
	r.Count("idle_timer_fires", e.idleFires)
	if e.st.Horizon > 0 {
		r.Cap(fmt.Sprintf("%s: step horizon %d hit in %d executions", cfg.Name, cfg.MaxSteps, e.st.Horizon))
	}
	if !e.st.Complete {
		r.Cap(fmt.Sprintf("%s: exploration stopped at the wall-clock budget inside bound P<=%d E<=%d after %d executions", cfg.Name, e.maxP, e.maxE, e.st.Execs))
	}
	for o := range e.st.Outcomes {
		r.Outcome(cfg.Name + "|" + o)
	}
	return e.st
}

// judge classifies a finished execution and records violations. Returns true if bad.
func (e *explorer) judge(x *Exec, replaying bool) bool {
	var faults []Fault
	if x.IdleFires > 0 {
		e.idleExecs++
		e.idleFires += int64(x.IdleFires)
	}
	switch {
	case strings.HasPrefix(x.Status, "deadlock"):
		e.st.Deadlocks++
		if !e.cfg.DeadlockOK {
			faults = append(faults, Fault{e.cfg.KeyPrefix + "deadlock", x.Status})
		}
	case x.Status == "horizon":
		e.st.Horizon++
	case x.Status != "":
		e.st.Panics++
		faults = append(faults, Fault{e.cfg.KeyPrefix + "panic", x.Status + "\n" + x.Stack})
	}
	faults = append(faults, x.Violations...)
	if len(faults) == 0 {
		return false
	}
	e.st.Violating++
	choices := x.Choices()
	// confirm: the same choice sequence must fail identically, every time
	var tr *Exec
	if !replaying {
		for i := 0; i < 5; i++ {
			y := Run(choices, e.cfg.MaxSteps, i == 4, e.cfg.Body)
			if y.Status != x.Status || faultKeys(y.Violations) != faultKeys(x.Violations) || y.seqHash != x.seqHash {
				EngineError("%s: re-running choices %v gave status %q violations %v (first run: %q %v)", e.cfg.Name, choices, y.Status, y.Violations, x.Status, x.Violations)
				return true
			}
			tr = y
		}
	} else {
		tr = x
	}
	for _, f := range faults {
		key := f.Key
		if strings.HasSuffix(key, "deadlock") {
			key += "|" + blockedSites(tr)
		}
		if strings.HasSuffix(key, "panic") {
			key += "|" + panicSite(x.Status+"\n"+x.Stack)
		}
		p, en := x.cost()
		trace := tr.Trace
		if len(trace) > 400 {
			trace = append([]string{"..."}, trace[len(trace)-400:]...)
		}
		e.r.Fail(key, map[string]any{"scenario": e.cfg.Name, "preemptions": p, "env_deviations": en, "choices": choices, "blocked": tr.Blocked, "trace": trace},
			replayData{e.cfg.Name, choices, allUnlocks, unlockSiteList()}, "%s [%s, %d preemption(s), %d environment deviation(s), %d steps]", f.Msg, e.cfg.Name, p, en, x.steps)
	}
	return true
}

func faultKeys(fs []Fault) string {
	var k []string
	for _, f := range fs {
		k = append(k, f.Key)
	}
	sort.Strings(k)
	return strings.Join(k, ";")
}

// blockedSites: the functions in which threads were blocked, as a stable deadlock key.
func blockedSites(x *Exec) string {
	var s []string
	for _, b := range x.Blocked {
		if i := strings.Index(b, " @ "); i >= 0 {
			f := strings.Fields(b[i+3:])
			if len(f) > 0 {
				s = append(s, f[0])
			}
		}
	}
	sort.Strings(s)
	return strings.Join(s, ",")
}

func panicSite(status string) string {
	// "panic in thread N(name): <value>\n<stack>" -> value + first frame outside runtime and verif/mc
	lines := strings.Split(status, "\n")
	val := lines[0]
	if i := strings.Index(val, "): "); i >= 0 {
		val = val[i+3:]
	}
	if len(val) > 80 {
		val = val[:80]
	}
	for _, l := range lines[1:] {
		l = strings.TrimSpace(l)
		if l == "" || strings.HasPrefix(l, "goroutine ") || strings.HasPrefix(l, "/") || strings.HasPrefix(l, "runtime") || strings.HasPrefix(l, "panic(") || strings.Contains(l, "verif/mc/") {
			continue
		}
		if i := strings.LastIndex(l, "("); i > 0 {
			l = l[:i]
		}
		if i := strings.LastIndex(l, "/"); i >= 0 {
			l = l[i+1:]
		}
		return val + " in " + l
	}
	return val
}

// cost returns the preemptions and environment deviations of an execution.
func (x *Exec) cost() (p, e int) {
	for _, pt := range x.Points {
		switch pt.Costs[pt.Chosen] {
		case costP:
			p++
		case costE:
			e++
		}
	}
	return
}

func (e *explorer) explore(prefix []int) {
	if e.stop {
		return
	}
	if e.st.Execs&63 == 0 && e.r.Expired() {
		e.stop = true
		return
	}
	enum.Guard(e.cfg.KeyPrefix+"crash", map[string]any{"scenario": e.cfg.Name, "choices": prefix}, replayData{e.cfg.Name, prefix, allUnlocks, unlockSiteList()})
	x := Run(prefix, e.cfg.MaxSteps, false, e.cfg.Body)
	if unlockGen != e.gen0 {
		e.flipped, e.stop = true, true
		return
	}
	e.st.Execs++
	e.st.Steps += int64(x.steps)
	e.nth++
	if e.nth%64 == 1 {
		// determinism discipline: re-run and compare the operation sequence
		y := Run(x.Choices(), e.cfg.MaxSteps, false, e.cfg.Body)
		if y.seqHash != x.seqHash || len(y.Points) != len(x.Points) || y.Status != x.Status {
			EngineError("%s: nondeterministic execution for choices %v (seq %x vs %x, points %d vs %d, status %q vs %q)", e.cfg.Name, x.Choices(), x.seqHash, y.seqHash, len(x.Points), len(y.Points), x.Status, y.Status)
			a := Run(x.Choices(), e.cfg.MaxSteps, true, e.cfg.Body)
			b := Run(x.Choices(), e.cfg.MaxSteps, true, e.cfg.Body)
			for i := 0; i < len(a.Trace) || i < len(b.Trace); i++ {
				la, lb := "<end>", "<end>"
				if i < len(a.Trace) {
					la = a.Trace[i]
				}
				if i < len(b.Trace) {
					lb = b.Trace[i]
				}
				if la != lb {
					lo := i - 12
					if lo < 0 {
						lo = 0
					}
					for j := lo; j < i; j++ {
						fmt.Printf("   both: %s\n", a.Trace[j])
					}
					fmt.Printf("   run A: %s\n   run B: %s\n", la, lb)
					break
				}
			}
			e.stop = true
			return
		}
	}
	if e.cfg.Outcome != nil {
		e.st.Outcomes[e.cfg.Outcome(x)]++
	}
	if longTrace > 0 && x.steps > longTrace {
		// development aid (VERIF_TRACE_LONG=n): show the tail of the first execution longer than n steps
		longTrace = 0
		y := Run(x.Choices(), e.cfg.MaxSteps, true, e.cfg.Body)
		fmt.Printf("LONG EXECUTION %s steps=%d choices=%v status=%q\n", e.cfg.Name, y.steps, x.Choices(), y.Status)
		lo := len(y.Trace) - 260
		if lo < 0 {
			lo = 0
		}
		for _, l := range y.Trace[lo:] {
			fmt.Println("   " + l)
		}
	}
	e.judge(x, false)
	e.r.Sample(func() any {
		p, en := x.cost()
		return map[string]any{"scenario": e.cfg.Name, "choices": fmt.Sprint(x.Choices()), "steps": x.steps, "preemptions": p, "env_deviations": en, "status": x.Status}
	})
	if x.Status == "horizon" {
		return // no branching inside the tail of an execution that hit the horizon
	}
	p, pe := 0, 0
	for j := 0; j < len(prefix) && j < len(x.Points); j++ {
		switch x.Points[j].Costs[x.Points[j].Chosen] {
		case costP:
			p++
		case costE:
			pe++
		}
	}
	for i := len(prefix); i < len(x.Points); i++ {
		pt := &x.Points[i]
		if e.cache && x.Status == "" {
			key := [2]uint64{pt.FP, uint64(pt.Run+1)<<32 | uint64(pt.N)}
			remP, remE := int8(e.maxP-p), int8(e.maxE-pe)
			dominated := false
			for _, b := range e.seen[key] {
				if b[0] >= remP && b[1] >= remE {
					dominated = true
					break
				}
			}
			if dominated {
				e.st.Pruned++
				break // this state and its default continuation were expanded with at least these budgets
			}
			if len(e.seen) < maxSeen {
				e.seen[key] = append(e.seen[key], [2]int8{remP, remE})
			}
		}
		for alt := 1; alt < pt.N; alt++ {
			np, ne := p, pe
			switch pt.Costs[alt] {
			case costP:
				np++
			case costE:
				ne++
			}
			if np > e.maxP || ne > e.maxE {
				continue
			}
			child := make([]int, i+1)
			for j := 0; j < i; j++ {
				child[j] = x.Points[j].Chosen
			}
			child[i] = alt
			e.explore(child)
			if e.stop {
				return
			}
		}
		// the default choice at point i has cost 0 by construction
	}
}

// Status file helper for harness processes that want to leave a note on exit.
func init() { _ = os.Getenv }
