//go:build !race

package sched

import "unsafe"

func raceDisable() {}
func raceEnable()  {}

func raceRelease(unsafe.Pointer) {}
func raceAcquire(unsafe.Pointer) {}

const RaceEnabled = false

func RaceRelease(unsafe.Pointer) {}
func RaceAcquire(unsafe.Pointer) {}
