package sched

import (
	"fmt"
	"reflect"
	"sort"
	"unsafe"
)

// chanState is the scheduler's model of one channel (authoritative while an
// execution is active). The real channel is only an identity token plus a
// mirror for close().
type chanState struct {
	key    uintptr
	id     int
	cap    int
	buf    []any
	closed bool
	timer  *TimerState // non-nil: this is a virtual timer/ticker channel
	ref    any         // keeps the real channel alive: its address is our key and must not be reused
}

// TimerState is manipulated by the vtime shim.
type TimerState struct {
	Armed    bool
	Periodic bool
	Recvd    bool // a value has been received since arming
}

func chanKey(ch any) uintptr {
	v := reflect.ValueOf(ch)
	if !v.IsValid() || v.IsNil() {
		return 0
	}
	return v.Pointer()
}

func (x *Exec) chanOf(ch any, capacity int) *chanState {
	key := chanKey(ch)
	if key == 0 {
		return nil
	}
	for _, cs := range x.chans {
		if cs.key == key {
			return cs
		}
	}
	cs := &chanState{key: key, id: len(x.chans) + 1, cap: capacity, ref: ch}
	x.chans = append(x.chans, cs)
	return cs
}

// RegisterTimerChan marks ch as a virtual timer channel.
func RegisterTimerChan(ch any, ts *TimerState) {
	if x := cur; x != nil {
		x.chanOf(ch, 1).timer = ts
	}
}

// C wraps one direction of a channel.
type C[T any] struct {
	s chan<- T
	r <-chan T
}

func ChS[T any](ch chan<- T) C[T] { return C[T]{s: ch} }
func ChR[T any](ch <-chan T) C[T] { return C[T]{r: ch} }

func (c C[T]) state(x *Exec) *chanState {
	if c.r != nil {
		return x.chanOf(c.r, cap(c.r))
	}
	if c.s != nil {
		return x.chanOf(c.s, cap(c.s))
	}
	return nil
}

func (c C[T]) Send(v T) {
	x := cur
	if x == nil {
		c.s <- v
		return
	}
	s := NewSelect(false)
	c.SendCase(s, v)
	s.Wait()
}

func (c C[T]) Recv() T {
	x := cur
	if x == nil {
		return <-c.r
	}
	s := NewSelect(false)
	rc := c.RecvCase(s)
	s.Wait()
	return rc.V
}

func (c C[T]) Recv2() (T, bool) {
	x := cur
	if x == nil {
		v, ok := <-c.r
		return v, ok
	}
	s := NewSelect(false)
	rc := c.RecvCase(s)
	s.Wait()
	return rc.V, rc.OK
}

func (c C[T]) Len() int {
	if x := cur; x != nil {
		if st := c.state(x); st != nil {
			return len(st.buf)
		}
		return 0
	}
	if c.r != nil {
		return len(c.r)
	}
	return len(c.s)
}

func (c C[T]) Cap() int {
	if c.r != nil {
		return cap(c.r)
	}
	return cap(c.s)
}

func Close[T any](ch chan<- T) {
	x := cur
	if x == nil || x.aborting {
		defer func() { _ = recover() }()
		close(ch)
		return
	}
	st := x.chanOf(ch, cap(ch))
	x.Point("close", st, func() bool { return true })
	if st == nil {
		panic("close of nil channel")
	}
	if st.closed {
		panic("close of closed channel")
	}
	st.closed = true
	raceRelease(unsafe.Pointer(st))
	close(ch) // mirror for un-instrumented observers
}

// CloseQuiet closes ch without a scheduling point (used inside atomic environment steps).
func CloseQuiet[T any](ch chan<- T) {
	x := cur
	if x == nil || x.aborting {
		defer func() { _ = recover() }()
		close(ch)
		return
	}
	st := x.chanOf(ch, cap(ch))
	if !st.closed {
		st.closed = true
		raceRelease(unsafe.Pointer(st))
		close(ch)
	}
}

// ---------------------------------------------------------------------------
// select

type selCase struct {
	send   bool
	st     *chanState
	val    any
	onRecv func(v any, ok bool)
}

type Sel struct {
	hasDef bool
	cases  []selCase
	fired  int // set by a rendezvous partner
	// passthrough mode
	rcases []reflect.SelectCase
	ronrcv []func(reflect.Value, bool)
}

func NewSelect(hasDefault bool) *Sel { return &Sel{hasDef: hasDefault, fired: -1} }

type RecvC[T any] struct {
	V  T
	OK bool
}

func (c C[T]) RecvCase(s *Sel) *RecvC[T] {
	rc := &RecvC[T]{}
	if x := cur; x != nil {
		s.cases = append(s.cases, selCase{st: c.state(x), onRecv: func(v any, ok bool) {
			rc.OK = ok
			if ok && v != nil {
				rc.V = v.(T)
			}
		}})
		return rc
	}
	s.rcases = append(s.rcases, reflect.SelectCase{Dir: reflect.SelectRecv, Chan: reflect.ValueOf(c.r)})
	s.ronrcv = append(s.ronrcv, func(v reflect.Value, ok bool) {
		rc.OK = ok
		if ok {
			reflect.ValueOf(&rc.V).Elem().Set(v)
		}
	})
	return rc
}

func (c C[T]) SendCase(s *Sel, v T) {
	if x := cur; x != nil {
		s.cases = append(s.cases, selCase{send: true, st: c.state(x), val: v})
		return
	}
	s.rcases = append(s.rcases, reflect.SelectCase{Dir: reflect.SelectSend, Chan: reflect.ValueOf(c.s), Send: reflect.ValueOf(&v).Elem()})
	s.ronrcv = append(s.ronrcv, nil)
}

// ready returns the indices of cases that can fire now: for free, and at an
// environment cost (armed virtual timers).
func (s *Sel) ready(x *Exec, self *thread) (free, paid []int) {
	for i, c := range s.cases {
		st := c.st
		if st == nil {
			continue // nil channel
		}
		if c.send {
			if st.closed || len(st.buf) < st.cap || (st.cap == 0 && x.partner(st, false, self) != nil) {
				free = append(free, i)
			}
			continue
		}
		if st.timer != nil {
			if st.timer.Armed {
				paid = append(paid, i)
			}
			continue
		}
		if len(st.buf) > 0 || st.closed || (st.cap == 0 && x.partner(st, true, self) != nil) {
			free = append(free, i)
		}
	}
	return
}

// partner finds a parked thread (other than self) with a pending case on st in
// the given direction (wantSend: we receive, so we need a sender).
func (x *Exec) partner(st *chanState, wantSend bool, self *thread) *thread {
	for _, u := range x.threads {
		if u == self || u.done || u.pend == nil || u.pend.sel == nil || u.pend.done {
			continue
		}
		for _, c := range u.pend.sel.cases {
			if c.st == st && c.send == wantSend {
				return u
			}
		}
	}
	return nil
}

func (s *Sel) describe() string {
	out := "select["
	for _, c := range s.cases {
		d := "<-"
		if c.send {
			d = "->"
		}
		id := 0
		if c.st != nil {
			id = c.st.id
		}
		out += fmt.Sprintf("%sc%d ", d, id)
	}
	if s.hasDef {
		out += "default"
	}
	return out + "]"
}

// Wait blocks until one case fires and returns its index (-1 for default).
func (s *Sel) Wait() int {
	x := cur
	if x == nil {
		cases := s.rcases
		if s.hasDef {
			cases = append(cases, reflect.SelectCase{Dir: reflect.SelectDefault})
		}
		i, v, ok := reflect.Select(cases)
		if s.hasDef && i == len(s.rcases) {
			return -1
		}
		if f := s.ronrcv[i]; f != nil {
			f(v, ok)
		}
		return i
	}
	if x.aborting {
		panic(abortT{})
	}
	t := x.running
	p := &pending{kind: "select", sel: s}
	x.point(p)
	if p.done {
		// completed by a rendezvous partner while we were parked
		if c := s.cases[s.fired]; c.st != nil {
			if c.send {
				raceAcquire(unsafe.Pointer(&c.st.id))
			} else {
				raceAcquire(unsafe.Pointer(c.st))
			}
		}
		return s.fired
	}
	free, paid := s.ready(x, t)
	var idx int
	switch {
	case len(free) > 0:
		// Go chooses uniformly among ready cases; an armed timer may have fired too.
		// Default: first ready case in source order; every other one is an environment deviation.
		opts := append(append([]int{}, free...), paid...)
		k := 0
		if len(opts) > 1 {
			costs := make([]int, len(opts))
			for i := 1; i < len(opts); i++ {
				costs[i] = costE
			}
			k = x.choose(costs, "select-case")
		}
		idx = opts[k]
	case s.hasDef:
		x.NoteResult(0xffff)
		return -1
	case len(paid) > 0:
		k := 0
		if len(paid) > 1 {
			costs := make([]int, len(paid))
			for i := 1; i < len(paid); i++ {
				costs[i] = costE
			}
			k = x.choose(costs, "timer-case")
		}
		idx = paid[k]
	default:
		panic("sched: scheduled a select with no ready case")
	}
	x.foldResult(t, uint64(idx)+101)
	s.fire(x, t, idx)
	occ := 0
	if st := s.cases[idx].st; st != nil {
		occ = len(st.buf)
	}
	x.NoteResult(uint64(idx)<<16 | uint64(occ))
	return idx
}

func (s *Sel) fire(x *Exec, self *thread, idx int) {
	c := s.cases[idx]
	st := c.st
	// Go memory model edges for the race detector: send/close release, receive acquires.
	if st != nil && st.timer == nil {
		if c.send {
			raceRelease(unsafe.Pointer(st))
		} else {
			raceAcquire(unsafe.Pointer(st))
			if st.cap == 0 {
				raceRelease(unsafe.Pointer(&st.id)) // unbuffered: receive happens-before send completes
			}
		}
	}
	if c.send {
		if st.closed {
			panic("send on closed channel")
		}
		if st.cap == 0 {
			u := x.partner(st, false, self)
			us := u.pend.sel
			for j, uc := range us.cases {
				if uc.st == st && !uc.send {
					uc.onRecv(c.val, true)
					us.fired = j
					u.pend.done = true
					break
				}
			}
			return
		}
		st.buf = append(st.buf, c.val)
		return
	}
	// receive
	if st.timer != nil {
		st.timer.Recvd = true
		if !st.timer.Periodic {
			st.timer.Armed = false
		}
		c.onRecv(nil, true) // zero time value is fine for the targets (value is discarded)
		return
	}
	if len(st.buf) > 0 {
		v := st.buf[0]
		st.buf = st.buf[1:]
		c.onRecv(v, true)
		return
	}
	if st.closed {
		c.onRecv(nil, false)
		return
	}
	u := x.partner(st, true, self)
	us := u.pend.sel
	for j, uc := range us.cases {
		if uc.st == st && uc.send {
			c.onRecv(uc.val, true)
			us.fired = j
			u.pend.done = true
			break
		}
	}
}

// SortedKeys returns the keys of m in a canonical (formatted) order.
func SortedKeys[K comparable, V any](m map[K]V) []K {
	ks := make([]K, 0, len(m))
	for k := range m {
		ks = append(ks, k)
	}
	if len(ks) > 1 {
		strs := make(map[K]string, len(ks))
		for _, k := range ks {
			strs[k] = fmt.Sprintf("%#v", k)
		}
		sort.Slice(ks, func(i, j int) bool { return strs[ks[i]] < strs[ks[j]] })
	}
	return ks
}
