// Package enum is the harness-side reporter shared by every check: it counts what a
// run explored (evaluations, states, transitions, executions, distinct outcomes),
// keeps a few written-out samples, records oracle failures under stable finding keys
// together with what is needed to replay them, enforces the wall-clock budget and
// writes one JSON result file per job for the driver (/verif/check) to aggregate.
//
// Nothing here decides a property: oracles live in the harnesses, the exit status and
// the VIOLATION / KNOWN-FINDING lines are produced by the driver.
package enum

import (
	"encoding/json"
	"fmt"
	"hash/fnv"
	"os"
	"sort"
	"strconv"
	"strings"
	"sync"
	"time"
)

// Violation is one class of oracle failure (all failures with the same Key are folded).
type Violation struct {
	Key    string `json:"key"`    // stable finding key: property|oracle|minimal failing class
	Msg    string `json:"msg"`    // oracle message of the first (shortest-first enumeration) failure
	Case   any    `json:"case"`   // the failing input / operation list / schedule, written out
	Count  int    `json:"count"`  // failures folded under this key
	Job    string `json:"job"`    // job that found it
	Replay any    `json:"replay"` // data the harness needs to re-execute exactly this case
}

// Result is the per-job file format.
type Result struct {
	Property    string           `json:"property"`
	Unit        string           `json:"unit"`
	Job         string           `json:"job"`
	Tier        string           `json:"tier"`
	Evaluations int64            `json:"evaluations"`
	States      int64            `json:"states"`
	Transitions int64            `json:"transitions"`
	Executions  int64            `json:"executions"`
	Outcomes    []uint64         `json:"outcomes"` // hashes of distinct observed outcomes (capped)
	OutcomeN    int64            `json:"outcome_n"`
	Exhaustive  bool             `json:"exhaustive"`
	Caps        []string         `json:"caps_hit"`
	Bounds      map[string]any   `json:"bounds"`
	Counters    map[string]int64 `json:"counters"`
	Samples     []any            `json:"samples"`
	Violations  []*Violation     `json:"violations"`
	Notes       []string         `json:"notes"`
	WallS       float64          `json:"wall_s"`
}

// R is a reporter. Methods are safe for use from one goroutine at a time; the
// scheduler harnesses call them only from the explorer loop (between executions).
type R struct {
	mu       sync.Mutex
	res      Result
	out      string
	start    time.Time
	deadline time.Time
	outcomes map[uint64]struct{}
	states   map[string]struct{}
	viol     map[string]*Violation
	replay   string // VERIF_REPLAY: raw replay selector handed to the harness
	sampleN  int64
	expired  bool
}

const maxOutcomeHashes = 200000

// Start creates the reporter for one job of one unit of a property.
func Start(property, unit string) *R {
	r := &R{start: time.Now(), outcomes: map[uint64]struct{}{}, states: map[string]struct{}{}, viol: map[string]*Violation{}}
	r.res.Property, r.res.Unit = property, unit
	r.res.Job = os.Getenv("VERIF_JOB")
	r.res.Tier = os.Getenv("VERIF_TIER")
	if r.res.Tier == "" {
		r.res.Tier = "quick"
	}
	r.res.Exhaustive = true
	r.res.Bounds = map[string]any{}
	r.res.Counters = map[string]int64{}
	r.out = os.Getenv("VERIF_OUT")
	r.replay = os.Getenv("VERIF_REPLAY")
	if s := os.Getenv("VERIF_DEADLINE_S"); s != "" {
		if f, err := strconv.ParseFloat(s, 64); err == nil && f > 0 {
			r.deadline = r.start.Add(time.Duration(f * float64(time.Second)))
		}
	}
	return r
}

func (r *R) Tier() string      { return r.res.Tier }
func (r *R) Thorough() bool    { return r.res.Tier == "thorough" }
func (r *R) Job() string       { return r.res.Job }
func (r *R) ReplaySel() string { return r.replay }
func (r *R) Replaying() bool   { return r.replay != "" }

// Pick returns q in the quick tier and t in the thorough tier.
func Pick[T any](r *R, q, t T) T {
	if r.Thorough() {
		return t
	}
	return q
}

// Bound records a bound / alphabet size for the evidence.
func (r *R) Bound(name string, v any) { r.res.Bounds[name] = v }

// Count adds to a named counter.
func (r *R) Count(name string, n int64) { r.res.Counters[name] += n }

func (r *R) Eval()               { r.res.Evaluations++ }
func (r *R) Evals(n int64)       { r.res.Evaluations += n }
func (r *R) Transition()         { r.res.Transitions++ }
func (r *R) Transitions(n int64) { r.res.Transitions += n }
func (r *R) Executions(n int64)  { r.res.Executions += n }
func (r *R) AddStates(n int64)   { r.res.States += n }

// State registers a canonical state key and reports whether it is new.
func (r *R) State(key string) bool {
	if _, ok := r.states[key]; ok {
		return false
	}
	r.states[key] = struct{}{}
	r.res.States++
	return true
}

func Hash(s string) uint64 {
	h := fnv.New64a()
	h.Write([]byte(s))
	return h.Sum64()
}

// Outcome registers one observed outcome (what the real code answered) for the
// distinct-outcome count that guards against vacuous exploration.
func (r *R) Outcome(s string) { r.OutcomeHash(Hash(s)) }

func (r *R) OutcomeHash(h uint64) {
	if _, ok := r.outcomes[h]; ok {
		return
	}
	if len(r.outcomes) >= maxOutcomeHashes {
		r.res.OutcomeN++ // overflow: counted, possibly non-distinct across jobs
		return
	}
	r.outcomes[h] = struct{}{}
}

// Sample keeps a written-out case: the first 3 offered and then every 2^k-th, at most 12.
func (r *R) Sample(f func() any) {
	r.sampleN++
	n := r.sampleN
	if n <= 3 || (n&(n-1)) == 0 {
		if len(r.res.Samples) < 12 {
			r.res.Samples = append(r.res.Samples, f())
		} else if (n & (n - 1)) == 0 {
			r.res.Samples[3+int(n%9)] = f()
		}
	}
}

// Fail records an oracle failure under a stable key. The first failure per key keeps
// its case and replay data (enumerations are ordered simplest-first).
func (r *R) Fail(key string, cas any, replay any, format string, a ...any) {
	if !strings.HasPrefix(key, r.res.Property+"|") {
		key = r.res.Property + "|" + key
	}
	if v, ok := r.viol[key]; ok {
		v.Count++
		return
	}
	r.viol[key] = &Violation{Key: key, Msg: fmt.Sprintf(format, a...), Case: cas, Replay: replay, Count: 1, Job: r.res.Job}
}

// Failed reports whether any failure was recorded so far.
func (r *R) Failed() int { return len(r.viol) }

// Cap records that a cap was hit: the run is not exhaustive for the stated space.
func (r *R) Cap(what string) {
	r.res.Exhaustive = false
	for _, c := range r.res.Caps {
		if c == what {
			return
		}
	}
	r.res.Caps = append(r.res.Caps, what)
}

func (r *R) Note(format string, a ...any) {
	r.res.Notes = append(r.res.Notes, fmt.Sprintf(format, a...))
}

// Expired reports whether the wall-clock budget of this job is used up. A run that
// stops on it is reported as non-exhaustive, never as a violation.
func (r *R) Expired() bool {
	if r.expired {
		return true
	}
	if !r.deadline.IsZero() && time.Now().After(r.deadline) {
		r.expired = true
		r.Cap("wall-clock budget")
	}
	return r.expired
}

// Finish writes the result file. It must be called exactly once (defer it).
func (r *R) Finish() {
	r.res.WallS = time.Since(r.start).Seconds()
	for h := range r.outcomes {
		r.res.Outcomes = append(r.res.Outcomes, h)
	}
	sort.Slice(r.res.Outcomes, func(i, j int) bool { return r.res.Outcomes[i] < r.res.Outcomes[j] })
	keys := make([]string, 0, len(r.viol))
	for k := range r.viol {
		keys = append(keys, k)
	}
	sort.Strings(keys)
	for _, k := range keys {
		r.res.Violations = append(r.res.Violations, r.viol[k])
	}
	b, err := json.Marshal(&r.res)
	if err != nil {
		// a case that cannot be marshalled must not hide the violation
		for _, v := range r.res.Violations {
			v.Case = fmt.Sprintf("%+v", v.Case)
			v.Replay = fmt.Sprintf("%+v", v.Replay)
		}
		for i, s := range r.res.Samples {
			r.res.Samples[i] = fmt.Sprintf("%+v", s)
		}
		b, err = json.Marshal(&r.res)
		if err != nil {
			panic(err)
		}
	}
	if r.out == "" {
		fmt.Printf("VERIF-RESULT %s\n", b)
		return
	}
	tmp := r.out + ".tmp"
	if err := os.WriteFile(tmp, b, 0o644); err != nil {
		panic(err)
	}
	if err := os.Rename(tmp, r.out); err != nil {
		panic(err)
	}
}

// Jobs helps harnesses that split their space into named jobs: the driver first runs
// the binary with VERIF_LIST=1 to learn the names, then once per job with VERIF_JOB.
func Jobs(names []string, run func(name string)) {
	if os.Getenv("VERIF_LIST") == "1" {
		for _, n := range names {
			fmt.Printf("VERIF-JOB %s\n", n)
		}
		return
	}
	want := os.Getenv("VERIF_JOB")
	for _, n := range names {
		if want == "" || want == n {
			run(n)
		}
	}
}

// ---------------------------------------------------------------------------
// replay by position and crash attribution

type replayFile struct {
	Key    string          `json:"key"`
	Job    string          `json:"job"`
	Replay json.RawMessage `json:"replay"`
}

// Pos identifies a case of a deterministic enumeration by section and ordinal.
type Pos struct {
	Section string `json:"section"`
	Index   int64  `json:"index"`
}

var (
	posSection string
	posIndex   int64
	posWant    *Pos
	posLoaded  bool
)

// ReplayData returns the raw "replay" member of the replay file (nil when not replaying).
func (r *R) ReplayData() json.RawMessage {
	if r.replay == "" {
		return nil
	}
	b, err := os.ReadFile(r.replay)
	if err != nil {
		panic(err)
	}
	var rf replayFile
	if err := json.Unmarshal(b, &rf); err != nil {
		panic(err)
	}
	return rf.Replay
}

// Section starts a new named section of the enumeration (resets the ordinal).
func (r *R) Section(name string) { posSection, posIndex = name, 0 }

// Want advances the ordinal and reports whether this case is to be evaluated: always,
// except in replay mode where only the recorded position is.
func (r *R) Want() bool {
	posIndex++
	if r.replay == "" {
		return true
	}
	if !posLoaded {
		posLoaded = true
		var p Pos
		if d := r.ReplayData(); d != nil && json.Unmarshal(d, &p) == nil && p.Index > 0 {
			posWant = &p
		}
	}
	if posWant == nil {
		return true
	}
	return posWant.Section == posSection && posWant.Index == posIndex
}

// Here returns the current position (the default replay datum of FailHere).
func (r *R) Here() Pos { return Pos{posSection, posIndex} }

// FailHere is Fail with the current enumeration position as replay data.
func (r *R) FailHere(key string, cas any, format string, a ...any) {
	r.Fail(key, cas, r.Here(), format, a...)
}

var statusFD *os.File

// Guard announces the case about to be executed in the status file, so that the death
// of the process (a panic in a goroutine nobody can recover, a fatal error, a race
// detector halt) is attributed to it by the driver.
func Guard(key string, cas any, replay any) {
	p := os.Getenv("VERIF_STATUS")
	if p == "" {
		return
	}
	if statusFD == nil {
		f, err := os.OpenFile(p, os.O_CREATE|os.O_RDWR|os.O_TRUNC, 0o644)
		if err != nil {
			return
		}
		statusFD = f
	}
	b, err := json.Marshal(map[string]any{"key": key, "case": cas, "replay": replay})
	if err != nil {
		b, _ = json.Marshal(map[string]any{"key": key, "case": fmt.Sprintf("%+v", cas)})
	}
	statusFD.Truncate(0)
	statusFD.WriteAt(b, 0)
}

// Unguard clears the announcement (the guarded region completed).
func Unguard() {
	if statusFD != nil {
		statusFD.Truncate(0)
	}
}

// Keys returns the finding keys recorded so far (sorted).
func (r *R) Keys() []string {
	ks := make([]string, 0, len(r.viol))
	for k := range r.viol {
		ks = append(ks, k)
	}
	sort.Strings(ks)
	return ks
}
