package selftest

import (
	"context"
	"testing"

	"verif/mc/sched"
	"verif/mc/vatomic"
	"verif/mc/vctx"
	"verif/mc/vsync"
	"verif/mc/vtime"
)

// A daemon polls in a loop that changes nothing while another thread waits for a deadline:
// only the passage of time can end it; the global repetition rule must fire the deadline.
func TestIdleRuleFiresDeadline(t *testing.T) {
	var steps int
	body := func(x *sched.Exec) {
		var mu vsync.Mutex
		var n vatomic.Int64
		trig := make(chan struct{}, 1)
		kill := make(chan struct{})
		sched.ChS(trig).Send(struct{}{})
		sched.Go(func() {
			for {
				s := sched.NewSelect(false)
				sched.ChR(trig).RecvCase(s)
				sched.ChR(kill).RecvCase(s)
				if s.Wait() == 1 {
					return
				}
				n.Swap(0)
				mu.Lock()
				mu.Unlock()
				s2 := sched.NewSelect(true)
				sched.ChS(trig).SendCase(s2, struct{}{})
				s2.Wait()
			}
		})
		ctx, cancel := vctx.WithTimeout(context.Background(), vtime.Second)
		defer cancel()
		sched.ChR(ctx.Done()).Recv()
		sched.Close(kill)
		steps = x.Steps()
	}
	st, _ := explore(t, "idle-rule", 0, 0, false, body, nil)
	if st.Horizon != 0 || st.Deadlocks != 0 || steps > 200 {
		t.Fatalf("idle rule: horizon=%d deadlocks=%d steps=%d", st.Horizon, st.Deadlocks, steps)
	}
}
