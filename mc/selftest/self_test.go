package selftest

import (
	"fmt"
	"testing"
	"time"

	"verif/mc/sched"
	"verif/mc/vatomic"
	"verif/mc/vsync"
)

func explore(t *testing.T, name string, p, e int, body func(x *sched.Exec), outcome func(x *sched.Exec) string) *sched.Explorer {
	ex := &sched.Explorer{MaxP: p, MaxE: e, MaxSteps: 5000, Body: body, Outcome: outcome}
	t0 := time.Now()
	ex.Explore()
	d := time.Since(t0)
	t.Logf("%s P=%d E=%d: execs=%d steps=%d deadlocks=%d panics=%d violations=%d outcomes=%v  %.0f exec/s",
		name, p, e, ex.Stats.Execs, ex.Stats.Steps, ex.Stats.Deadlocks, ex.Stats.Panics, ex.Stats.Violations, ex.Stats.Outcomes, float64(ex.Stats.Execs)/d.Seconds())
	return ex
}

func TestLostUpdate(t *testing.T) {
	var final int64
	body := func(x *sched.Exec) {
		var v vatomic.Int64
		var wg vsync.WaitGroup
		wg.Add(2)
		for i := 0; i < 2; i++ {
			sched.Go(func() {
				defer wg.Done()
				n := v.Load()
				v.Store(n + 1)
			})
		}
		wg.Wait()
		final = v.Load()
		if final != 2 {
			x.Fail("lost update: %d", final)
		}
	}
	out := func(x *sched.Exec) string { return fmt.Sprint(final) }
	if ex := explore(t, "lostupdate", 0, 0, body, out); ex.Stats.Violations != 0 {
		t.Fatal("found with 0 preemptions?")
	}
	if ex := explore(t, "lostupdate", 1, 0, body, out); ex.Stats.Violations == 0 {
		t.Fatal("not found with 1 preemption")
	}
}

func TestABBA(t *testing.T) {
	body := func(x *sched.Exec) {
		var a, b vsync.Mutex
		var wg vsync.WaitGroup
		wg.Add(2)
		sched.Go(func() { defer wg.Done(); a.Lock(); b.Lock(); b.Unlock(); a.Unlock() })
		sched.Go(func() { defer wg.Done(); b.Lock(); a.Lock(); a.Unlock(); b.Unlock() })
		wg.Wait()
	}
	if ex := explore(t, "abba", 0, 0, body, nil); ex.Stats.Deadlocks != 0 {
		t.Fatal("deadlock with 0 preemptions?")
	}
	if ex := explore(t, "abba", 1, 0, body, nil); ex.Stats.Deadlocks == 0 {
		t.Fatal("deadlock not found")
	}
}

func TestChanRendezvous(t *testing.T) {
	var got []int
	body := func(x *sched.Exec) {
		got = nil
		ch := make(chan int)
		done := make(chan struct{})
		sched.Go(func() { sched.ChS(ch).Send(1) })
		sched.Go(func() { sched.ChS(ch).Send(2) })
		sched.Go(func() {
			got = append(got, sched.ChR(ch).Recv(), sched.ChR(ch).Recv())
			sched.Close(done)
		})
		sched.ChR(done).Recv()
	}
	ex := explore(t, "rendezvous", 2, 0, body, func(x *sched.Exec) string { return fmt.Sprint(got) })
	if len(ex.Stats.Outcomes) != 2 || ex.Stats.Deadlocks != 0 {
		t.Fatalf("outcomes %v", ex.Stats.Outcomes)
	}
}
