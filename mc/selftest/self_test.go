// Package selftest: acceptance tests of the engine. Toy programs with seeded bugs that the
// explorer must find at the documented minimal bound, their corrected twins that must pass
// with the whole bounded tree explored, replay determinism and the pruning self-check.
package selftest

import (
	"context"
	"fmt"
	"os"
	"strings"
	"testing"

	"verif/mc/enum"
	"verif/mc/sched"
	"verif/mc/vatomic"
	"verif/mc/vctx"
	"verif/mc/vsync"
	"verif/mc/vtime"
)

func init() { os.Unsetenv("VERIF_OUT"); os.Unsetenv("VERIF_REPLAY"); os.Unsetenv("VERIF_DEADLINE_S") }

func explore(t *testing.T, name string, p, e int, nocache bool, body func(x *sched.Exec), outcome func(x *sched.Exec) string) (sched.Stats, *enum.R) {
	r := enum.Start("T00", name)
	st := sched.Explore(r, sched.Config{Name: name, MaxP: p, MaxE: e, MaxSteps: 5000, Body: body, Outcome: outcome, NoCache: nocache, NoLadder: true})
	t.Logf("%s P=%d E=%d cache=%v: execs=%d steps=%d states=%d pruned=%d deadlocks=%d panics=%d violating=%d outcomes=%v keys=%v",
		name, p, e, !nocache, st.Execs, st.Steps, st.States, st.Pruned, st.Deadlocks, st.Panics, st.Violating, st.Outcomes, r.Keys())
	if !st.Complete {
		t.Fatalf("%s: exploration incomplete", name)
	}
	return st, r
}

func has(r *enum.R, sub string) bool {
	for _, k := range r.Keys() {
		if strings.Contains(k, sub) {
			return true
		}
	}
	return false
}

func TestLostUpdate(t *testing.T) {
	var final int64
	body := func(x *sched.Exec) {
		var v vatomic.Int64
		var wg vsync.WaitGroup
		wg.Add(2)
		for i := 0; i < 2; i++ {
			sched.Go(func() {
				defer wg.Done()
				n := v.Load()
				v.Store(n + 1)
			})
		}
		wg.Wait()
		final = v.Load()
		if final != 2 {
			x.Fail("lost-update", "lost update: %d", final)
		}
	}
	out := func(x *sched.Exec) string { return fmt.Sprint(final) }
	if _, r := explore(t, "lostupdate", 0, 0, false, body, out); r.Failed() != 0 {
		t.Fatal("found with 0 preemptions?")
	}
	if _, r := explore(t, "lostupdate", 1, 0, false, body, out); !has(r, "lost-update") {
		t.Fatal("not found with 1 preemption")
	}
	// corrected twin
	fixed := func(x *sched.Exec) {
		var v vatomic.Int64
		var wg vsync.WaitGroup
		wg.Add(2)
		for i := 0; i < 2; i++ {
			sched.Go(func() { defer wg.Done(); v.Add(1) })
		}
		wg.Wait()
		if v.Load() != 2 {
			x.Fail("lost-update", "lost update")
		}
	}
	if _, r := explore(t, "lostupdate-fixed", 3, 0, false, fixed, nil); r.Failed() != 0 {
		t.Fatal("false alarm on the corrected twin")
	}
}

func TestCheckThenAct(t *testing.T) {
	mk := func(fixed bool) func(x *sched.Exec) {
		return func(x *sched.Exec) {
			var mu vsync.Mutex
			var flag vatomic.Bool
			inits := 0
			var wg vsync.WaitGroup
			wg.Add(2)
			for i := 0; i < 2; i++ {
				sched.Go(func() {
					defer wg.Done()
					if fixed {
						mu.Lock()
						defer mu.Unlock()
						if !flag.Load() {
							inits++
							flag.Store(true)
						}
						return
					}
					if !flag.Load() { // check outside the lock
						mu.Lock()
						inits++
						flag.Store(true)
						mu.Unlock()
					}
				})
			}
			wg.Wait()
			if inits != 1 {
				x.Fail("double-init", "initialised %d times", inits)
			}
		}
	}
	if _, r := explore(t, "cta", 0, 0, false, mk(false), nil); r.Failed() != 0 {
		t.Fatal("found with 0 preemptions?")
	}
	if _, r := explore(t, "cta", 1, 0, false, mk(false), nil); !has(r, "double-init") {
		t.Fatal("check-then-act not found with 1 preemption")
	}
	if _, r := explore(t, "cta-fixed", 3, 0, false, mk(true), nil); r.Failed() != 0 {
		t.Fatal("false alarm on the corrected twin")
	}
}

func TestABBA(t *testing.T) {
	body := func(x *sched.Exec) {
		var a, b vsync.Mutex
		var wg vsync.WaitGroup
		wg.Add(2)
		sched.Go(func() { defer wg.Done(); a.Lock(); b.Lock(); b.Unlock(); a.Unlock() })
		sched.Go(func() { defer wg.Done(); b.Lock(); a.Lock(); a.Unlock(); b.Unlock() })
		wg.Wait()
	}
	if st, _ := explore(t, "abba", 0, 0, false, body, nil); st.Deadlocks != 0 {
		t.Fatal("deadlock with 0 preemptions?")
	}
	st, r := explore(t, "abba", 1, 0, false, body, nil)
	if st.Deadlocks == 0 || !has(r, "deadlock") {
		t.Fatal("deadlock not found")
	}
	ordered := func(x *sched.Exec) {
		var a, b vsync.Mutex
		var wg vsync.WaitGroup
		wg.Add(2)
		sched.Go(func() { defer wg.Done(); a.Lock(); b.Lock(); b.Unlock(); a.Unlock() })
		sched.Go(func() { defer wg.Done(); a.Lock(); b.Lock(); b.Unlock(); a.Unlock() })
		wg.Wait()
	}
	if st, _ := explore(t, "abba-fixed", 3, 0, false, ordered, nil); st.Deadlocks != 0 {
		t.Fatal("false deadlock")
	}
}

func TestChanRendezvous(t *testing.T) {
	var got []int
	body := func(x *sched.Exec) {
		got = nil
		ch := make(chan int)
		done := make(chan struct{})
		sched.Go(func() { sched.ChS(ch).Send(1) })
		sched.Go(func() { sched.ChS(ch).Send(2) })
		sched.Go(func() {
			got = append(got, sched.ChR(ch).Recv(), sched.ChR(ch).Recv())
			sched.Close(done)
		})
		sched.ChR(done).Recv()
	}
	st, _ := explore(t, "rendezvous", 2, 0, false, body, func(x *sched.Exec) string { return fmt.Sprint(got) })
	if len(st.Outcomes) != 2 || st.Deadlocks != 0 {
		t.Fatalf("outcomes %v", st.Outcomes)
	}
}

// close-vs-send: a sender that checks a stopped flag and then sends, racing with a closer.
func TestCloseVsSend(t *testing.T) {
	body := func(x *sched.Exec) {
		ch := make(chan int, 1)
		var stopped vatomic.Bool
		var wg vsync.WaitGroup
		wg.Add(2)
		sched.Go(func() {
			defer wg.Done()
			if !stopped.Load() {
				sched.ChS(ch).Send(1)
			}
		})
		sched.Go(func() {
			defer wg.Done()
			stopped.Store(true)
			sched.Close(ch)
		})
		wg.Wait()
	}
	if st, _ := explore(t, "closesend", 0, 0, false, body, nil); st.Panics != 0 {
		t.Fatal("panic with 0 preemptions?")
	}
	st, r := explore(t, "closesend", 1, 0, false, body, nil)
	if st.Panics == 0 || !has(r, "panic|send on closed channel") {
		t.Fatalf("send on closed channel not found: %v", r.Keys())
	}
}

// timer-vs-size double export: a worker exports when the batch is full or when the
// timer fires; the buggy version does not reset the batch before releasing the lock.
func TestTimerVsSize(t *testing.T) {
	mk := func(fixed bool) func(x *sched.Exec) {
		return func(x *sched.Exec) {
			var mu vsync.Mutex
			var batch []int
			exported := map[int]int{}
			export := func() {
				mu.Lock()
				b := batch
				if fixed {
					batch = nil
				}
				mu.Unlock()
				for _, v := range b {
					exported[v]++
				}
				if !fixed {
					mu.Lock()
					batch = nil
					mu.Unlock()
				}
			}
			queue := make(chan int, 2)
			stop := make(chan struct{})
			var wg vsync.WaitGroup
			wg.Add(1)
			sched.Go(func() {
				defer wg.Done()
				tm := vtime.NewTimer(vtime.Second)
				for {
					s := sched.NewSelect(false)
					sched.ChR(stop).RecvCase(s)
					sched.ChR(tm.C).RecvCase(s)
					c := sched.ChR(queue).RecvCase(s)
					switch s.Wait() {
					case 0:
						return
					case 1:
						export()
						tm.Reset(vtime.Second)
					case 2:
						mu.Lock()
						batch = append(batch, c.V)
						full := len(batch) >= 1
						mu.Unlock()
						if full {
							sched.Go(export) // size-triggered export runs concurrently with the timer path
						}
					}
				}
			})
			sched.ChS(queue).Send(7)
			vtime.Sleep(1)
			sched.Close(stop)
			wg.Wait()
			vtime.Sleep(1)
			for v, n := range exported {
				if n > 1 {
					x.Fail("double-export", "item %d exported %d times", v, n)
				}
			}
		}
	}
	if _, r := explore(t, "timersize", 1, 0, false, mk(false), nil); has(r, "double-export") {
		t.Fatal("found without a timer deviation?")
	}
	if _, r := explore(t, "timersize", 1, 1, false, mk(false), nil); !has(r, "double-export") {
		t.Fatal("timer-vs-size double export not found with P<=1,E<=1")
	}
	if _, r := explore(t, "timersize-fixed", 2, 2, false, mk(true), nil); has(r, "double-export") {
		t.Fatal("false alarm on the corrected twin")
	}
}

// ForceFlush-style select: result ready together with a cancelled context may return nil.
func TestSelectChoiceIsExplored(t *testing.T) {
	var got string
	body := func(x *sched.Exec) {
		ctx, cancel := vctx.WithCancel(context.Background())
		res := make(chan error, 1)
		sched.ChS(res).Send(fmt.Errorf("failed"))
		cancel()
		s := sched.NewSelect(false)
		c := sched.ChR(res).RecvCase(s)
		sched.ChR(ctx.Done()).RecvCase(s)
		switch s.Wait() {
		case 0:
			got = "result:" + c.V.Error()
		case 1:
			got = "ctx"
		}
	}
	st, _ := explore(t, "selectchoice", 0, 1, false, body, func(*sched.Exec) string { return got })
	if len(st.Outcomes) != 2 {
		t.Fatalf("both ready select cases must be explored, got %v", st.Outcomes)
	}
	st, _ = explore(t, "selectchoice", 0, 0, false, body, func(*sched.Exec) string { return got })
	if len(st.Outcomes) != 1 {
		t.Fatalf("E=0 must take only the first ready case, got %v", st.Outcomes)
	}
}

// Deadline as an environment event.
func TestDeadlineEvent(t *testing.T) {
	var got string
	body := func(x *sched.Exec) {
		ctx, cancel := vctx.WithTimeout(context.Background(), vtime.Second)
		defer cancel()
		ch := make(chan int, 1)
		sched.Go(func() { sched.ChS(ch).Send(1) })
		s := sched.NewSelect(false)
		sched.ChR(ch).RecvCase(s)
		sched.ChR(ctx.Done()).RecvCase(s)
		if s.Wait() == 0 {
			got = "value"
		} else {
			got = "timeout:" + ctx.Err().Error()
		}
	}
	st, _ := explore(t, "deadline", 1, 1, false, body, func(*sched.Exec) string { return got })
	if len(st.Outcomes) != 2 {
		t.Fatalf("outcomes %v", st.Outcomes)
	}
}

// Idle system: the earliest timer fires for free; a wait nobody can end is a deadlock.
func TestIdleTimerAndDeadlock(t *testing.T) {
	body := func(x *sched.Exec) {
		tm := vtime.NewTimer(vtime.Second)
		sched.ChR(tm.C).Recv() // only the timer can end this wait: fires for free
	}
	if st, _ := explore(t, "idle-timer", 0, 0, false, body, nil); st.Deadlocks != 0 {
		t.Fatal("idle timer must fire")
	}
	dead := func(x *sched.Exec) {
		tk := vtime.NewTicker(vtime.Second)
		sched.Go(func() {
			for {
				sched.ChR(tk.C).Recv()
			}
		})
		ch := make(chan int)
		sched.ChR(ch).Recv() // nobody sends; only a daemon ticks
	}
	if st, r := explore(t, "timers-only", 0, 0, false, dead, nil); st.Deadlocks == 0 || !has(r, "deadlock") {
		t.Fatal("foreground wait behind a ticking daemon must be reported as deadlock")
	}
}

// A busy-wait loop must terminate thanks to the fair-yield rule.
func TestSpinLoopTerminates(t *testing.T) {
	body := func(x *sched.Exec) {
		var flag vatomic.Bool
		sched.Go(func() { flag.Store(true) })
		for !flag.Load() {
			sched.SpinYield()
		}
	}
	st, _ := explore(t, "spin", 2, 0, false, body, nil)
	if st.Horizon != 0 || st.Deadlocks != 0 {
		t.Fatalf("spin loop: horizon=%d deadlocks=%d", st.Horizon, st.Deadlocks)
	}
	// stutter detection: a daemon polling without SpinYield
	poll := func(x *sched.Exec) {
		var flag vatomic.Bool
		done := make(chan struct{})
		sched.Go(func() {
			for !flag.Load() {
			}
			sched.Close(done)
		})
		flag.Store(true)
		sched.ChR(done).Recv()
	}
	st, _ = explore(t, "stutter", 1, 0, false, poll, nil)
	if st.Horizon != 0 || st.Deadlocks != 0 {
		t.Fatalf("stutter loop: horizon=%d deadlocks=%d", st.Horizon, st.Deadlocks)
	}
}

// Replay determinism: the same choice sequence gives the same trace.
func TestReplayDeterminism(t *testing.T) {
	body := func(x *sched.Exec) {
		var mu vsync.Mutex
		ch := make(chan int, 1)
		m := map[string]int{"a": 1, "b": 2, "c": 3}
		var wg vsync.WaitGroup
		wg.Add(3)
		for i := 0; i < 3; i++ {
			sched.Go(func() {
				defer wg.Done()
				for _, k := range sched.SortedKeys(m) {
					mu.Lock()
					_ = k
					mu.Unlock()
				}
				s := sched.NewSelect(true)
				sched.ChS(ch).SendCase(s, i)
				s.Wait()
			})
		}
		wg.Wait()
	}
	x0 := sched.Run([]int{1, 0, 1, 1}, 5000, true, body)
	for i := 0; i < 200; i++ {
		x := sched.Run([]int{1, 0, 1, 1}, 5000, true, body)
		if strings.Join(x.Trace, "\n") != strings.Join(x0.Trace, "\n") {
			t.Fatalf("replay %d diverged:\n%v\nvs\n%v", i, x.Trace, x0.Trace)
		}
	}
}

// Pruning self-check: caching on and off must observe the same outcome sets.
func TestPruningSelfCheck(t *testing.T) {
	var log []int
	body := func(x *sched.Exec) {
		log = nil
		var mu vsync.Mutex
		var a vatomic.Int64
		var wg vsync.WaitGroup
		wg.Add(3)
		for i := 0; i < 3; i++ {
			sched.Go(func() {
				defer wg.Done()
				a.Add(1)
				mu.Lock()
				log = append(log, i)
				mu.Unlock()
				if sched.Choose(2, "flip") == 1 {
					mu.Lock()
					log = append(log, 10+i)
					mu.Unlock()
				}
			})
		}
		wg.Wait()
	}
	out := func(*sched.Exec) string { return fmt.Sprint(log) }
	s1, _ := explore(t, "prune", 2, 1, true, body, out)
	s2, _ := explore(t, "prune", 2, 1, false, body, out)
	if len(s1.Outcomes) != len(s2.Outcomes) {
		t.Fatalf("outcome sets differ: %d without cache, %d with", len(s1.Outcomes), len(s2.Outcomes))
	}
	for k := range s1.Outcomes {
		if s2.Outcomes[k] == 0 {
			t.Fatalf("outcome %s lost by caching", k)
		}
	}
	if s2.Execs >= s1.Execs {
		t.Logf("note: caching did not reduce executions (%d vs %d)", s2.Execs, s1.Execs)
	}
}

// TestRWMutexWriterPreference: sync.RWMutex blocks NEW readers as soon as a writer waits, so a
// thread that read-locks twice deadlocks with a writer arriving in between. The shim models the
// announcement of the writer as a step of its own: found with one preemption, not with zero; the
// twin that read-locks once is clean; TryLock / TryRLock follow the model.
func TestRWMutexWriterPreference(t *testing.T) {
	nested := func(x *sched.Exec) {
		var m vsync.RWMutex
		var wg vsync.WaitGroup
		wg.Add(2)
		sched.Go(func() { defer wg.Done(); m.RLock(); m.RLock(); m.RUnlock(); m.RUnlock() })
		sched.Go(func() { defer wg.Done(); m.Lock(); m.Unlock() })
		wg.Wait()
	}
	if st, _ := explore(t, "rw-nested", 0, 0, false, nested, nil); st.Deadlocks != 0 {
		t.Fatal("deadlock with 0 preemptions?")
	}
	st, r := explore(t, "rw-nested", 1, 0, false, nested, nil)
	if st.Deadlocks == 0 || !has(r, "deadlock") {
		t.Fatal("writer-preference deadlock (RLock; writer arrives; RLock) not found")
	}
	flat := func(x *sched.Exec) {
		var m vsync.RWMutex
		var wg vsync.WaitGroup
		n := 0
		wg.Add(3)
		sched.Go(func() { defer wg.Done(); m.RLock(); _ = n; m.RUnlock(); m.RLock(); _ = n; m.RUnlock() })
		sched.Go(func() { defer wg.Done(); m.RLock(); _ = n; m.RUnlock() })
		sched.Go(func() { defer wg.Done(); m.Lock(); n++; m.Unlock() })
		wg.Wait()
		if n != 1 {
			x.Fail("rw|lost", "n=%d", n)
		}
	}
	if st, r := explore(t, "rw-flat", 3, 0, false, flat, nil); st.Deadlocks != 0 || len(r.Keys()) != 0 {
		t.Fatalf("false finding on the non-nested twin: %v", r.Keys())
	}
	try := func(x *sched.Exec) {
		var m vsync.RWMutex
		var wg vsync.WaitGroup
		var got [2]bool
		wg.Add(2)
		sched.Go(func() {
			defer wg.Done()
			if m.TryLock() {
				got[0] = true
				sched.Yield("holding", &m)
				m.Unlock()
			}
		})
		sched.Go(func() {
			defer wg.Done()
			if m.TryRLock() {
				got[1] = true
				sched.Yield("reading", &m)
				m.RUnlock()
			}
		})
		wg.Wait()
		if !got[0] && !got[1] {
			x.Fail("rw|try", "both Try calls failed")
		}
	}
	outc := map[string]bool{}
	st, r = explore(t, "rw-try", 2, 0, true, try, func(x *sched.Exec) string { return "" })
	_ = outc
	if st.Deadlocks != 0 || len(r.Keys()) != 0 {
		t.Fatalf("TryLock/TryRLock: %v", r.Keys())
	}
}

// TestTryLockSeesHeldLock: a critical section without a visible operation inside can still be
// observed by a TryLock. The first TryLock executed in the process turns lock releases into
// scheduling points and the exploration starts over: "TryLock failed" is found with one preemption.
func TestTryLockSeesHeldLock(t *testing.T) {
	body := func(x *sched.Exec) {
		var m vsync.Mutex
		var wg vsync.WaitGroup
		n := 0
		failed := false
		wg.Add(2)
		sched.Go(func() { defer wg.Done(); m.Lock(); n++; m.Unlock() })
		sched.Go(func() {
			defer wg.Done()
			if m.TryLock() {
				n++
				m.Unlock()
			} else {
				failed = true
			}
		})
		wg.Wait()
		if failed {
			x.Fail("trylock|saw-held", "TryLock found the mutex held (n=%d)", n)
		}
	}
	if _, r := explore(t, "trylock", 0, 0, false, body, nil); has(r, "saw-held") {
		t.Fatal("TryLock failure with 0 preemptions?")
	}
	if _, r := explore(t, "trylock", 1, 0, false, body, nil); !has(r, "saw-held") {
		t.Fatal("a TryLock that meets the held mutex was not explored")
	}
}
