package otlpmetrichttp

// C14 — OTLP retry discipline, exporter otlpmetrichttp. Everything that is not specific to this
// package (alphabet, events, reference automaton, enumeration) is in internal/verifc14 (harness
// code, present in the scratch copy only). Seams: the Transport of the client's http.Client is
// replaced by the scripted RoundTripper (no socket is opened, the real http.Client and the real
// client code run), retry.waitFunc points at the recorder.

import (
	"context"
	"testing"
	"time"

	"google.golang.org/protobuf/proto"

	"go.opentelemetry.io/otel/attribute"
	"go.opentelemetry.io/otel/exporters/otlp/otlpmetric/otlpmetrichttp/internal/retry"
	"go.opentelemetry.io/otel/internal/verifc14"
	"go.opentelemetry.io/otel/sdk/instrumentation"
	"go.opentelemetry.io/otel/sdk/metric/metricdata"
	"go.opentelemetry.io/otel/sdk/resource"
	colmetricpb "go.opentelemetry.io/proto/otlp/collector/metrics/v1"
)

type c14Exporter struct {
	e  *Exporter
	rm *metricdata.ResourceMetrics
}

func (x c14Exporter) Export(ctx context.Context) error   { return x.e.Export(ctx, x.rm) }
func (x c14Exporter) Shutdown(ctx context.Context) error { return x.e.Shutdown(ctx) }

func c14Metrics() *metricdata.ResourceMetrics {
	t0 := time.Unix(1700000000, 0)
	return &metricdata.ResourceMetrics{
		Resource: resource.NewSchemaless(attribute.String("service.name", "c14")),
		ScopeMetrics: []metricdata.ScopeMetrics{{
			Scope: instrumentation.Scope{Name: "c14-scope"},
			Metrics: []metricdata.Metrics{{
				Name: "c14-metric",
				Data: metricdata.Gauge[int64]{DataPoints: []metricdata.DataPoint[int64]{{StartTime: t0, Time: t0.Add(time.Second), Value: 14}}},
			}},
		}},
	}
}

func c14Decode(b []byte) string {
	var req colmetricpb.ExportMetricsServiceRequest
	if err := proto.Unmarshal(b, &req); err != nil {
		return "not an ExportMetricsServiceRequest: " + err.Error()
	}
	if len(req.ResourceMetrics) != 1 || len(req.ResourceMetrics[0].ScopeMetrics) != 1 ||
		len(req.ResourceMetrics[0].ScopeMetrics[0].Metrics) != 1 || req.ResourceMetrics[0].ScopeMetrics[0].Metrics[0].Name != "c14-metric" {
		return "request does not hold exactly the exported metric"
	}
	return ""
}

func TestVerifC14(t *testing.T) {
	rm := c14Metrics()
	// what the second exporter of an Interleave configuration exports (other content, other size)
	foreign := c14Metrics()
	foreign.Resource = resource.NewSchemaless(attribute.String("service.name", "c14-the-other-exporter"))
	foreign.ScopeMetrics[0].Metrics[0].Name = "c14-metric-of-the-other-exporter"
	foreign.ScopeMetrics[0].Metrics = append(foreign.ScopeMetrics[0].Metrics, foreign.ScopeMetrics[0].Metrics[0])
	verifc14.Run(t, verifc14.Target{
		Name:          "otlpmetrichttp",
		HTTP:          true,
		Alphabet:      verifc14.HTTPAlphabet(),
		SetWait:       retry.VerifC14SetWait,
		Clock:         verifc14.ClockSeam{Advance: retry.VerifC14Advance, Reset: retry.VerifC14ResetClock, Reads: retry.VerifC14ClockReads},
		Reports:       verifc14.HTTPReports,
		DecodePayload: c14Decode,
		// Exporter.Shutdown takes clientMu, which Export holds for the whole upload.
		ShutdownMode: func(bool) verifc14.ShutMode { return verifc14.AsyncSerial },
		New: func(c verifc14.Config) verifc14.Exporter {
			comp := NoCompression
			if c.Gzip {
				comp = GzipCompression
			}
			host, payload := "c14.invalid:4318", rm
			if c.Foreign {
				host, payload = verifc14.ForeignHost, foreign
			}
			e, err := New(context.Background(), WithInsecure(), WithEndpoint(host), WithCompression(comp),
				WithRetry(RetryConfig{Enabled: c.Enabled, InitialInterval: c.Initial, MaxInterval: c.MaxInterval, MaxElapsedTime: c.MaxElapsed}))
			if err != nil {
				panic(err)
			}
			e.client.(*client).httpClient.Transport = verifc14.RoundTripper()
			return c14Exporter{e: e, rm: payload}
		},
	})
}
