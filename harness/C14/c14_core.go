// Package verifc14 is the shared part of the C14 check (OTLP export retry discipline). The
// driver copies it into the SCRATCH copy of the repository (internal/verifc14), never into
// /repo; the six in-package harness files (one per OTLP exporter) only construct the real
// exporter, install the seams and call Run.
//
// What is here: the outcome alphabet of the HTTP transport, the retry configurations, the
// cancellation / shutdown events, a scriptable context, the recorders behind the two seams
// (collector answer, retry wait), the reference automaton of the property statement
// (predict), the comparison (judge) and the breadth-first enumeration of scripts.
package verifc14

import (
	"bytes"
	"compress/gzip"
	"context"
	"fmt"
	"io"
	"net/http"
	"os"
	"runtime"
	"sort"
	"strconv"
	"strings"
	"sync"
	"sync/atomic"
	"testing"
	"time"

	"go.opentelemetry.io/otel"
	"verif/mc/enum"
)

// ---------------------------------------------------------------------------------------
// alphabet

// Class is what the property statement says about one collector answer.
type Class int

const (
	Success         Class = iota // delivered
	PartialRejected              // delivered, partial-success message with rejected > 0
	PartialMessage               // delivered, partial-success message with text only
	PartialEmpty                 // delivered, empty partial-success message
	Retryable                    // may be re-sent
	NonRetryable                 // must be reported, never re-sent
)

func (c Class) delivered() bool { return c <= PartialEmpty }

const (
	HintSmall = 120 * time.Second  // a server-supplied delay that fits into the "long" elapsed limit
	HintLarge = 7200 * time.Second // a server-supplied delay beyond every configured elapsed limit
)

// Sym is one collector answer (one letter of a fault word).
type Sym struct {
	Name     string        // unique; used in job names and case descriptions
	Group    string        // class used in finding keys
	Class    Class         // classification by the property statement (NOT by the code under test)
	Hint     time.Duration // server-supplied minimum delay before the next attempt, 0 = none
	HintKind string        // "Retry-After delta-seconds" | "RetryInfo"
	Thorough bool          // only part of the thorough tier's alphabet

	// HTTP
	Status     int
	RetryAfter string // header value, "" = header absent
	Location   string // HTTP: a Location header (3xx answers)
	NetErr     int    // 1 temporary network error, 2 permanent network error
	// gRPC
	Code        uint32
	RetryInfo   bool          // status carries a RetryInfo detail ...
	DetailFirst bool          // gRPC: an unrelated error detail precedes the RetryInfo in the status
	NilDelay    bool          // gRPC: RetryInfo without a RetryDelay (a zero delay)
	Delay       time.Duration // ... with this RetryDelay (a Hint only where the statement allows a retry)
	// partial success content
	Rejected int64
	Message  string
	// response framing: the body length is not announced (chunked / HTTP2 / transparently
	// inflated gzip responses reach the client with ContentLength -1)
	NoLength bool
}

var success = &Sym{Name: "ok(tail)", Group: "success", Class: Success, Status: 200}

// HTTPAlphabet: the statement's retryable set is 429/502/503/504 and temporary network
// errors; everything else that is not 2xx is non-retryable.
func HTTPAlphabet() []Sym {
	ra := func(d time.Duration) string { return strconv.FormatInt(int64(d/time.Second), 10) }
	st := func(code int, cl Class, thorough bool) Sym {
		return Sym{Name: strconv.Itoa(code), Group: "HTTP " + strconv.Itoa(code), Class: cl, Status: code, Thorough: thorough}
	}
	hint := func(code int, d time.Duration, thorough bool) Sym {
		s := st(code, Retryable, thorough)
		s.Name += "-RetryAfter" + ra(d)
		s.Hint, s.HintKind, s.RetryAfter = d, "Retry-After delta-seconds", ra(d)
		return s
	}
	return []Sym{
		st(200, Success, false),
		{Name: "200-partial-rejected", Group: "partial success", Class: PartialRejected, Status: 200, Rejected: 3, Message: "c14 rejected"},
		{Name: "200-partial-rejected-all", Group: "partial success (everything sent was rejected)", Class: PartialRejected, Status: 200, Rejected: 1, Message: "c14 rejected all"},
		{Name: "200-partial-message", Group: "partial success (message only)", Class: PartialMessage, Status: 200, Message: "c14 warning"},
		{Name: "200-partial-rejected-nolength", Group: "partial success (response without Content-Length)", Class: PartialRejected, Status: 200, Rejected: 3, Message: "c14 rejected", NoLength: true},
		{Name: "200-partial-empty", Group: "success", Class: PartialEmpty, Status: 200, Thorough: true},
		st(204, Success, true),
		st(429, Retryable, false),
		hint(429, HintSmall, false),
		hint(429, HintLarge, false),
		st(502, Retryable, false),
		hint(502, HintSmall, false),
		st(503, Retryable, false),
		hint(503, HintSmall, false),
		{Name: "503-RetryAfter0", Group: "HTTP 503", Class: Retryable, Status: 503, RetryAfter: "0", Thorough: true},
		st(504, Retryable, false),
		hint(504, HintLarge, false),
		{Name: "net-temporary", Group: "temporary network error", Class: Retryable, NetErr: 1},
		{Name: "net-permanent", Group: "permanent network error", Class: NonRetryable, NetErr: 2},
		st(301, NonRetryable, true), // no Location header: handed to the caller as it is
		// redirects WITH a Location: not a retryable outcome -- the call ends at that attempt with an
		// error; in particular the payload is not sent (or a bodiless GET made) to another URL
		{Name: "302-Location", Group: "HTTP 302 with a Location header", Class: NonRetryable, Status: 302, Location: "http://c14-elsewhere.invalid:4318/v1/x"},
		{Name: "307-Location", Group: "HTTP 307 with a Location header", Class: NonRetryable, Status: 307, Location: "http://c14-elsewhere.invalid:4318/v1/x", Thorough: true},
		st(400, NonRetryable, false),
		st(404, NonRetryable, false),
		st(408, NonRetryable, true),
		st(500, NonRetryable, false),
		st(501, NonRetryable, false),
	}
}

// ---------------------------------------------------------------------------------------
// configurations, events, target

// Config is one retry configuration handed to the exporter's WithRetry / WithCompression.
type Config struct {
	Name        string
	Enabled     bool
	Initial     time.Duration
	MaxInterval time.Duration
	MaxElapsed  time.Duration // 0 = no limit
	Gzip        bool          // HTTP only
	Interleave  bool          // HTTP only: a second exporter of the same package (other endpoint, other payload) completes an export while attempt 1 of the scripted export is in flight
	Foreign     bool          // set by the core when it asks Target.New for that second exporter
	Headers     bool          // gRPC only: the exporter is configured with headers (they travel as outgoing metadata of the export context)
	Virtual     bool          // job "elapsed": every recorded wait advances the clock the retry package reads (Target.Clock)
}

// ForeignHost is the endpoint host of the second exporter of an Interleave configuration; the
// scripted transport answers it with 200 at once and does not record it.
const ForeignHost = "c14-foreign.invalid:4318"

func configs(isHTTP, thorough bool) []Config {
	cs := []Config{
		{Name: "disabled"},
		{Name: "nolimit", Enabled: true, Initial: 5 * time.Second, MaxInterval: 30 * time.Second},
		{Name: "short-limit", Enabled: true, Initial: 5 * time.Second, MaxInterval: 30 * time.Second, MaxElapsed: 60 * time.Second},
		{Name: "long-limit", Enabled: true, Initial: 300 * time.Second, MaxInterval: 300 * time.Second, MaxElapsed: 3600 * time.Second},
	}
	if isHTTP {
		cs = append(cs, Config{Name: "nolimit-gzip", Enabled: true, Initial: 5 * time.Second, MaxInterval: 30 * time.Second, Gzip: true})
		cs = append(cs, Config{Name: "nolimit-gzip-interleaved", Enabled: true, Initial: 5 * time.Second, MaxInterval: 30 * time.Second, Gzip: true, Interleave: true})
		cs = append(cs, Config{Name: "nolimit-interleaved", Enabled: true, Initial: 5 * time.Second, MaxInterval: 30 * time.Second, Interleave: true})
	}
	if !isHTTP {
		cs = append(cs, Config{Name: "nolimit-headers", Enabled: true, Initial: 5 * time.Second, MaxInterval: 30 * time.Second, Headers: true})
	}
	// back-off 1 ns: the requested wait is the server's delay and nothing else, in whatever unit the
	// client read it -- the one configuration that tells "delay honoured in the wrong unit" (the
	// recorded Retry-After finding) from "delay not honoured at all"
	cs = append(cs, Config{Name: "zero-backoff", Enabled: true, Initial: time.Nanosecond, MaxInterval: time.Nanosecond, MaxElapsed: 3600 * time.Second})
	if thorough {
		if isHTTP {
			cs = append(cs, Config{Name: "disabled-gzip", Gzip: true})
		}
	}
	return cs
}

type EvKind int

const (
	EvNone         EvKind = iota
	EvBeforeCall          // the caller's context has ended before Export is called
	EvAtAttempt           // while attempt Pos is in flight (slow answer)
	EvAtWait              // while the Pos-th retry wait is pending
	EvAtAttemptEnd        // as the answer of attempt Pos is delivered (real-wait section only)
)

type EvWhat int

const (
	CtxCancel       EvWhat = iota // caller's context cancelled
	CtxDeadline                   // caller's context deadline exceeded
	ShutdownBg                    // exporter Shutdown(context.Background())
	ShutdownExpired               // exporter Shutdown(ctx) with an already cancelled ctx
)

func (w EvWhat) isCtx() bool { return w <= CtxDeadline }
func (w EvWhat) String() string {
	return [...]string{"context cancelled", "context deadline exceeded", "Shutdown(background)", "Shutdown(cancelled ctx)"}[w]
}

// Event is the one cancellation / shutdown point of a script.
type Event struct {
	Kind      EvKind
	Pos       int
	What      EvWhat
	TimerWins bool // EvAtWait: timer and event coincide, the wait still reports "elapsed"
	Async     bool // EvAtAttemptEnd: triggered from another goroutine
}

func (e Event) String() string {
	switch e.Kind {
	case EvNone:
		return "none"
	case EvBeforeCall:
		return e.What.String() + " before the call"
	case EvAtAttempt:
		return fmt.Sprintf("%s while attempt %d is in flight", e.What, e.Pos)
	case EvAtWait:
		s := fmt.Sprintf("%s during retry wait %d", e.What, e.Pos)
		if e.TimerWins {
			s += " (wait elapses at the same instant)"
		}
		return s
	case EvAtAttemptEnd:
		s := fmt.Sprintf("%s as the answer of attempt %d arrives", e.What, e.Pos)
		if e.Async {
			s += " (from another goroutine)"
		}
		return s
	}
	return "?"
}

// ShutMode says how the harness has to drive a Shutdown that overlaps an export; it is
// knowledge about how to call the exporter, not an oracle (see predict for what is demanded).
type ShutMode int

const (
	SyncInterrupt  ShutMode = iota // Shutdown returns at once and cancels the in-flight export asynchronously
	AsyncInterrupt                 // Shutdown cancels the in-flight export and returns when it has ended
	AsyncSerial                    // Shutdown waits for the in-flight export, which continues unimpeded
	SyncContinue                   // Shutdown returns at once, the in-flight export is not told
)

func (m ShutMode) interrupts() bool { return m == SyncInterrupt || m == AsyncInterrupt }
func (m ShutMode) String() string {
	return [...]string{"returns at once, interrupts the export", "interrupts the export, returns after it", "waits for the export", "returns at once, export not interrupted"}[m]
}

// Exporter is the real exporter with a fixed one-element payload.
type Exporter interface {
	Export(context.Context) error
	Shutdown(context.Context) error
}

// Target describes one exporter package.
type Target struct {
	Name          string
	HTTP          bool
	Alphabet      []Sym
	New           func(Config) Exporter
	ShutdownMode  func(expired bool) ShutMode
	SetWait       func(func(context.Context, time.Duration) error)
	Reports       func(err error, s *Sym) bool // does err identify the non-retryable answer s
	DecodePayload func(b []byte) string        // "" if b is the export request holding the harness' one element
	Clock         ClockSeam                    // optional: the clock the retry package reads (job "elapsed")
}

// ClockSeam: in the scratch copy the retry package's time.Now / time.Since calls are pointed at
// a clock that is the real one plus an offset the harness advances (c14_retry_seam.go).
type ClockSeam struct {
	Advance func(time.Duration)
	Reset   func()
	Reads   func() int64 // how often the retry package has read the clock through the seam
}

// ---------------------------------------------------------------------------------------
// scriptable context (ends synchronously, with either error)

type scriptCtx struct {
	mu   sync.Mutex
	done chan struct{}
	err  error
	fns  map[int]func()
	next int
}

func newScriptCtx() *scriptCtx { return &scriptCtx{done: make(chan struct{}), fns: map[int]func(){}} }

func (c *scriptCtx) Deadline() (time.Time, bool) { return time.Time{}, false }
func (c *scriptCtx) Done() <-chan struct{}       { return c.done }
func (c *scriptCtx) Value(any) any               { return nil }
func (c *scriptCtx) Err() error {
	c.mu.Lock()
	defer c.mu.Unlock()
	return c.err
}

// AfterFunc makes package context propagate the end to derived contexts synchronously.
func (c *scriptCtx) AfterFunc(f func()) func() bool {
	c.mu.Lock()
	if c.err != nil {
		c.mu.Unlock()
		f()
		return func() bool { return false }
	}
	id := c.next
	c.next++
	c.fns[id] = f
	c.mu.Unlock()
	return func() bool {
		c.mu.Lock()
		defer c.mu.Unlock()
		_, ok := c.fns[id]
		delete(c.fns, id)
		return ok
	}
}

func (c *scriptCtx) end(err error) {
	c.mu.Lock()
	if c.err != nil {
		c.mu.Unlock()
		return
	}
	c.err = err
	close(c.done)
	ids := make([]int, 0, len(c.fns))
	for id := range c.fns {
		ids = append(ids, id)
	}
	sort.Ints(ids)
	fs := make([]func(), 0, len(ids))
	for _, id := range ids {
		fs = append(fs, c.fns[id])
	}
	c.fns = map[int]func(){}
	c.mu.Unlock()
	for _, f := range fs {
		f()
	}
}

// ---------------------------------------------------------------------------------------
// one execution: recorders behind the seams

type step struct {
	k  byte // 'A' answered attempt, 'I' attempt interrupted, 'R' refused (context already ended), 'W' wait elapsed, 'X' wait interrupted, 'D' wait asked with an ended context, 'S' Shutdown returned
	n  int
	d  time.Duration
	s  *Sym
	ev bool // the script's event happened inside this step
}

type runState struct {
	tg   *Target
	word []*Sym
	ev   Event
	uctx *scriptCtx
	exp  Exporter
	real bool // real wait function in place
	virt bool // recorded waits advance the retry package's clock

	noDeadline  int      // gRPC: first attempt whose context carried no deadline (0 = none)
	foreign     Exporter // Interleave configurations: exports once while attempt 1 is in flight
	foreignErr  error
	foreignDone bool

	steps      []step
	attempts   int
	liveWaits  int
	refused    int
	dead       int
	first      []byte
	payloadBad string
	afterShut  int // first attempt that started after Shutdown had returned
	handler    []string

	shutStarted bool
	shutRet     atomic.Bool
	shutDone    chan struct{}
	shutErr     error
	mode        ShutMode // how this run's Shutdown is driven (declared by the target, corrected by observation)
	declared    ShutMode // what the target declares for this event
	modeNote    string

	err      error
	returned bool
	panicked any
	aborted  string
	blocked  string
}

var (
	cur      *runState
	lastGood []byte // the last first-attempt payload that decoded to the expected export request
)

const (
	watchdog     = 30 * time.Second // liveness only: nothing in a recorded run sleeps
	awaitTimeout = 10 * time.Second
	syncTimeout  = 3 * time.Second
)

func (rs *runState) abort(why string) {
	rs.aborted = why
	runtime.Goexit()
}

func await(ctx context.Context) bool {
	t := time.NewTimer(awaitTimeout)
	defer t.Stop()
	select {
	case <-ctx.Done():
		return true
	case <-t.C:
		return false
	}
}

// trigger makes the script's event happen; ctx is the context the exporter handed to the seam.
func (rs *runState) trigger(ctx context.Context) {
	switch rs.ev.What {
	case CtxCancel:
		rs.uctx.end(context.Canceled)
	case CtxDeadline:
		rs.uctx.end(context.DeadlineExceeded)
	case ShutdownBg, ShutdownExpired:
		sctx := context.Background()
		if rs.ev.What == ShutdownExpired {
			c, cancel := context.WithCancel(sctx)
			cancel()
			sctx = c
		}
		rs.shutStarted = true
		rs.shutDone = make(chan struct{})
		call := func() {
			defer close(rs.shutDone)
			rs.shutErr = rs.exp.Shutdown(sctx)
			rs.shutRet.Store(true)
		}
		// A Shutdown declared to return at once is still called from its own goroutine: if it turns
		// out to wait for the export (the declaration no longer fits the tree under test), the run
		// goes on as AsyncSerial / AsyncInterrupt instead of deadlocking the harness.
		returned := func() bool {
			t := time.NewTimer(syncTimeout)
			defer t.Stop()
			select {
			case <-rs.shutDone:
				return true
			case <-t.C:
				return false
			}
		}
		switch rs.mode {
		case SyncInterrupt:
			go call()
			if returned() {
				rs.steps = append(rs.steps, step{k: 'S'})
			} else {
				rs.mode, rs.modeNote = AsyncInterrupt, "Shutdown did not return while the export was in flight"
			}
			if !await(ctx) {
				rs.modeNote = "the export's context was not cancelled"
				if rs.mode == SyncInterrupt {
					rs.mode = SyncContinue
				} else {
					rs.mode = AsyncSerial
				}
			}
		case AsyncInterrupt:
			go call()
			if !await(ctx) {
				rs.mode, rs.modeNote = AsyncSerial, "the export's context was not cancelled"
			}
		case AsyncSerial:
			go call()
		case SyncContinue:
			go call()
			if returned() {
				rs.steps = append(rs.steps, step{k: 'S'})
			} else {
				rs.mode, rs.modeNote = AsyncSerial, "Shutdown did not return while the export was in flight"
			}
		}
	}
}

// NoteGRPCContext is called by the gRPC service-client fakes with the context of every call: the
// export timeout (10 s unless configured otherwise) has to bound each of them, whatever else the
// exporter attaches to the context.
func NoteGRPCContext(ctx context.Context) {
	rs := cur
	if _, ok := ctx.Deadline(); !ok && rs.noDeadline == 0 && ctx.Err() == nil {
		rs.noDeadline = rs.attempts + 1
	}
}

// Attempt is called by the transport fakes for every request the exporter makes. It returns
// the scripted answer, or the context's error when a real transport would not have delivered
// the request / the answer (context already ended, or ended while the answer was pending).
func Attempt(ctx context.Context, payload []byte, check func() string) (*Sym, error) {
	rs := cur
	if err := ctx.Err(); err != nil {
		rs.refused++
		rs.steps = append(rs.steps, step{k: 'R', n: rs.refused})
		if rs.refused > 40 {
			rs.abort("the exporter keeps sending although its context has ended")
		}
		return nil, err
	}
	rs.attempts++
	n := rs.attempts
	if n > len(rs.word)+4 {
		rs.abort("the exporter keeps re-sending after success")
	}
	if rs.shutRet.Load() && rs.afterShut == 0 {
		rs.afterShut = n
	}
	if n == 1 {
		rs.first = append([]byte(nil), payload...)
		if check != nil && !bytes.Equal(payload, lastGood) { // byte-identical to a request already decoded: skip
			rs.payloadBad = check()
			if rs.payloadBad != "" {
				rs.payloadBad = "attempt 1: " + rs.payloadBad
			} else {
				lastGood = rs.first
			}
		}
	} else if rs.payloadBad == "" && !bytes.Equal(rs.first, payload) {
		rs.payloadBad = fmt.Sprintf("attempt %d differs from attempt 1 (%d vs %d bytes incl. request line and content headers)", n, len(payload), len(rs.first))
	}
	s := success
	if n <= len(rs.word) {
		s = rs.word[n-1]
	}
	if rs.ev.Kind == EvAtAttempt && rs.ev.Pos == n {
		rs.trigger(ctx)
		if err := ctx.Err(); err != nil {
			rs.steps = append(rs.steps, step{k: 'I', n: n, s: s, ev: true})
			return nil, err
		}
		rs.steps = append(rs.steps, step{k: 'A', n: n, s: s, ev: true})
		return s, nil
	}
	rs.steps = append(rs.steps, step{k: 'A', n: n, s: s})
	if rs.ev.Kind == EvAtAttemptEnd && rs.ev.Pos == n {
		if rs.ev.Async {
			go rs.trigger(ctx)
		} else {
			rs.trigger(ctx)
		}
	}
	return s, nil
}

// Wait is what the retry package's waitFunc points at: nothing sleeps, the requested delay is
// recorded and counts as elapsed; a wait asked for with an ended context fails at once, as the
// real one does.
func Wait(ctx context.Context, d time.Duration) error {
	rs := cur
	if err := ctx.Err(); err != nil {
		rs.dead++
		rs.steps = append(rs.steps, step{k: 'D', n: rs.dead, d: d})
		if rs.dead > 40 {
			rs.abort("the exporter keeps asking to wait although its context has ended")
		}
		return err
	}
	rs.liveWaits++
	n := rs.liveWaits
	if n > len(rs.word)+8 {
		rs.abort("the exporter keeps waiting without sending")
	}
	if rs.ev.Kind == EvAtWait && rs.ev.Pos == n {
		rs.trigger(ctx)
		if err := ctx.Err(); err != nil && !rs.ev.TimerWins {
			rs.steps = append(rs.steps, step{k: 'X', n: n, d: d, ev: true})
			return err
		}
		rs.steps = append(rs.steps, step{k: 'W', n: n, d: d, ev: true})
		rs.advance(d)
		return nil
	}
	rs.steps = append(rs.steps, step{k: 'W', n: n, d: d})
	rs.advance(d)
	return nil
}

func (rs *runState) advance(d time.Duration) {
	if rs.virt && rs.tg.Clock.Advance != nil && d > 0 {
		rs.tg.Clock.Advance(d)
	}
}

func handle(err error) {
	if rs := cur; rs != nil && err != nil {
		rs.handler = append(rs.handler, err.Error())
	}
}

// ---------------------------------------------------------------------------------------
// HTTP transport fake (registered for the "http" scheme on the package's own transport)

type tempNetErr struct{}

func (tempNetErr) Error() string   { return "c14: connection reset (temporary)" }
func (tempNetErr) Temporary() bool { return true }
func (tempNetErr) Timeout() bool   { return false }

type permNetErr struct{}

func (permNetErr) Error() string { return "c14: no route to host (permanent)" }

var (
	errTemp error = tempNetErr{}
	errPerm error = permNetErr{}
)

// PartialBody is the wire form of Export{Trace,Metrics,Logs}ServiceResponse with a
// partial_success member: in all three, field 1 of the response is the partial-success message
// and its fields 1 / 2 are the rejected count (int64) and the error message (string).
func PartialBody(rejected int64, msg string) []byte {
	var p []byte
	if rejected != 0 {
		p = append(p, 0x08, byte(rejected)) // rejected < 128
	}
	if msg != "" {
		p = append(p, 0x12, byte(len(msg)))
		p = append(p, msg...)
	}
	return append([]byte{0x0a, byte(len(p))}, p...)
}

type roundTripper struct{}

// RoundTripper returns the scripted transport; it never opens a socket.
func RoundTripper() http.RoundTripper { return roundTripper{} }

func (roundTripper) RoundTrip(req *http.Request) (*http.Response, error) {
	var body []byte
	if req.Body != nil {
		body, _ = io.ReadAll(req.Body)
		req.Body.Close()
	}
	if req.URL.Host == ForeignHost { // the second exporter of an Interleave configuration: delivered, not recorded
		return &http.Response{Status: "200 OK", StatusCode: 200, Proto: "HTTP/1.1", ProtoMajor: 1, ProtoMinor: 1,
			Header: http.Header{}, Body: io.NopCloser(bytes.NewReader(nil)), ContentLength: 0, Request: req}, nil
	}
	if rs := cur; rs.foreign != nil && !rs.foreignDone {
		// attempt 1 of the scripted export is in flight (its body has been read): another
		// exporter of the same package builds, sends and completes a request of its own now
		rs.foreignDone = true
		rs.foreignErr = rs.foreign.Export(context.Background())
	}
	enc := req.Header.Get("Content-Encoding")
	var id bytes.Buffer
	fmt.Fprintf(&id, "%s %s ct=%q ce=%q cl=%d\n", req.Method, req.URL, req.Header.Get("Content-Type"), enc, req.ContentLength)
	id.Write(body)
	check := func() string {
		if req.ContentLength >= 0 && req.ContentLength != int64(len(body)) {
			return fmt.Sprintf("Content-Length %d but %d body bytes", req.ContentLength, len(body))
		}
		raw := body
		if enc == "gzip" {
			zr, err := gzip.NewReader(bytes.NewReader(body))
			if err != nil {
				return "body is not gzip: " + err.Error()
			}
			if raw, err = io.ReadAll(zr); err != nil {
				return "body is not gzip: " + err.Error()
			}
		}
		return cur.tg.DecodePayload(raw)
	}
	s, err := Attempt(req.Context(), id.Bytes(), check)
	if err != nil {
		return nil, err
	}
	switch s.NetErr {
	case 1:
		return nil, errTemp
	case 2:
		return nil, errPerm
	}
	h := http.Header{}
	var rb []byte
	switch {
	case s.Class == PartialRejected || s.Class == PartialMessage || s.Class == PartialEmpty:
		rb = PartialBody(s.Rejected, s.Message)
		h.Set("Content-Type", "application/x-protobuf")
	case s.Status >= 300:
		rb = []byte("c14 answer " + strconv.Itoa(s.Status))
		h.Set("Content-Type", "text/plain")
	}
	if s.RetryAfter != "" {
		h.Set("Retry-After", s.RetryAfter)
	}
	if s.Location != "" {
		h.Set("Location", s.Location)
	}
	return &http.Response{
		Status:     strconv.Itoa(s.Status) + " " + http.StatusText(s.Status),
		StatusCode: s.Status,
		Proto:      "HTTP/1.1",
		ProtoMajor: 1,
		ProtoMinor: 1,
		Header:     h,
		Body:       io.NopCloser(bytes.NewReader(rb)),
		ContentLength: func() int64 {
			if s.NoLength {
				return -1
			}
			return int64(len(rb))
		}(),
		Request: req,
	}, nil
}

// HTTPReports: the error returned for a non-retryable answer has to identify it.
func HTTPReports(err error, s *Sym) bool {
	if err == nil {
		return false
	}
	if s.NetErr == 2 {
		return strings.Contains(err.Error(), errPerm.Error())
	}
	return strings.Contains(err.Error(), strconv.Itoa(s.Status))
}

// ---------------------------------------------------------------------------------------
// reference automaton of the property statement

const (
	finNil    = iota // Export returns nil
	finErrSym        // Export returns an error identifying the answer
	finErrAny        // Export returns an error
)

type expect struct {
	attempts int    // requests that reach the collector
	final    int    // fin*
	sym      *Sym   // the answer the automaton stopped at
	reason   string // why it stopped (part of finding keys)
	giveUp   bool   // stopped although the last answer was retryable: must not block any further
	handler  bool   // at least one error-handler report required
}

// predict is the statement, read as an automaton over (fault word, configuration, event):
//   - an attempt is answered by the next letter of the word, by success once the word is used up;
//   - success (with or without partial-success message) ends the call with nil, a rejection
//     count is reported to the error handler; a non-retryable answer ends it with an error
//     identifying the answer;
//   - a retryable answer is followed by a wait of at least the server's delay and another
//     attempt, unless retrying is disabled, the server's delay alone exceeds MaxElapsedTime, the
//     context has ended, or the exporter has been shut down and Shutdown has returned: then the
//     call ends with an error and neither waits nor sends again.
//
// A Shutdown that waits for the in-flight export (AsyncSerial) changes nothing for that export.
func predict(word []*Sym, cfg Config, ev Event, mode ShutMode) expect {
	if ev.Kind == EvBeforeCall {
		return expect{attempts: 0, final: finErrAny, reason: "context ended before the call", giveUp: true}
	}
	shutReturned := false
	stops := func() bool { return ev.What.isCtx() || mode.interrupts() }
	for i := 1; ; i++ {
		s := success
		if i <= len(word) {
			s = word[i-1]
		}
		if ev.Kind == EvAtAttempt && ev.Pos == i {
			if stops() {
				return expect{attempts: i, final: finErrAny, sym: s, reason: ev.What.String() + " during an attempt", giveUp: true}
			}
			if mode == SyncContinue {
				shutReturned = true
			}
		}
		if s.Class.delivered() {
			r := "success"
			if s.Class == PartialRejected || s.Class == PartialMessage {
				r = s.Group
			}
			return expect{attempts: i, final: finNil, sym: s, reason: r, handler: s.Class == PartialRejected}
		}
		if s.Class == NonRetryable {
			return expect{attempts: i, final: finErrSym, sym: s, reason: "non-retryable " + s.Group}
		}
		switch {
		case shutReturned:
			return expect{attempts: i, final: finErrAny, sym: s, reason: "Shutdown returned", giveUp: true}
		case !cfg.Enabled:
			return expect{attempts: i, final: finErrAny, sym: s, reason: "retryable answer with retry disabled", giveUp: true}
		case cfg.MaxElapsed != 0 && s.Hint > cfg.MaxElapsed:
			return expect{attempts: i, final: finErrAny, sym: s, reason: "server delay (" + s.HintKind + ") beyond MaxElapsedTime", giveUp: true}
		}
		if (ev.Kind == EvAtWait || ev.Kind == EvAtAttemptEnd) && ev.Pos == i {
			if stops() {
				return expect{attempts: i, final: finErrAny, sym: s, reason: ev.What.String() + " during a retry wait", giveUp: true}
			}
			if mode == SyncContinue {
				return expect{attempts: i, final: finErrAny, sym: s, reason: "Shutdown returned", giveUp: true}
			}
		}
	}
}

// ---------------------------------------------------------------------------------------
// enumeration

type script struct {
	word []*Sym
	ev   Event
}

func (sc script) wordNames() []string {
	ns := make([]string, len(sc.word))
	for i, s := range sc.word {
		ns[i] = s.Name
	}
	return ns
}

type driver struct {
	r      *enum.R
	tg     *Target
	alpha  []*Sym
	cfgs   []Config
	maxLen int
	wd     *time.Timer
	work   chan func()
	halt   bool
	// Shutdown behaviour observed to differ from the target's declaration
	observed map[bool]ShutMode
	aged     Exporter // job "aged": the exporter every script of the job runs on
}

func (d *driver) exec(sc script, cfg Config, realWait bool) *runState {
	rs := &runState{tg: d.tg, word: sc.word, ev: sc.ev, uctx: newScriptCtx(), real: realWait, mode: d.mode(sc.ev)}
	declared := rs.mode
	rs.declared = d.tg.ShutdownMode(sc.ev.What == ShutdownExpired)
	defer func() {
		if rs.mode != declared { // keep what was observed for the rest of the job
			d.observed[sc.ev.What == ShutdownExpired] = rs.mode
			d.r.Note("%s: driven as %q from here on (%s)", sc.ev.What, rs.mode.String(), rs.modeNote)
		}
	}()
	cur = rs
	rs.virt = cfg.Virtual
	if d.tg.Clock.Reset != nil {
		d.tg.Clock.Reset()
	}
	if sc.ev.Kind == EvBeforeCall {
		rs.trigger(nil)
	}
	if d.aged != nil {
		rs.exp = d.aged // job "aged": one exporter, built a while ago, serves every script
	} else {
		rs.exp = d.tg.New(cfg)
	}
	if cfg.Interleave {
		fc := cfg
		fc.Foreign = true
		rs.foreign = d.tg.New(fc)
	}
	if realWait {
		d.tg.SetWait(nil)
		defer d.tg.SetWait(Wait)
	}
	done := make(chan struct{})
	if d.work == nil {
		d.work = make(chan func())
		go func(c chan func()) { // one goroutine runs all exports of a job (its stack is grown once)
			for f := range c {
				f()
			}
		}(d.work)
	}
	d.work <- func() {
		defer close(done)
		defer func() {
			if p := recover(); p != nil {
				rs.panicked = p
			}
		}()
		rs.err = rs.exp.Export(rs.uctx)
		rs.returned = true
	}
	d.arm()
	select {
	case <-done:
	case <-d.wd.C:
		rs.blocked = "Export has not returned"
		d.halt = true // the abandoned goroutine still owns the seams
		return rs
	}
	if rs.aborted != "" {
		d.work = nil // the harness ended that goroutine (runtime.Goexit)
	}
	if rs.shutStarted {
		d.arm()
		select {
		case <-rs.shutDone:
		case <-d.wd.C:
			rs.blocked = "Shutdown has not returned although Export has"
			d.halt = true
		}
	}
	return rs
}

func (d *driver) arm() {
	if !d.wd.Stop() {
		select {
		case <-d.wd.C:
		default:
		}
	}
	d.wd.Reset(watchdog)
}

func (rs *runState) render() string {
	var b strings.Builder
	for i, st := range rs.steps {
		if i > 0 {
			b.WriteByte(' ')
		}
		switch st.k {
		case 'A':
			fmt.Fprintf(&b, "attempt%d:%s", st.n, st.s.Name)
		case 'I':
			fmt.Fprintf(&b, "attempt%d:%s(interrupted)", st.n, st.s.Name)
		case 'R':
			b.WriteString("send-with-ended-context")
		case 'W':
			fmt.Fprintf(&b, "wait(%v)", st.d)
		case 'X':
			fmt.Fprintf(&b, "wait(%v,interrupted)", st.d)
		case 'D':
			b.WriteString("wait-with-ended-context")
		case 'S':
			b.WriteString("Shutdown-returned")
		}
		if st.ev && st.k != 'I' && st.k != 'X' {
			b.WriteString("[event]")
		}
	}
	switch {
	case rs.blocked != "":
		fmt.Fprintf(&b, " => BLOCKED (%s)", rs.blocked)
	case rs.panicked != nil:
		fmt.Fprintf(&b, " => PANIC %v", rs.panicked)
	case rs.aborted != "":
		fmt.Fprintf(&b, " => STOPPED BY THE HARNESS (%s)", rs.aborted)
	case rs.err == nil:
		b.WriteString(" => nil")
	default:
		fmt.Fprintf(&b, " => error %q", rs.err.Error())
	}
	if len(rs.handler) > 0 {
		fmt.Fprintf(&b, "; error handler: %q", rs.handler)
	}
	return b.String()
}

// outcome is the observable behaviour without the random back-off values.
func (rs *runState) outcome(tg *Target, ex expect) string {
	fin := "nil"
	switch {
	case rs.blocked != "":
		fin = "blocked"
	case rs.panicked != nil:
		fin = "panic"
	case rs.aborted != "":
		fin = "runaway"
	case rs.err != nil:
		fin = "error"
		if ex.sym != nil && ex.sym.Class == NonRetryable && tg.Reports(rs.err, ex.sym) {
			fin = "error:" + ex.sym.Group
		}
	}
	var b strings.Builder
	for _, st := range rs.steps {
		b.WriteByte(st.k) // waits by their place, not by their (random back-off) length
	}
	b.WriteByte('|')
	b.WriteString(fin)
	b.WriteString("|handler=")
	b.WriteString(strconv.Itoa(len(rs.handler)))
	if rs.shutStarted {
		b.WriteString("|shutdown")
	}
	return b.String()
}

func (d *driver) describe(sc script, cfg Config, ex expect, rs *runState) map[string]any {
	m := map[string]any{
		"exporter": d.tg.Name,
		"config":   fmt.Sprintf("%s {Enabled:%v InitialInterval:%v MaxInterval:%v MaxElapsedTime:%v gzip:%v}", cfg.Name, cfg.Enabled, cfg.Initial, cfg.MaxInterval, cfg.MaxElapsed, cfg.Gzip) + map[bool]string{false: "", true: "; WithHeaders(c14=v)"}[cfg.Headers] + map[bool]string{false: "", true: "; a second exporter of the package completes an export while attempt 1 is in flight"}[cfg.Interleave],
		"answers":  strings.Join(sc.wordNames(), ", ") + " then 200/OK",
		"event":    sc.ev.String(),
		"observed": rs.render(),
	}
	fin := [...]string{"nil", "an error identifying the answer", "an error"}[ex.final]
	m["expected"] = fmt.Sprintf("%d attempt(s) reach the collector, the call stops because of: %s, and returns %s", ex.attempts, ex.reason, fin)
	if sc.ev.Kind != EvNone && !sc.ev.What.isCtx() {
		m["shutdown"] = rs.mode.String()
		if rs.modeNote != "" {
			m["shutdown"] = rs.mode.String() + " (observed: " + rs.modeNote + ")"
		}
	}
	if rs.real {
		m["wait"] = "the retry package's real wait function (back-off one hour)"
	}
	return m
}

// judge compares one execution with the automaton; it reports the first failing clause.
func (d *driver) judge(sc script, cfg Config, ex expect, rs *runState) (key, msg string) {
	word := sc.word
	symAt := func(i int) *Sym {
		if i >= 1 && i <= len(word) {
			return word[i-1]
		}
		return success
	}
	// a redirect that is followed: the answer with a Location header was the expected last one and
	// another request went out all the same (net/http's default policy: a bodiless GET for 301/302/303,
	// the payload again for 307/308) -- reported before the payload comparison, under its own key
	if rs.panicked == nil {
		for i := 1; i < rs.attempts && i <= len(word); i++ {
			if symAt(i).Location != "" {
				return "redirect-followed|" + symAt(i).Group, fmt.Sprintf("answer %d (%s, Location %s) is not a retryable outcome; %d request(s) followed it (the first of them to the Location), Export returned %v", i, symAt(i).Name, symAt(i).Location, rs.attempts-i, rs.err)
			}
		}
	}
	switch {
	case rs.panicked != nil:
		return "panic|Export", fmt.Sprintf("Export panicked: %v", rs.panicked)
	case rs.blocked != "":
		w := "recorded waits"
		if rs.real {
			w = "real wait function"
		}
		return "blocked|" + rs.blocked + " (" + w + ")", fmt.Sprintf("%s within %v although nothing sleeps; expected stop reason: %s", rs.blocked, watchdog, ex.reason)
	case rs.aborted != "":
		return "runaway|" + rs.aborted, rs.aborted
	case rs.payloadBad != "":
		k := "payload|differs between attempts"
		if strings.HasPrefix(rs.payloadBad, "attempt 1:") {
			k = "payload|first attempt does not carry the export request"
		}
		if cfg.Interleave {
			k += "|another exporter of the package exported in between"
		}
		return k, rs.payloadBad
	case rs.noDeadline != 0:
		cls := "no headers configured"
		if cfg.Headers {
			cls = "headers configured"
		}
		return "attempt-without-deadline|" + cls, fmt.Sprintf("the context of attempt %d carries no deadline: the export timeout does not bound the call (a collector that keeps answering retryably, or never answers, holds Export for as long as the caller's context lives)", rs.noDeadline)
	case rs.foreignDone && rs.foreignErr != nil:
		return "interleaved-export-failed", fmt.Sprintf("the second exporter's export (answered 200 at once) returned %v", rs.foreignErr)
	case rs.afterShut != 0:
		return "attempt-after-shutdown|in-flight export keeps re-sending", fmt.Sprintf("attempt %d was sent after Shutdown had returned", rs.afterShut)
	case rs.shutStarted && !sc.ev.What.isCtx() && rs.declared.interrupts() && !rs.mode.interrupts():
		// the harness drives the run on as observed (so that nothing deadlocks), but an exporter
		// whose Shutdown is declared to abandon an export in progress has to do so
		return "shutdown-does-not-interrupt-the-export-in-progress", fmt.Sprintf("%s: the context of the export in progress was not cancelled within %v (%s)", sc.ev, awaitTimeout, rs.modeNote)
	}
	// never waits less than the server-supplied delay before the next attempt
	gap := map[int]time.Duration{}
	lastAttempt, waitsAfterLast := 0, 0
	for _, st := range rs.steps {
		switch st.k {
		case 'A', 'I':
			lastAttempt, waitsAfterLast = st.n, 0
		case 'W':
			gap[lastAttempt] += st.d
			if !st.ev {
				waitsAfterLast++
			}
		}
	}
	for i := 1; i < rs.attempts; i++ {
		if s := symAt(i); s.Hint > 0 && gap[i] < s.Hint {
			if asNs := time.Duration(int64(s.Hint / time.Second)); s.HintKind == "Retry-After delta-seconds" && gap[i] < asNs {
				// shorter even than the delay read as nanoseconds (what the recorded unit defect makes of
				// the header): the delay did not enter the wait at all
				return "throttle-wait|Retry-After not honoured in any unit|" + s.Group, fmt.Sprintf("answer %d (%s) asked for a delay of %v, attempt %d followed after a requested wait of %v", i, s.Name, s.Hint, i+1, gap[i])
			}
			return "throttle-wait|" + s.HintKind, fmt.Sprintf("answer %d (%s) asked for a delay of %v, attempt %d followed after a requested wait of %v", i, s.Name, s.Hint, i+1, gap[i])
		}
	}
	if rs.attempts > ex.attempts {
		return "resend|after " + ex.reason, fmt.Sprintf("%d attempts reached the collector, %d expected: the call should have stopped at attempt %d (%s)", rs.attempts, ex.attempts, ex.attempts, ex.reason)
	}
	if rs.attempts < ex.attempts {
		s := symAt(rs.attempts)
		g := s.Group
		if s.RetryInfo {
			g += " with RetryInfo"
		}
		if rs.attempts == 0 {
			return "no-attempt|live context", "no request reached the collector"
		}
		return "no-retry|after " + g, fmt.Sprintf("the call stopped after attempt %d (%s) although the answer is retryable and nothing ends the retry loop; %d attempts expected", rs.attempts, s.Name, ex.attempts)
	}
	if ex.giveUp && waitsAfterLast > 0 {
		return "blocked-after|" + ex.reason, fmt.Sprintf("%d further wait(s) were requested and sat out after the call had to give up (%s)", waitsAfterLast, ex.reason)
	}
	switch ex.final {
	case finNil:
		if rs.err != nil {
			return "result|error returned after " + ex.reason, fmt.Sprintf("Export returned %q, nil expected", rs.err.Error())
		}
	case finErrAny:
		if rs.err == nil {
			return "result|nil returned after " + ex.reason, "Export returned nil although it gave up"
		}
	case finErrSym:
		if rs.err == nil {
			return "result|nil returned after " + ex.reason, "Export returned nil for a non-retryable answer"
		}
		if !d.tg.Reports(rs.err, ex.sym) {
			return "result|error does not identify " + ex.sym.Group, fmt.Sprintf("Export returned %q", rs.err.Error())
		}
	}
	if ex.handler && len(rs.handler) == 0 {
		return "partial-success|rejection not reported to the error handler", "no otel.ErrorHandler report for a partial success with rejected > 0"
	}
	return "", ""
}

func (d *driver) mode(ev Event) ShutMode {
	if ev.Kind == EvNone || ev.What.isCtx() {
		return AsyncSerial
	}
	if m, ok := d.observed[ev.What == ShutdownExpired]; ok {
		return m
	}
	return d.tg.ShutdownMode(ev.What == ShutdownExpired)
}

// visit executes one script; judged unless this is a silent re-execution that only rebuilds
// the frontier. It reports whether the script is open: the exporter used up the whole word,
// so a longer word can make a difference.
func (d *driver) visit(sc script, cfg Config, counted bool) (*runState, bool) {
	want := true
	if counted {
		want = d.r.Want()
	}
	rs := d.exec(sc, cfg, false)
	open := rs.attempts > len(sc.word) && rs.blocked == "" && rs.aborted == "" && rs.panicked == nil
	if !counted || !want {
		return rs, open
	}
	d.finish(sc, cfg, rs)
	return rs, open
}

func (d *driver) finish(sc script, cfg Config, rs *runState) {
	d.finishReal(sc, cfg, rs, rs.real)
}

func (d *driver) finishReal(sc script, cfg Config, rs *runState, realWait bool) {
	d.r.Eval()
	ex := predict(sc.word, cfg, sc.ev, rs.mode)
	d.r.Outcome(d.tg.Name + "|" + rs.outcome(d.tg, ex))
	d.r.Count("attempts", int64(rs.attempts))
	d.r.Sample(func() any { return d.describe(sc, cfg, ex, rs) })
	if dump { // development aid: VERIF_C14_DUMP=1 prints every judged script
		m := d.describe(sc, cfg, ex, rs)
		fmt.Printf("C14-DUMP %s | %s | %s | %s || %s\n", cfg.Name, m["answers"], m["event"], m["expected"], m["observed"])
	}
	if key, msg := d.judge(sc, cfg, ex, rs); key != "" {
		// Confirm before believing: a defect of the exporter is deterministic, a glitch of the
		// harness's own observations (how a Shutdown overlapping an export behaves is observed
		// with real goroutines and multi-second timeouts, which a heavily loaded machine can
		// exceed) is not. The script is executed twice more on fresh exporters, re-observing the
		// shutdown mode each time; the failure is reported only if it recurs with the same key.
		for i := 0; i < 2; i++ {
			delete(d.observed, sc.ev.What == ShutdownExpired)
			rs2 := d.exec(sc, cfg, realWait)
			ex2 := predict(sc.word, cfg, sc.ev, rs2.mode)
			if key2, _ := d.judge(sc, cfg, ex2, rs2); key2 != key {
				d.r.Count("alarms_not_reproduced_on_reexecution", 1)
				d.r.Note("script %v: %q did not recur on re-execution (got %q): harness timing glitch, not reported", d.describe(sc, cfg, ex, rs)["answers"], key, key2)
				return
			}
		}
		d.r.FailHere(d.tg.Name+"|"+key, d.describe(sc, cfg, ex, rs), "%s", msg)
	}
}

var (
	attemptWhats = []EvWhat{CtxCancel, CtxDeadline, ShutdownBg, ShutdownExpired}
)

// expand runs parent.word+s with the parent's event and, when the parent has none, with every
// event at the new last position. Returns the open scripts among them.
func (d *driver) expand(parent script, s *Sym, cfg Config, counted bool) []script {
	w := append(append(make([]*Sym, 0, len(parent.word)+1), parent.word...), s)
	var open []script
	base := script{word: w, ev: parent.ev}
	rs, isOpen := d.visit(base, cfg, counted)
	if isOpen {
		open = append(open, base)
	}
	if parent.ev.Kind != EvNone || d.halt {
		return open
	}
	pos := len(w)
	if rs.attempts < pos {
		return open
	}
	try := func(ev Event) {
		if d.halt {
			return
		}
		sc := script{word: w, ev: ev}
		if _, o := d.visit(sc, cfg, counted); o {
			open = append(open, sc)
		}
	}
	for _, what := range attemptWhats {
		try(Event{Kind: EvAtAttempt, Pos: pos, What: what})
	}
	// the wait that followed attempt pos in the event-free run, if there was one
	waitNo, seen, last := 0, 0, 0
	for _, st := range rs.steps {
		switch st.k {
		case 'A', 'I':
			last = st.n
		case 'W':
			seen++
			if last == pos && waitNo == 0 {
				waitNo = seen
			}
		}
	}
	if waitNo == 0 {
		return open
	}
	for _, what := range attemptWhats {
		try(Event{Kind: EvAtWait, Pos: waitNo, What: what})
		if what.isCtx() {
			try(Event{Kind: EvAtWait, Pos: waitNo, What: what, TimerWins: true})
		}
	}
	return open
}

func (d *driver) bounds() {
	r := d.r
	r.Bound("max_word_len", d.maxLen)
	r.Bound("alphabet_size", len(d.alpha))
	names := make([]string, len(d.alpha))
	for i, s := range d.alpha {
		names[i] = s.Name
	}
	r.Bound("alphabet", strings.Join(names, " "))
	cn := make([]string, len(d.cfgs))
	for i, c := range d.cfgs {
		cn[i] = c.Name
	}
	r.Bound("retry_configs", strings.Join(cn, " "))
	r.Bound("events", "none; context cancelled|deadline exceeded before the call; {context cancelled, deadline exceeded, Shutdown(background), Shutdown(cancelled ctx)} while attempt k is in flight and during retry wait k (context events also with the wait elapsing at the same instant), k <= word length")
	r.Bound("server_delays", fmt.Sprintf("%v and %v (HTTP also 0)", HintSmall, HintLarge))
}

// levelUp turns the open scripts of length n into the judged scripts of length n+1.
func (d *driver) levelUp(frontier []script, cfg Config) []script {
	var next []script
	for _, p := range frontier {
		for _, s := range d.alpha {
			if d.halt || d.r.Expired() {
				return next
			}
			next = append(next, d.expand(p, s, cfg, true)...)
		}
	}
	return next
}

// short: the empty word and all words of length 1 (so that the simplest failing script of the
// whole run is found by the first job).
func (d *driver) short() {
	for _, cfg := range d.cfgs {
		root := script{}
		d.visit(root, cfg, true)
		for _, what := range []EvWhat{CtxCancel, CtxDeadline} {
			d.visit(script{ev: Event{Kind: EvBeforeCall, What: what}}, cfg, true)
		}
	}
	if d.maxLen < 1 {
		return
	}
	for _, cfg := range d.cfgs {
		d.levelUp([]script{{}}, cfg)
	}
}

// first: all words of length 2..maxLen that start with s.
func (d *driver) first(s *Sym) {
	for _, cfg := range d.cfgs {
		frontier := d.expand(script{}, s, cfg, false) // silent: judged by the job "short"
		for n := 2; n <= d.maxLen && len(frontier) > 0 && !d.halt; n++ {
			frontier = d.levelUp(frontier, cfg)
		}
	}
}

// realwait: the same exporters with the retry package's own wait function and a back-off of one
// hour; the context ends (or the exporter is shut down) as the retryable answer arrives. The
// call has to return an error without a second attempt; a wait that ignores its context would
// block for about an hour, the watchdog reports it after 30 s.
func (d *driver) realwait() {
	cfg := Config{Name: "hour-backoff", Enabled: true, Initial: time.Hour, MaxInterval: time.Hour}
	d.r.Bound("realwait_config", "Enabled, InitialInterval = MaxInterval = 1h, no elapsed limit")
	for _, s := range d.alpha {
		if s.Class != Retryable {
			continue
		}
		for _, what := range attemptWhats {
			if !what.isCtx() && !d.mode(Event{Kind: EvAtAttemptEnd, What: what}).interrupts() {
				continue // this Shutdown waits for the export or does not touch it: the real wait would sleep an hour
			}
			for _, async := range []bool{false, true} {
				if d.halt || d.r.Expired() {
					return
				}
				if async && !what.isCtx() {
					continue
				}
				sc := script{word: []*Sym{s}, ev: Event{Kind: EvAtAttemptEnd, Pos: 1, What: what, Async: async}}
				if !d.r.Want() {
					continue
				}
				rs := d.exec(sc, cfg, true)
				d.finish(sc, cfg, rs)
			}
		}
	}
	// the same with no back-off at all ("retry at once"): the real wait is asked to wait 0 with a
	// context that has just ended; the call still has to give up instead of sending again
	zero := Config{Name: "no-backoff", Enabled: true}
	d.r.Bound("realwait_config_2", "Enabled, InitialInterval = MaxInterval = 0, no elapsed limit; context events only")
	for _, s := range d.alpha {
		if s.Class != Retryable || s.Hint != 0 {
			continue
		}
		for _, what := range []EvWhat{CtxCancel, CtxDeadline} {
			if d.halt || d.r.Expired() {
				return
			}
			sc := script{word: []*Sym{s}, ev: Event{Kind: EvAtAttemptEnd, Pos: 1, What: what}}
			if !d.r.Want() {
				continue
			}
			rs := d.exec(sc, zero, true)
			d.finish(sc, zero, rs)
		}
	}
}

// elapsed: the elapsed-time budget is used up by the SUM of the waits of one call. Two
// configurations with MaxElapsedTime 300 s whose recorded waits advance the clock the retry
// package reads (Target.Clock; in the scratch copy retry.go's time.Now / time.Since go through
// the seam): back-off 1 ns (only server delays count: RetryInfo 120 s three times in a row is one
// too many) and back-off 200 s (randomised to 100..300 s by the package: the second or third wait
// exhausts the budget). Every word of retryable answers up to the length bound, no event. The
// oracle is the statement with the waits as observed: at a retryable answer the call must give up
// if the waits so far exceed the limit or (where the server's delay is honoured at all) waits +
// server delay exceed it; it must retry if waits + server delay stay a second below the limit;
// in between (the randomised back-off landed within a second of the limit, or an HTTP client --
// whose Retry-After handling is a recorded finding -- got a delay that straddles the limit) the
// script is executed but not judged.
const elapsedMargin = time.Second

func (d *driver) elapsedJob() {
	cfgs := []Config{
		{Name: "sum-limit-throttle", Enabled: true, Initial: time.Nanosecond, MaxInterval: time.Nanosecond, MaxElapsed: 300 * time.Second, Virtual: true},
		{Name: "sum-limit-backoff", Enabled: true, Initial: 200 * time.Second, MaxInterval: 200 * time.Second, MaxElapsed: 300 * time.Second, Virtual: true},
	}
	d.r.Bound("elapsed_configs", "MaxElapsedTime 300 s with back-off 1 ns / 200 s; recorded waits advance the retry package's clock")
	if d.tg.Clock.Reads == nil || d.tg.Clock.Advance == nil {
		d.r.Cap("job elapsed: no clock seam for this exporter")
		return
	}
	before := d.tg.Clock.Reads()
	d.exec(script{}, cfgs[0], false)
	if d.tg.Clock.Reads() == before {
		d.r.Cap("job elapsed: the retry package of this tree does not read the clock through time.Now/time.Since in retry.go; accumulated elapsed time is not decided")
		return
	}
	var al []*Sym
	seen := map[string]bool{}
	for _, s := range d.alpha {
		if s.Class != Retryable {
			continue
		}
		if d.maxLen <= 3 { // quick: two answers per distinct server delay
			k := fmt.Sprint(s.Hint, s.HintKind)
			if seen[k+"/2"] {
				continue
			}
			if seen[k] {
				seen[k+"/2"] = true
			}
			seen[k] = true
		}
		al = append(al, s)
	}
	d.r.Bound("elapsed_alphabet", len(al))
	d.r.Bound("elapsed_max_word", 3)
	for _, cfg := range cfgs {
		var rec func(w []*Sym)
		rec = func(w []*Sym) {
			if d.halt || d.r.Expired() {
				return
			}
			if len(w) > 0 && d.r.Want() {
				sc := script{word: append([]*Sym{}, w...)}
				rs := d.exec(sc, cfg, false)
				d.finishElapsed(sc, cfg, rs)
			}
			if len(w) == 3 {
				return
			}
			for _, s := range al {
				rec(append(w, s))
			}
		}
		rec(nil)
	}
}

// predictElapsed is predict for a Virtual configuration and no event, with the waits as observed.
// ok is false when a decision fell into the margin around the limit.
func predictElapsed(word []*Sym, cfg Config, waits []time.Duration, honoursHint bool) (ex expect, ok bool) {
	var elapsed time.Duration
	for i := 1; ; i++ {
		s := success
		if i <= len(word) {
			s = word[i-1]
		}
		if s.Class.delivered() {
			return expect{attempts: i, final: finNil, sym: s, reason: "success", handler: s.Class == PartialRejected}, true
		}
		if s.Class == NonRetryable {
			return expect{attempts: i, final: finErrSym, sym: s, reason: "non-retryable " + s.Group}, true
		}
		switch {
		case s.Hint > cfg.MaxElapsed:
			return expect{attempts: i, final: finErrAny, sym: s, reason: "server delay (" + s.HintKind + ") beyond MaxElapsedTime", giveUp: true}, true
		case elapsed > cfg.MaxElapsed+elapsedMargin:
			return expect{attempts: i, final: finErrAny, sym: s, reason: "the waits of this call have used up MaxElapsedTime", giveUp: true}, true
		case honoursHint && elapsed+s.Hint > cfg.MaxElapsed+elapsedMargin:
			return expect{attempts: i, final: finErrAny, sym: s, reason: "the waits of this call plus the server delay (" + s.HintKind + ") exceed MaxElapsedTime", giveUp: true}, true
		case elapsed+s.Hint <= cfg.MaxElapsed-elapsedMargin:
			// must be retried
		default:
			return expect{}, false
		}
		if i-1 < len(waits) {
			elapsed += waits[i-1]
		} else {
			// no further wait was observed: whatever the run did here is judged against "retried"
			elapsed += s.Hint
		}
	}
}

func (d *driver) finishElapsed(sc script, cfg Config, rs *runState) {
	d.r.Eval()
	waitsOf := func(rs *runState) []time.Duration {
		var ws []time.Duration
		for _, st := range rs.steps {
			if st.k == 'W' {
				ws = append(ws, st.d)
			}
		}
		return ws
	}
	ex, ok := predictElapsed(sc.word, cfg, waitsOf(rs), !d.tg.HTTP)
	if !ok {
		d.r.Count("elapsed_scripts_within_margin_not_judged", 1)
		d.r.Outcome(d.tg.Name + "|elapsed|margin")
		return
	}
	d.r.Outcome(d.tg.Name + "|" + rs.outcome(d.tg, ex))
	d.r.Count("attempts", int64(rs.attempts))
	d.r.Sample(func() any { return d.describe(sc, cfg, ex, rs) })
	if key, msg := d.judge(sc, cfg, ex, rs); key != "" {
		for i := 0; i < 2; i++ { // as in finishReal: the same key has to recur on fresh exporters
			rs2 := d.exec(sc, cfg, false)
			ex2, ok2 := predictElapsed(sc.word, cfg, waitsOf(rs2), !d.tg.HTTP)
			if !ok2 {
				d.r.Count("alarms_not_reproduced_on_reexecution", 1)
				return
			}
			if key2, _ := d.judge(sc, cfg, ex2, rs2); key2 != key {
				d.r.Count("alarms_not_reproduced_on_reexecution", 1)
				d.r.Note("script %v: %q did not recur on re-execution (got %q), not reported", d.describe(sc, cfg, ex, rs)["answers"], key, key2)
				return
			}
		}
		d.r.FailHere(d.tg.Name+"|"+key, d.describe(sc, cfg, ex, rs), "%s", msg)
	}
}

// aged: the elapsed-time budget belongs to one export call, not to the exporter. One exporter
// with MaxElapsedTime = agedLimit is built, the harness really sleeps for longer than that (the
// only real sleep of the check, once per exporter package), and then every script of length <= 2
// without an event runs on that same exporter: the automaton's answers are unchanged -- retryable
// answers are still retried, the (recorded, not slept) waits of one call add up to far less than
// the limit in real time.
const agedLimit = 3 * time.Second

func (d *driver) agedJob() {
	cfg := Config{Name: "aged-exporter", Enabled: true, Initial: 5 * time.Millisecond, MaxInterval: 30 * time.Millisecond, MaxElapsed: agedLimit}
	d.r.Bound("aged_config", fmt.Sprintf("Enabled, MaxElapsedTime %v, exporter built %v before its exports", agedLimit, agedLimit+agedLimit/4))
	d.aged = d.tg.New(cfg)
	defer func() { _ = d.aged.Shutdown(context.Background()); d.aged = nil }()
	time.Sleep(agedLimit + agedLimit/4)
	d.visit(script{}, cfg, true)
	for _, a := range d.alpha {
		for _, b := range append([]*Sym{nil}, d.alpha...) {
			if d.halt || d.r.Expired() {
				return
			}
			w := []*Sym{a}
			if b != nil {
				w = append(w, b)
			}
			d.visit(script{word: w}, cfg, true)
		}
	}
}

// sweepJob: "each status code" -- one-answer scripts over EVERY HTTP status 200..599 (the alphabet
// holds samples): 2xx is a success, 429 / 502 / 503 / 504 are retried, every other status ends the
// call at that attempt with an error. No Location header, so a 3xx is handed to the caller as it is.
func (d *driver) sweepJob() {
	if !d.tg.HTTP {
		return
	}
	var cfg Config
	for _, c := range d.cfgs {
		if c.Name == "nolimit" {
			cfg = c
		}
	}
	d.r.Bound("status_sweep", "every HTTP status 200..599 as a one-answer script, configuration nolimit")
	for code := 200; code <= 599; code++ {
		if d.halt || d.r.Expired() {
			return
		}
		cl, grp := NonRetryable, "HTTP status outside 2xx and outside 429/502/503/504"
		switch {
		case code <= 299:
			cl, grp = Success, "success"
		case code == 429 || code == 502 || code == 503 || code == 504:
			cl, grp = Retryable, "HTTP "+strconv.Itoa(code)
		}
		sym := &Sym{Name: strconv.Itoa(code), Group: grp, Class: cl, Status: code}
		d.visit(script{word: []*Sym{sym}}, cfg, true)
	}
}

var (
	once sync.Once
	dump = os.Getenv("VERIF_C14_DUMP") != ""
)

// Run is the body of the six TestVerifC14 functions.
func Run(t *testing.T, tg Target) {
	thorough := os.Getenv("VERIF_TIER") == "thorough"
	var alpha []*Sym
	for i := range tg.Alphabet {
		if s := &tg.Alphabet[i]; thorough || !s.Thorough {
			alpha = append(alpha, s)
		}
	}
	names := []string{"short", "realwait", "aged", "elapsed", "status-sweep"}
	for _, s := range alpha {
		names = append(names, "first-"+s.Name)
	}
	enum.Jobs(names, func(job string) {
		r := enum.Start("C14", tg.Name)
		defer r.Finish()
		once.Do(func() {
			otel.SetErrorHandler(otel.ErrorHandlerFunc(handle))
			tg.SetWait(Wait)
		})
		d := &driver{r: r, tg: &tg, alpha: alpha, cfgs: configs(tg.HTTP, thorough), maxLen: enum.Pick(r, 3, 4), wd: time.NewTimer(time.Hour), observed: map[bool]ShutMode{}}
		d.bounds()
		r.Section(job)
		switch {
		case job == "short":
			d.short()
		case job == "realwait":
			d.realwait()
		case job == "aged":
			d.agedJob()
		case job == "elapsed":
			d.elapsedJob()
		case job == "status-sweep":
			d.sweepJob()
		default:
			for _, s := range alpha {
				if "first-"+s.Name == job {
					d.first(s)
				}
			}
		}
		if d.halt {
			r.Cap("stopped after an export that did not return")
		}
	})
}
