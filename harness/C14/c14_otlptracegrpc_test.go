package otlptracegrpc

// C14 — OTLP retry discipline, exporter otlptracegrpc. Shared logic: internal/verifc14 and
// internal/verifc14/grpcx (harness code, present in the scratch copy only). Seams: the
// generated service client in client.tsc is replaced by a scripted one (status errors with or
// without RetryInfo; no connection is ever used), retry.waitFunc points at the recorder.

import (
	"context"
	"testing"
	"time"

	"google.golang.org/grpc"
	"google.golang.org/protobuf/proto"

	"go.opentelemetry.io/otel/exporters/otlp/otlptrace"
	"go.opentelemetry.io/otel/exporters/otlp/otlptrace/otlptracegrpc/internal/retry"
	"go.opentelemetry.io/otel/internal/verifc14"
	"go.opentelemetry.io/otel/internal/verifc14/grpcx"
	tracesdk "go.opentelemetry.io/otel/sdk/trace"
	"go.opentelemetry.io/otel/sdk/trace/tracetest"
	"go.opentelemetry.io/otel/trace"
	coltracepb "go.opentelemetry.io/proto/otlp/collector/trace/v1"
)

type c14Exporter struct {
	e     *otlptrace.Exporter
	spans []tracesdk.ReadOnlySpan
}

func (x c14Exporter) Export(ctx context.Context) error   { return x.e.ExportSpans(ctx, x.spans) }
func (x c14Exporter) Shutdown(ctx context.Context) error { return x.e.Shutdown(ctx) }

func c14Spans() []tracesdk.ReadOnlySpan {
	t0 := time.Unix(1700000000, 0)
	return tracetest.SpanStubs{{
		Name: "c14-span",
		SpanContext: trace.NewSpanContext(trace.SpanContextConfig{
			TraceID: trace.TraceID{1, 2, 3}, SpanID: trace.SpanID{4, 5, 6}, TraceFlags: trace.FlagsSampled,
		}),
		StartTime: t0, EndTime: t0.Add(time.Second),
	}}.Snapshots()
}

func c14Decode(b []byte) string {
	var req coltracepb.ExportTraceServiceRequest
	if err := proto.Unmarshal(b, &req); err != nil {
		return "not an ExportTraceServiceRequest: " + err.Error()
	}
	if len(req.ResourceSpans) != 1 || len(req.ResourceSpans[0].ScopeSpans) != 1 ||
		len(req.ResourceSpans[0].ScopeSpans[0].Spans) != 1 || req.ResourceSpans[0].ScopeSpans[0].Spans[0].Name != "c14-span" {
		return "request does not hold exactly the exported span"
	}
	return ""
}

// c14Service is the scripted collector-side stub.
type c14Service struct{}

func (c14Service) Export(ctx context.Context, req *coltracepb.ExportTraceServiceRequest, _ ...grpc.CallOption) (*coltracepb.ExportTraceServiceResponse, error) {
	b, err := proto.MarshalOptions{Deterministic: true}.Marshal(req)
	if err != nil {
		panic(err)
	}
	s, err := grpcx.Answer(ctx, b, func() string { return c14Decode(b) })
	if err != nil {
		return nil, err
	}
	resp := &coltracepb.ExportTraceServiceResponse{}
	if s.Class != verifc14.Success {
		resp.PartialSuccess = &coltracepb.ExportTracePartialSuccess{RejectedSpans: s.Rejected, ErrorMessage: s.Message}
	}
	return resp, nil
}

// c14Headers: the headers of a Headers configuration (nil otherwise).
func c14Headers(c verifc14.Config) map[string]string {
	if c.Headers {
		return map[string]string{"c14": "v"}
	}
	return nil
}

func TestVerifC14(t *testing.T) {
	spans := c14Spans()
	conn := new(grpc.ClientConn) // never used: the service client made from it is replaced; not closed by Stop (not "ours")
	verifc14.Run(t, verifc14.Target{
		Name:          "otlptracegrpc",
		Alphabet:      grpcx.Alphabet(),
		SetWait:       retry.VerifC14SetWait,
		Clock:         verifc14.ClockSeam{Advance: retry.VerifC14Advance, Reset: retry.VerifC14ResetClock, Reads: retry.VerifC14ClockReads},
		Reports:       grpcx.Reports,
		DecodePayload: c14Decode,
		// client.Stop(ctx) waits for in-flight UploadTraces calls (tscMu); when ctx expires it
		// cancels them through stopCtx and still returns only after they have ended.
		ShutdownMode: func(expired bool) verifc14.ShutMode {
			if expired {
				return verifc14.AsyncInterrupt
			}
			return verifc14.AsyncSerial
		},
		New: func(c verifc14.Config) verifc14.Exporter {
			cl := newClient(WithGRPCConn(conn), WithHeaders(c14Headers(c)),
				WithRetry(RetryConfig{Enabled: c.Enabled, InitialInterval: c.Initial, MaxInterval: c.MaxInterval, MaxElapsedTime: c.MaxElapsed}))
			e, err := otlptrace.New(context.Background(), cl)
			if err != nil {
				panic(err)
			}
			cl.tscMu.Lock()
			cl.tsc = c14Service{}
			cl.tscMu.Unlock()
			return c14Exporter{e: e, spans: spans}
		},
	})
}
