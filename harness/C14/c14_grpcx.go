// Package grpcx is the gRPC half of the shared C14 harness code (copied into the scratch copy
// of the repository only): the status-code alphabet and the conversion of a scripted answer
// into what a generated service client returns.
package grpcx

import (
	"context"
	"sync"
	"time"

	"google.golang.org/genproto/googleapis/rpc/errdetails"
	"google.golang.org/grpc/codes"
	"google.golang.org/grpc/status"
	"google.golang.org/protobuf/types/known/durationpb"

	"go.opentelemetry.io/otel/internal/verifc14"
)

// retryable is the statement's list, written out here and nowhere derived from the code under
// test; ResourceExhausted is retryable only when the status carries retry info.
var retryable = map[codes.Code]bool{
	codes.Canceled: true, codes.DeadlineExceeded: true, codes.Aborted: true,
	codes.OutOfRange: true, codes.Unavailable: true, codes.DataLoss: true,
}

// Alphabet: OK (plain and with the partial-success flavours) and each of the 16 error codes
// without details, with RetryInfo(120 s) and with RetryInfo(0); Unavailable and
// ResourceExhausted also with a RetryInfo beyond every elapsed limit.
func Alphabet() []verifc14.Sym {
	out := []verifc14.Sym{
		{Name: "OK", Group: "success", Class: verifc14.Success},
		{Name: "OK-partial-rejected", Group: "partial success", Class: verifc14.PartialRejected, Rejected: 3, Message: "c14 rejected"},
		{Name: "OK-partial-rejected-all", Group: "partial success (everything sent was rejected)", Class: verifc14.PartialRejected, Rejected: 1, Message: "c14 rejected all"},
		{Name: "OK-partial-message", Group: "partial success (message only)", Class: verifc14.PartialMessage, Message: "c14 warning"},
		{Name: "OK-partial-empty", Group: "success", Class: verifc14.PartialEmpty, Thorough: true},
	}
	for c := codes.Canceled; c <= codes.Unauthenticated; c++ {
		for _, d := range []struct {
			suffix string
			ri     bool
			delay  time.Duration
			only   bool
		}{
			{"", false, 0, false},
			{"-RetryInfo120s", true, verifc14.HintSmall, false},
			{"-RetryInfo0s", true, 0, false},
			{"-RetryInfo7200s", true, verifc14.HintLarge, true},
			// a delay with a sub-second part, a RetryInfo that is not the first detail of the status, a
			// RetryInfo without a delay: the shapes a detail lookup or a seconds-only conversion gets wrong
			{"-RetryInfo1.5s", true, 1500 * time.Millisecond, true},
			{"-ErrorInfo+RetryInfo120s", true, verifc14.HintSmall, true},
			{"-RetryInfoNoDelay", true, 0, true},
		} {
			if d.only && c != codes.Unavailable && c != codes.ResourceExhausted {
				continue
			}
			s := verifc14.Sym{Name: c.String() + d.suffix, Group: "gRPC " + c.String(), Code: uint32(c), RetryInfo: d.ri, Delay: d.delay, Class: verifc14.NonRetryable,
				DetailFirst: d.suffix == "-ErrorInfo+RetryInfo120s", NilDelay: d.suffix == "-RetryInfoNoDelay"}
			if c == codes.ResourceExhausted && (d.suffix == "-RetryInfo1.5s" || s.DetailFirst || s.NilDelay) {
				s.Thorough = true
			}
			if retryable[c] || (c == codes.ResourceExhausted && d.ri) {
				s.Class = verifc14.Retryable
				if d.ri {
					s.Hint, s.HintKind = d.delay, "RetryInfo"
				}
			}
			if c == codes.ResourceExhausted && !d.ri {
				s.Group += " without RetryInfo"
			}
			out = append(out, s)
		}
	}
	return out
}

var (
	mu    sync.Mutex
	cache = map[*verifc14.Sym]error{}
)

func statusErr(s *verifc14.Sym) error {
	mu.Lock()
	defer mu.Unlock()
	if e, ok := cache[s]; ok {
		return e
	}
	st := status.New(codes.Code(s.Code), "c14 scripted answer "+s.Name)
	if s.RetryInfo {
		var err error
		ri := &errdetails.RetryInfo{RetryDelay: durationpb.New(s.Delay)}
		if s.NilDelay {
			ri = &errdetails.RetryInfo{}
		}
		if s.DetailFirst {
			st, err = st.WithDetails(&errdetails.ErrorInfo{Reason: "C14", Domain: "verif.test"}, ri)
		} else {
			st, err = st.WithDetails(ri)
		}
		if err != nil {
			panic(err)
		}
	}
	e := st.Err()
	cache[s] = e
	return e
}

// Answer is called by the fake service clients. ok: the collector accepted the request; the
// partial-success content (if any) is in the returned symbol.
func Answer(ctx context.Context, payload []byte, check func() string) (*verifc14.Sym, error) {
	verifc14.NoteGRPCContext(ctx)
	s, cerr := verifc14.Attempt(ctx, payload, check)
	if cerr != nil {
		// what a real stub returns when the call's context has ended
		return nil, status.FromContextError(cerr).Err()
	}
	if s.Class <= verifc14.PartialEmpty {
		return s, nil
	}
	return nil, statusErr(s)
}

// Reports: the returned error has to carry the status code of the non-retryable answer.
func Reports(err error, s *verifc14.Sym) bool {
	return err != nil && status.Code(err) == codes.Code(s.Code)
}
