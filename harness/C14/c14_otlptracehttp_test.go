package otlptracehttp

// C14 — OTLP retry discipline, exporter otlptracehttp. Everything that is not specific to this
// package (alphabet, events, reference automaton, enumeration) is in internal/verifc14 (harness
// code, present in the scratch copy only). Seams: the Transport of the client's http.Client is
// replaced by the scripted RoundTripper (no socket is opened, the real http.Client and the real
// client code run), retry.waitFunc points at the recorder.

import (
	"context"
	"testing"
	"time"

	"google.golang.org/protobuf/proto"

	"go.opentelemetry.io/otel/exporters/otlp/otlptrace"
	"go.opentelemetry.io/otel/exporters/otlp/otlptrace/otlptracehttp/internal/retry"
	"go.opentelemetry.io/otel/internal/verifc14"
	tracesdk "go.opentelemetry.io/otel/sdk/trace"
	"go.opentelemetry.io/otel/sdk/trace/tracetest"
	"go.opentelemetry.io/otel/trace"
	coltracepb "go.opentelemetry.io/proto/otlp/collector/trace/v1"
)

type c14Exporter struct {
	e     *otlptrace.Exporter
	spans []tracesdk.ReadOnlySpan
}

func (x c14Exporter) Export(ctx context.Context) error   { return x.e.ExportSpans(ctx, x.spans) }
func (x c14Exporter) Shutdown(ctx context.Context) error { return x.e.Shutdown(ctx) }

func c14Spans() []tracesdk.ReadOnlySpan {
	t0 := time.Unix(1700000000, 0)
	return tracetest.SpanStubs{{
		Name: "c14-span",
		SpanContext: trace.NewSpanContext(trace.SpanContextConfig{
			TraceID: trace.TraceID{1, 2, 3}, SpanID: trace.SpanID{4, 5, 6}, TraceFlags: trace.FlagsSampled,
		}),
		StartTime: t0, EndTime: t0.Add(time.Second),
	}}.Snapshots()
}

func c14Decode(b []byte) string {
	var req coltracepb.ExportTraceServiceRequest
	if err := proto.Unmarshal(b, &req); err != nil {
		return "not an ExportTraceServiceRequest: " + err.Error()
	}
	if len(req.ResourceSpans) != 1 || len(req.ResourceSpans[0].ScopeSpans) != 1 ||
		len(req.ResourceSpans[0].ScopeSpans[0].Spans) != 1 || req.ResourceSpans[0].ScopeSpans[0].Spans[0].Name != "c14-span" {
		return "request does not hold exactly the exported span"
	}
	return ""
}

func TestVerifC14(t *testing.T) {
	spans := c14Spans()
	// what the second exporter of an Interleave configuration exports (other content, other size)
	t1 := time.Unix(1800000000, 0)
	foreign := tracetest.SpanStubs{
		{Name: "c14-span-of-the-other-exporter", SpanContext: trace.NewSpanContext(trace.SpanContextConfig{TraceID: trace.TraceID{9, 9}, SpanID: trace.SpanID{8, 8}, TraceFlags: trace.FlagsSampled}), StartTime: t1, EndTime: t1.Add(time.Minute)},
		{Name: "c14-second-span-of-the-other-exporter", SpanContext: trace.NewSpanContext(trace.SpanContextConfig{TraceID: trace.TraceID{9, 9}, SpanID: trace.SpanID{7, 7}, TraceFlags: trace.FlagsSampled}), StartTime: t1, EndTime: t1.Add(time.Minute)},
	}.Snapshots()
	verifc14.Run(t, verifc14.Target{
		Name:          "otlptracehttp",
		HTTP:          true,
		Alphabet:      verifc14.HTTPAlphabet(),
		SetWait:       retry.VerifC14SetWait,
		Clock:         verifc14.ClockSeam{Advance: retry.VerifC14Advance, Reset: retry.VerifC14ResetClock, Reads: retry.VerifC14ClockReads},
		Reports:       verifc14.HTTPReports,
		DecodePayload: c14Decode,
		// client.Stop closes stopCh and returns; contextWithStop's goroutine cancels the export.
		ShutdownMode: func(bool) verifc14.ShutMode { return verifc14.SyncInterrupt },
		New: func(c verifc14.Config) verifc14.Exporter {
			comp := NoCompression
			if c.Gzip {
				comp = GzipCompression
			}
			host, payload := "c14.invalid:4318", spans
			if c.Foreign {
				host, payload = verifc14.ForeignHost, foreign
			}
			cl := NewClient(WithInsecure(), WithEndpoint(host), WithCompression(comp),
				WithRetry(RetryConfig{Enabled: c.Enabled, InitialInterval: c.Initial, MaxInterval: c.MaxInterval, MaxElapsedTime: c.MaxElapsed}))
			cl.(*client).client.Transport = verifc14.RoundTripper()
			e, err := otlptrace.New(context.Background(), cl)
			if err != nil {
				panic(err)
			}
			return c14Exporter{e: e, spans: payload}
		},
	})
}
