package otlploggrpc

// C14 — OTLP retry discipline, exporter otlploggrpc. Shared logic: internal/verifc14 and
// internal/verifc14/grpcx (harness code, present in the scratch copy only). Seams: the
// generated service client in client.lsc is replaced by a scripted one (status errors with or
// without RetryInfo; no connection is ever used), retry.waitFunc points at the recorder.

import (
	"context"
	"testing"
	"time"

	"google.golang.org/grpc"
	"google.golang.org/protobuf/proto"

	"go.opentelemetry.io/otel/exporters/otlp/otlplog/otlploggrpc/internal/retry"
	"go.opentelemetry.io/otel/internal/verifc14"
	"go.opentelemetry.io/otel/internal/verifc14/grpcx"
	"go.opentelemetry.io/otel/log"
	sdklog "go.opentelemetry.io/otel/sdk/log"
	"go.opentelemetry.io/otel/sdk/log/logtest"
	collogpb "go.opentelemetry.io/proto/otlp/collector/logs/v1"
)

type c14Exporter struct {
	e    *Exporter
	recs []sdklog.Record
}

func (x c14Exporter) Export(ctx context.Context) error   { return x.e.Export(ctx, x.recs) }
func (x c14Exporter) Shutdown(ctx context.Context) error { return x.e.Shutdown(ctx) }

func c14Records() []sdklog.Record {
	t0 := time.Unix(1700000000, 0)
	return []sdklog.Record{logtest.RecordFactory{
		Timestamp: t0, ObservedTimestamp: t0, Severity: log.SeverityInfo, Body: log.StringValue("c14-record"),
	}.NewRecord()}
}

func c14Decode(b []byte) string {
	var req collogpb.ExportLogsServiceRequest
	if err := proto.Unmarshal(b, &req); err != nil {
		return "not an ExportLogsServiceRequest: " + err.Error()
	}
	if len(req.ResourceLogs) != 1 || len(req.ResourceLogs[0].ScopeLogs) != 1 ||
		len(req.ResourceLogs[0].ScopeLogs[0].LogRecords) != 1 || req.ResourceLogs[0].ScopeLogs[0].LogRecords[0].Body.GetStringValue() != "c14-record" {
		return "request does not hold exactly the exported record"
	}
	return ""
}

// c14Service is the scripted collector-side stub.
type c14Service struct{}

func (c14Service) Export(ctx context.Context, req *collogpb.ExportLogsServiceRequest, _ ...grpc.CallOption) (*collogpb.ExportLogsServiceResponse, error) {
	b, err := proto.MarshalOptions{Deterministic: true}.Marshal(req)
	if err != nil {
		panic(err)
	}
	s, err := grpcx.Answer(ctx, b, func() string { return c14Decode(b) })
	if err != nil {
		return nil, err
	}
	resp := &collogpb.ExportLogsServiceResponse{}
	if s.Class != verifc14.Success {
		resp.PartialSuccess = &collogpb.ExportLogsPartialSuccess{RejectedLogRecords: s.Rejected, ErrorMessage: s.Message}
	}
	return resp, nil
}

// c14Headers: the headers of a Headers configuration (nil otherwise).
func c14Headers(c verifc14.Config) map[string]string {
	if c.Headers {
		return map[string]string{"c14": "v"}
	}
	return nil
}

func TestVerifC14(t *testing.T) {
	recs := c14Records()
	conn := new(grpc.ClientConn) // never used: the service client made from it is replaced; not closed by Shutdown (not "ours")
	verifc14.Run(t, verifc14.Target{
		Name:          "otlploggrpc",
		Alphabet:      grpcx.Alphabet(),
		SetWait:       retry.VerifC14SetWait,
		Clock:         verifc14.ClockSeam{Advance: retry.VerifC14Advance, Reset: retry.VerifC14ResetClock, Reads: retry.VerifC14ClockReads},
		Reports:       grpcx.Reports,
		DecodePayload: c14Decode,
		// Exporter.Shutdown takes clientMu, which Export holds for the whole upload.
		ShutdownMode: func(bool) verifc14.ShutMode { return verifc14.AsyncSerial },
		New: func(c verifc14.Config) verifc14.Exporter {
			e, err := New(context.Background(), WithGRPCConn(conn), WithHeaders(c14Headers(c)),
				WithRetry(RetryConfig{Enabled: c.Enabled, InitialInterval: c.Initial, MaxInterval: c.MaxInterval, MaxElapsedTime: c.MaxElapsed}))
			if err != nil {
				panic(err)
			}
			e.client.(*client).lsc = c14Service{}
			return c14Exporter{e: e, recs: recs}
		},
	})
}
