package retry

// Added to the SCRATCH copy of every internal/retry package by the C14 check (never to /repo):
// the package already has the variable `waitFunc` ("Allow override for testing"); this file
// only makes it reachable from the exporter package the harness lives in.

import (
	"context"
	"sync/atomic"
	"time"
)

// The C14 check also replaces, textually and in the scratch copy only, `time.Now()` by
// `verifNow()` and `time.Since(` by `verifSince(` in this package's retry.go: the clock the retry
// loop measures MaxElapsedTime with is the real one plus an offset that the harness advances by
// every wait it records instead of sleeping.
var verifOffset, verifReads atomic.Int64

func verifNow() time.Time {
	verifReads.Add(1)
	return time.Now().Add(time.Duration(verifOffset.Load()))
}

func verifSince(t time.Time) time.Duration { return verifNow().Sub(t) }

func VerifC14Advance(d time.Duration) { verifOffset.Add(int64(d)) }
func VerifC14ResetClock()             { verifOffset.Store(0) }
func VerifC14ClockReads() int64       { return verifReads.Load() }

// VerifC14SetWait points the retry loop's wait at f; nil restores the real wait.
func VerifC14SetWait(f func(context.Context, time.Duration) error) {
	if f == nil {
		waitFunc = wait
		return
	}
	waitFunc = f
}
