package retry

// Added to the SCRATCH copy of every internal/retry package by the C14 check (never to /repo):
// the package already has the variable `waitFunc` ("Allow override for testing"); this file
// only makes it reachable from the exporter package the harness lives in.

import (
	"context"
	"time"
)

// VerifC14SetWait points the retry loop's wait at f; nil restores the real wait.
func VerifC14SetWait(f func(context.Context, time.Duration) error) {
	if f == nil {
		waitFunc = wait
		return
	}
	waitFunc = f
}
