package otlpmetricgrpc

// C14 — OTLP retry discipline, exporter otlpmetricgrpc. Shared logic: internal/verifc14 and
// internal/verifc14/grpcx (harness code, present in the scratch copy only). Seams: the
// generated service client in client.msc is replaced by a scripted one (status errors with or
// without RetryInfo; no connection is ever used), retry.waitFunc points at the recorder.

import (
	"context"
	"testing"
	"time"

	"google.golang.org/grpc"
	"google.golang.org/protobuf/proto"

	"go.opentelemetry.io/otel/attribute"
	"go.opentelemetry.io/otel/exporters/otlp/otlpmetric/otlpmetricgrpc/internal/retry"
	"go.opentelemetry.io/otel/internal/verifc14"
	"go.opentelemetry.io/otel/internal/verifc14/grpcx"
	"go.opentelemetry.io/otel/sdk/instrumentation"
	"go.opentelemetry.io/otel/sdk/metric/metricdata"
	"go.opentelemetry.io/otel/sdk/resource"
	colmetricpb "go.opentelemetry.io/proto/otlp/collector/metrics/v1"
)

type c14Exporter struct {
	e  *Exporter
	rm *metricdata.ResourceMetrics
}

func (x c14Exporter) Export(ctx context.Context) error   { return x.e.Export(ctx, x.rm) }
func (x c14Exporter) Shutdown(ctx context.Context) error { return x.e.Shutdown(ctx) }

func c14Metrics() *metricdata.ResourceMetrics {
	t0 := time.Unix(1700000000, 0)
	return &metricdata.ResourceMetrics{
		Resource: resource.NewSchemaless(attribute.String("service.name", "c14")),
		ScopeMetrics: []metricdata.ScopeMetrics{{
			Scope: instrumentation.Scope{Name: "c14-scope"},
			Metrics: []metricdata.Metrics{{
				Name: "c14-metric",
				Data: metricdata.Gauge[int64]{DataPoints: []metricdata.DataPoint[int64]{{StartTime: t0, Time: t0.Add(time.Second), Value: 14}}},
			}},
		}},
	}
}

func c14Decode(b []byte) string {
	var req colmetricpb.ExportMetricsServiceRequest
	if err := proto.Unmarshal(b, &req); err != nil {
		return "not an ExportMetricsServiceRequest: " + err.Error()
	}
	if len(req.ResourceMetrics) != 1 || len(req.ResourceMetrics[0].ScopeMetrics) != 1 ||
		len(req.ResourceMetrics[0].ScopeMetrics[0].Metrics) != 1 || req.ResourceMetrics[0].ScopeMetrics[0].Metrics[0].Name != "c14-metric" {
		return "request does not hold exactly the exported metric"
	}
	return ""
}

// c14Service is the scripted collector-side stub.
type c14Service struct{}

func (c14Service) Export(ctx context.Context, req *colmetricpb.ExportMetricsServiceRequest, _ ...grpc.CallOption) (*colmetricpb.ExportMetricsServiceResponse, error) {
	b, err := proto.MarshalOptions{Deterministic: true}.Marshal(req)
	if err != nil {
		panic(err)
	}
	s, err := grpcx.Answer(ctx, b, func() string { return c14Decode(b) })
	if err != nil {
		return nil, err
	}
	resp := &colmetricpb.ExportMetricsServiceResponse{}
	if s.Class != verifc14.Success {
		resp.PartialSuccess = &colmetricpb.ExportMetricsPartialSuccess{RejectedDataPoints: s.Rejected, ErrorMessage: s.Message}
	}
	return resp, nil
}

// c14Headers: the headers of a Headers configuration (nil otherwise).
func c14Headers(c verifc14.Config) map[string]string {
	if c.Headers {
		return map[string]string{"c14": "v"}
	}
	return nil
}

func TestVerifC14(t *testing.T) {
	rm := c14Metrics()
	conn := new(grpc.ClientConn) // never used: the service client made from it is replaced; not closed by Shutdown (not "ours")
	verifc14.Run(t, verifc14.Target{
		Name:          "otlpmetricgrpc",
		Alphabet:      grpcx.Alphabet(),
		SetWait:       retry.VerifC14SetWait,
		Clock:         verifc14.ClockSeam{Advance: retry.VerifC14Advance, Reset: retry.VerifC14ResetClock, Reads: retry.VerifC14ClockReads},
		Reports:       grpcx.Reports,
		DecodePayload: c14Decode,
		// Exporter.Shutdown takes clientMu, which Export holds for the whole upload.
		ShutdownMode: func(bool) verifc14.ShutMode { return verifc14.AsyncSerial },
		New: func(c verifc14.Config) verifc14.Exporter {
			e, err := New(context.Background(), WithGRPCConn(conn), WithHeaders(c14Headers(c)),
				WithRetry(RetryConfig{Enabled: c.Enabled, InitialInterval: c.Initial, MaxInterval: c.MaxInterval, MaxElapsedTime: c.MaxElapsed}))
			if err != nil {
				panic(err)
			}
			e.client.(*client).msc = c14Service{}
			return c14Exporter{e: e, rm: rm}
		},
	})
}
