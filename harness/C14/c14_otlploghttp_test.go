package otlploghttp

// C14 — OTLP retry discipline, exporter otlploghttp. Everything that is not specific to this
// package (alphabet, events, reference automaton, enumeration) is in internal/verifc14 (harness
// code, present in the scratch copy only). Seams: the Transport of the client's http.Client is
// replaced by the scripted RoundTripper (no socket is opened, the real http.Client and the real
// client code run), retry.waitFunc points at the recorder. newHTTPClient hides its httpClient
// behind a method value, so the harness assembles the httpClient the way newHTTPClient does
// (request template, compression and retry.RequestFunc(evaluate) from the resolved config).

import (
	"context"
	"net/http"
	"net/url"
	"testing"
	"time"

	"google.golang.org/protobuf/proto"

	"go.opentelemetry.io/otel/exporters/otlp/otlplog/otlploghttp/internal/retry"
	"go.opentelemetry.io/otel/internal/verifc14"
	"go.opentelemetry.io/otel/log"
	sdklog "go.opentelemetry.io/otel/sdk/log"
	"go.opentelemetry.io/otel/sdk/log/logtest"
	collogpb "go.opentelemetry.io/proto/otlp/collector/logs/v1"
)

type c14Exporter struct {
	e    *Exporter
	recs []sdklog.Record
}

func (x c14Exporter) Export(ctx context.Context) error   { return x.e.Export(ctx, x.recs) }
func (x c14Exporter) Shutdown(ctx context.Context) error { return x.e.Shutdown(ctx) }

func c14Records() []sdklog.Record {
	t0 := time.Unix(1700000000, 0)
	return []sdklog.Record{logtest.RecordFactory{
		Timestamp: t0, ObservedTimestamp: t0, Severity: log.SeverityInfo, Body: log.StringValue("c14-record"),
	}.NewRecord()}
}

func c14Decode(b []byte) string {
	var req collogpb.ExportLogsServiceRequest
	if err := proto.Unmarshal(b, &req); err != nil {
		return "not an ExportLogsServiceRequest: " + err.Error()
	}
	if len(req.ResourceLogs) != 1 || len(req.ResourceLogs[0].ScopeLogs) != 1 ||
		len(req.ResourceLogs[0].ScopeLogs[0].LogRecords) != 1 || req.ResourceLogs[0].ScopeLogs[0].LogRecords[0].Body.GetStringValue() != "c14-record" {
		return "request does not hold exactly the exported record"
	}
	return ""
}

// c14ForeignRecords: what the second exporter of an Interleave configuration exports (other content, other size).
func c14ForeignRecords() []sdklog.Record {
	t0 := time.Unix(1800000000, 0)
	var rs []sdklog.Record
	for i := 0; i < 3; i++ {
		rs = append(rs, logtest.RecordFactory{
			Timestamp: t0, ObservedTimestamp: t0, Severity: log.SeverityError, Body: log.StringValue("c14-record-of-the-other-exporter"),
		}.NewRecord())
	}
	return rs
}

func TestVerifC14(t *testing.T) {
	recs := c14Records()
	foreign := c14ForeignRecords()
	verifc14.Run(t, verifc14.Target{
		Name:          "otlploghttp",
		HTTP:          true,
		Alphabet:      verifc14.HTTPAlphabet(),
		SetWait:       retry.VerifC14SetWait,
		Clock:         verifc14.ClockSeam{Advance: retry.VerifC14Advance, Reset: retry.VerifC14ResetClock, Reads: retry.VerifC14ClockReads},
		Reports:       verifc14.HTTPReports,
		DecodePayload: c14Decode,
		// Exporter.Shutdown swaps the client pointer and returns; an upload in flight keeps the old client.
		ShutdownMode: func(bool) verifc14.ShutMode { return verifc14.SyncContinue },
		New: func(c verifc14.Config) verifc14.Exporter {
			comp := NoCompression
			if c.Gzip {
				comp = GzipCompression
			}
			host, payload := "c14.invalid:4318", recs
			if c.Foreign {
				host, payload = verifc14.ForeignHost, foreign
			}
			cfg := newConfig([]Option{WithInsecure(), WithEndpoint(host), WithCompression(comp),
				WithRetry(RetryConfig{Enabled: c.Enabled, InitialInterval: c.Initial, MaxInterval: c.MaxInterval, MaxElapsedTime: c.MaxElapsed})})
			u := &url.URL{Scheme: "http", Host: cfg.endpoint.Value, Path: cfg.path.Value}
			req, err := http.NewRequest(http.MethodPost, u.String(), http.NoBody)
			if err != nil {
				panic(err)
			}
			req.Header.Set("User-Agent", "OTel Go OTLP over HTTP/protobuf logs exporter/"+Version())
			req.Header.Set("Content-Type", "application/x-protobuf")
			hc := &httpClient{
				compression: cfg.compression.Value,
				req:         req,
				requestFunc: cfg.retryCfg.Value.RequestFunc(evaluate),
				client:      &http.Client{Transport: verifc14.RoundTripper(), Timeout: cfg.timeout.Value},
			}
			e, err := newExporter(&client{uploadLogs: hc.uploadLogs}, cfg)
			if err != nil {
				panic(err)
			}
			return c14Exporter{e: e, recs: payload}
		},
	})
}
