package attribute_test

// C05 — attribute sets are canonical. Bounded-exhaustive enumeration of every key-value
// slice up to a length over an alphabet with one representative per shortcut visible in
// attribute/set.go and attribute/value.go (all eight value types, NaN, signed zeros, empty
// strings / slices / keys, equal raw bits under different types), compared with a map model.

import (
	"fmt"
	"math"
	"sort"
	"strings"
	"testing"

	"go.opentelemetry.io/otel/attribute"
	"verif/mc/enum"
)

type sym struct {
	kv   attribute.KeyValue
	key  string
	typ  attribute.Type
	bits string // exact typed content (floats by bit pattern)
	norm string // content with -0 folded into +0 (the unspecified case of §4)
	nan  bool   // contains NaN inside a slice value
}

func fbits(f float64) string { return fmt.Sprintf("%016x", math.Float64bits(f)) }
func fnorm(f float64) string {
	if f == 0 {
		f = 0
	}
	return fbits(f)
}

func mkF(k string, f float64) sym {
	return sym{kv: attribute.Float64(k, f), key: k, typ: attribute.FLOAT64, bits: fbits(f), norm: fnorm(f)}
}

func mkFS(k string, fs ...float64) sym {
	var b, n []string
	nan := false
	for _, f := range fs {
		b = append(b, fbits(f))
		n = append(n, fnorm(f))
		nan = nan || f != f
	}
	return sym{kv: attribute.Float64Slice(k, fs), key: k, typ: attribute.FLOAT64SLICE, bits: "[" + strings.Join(b, " ") + "]", norm: "[" + strings.Join(n, " ") + "]", nan: nan}
}

func mkI(k string, i int64) sym {
	s := fmt.Sprint(i)
	return sym{kv: attribute.Int64(k, i), key: k, typ: attribute.INT64, bits: s, norm: s}
}
func mkB(k string, b bool) sym {
	s := fmt.Sprint(b)
	return sym{kv: attribute.Bool(k, b), key: k, typ: attribute.BOOL, bits: s, norm: s}
}
func mkS(k string, v string) sym {
	s := fmt.Sprintf("%q", v)
	return sym{kv: attribute.String(k, v), key: k, typ: attribute.STRING, bits: s, norm: s}
}
func mkIS(k string, v ...int64) sym {
	s := fmt.Sprint(append([]int64{}, v...))
	return sym{kv: attribute.Int64Slice(k, v), key: k, typ: attribute.INT64SLICE, bits: s, norm: s}
}
func mkBS(k string, v ...bool) sym {
	s := fmt.Sprint(append([]bool{}, v...))
	return sym{kv: attribute.BoolSlice(k, v), key: k, typ: attribute.BOOLSLICE, bits: s, norm: s}
}
func mkSS(k string, v ...string) sym {
	s := fmt.Sprintf("%q", append([]string{}, v...))
	return sym{kv: attribute.StringSlice(k, v), key: k, typ: attribute.STRINGSLICE, bits: s, norm: s}
}

// describe reads a real Value back through the public accessors.
func describe(v attribute.Value, norm bool) (attribute.Type, string) {
	ff := fbits
	if norm {
		ff = fnorm
	}
	switch v.Type() {
	case attribute.BOOL:
		return v.Type(), fmt.Sprint(v.AsBool())
	case attribute.INT64:
		return v.Type(), fmt.Sprint(v.AsInt64())
	case attribute.FLOAT64:
		return v.Type(), ff(v.AsFloat64())
	case attribute.STRING:
		return v.Type(), fmt.Sprintf("%q", v.AsString())
	case attribute.BOOLSLICE:
		return v.Type(), fmt.Sprint(append([]bool{}, v.AsBoolSlice()...))
	case attribute.INT64SLICE:
		return v.Type(), fmt.Sprint(append([]int64{}, v.AsInt64Slice()...))
	case attribute.FLOAT64SLICE:
		var b []string
		for _, f := range v.AsFloat64Slice() {
			b = append(b, ff(f))
		}
		return v.Type(), "[" + strings.Join(b, " ") + "]"
	case attribute.STRINGSLICE:
		return v.Type(), fmt.Sprintf("%q", append([]string{}, v.AsStringSlice()...))
	}
	return v.Type(), "invalid"
}

func alphabet() []sym {
	nan := math.NaN()
	negz := math.Copysign(0, -1)
	return []sym{
		mkI("a", 1), mkI("a", 0), mkB("a", false), mkF("a", 0), mkF("a", negz), mkF("a", nan), mkS("a", ""),
		mkSS("a"), mkIS("a"), mkFS("a", nan), mkFS("a", 0), mkBS("a", true),
		mkI("b", 1), mkS("b", "x=,\\"), mkFS("b", 1.5, negz),
		mkI("", 1),
	}
}

// canonical key of a model set: sorted "key/type/content;" list.
func modelKey(al []sym, m map[string]int, norm bool) string {
	ks := make([]string, 0, len(m))
	for k := range m {
		ks = append(ks, k)
	}
	sort.Strings(ks)
	var b strings.Builder
	for _, k := range ks {
		s := al[m[k]]
		c := s.bits
		if norm {
			c = s.norm
		}
		fmt.Fprintf(&b, "%q/%d/%s;", k, s.typ, c)
	}
	return b.String()
}

func realKey(s *attribute.Set, norm bool) string {
	var b strings.Builder
	for _, kv := range s.ToSlice() {
		t, c := describe(kv.Value, norm)
		fmt.Fprintf(&b, "%q/%d/%s;", string(kv.Key), t, c)
	}
	return b.String()
}

func multiset(al []sym, kvs []attribute.KeyValue) string {
	var xs []string
	for _, kv := range kvs {
		t, c := describe(kv.Value, false)
		xs = append(xs, fmt.Sprintf("%q/%d/%s", string(kv.Key), t, c))
	}
	sort.Strings(xs)
	return strings.Join(xs, ";")
}

func hasNaNSlice(al []sym, m map[string]int) bool {
	for _, i := range m {
		if al[i].nan {
			return true
		}
	}
	return false
}

type c05 struct {
	r  *enum.R
	al []sym
	// partition bookkeeping for the identity oracle
	byBits  map[string]attribute.Distinct // exact content -> Distinct of the first set seen with it
	byDist  map[attribute.Distinct]string // Distinct -> zero-normalised content
	recent  []c05rep                      // the last few representatives of distinct contents
	repSets map[string]attribute.Set
}

type c05rep struct {
	norm string
	set  attribute.Set
}

func idxString(idx []int) string { return fmt.Sprint(idx) }

func (c *c05) caseDesc(idx []int, pred int) map[string]any {
	var items []string
	for _, i := range idx {
		s := c.al[i]
		items = append(items, fmt.Sprintf("%q:%s(%s)", s.key, s.typ, s.bits))
	}
	return map[string]any{"slice": items, "keep_predicate_bits(a,b,empty)": pred}
}

func nanClass(has bool) string {
	if has {
		return "FLOAT64SLICE contains NaN"
	}
	return "no NaN slice"
}

// one evaluates every oracle for one input slice.
func (c *c05) one(idx []int) {
	r, al := c.r, c.al
	model := map[string]int{}
	for _, i := range idx {
		model[al[i].key] = i
	}
	keys := []string{"a", "b", ""}
	build := func() []attribute.KeyValue {
		kvs := make([]attribute.KeyValue, len(idx))
		for j, i := range idx {
			kvs[j] = al[i].kv
		}
		return kvs
	}
	// ---- NewSet
	kvs := build()
	before := multiset(al, kvs)
	set := attribute.NewSet(kvs...)
	r.Eval()
	if after := multiset(al, kvs); after != before {
		r.FailHere("input-lost|NewSet", c.caseDesc(idx, -1), "caller's slice lost values: before %s after %s", before, after)
	}
	c.checkContents("NewSet", idx, -1, &set, model)
	c.identity(idx, &set, model)
	r.Outcome(realKey(&set, false))

	// ---- all key predicates
	for pred := 0; pred < 8; pred++ {
		keep := func(kv attribute.KeyValue) bool {
			for b, k := range keys {
				if string(kv.Key) == k {
					return pred&(1<<b) != 0
				}
			}
			return false
		}
		wantKept, wantDropped := map[string]int{}, map[string]int{}
		for k, i := range model {
			if keep(al[i].kv) {
				wantKept[k] = i
			} else {
				wantDropped[k] = i
			}
		}
		// NewSetWithFiltered
		kvs := build()
		fs, dropped := attribute.NewSetWithFiltered(kvs, keep)
		r.Eval()
		if after := multiset(al, kvs); after != before {
			r.FailHere("input-lost|NewSetWithFiltered", c.caseDesc(idx, pred), "caller's slice lost values: before %s after %s", before, after)
		}
		c.checkContents("NewSetWithFiltered", idx, pred, &fs, wantKept)
		c.checkDropped("NewSetWithFiltered", idx, pred, dropped, wantDropped)
		// Set.Filter on the full set
		snap := realKey(&set, false)
		eq := set.Equivalent()
		kept, dr := set.Filter(keep)
		r.Eval()
		if realKey(&set, false) != snap || (!hasNaNSlice(al, model) && set.Equivalent() != eq) {
			r.FailHere("filter-mutates-receiver", c.caseDesc(idx, pred), "receiver changed: %s -> %s", snap, realKey(&set, false))
		}
		c.checkContents("Set.Filter", idx, pred, &kept, wantKept)
		c.checkDropped("Set.Filter", idx, pred, dr, wantDropped)
		// mutating the returned dropped slice must not reach the receiver
		for i := range dr {
			dr[i] = attribute.String("zz", "mut")
		}
		if realKey(&set, false) != snap {
			r.FailHere("filter-aliases-receiver", c.caseDesc(idx, pred), "writing to the dropped slice changed the receiver")
		}
	}
}

func (c *c05) checkDropped(what string, idx []int, pred int, got []attribute.KeyValue, want map[string]int) {
	gm := map[string]string{}
	for _, kv := range got {
		t, cc := describe(kv.Value, false)
		if _, dup := gm[string(kv.Key)]; dup {
			c.r.FailHere("dropped-dup|"+what, c.caseDesc(idx, pred), "dropped list has key %q twice", kv.Key)
		}
		gm[string(kv.Key)] = fmt.Sprintf("%d/%s", t, cc)
	}
	wm := map[string]string{}
	for k, i := range want {
		wm[k] = fmt.Sprintf("%d/%s", c.al[i].typ, c.al[i].bits)
	}
	if fmt.Sprint(gm) != fmt.Sprint(wm) {
		c.r.FailHere("dropped-mismatch|"+what, c.caseDesc(idx, pred), "%s dropped %v, model %v", what, gm, wm)
	}
}

func (c *c05) checkContents(what string, idx []int, pred int, s *attribute.Set, model map[string]int) {
	r, al := c.r, c.al
	got := realKey(s, false)
	want := modelKey(al, model, false)
	if got != want {
		r.FailHere("contents|"+what, c.caseDesc(idx, pred), "%s holds %s, model %s", what, got, want)
		return
	}
	sl := s.ToSlice()
	for i := 1; i < len(sl); i++ {
		if !(sl[i-1].Key < sl[i].Key) {
			r.FailHere("not-sorted|"+what, c.caseDesc(idx, pred), "keys not strictly ascending: %q then %q", sl[i-1].Key, sl[i].Key)
		}
	}
	if s.Len() != len(model) {
		r.FailHere("len|"+what, c.caseDesc(idx, pred), "Len %d, model %d", s.Len(), len(model))
	}
	// lookups
	for _, k := range []string{"a", "b", "", "c"} {
		v, ok := s.Value(attribute.Key(k))
		mi, mok := model[k]
		if ok != mok || s.HasValue(attribute.Key(k)) != mok {
			r.FailHere("lookup|"+what, c.caseDesc(idx, pred), "Value/HasValue(%q) present=%v model %v", k, ok, mok)
			continue
		}
		if ok {
			t, cc := describe(v, false)
			if t != al[mi].typ || cc != al[mi].bits {
				r.FailHere("lookup|"+what, c.caseDesc(idx, pred), "Value(%q)=%d/%s model %d/%s", k, t, cc, al[mi].typ, al[mi].bits)
			}
		}
	}
	// Get / Iter agree with ToSlice
	it := s.Iter()
	n := 0
	for it.Next() {
		i, kv := it.IndexedAttribute()
		g, ok := s.Get(i)
		if !ok || i != n || multiset(al, []attribute.KeyValue{g}) != multiset(al, []attribute.KeyValue{kv}) || multiset(al, []attribute.KeyValue{kv}) != multiset(al, []attribute.KeyValue{sl[i]}) {
			r.FailHere("iter|"+what, c.caseDesc(idx, pred), "Iter/Get/ToSlice disagree at %d", i)
		}
		n++
	}
	// ToSlice of an iterator that has already been advanced restarts from the beginning (documented)
	for k := 0; k <= len(sl)+1; k++ {
		it2 := s.Iter()
		for j := 0; j < k; j++ {
			it2.Next()
		}
		got := it2.ToSlice()
		if multiset(al, got) != multiset(al, sl) || len(got) != len(sl) {
			r.FailHere("iterator-toslice|after Next calls|"+what, c.caseDesc(idx, pred), "Iterator.ToSlice after %d Next calls returns %d of %d attributes", k, len(got), len(sl))
			break
		}
	}
	if _, ok := s.Get(-1); ok {
		r.FailHere("get-out-of-range|"+what, c.caseDesc(idx, pred), "Get(-1) reports an attribute")
	}
	if _, ok := s.Get(n); ok || n != len(sl) || it.Len() != len(sl) {
		r.FailHere("iter|"+what, c.caseDesc(idx, pred), "Iter visited %d of %d (Len %d)", n, len(sl), it.Len())
	}
	// encoding: reference implementation of the documented format
	var parts []string
	esc := func(x string) string {
		x = strings.ReplaceAll(x, "\\", "\\\\")
		x = strings.ReplaceAll(x, "=", "\\=")
		return strings.ReplaceAll(x, ",", "\\,")
	}
	for _, kv := range sl {
		v := kv.Value.Emit()
		if kv.Value.Type() == attribute.STRING {
			v = esc(kv.Value.AsString())
		}
		parts = append(parts, esc(string(kv.Key))+"="+v)
	}
	if enc := s.Encoded(attribute.DefaultEncoder()); enc != strings.Join(parts, ",") {
		r.FailHere("encoding|"+what, c.caseDesc(idx, pred), "Encoded %q, reference %q", enc, strings.Join(parts, ","))
	}
	// what ToSlice handed out belongs to the caller: writing to it must not reach the set
	for i := range sl {
		sl[i] = attribute.String("scribbled-by-caller", "x")
	}
	if now := realKey(s, false); now != got {
		r.FailHere("toslice-aliases-set|"+what, c.caseDesc(idx, pred), "writing to the slice returned by ToSlice changed the set: %s -> %s", got, now)
	}
}

// identity checks Equals / Equivalent against "same key -> typed value mapping".
func (c *c05) identity(idx []int, s *attribute.Set, model map[string]int) {
	r, al := c.r, c.al
	bits, norm := modelKey(al, model, false), modelKey(al, model, true)
	nan := hasNaNSlice(al, model)
	d := s.Equivalent()
	// reflexivity
	cp := *s
	if !s.Equals(s) || !s.Equals(&cp) || d != s.Equivalent() {
		r.FailHere("self-inequality|"+nanClass(nan), c.caseDesc(idx, -1), "set %s is not Equal to itself", bits)
	}
	probe := map[attribute.Distinct]int{d: 1}
	if probe[s.Equivalent()] != 1 {
		r.FailHere("map-key-unfindable|"+nanClass(nan), c.caseDesc(idx, -1), "Equivalent() of %s does not find itself as a map key", bits)
	}
	// same exact content => equal identities
	if first, ok := c.byBits[bits]; ok {
		rep := c.repSets[bits]
		if first != d || !s.Equals(&rep) || !rep.Equals(s) {
			r.FailHere("equal-content-unequal-identity|"+nanClass(nan), c.caseDesc(idx, -1), "two sets holding %s are not Equal / have different Equivalent()", bits)
		}
	} else {
		c.byBits[bits] = d
		c.repSets[bits] = *s
		c.recent = append(c.recent, c05rep{norm, *s})
		if len(c.recent) > 12 {
			c.recent = c.recent[1:]
		}
	}
	// different content => not Equal, both ways (the method, not only the map identity): against the
	// most recent representatives of other contents
	if !nan {
		for i := range c.recent {
			if c.recent[i].norm != norm && (s.Equals(&c.recent[i].set) || c.recent[i].set.Equals(s)) {
				r.FailHere("unequal-content-Equals-true", c.caseDesc(idx, -1), "sets %s and %s are Equal", norm, c.recent[i].norm)
			}
		}
	}
	// equal identities => same content (up to the sign of zero)
	if !nan {
		if other, ok := c.byDist[d]; ok {
			if other != norm {
				r.FailHere("unequal-content-equal-identity", c.caseDesc(idx, -1), "sets %s and %s share one Equivalent()", other, norm)
			}
		} else {
			c.byDist[d] = norm
		}
	}
}

func (c *c05) merge(a, b []int) {
	r, al := c.r, c.al
	mk := func(idx []int) (attribute.Set, map[string]int) {
		kvs := make([]attribute.KeyValue, len(idx))
		m := map[string]int{}
		for j, i := range idx {
			kvs[j] = al[i].kv
			m[al[i].key] = i
		}
		return attribute.NewSet(kvs...), m
	}
	s1, m1 := mk(a)
	s2, m2 := mk(b)
	want := map[string]int{}
	for k, i := range m2 {
		want[k] = i
	}
	for k, i := range m1 {
		want[k] = i // first set wins
	}
	it := attribute.NewMergeIterator(&s1, &s2)
	var got []attribute.KeyValue
	for it.Next() {
		got = append(got, it.Attribute())
	}
	r.Eval()
	var gs strings.Builder
	for _, kv := range got {
		t, cc := describe(kv.Value, false)
		fmt.Fprintf(&gs, "%q/%d/%s;", string(kv.Key), t, cc)
	}
	if gs.String() != modelKey(al, want, false) {
		r.FailHere("merge-iterator", map[string]any{"first": c.caseDesc(a, -1)["slice"], "second": c.caseDesc(b, -1)["slice"]}, "MergeIterator yields %s, model (first wins, sorted) %s", gs.String(), modelKey(al, want, false))
	}
}

func TestVerifC05(t *testing.T) {
	al := alphabet()
	var jobs []string
	for i := range al {
		jobs = append(jobs, fmt.Sprintf("first=%02d", i))
	}
	jobs = append(jobs, "pairs", "long", "encode", "zero", "slices", "keyfilters")
	enum.Jobs(jobs, func(job string) {
		r := enum.Start("C05", "set")
		defer r.Finish()
		c := &c05{r: r, al: al, byBits: map[string]attribute.Distinct{}, byDist: map[attribute.Distinct]string{}, repSets: map[string]attribute.Set{}}
		maxLen := enum.Pick(r, 4, 5)
		r.Bound("alphabet", len(al))
		r.Bound("max_slice_len", maxLen)
		r.Bound("predicates", 8)
		switch {
		case strings.HasPrefix(job, "first="):
			var first int
			fmt.Sscanf(job, "first=%d", &first)
			r.Section(job)
			if first == 0 && r.Want() {
				c.one(nil) // the empty slice, once
			}
			// shortest slices first, so that the first failure per key is the simplest one
			for L := 1; L <= maxLen; L++ {
				var rec func(idx []int)
				rec = func(idx []int) {
					if len(idx) == L {
						if r.Want() {
							c.one(idx)
							r.Sample(func() any { return c.caseDesc(idx, -1) })
						}
						return
					}
					if r.Expired() {
						return
					}
					for i := range al {
						rec(append(idx, i))
					}
				}
				rec([]int{first})
			}
		case job == "pairs":
			// every ordered pair of slices of length <= 2: merge iterator, and the identity
			// partition across all of them in one process.
			r.Section(job)
			var all [][]int
			all = append(all, nil)
			for i := range al {
				all = append(all, []int{i})
				for j := range al {
					all = append(all, []int{i, j})
					if r.Thorough() {
						for k := range al {
							all = append(all, []int{i, j, k})
						}
					}
				}
			}
			for _, a := range all {
				if r.Want() {
					c.one(a)
				}
			}
			lim := len(all)
			if r.Thorough() {
				lim = 1 + len(al) + len(al)*len(al) // merge over length <= 2 only
			}
			m := 0
			for i := 0; i < len(all) && m < lim; i++ {
				if len(all[i]) > 2 {
					continue
				}
				m++
				for j := 0; j < len(all); j++ {
					if len(all[j]) > 2 {
						continue
					}
					if r.Want() {
						c.merge(all[i], all[j])
					}
				}
			}
		case job == "slices":
			// the slice types with elements (order, length, empty strings inside), negative integers, BOOL
			// true, a second value under the empty key, IntSlice: every slice <= 3 over this alphabet
			r.Section(job)
			al2 := []sym{
				mkIS("a", 1, 2), mkIS("a", 2, 1), mkIS("a", 1), mkIS("a", -1), mkSS("a", "x"), mkSS("a", "", "x"), mkSS("a", "x", ""),
				mkBS("a", false, true), mkBS("a", true, false), mkB("a", true), mkI("a", -1), mkI("", 1), mkI("", 2), mkS("", ""),
			}
			viaIntSlice := mkIS("a", 1, 2)
			viaIntSlice.kv = attribute.IntSlice("a", []int{1, 2}) // the []int constructor: same content as Int64Slice
			al2 = append(al2, viaIntSlice)
			r.Bound("slices_alphabet", len(al2))
			c2 := &c05{r: r, al: al2, byBits: map[string]attribute.Distinct{}, byDist: map[attribute.Distinct]string{}, repSets: map[string]attribute.Set{}}
			for L := 1; L <= 3; L++ {
				var rec func(idx []int)
				rec = func(idx []int) {
					if len(idx) == L {
						if r.Want() {
							c2.one(idx)
							r.Sample(func() any { return c2.caseDesc(idx, -1) })
						}
						return
					}
					for i := range al2 {
						rec(append(idx, i))
					}
				}
				rec(nil)
			}
		case job == "keyfilters":
			// attribute/filter.go: NewAllowKeysFilter / NewDenyKeysFilter over every subset of {"", a, b, c},
			// through NewSetWithFiltered and Set.Filter, on one set holding all four keys and on the empty set
			r.Section(job)
			keys := []attribute.Key{"", "a", "b", "c"}
			full := []attribute.KeyValue{attribute.Int("", 0), attribute.Int("a", 1), attribute.Int("b", 2), attribute.Int("c", 3)}
			for mask := 0; mask < 16; mask++ {
				for _, deny := range []bool{false, true} {
					if !r.Want() {
						continue
					}
					r.Eval()
					var sub []attribute.Key
					in := map[attribute.Key]bool{}
					for i, k := range keys {
						if mask&(1<<i) != 0 {
							sub = append(sub, k)
							in[k] = true
						}
					}
					f := attribute.NewAllowKeysFilter(sub...)
					name := "NewAllowKeysFilter"
					if deny {
						f, name = attribute.NewDenyKeysFilter(sub...), "NewDenyKeysFilter"
					}
					cas := map[string]any{"constructor": name, "keys": fmt.Sprint(sub)}
					wantKept := ""
					for _, kv := range full {
						if in[kv.Key] != deny {
							wantKept += string(kv.Key) + "=" + kv.Value.Emit() + ";"
						}
					}
					render := func(st attribute.Set) string {
						o := ""
						for _, kv := range st.ToSlice() {
							o += string(kv.Key) + "=" + kv.Value.Emit() + ";"
						}
						return o
					}
					s1, dropped1 := attribute.NewSetWithFiltered(append([]attribute.KeyValue{}, full...), f)
					whole := attribute.NewSet(full...)
					s2, dropped2 := whole.Filter(f)
					if render(s1) != wantKept || render(s2) != wantKept || len(dropped1) != 4-s1.Len() || len(dropped2) != 4-s2.Len() {
						r.FailHere("key-filter|"+name, cas, "%s(%v): NewSetWithFiltered keeps %q (dropped %d), Set.Filter keeps %q (dropped %d), expected %q", name, sub, render(s1), len(dropped1), render(s2), len(dropped2), wantKept)
					}
					e := attribute.NewSet()
					if k, d := e.Filter(f); k.Len() != 0 || len(d) != 0 {
						r.FailHere("key-filter|empty set|"+name, cas, "filtering the empty set gives %d kept, %d dropped", k.Len(), len(d))
					}
					r.Outcome(name + fmt.Sprint(sub) + wantKept)
				}
			}
		case job == "zero":
			// the four spellings of "no attributes": the zero value, a nil pointer, EmptySet() and NewSet()
			// must behave as the empty set in every lookup, iteration, identity and encoding
			r.Section(job)
			var zero attribute.Set
			var nilp *attribute.Set
			built := attribute.NewSet()
			viaFilter, _ := attribute.NewSetWithFiltered([]attribute.KeyValue{attribute.Int("a", 1)}, func(attribute.KeyValue) bool { return false })
			forms := []struct {
				name string
				s    *attribute.Set
			}{{"zero-value", &zero}, {"nil-pointer", nilp}, {"EmptySet()", attribute.EmptySet()}, {"NewSet()", &built}, {"all-filtered-out", &viaFilter}}
			for _, f := range forms {
				if !r.Want() {
					continue
				}
				r.Eval()
				func() {
					defer func() {
						if p := recover(); p != nil {
							r.FailHere("panic|empty set form "+f.name, f.name, "panic: %v", p)
						}
					}()
					c.checkContents("empty:"+f.name, nil, -1, f.s, map[string]int{})
					for _, i := range []int{0, 1, -1, 1 << 40} {
						if kv, ok := f.s.Get(i); ok || kv.Key != "" || kv.Value.Type() != attribute.INVALID {
							r.FailHere("get-out-of-range|empty:"+f.name, f.name, "Get(%d) on an empty set = %v, %v", i, kv, ok)
						}
					}
					if v, ok := f.s.Value("a"); ok || v.Type() != attribute.INVALID || f.s.HasValue("a") {
						r.FailHere("lookup|empty:"+f.name, f.name, "Value/HasValue find a key in an empty set")
					}
					for _, g := range forms {
						if !f.s.Equals(g.s) || f.s.Equivalent() != g.s.Equivalent() {
							r.FailHere("identity|empty forms differ", f.name+" vs "+g.name, "two empty sets are not Equal / have different Equivalent()")
						}
					}
					one := attribute.NewSet(attribute.Int("a", 1))
					if f.s.Equals(&one) || one.Equals(f.s) {
						r.FailHere("identity|empty equals non-empty", f.name, "empty set Equals {a=1}")
					}
					if f.s != nil {
						if m, ok := f.s.MarshalLog().(map[string]string); !ok || len(m) != 0 {
							r.FailHere("marshal|empty:"+f.name, f.name, "MarshalLog = %v", f.s.MarshalLog())
						}
						kept, dropped := f.s.Filter(func(attribute.KeyValue) bool { return true })
						if kept.Len() != 0 || len(dropped) != 0 {
							r.FailHere("filter|empty:"+f.name, f.name, "Filter of an empty set: kept %d dropped %d", kept.Len(), len(dropped))
						}
						kept, dropped = f.s.Filter(nil)
						if kept.Len() != 0 || len(dropped) != 0 {
							r.FailHere("filter|empty:"+f.name, f.name, "Filter(nil) of an empty set: kept %d dropped %d", kept.Len(), len(dropped))
						}
					}
					r.Outcome("empty:" + f.name)
				}()
			}
		case job == "encode":
			// default encoder: every key and STRING value over {x, =, ",", backslash, é, 名, 😀} up to length 2 (3 for the four ASCII ones)
			// (each special character alone, in pairs, next to ordinary ones), one and two attributes
			r.Section(job)
			chars := []string{"x", "=", ",", "\\", "é", "名", "😀"} // + 2-, 3- and 4-byte characters: the encoding is of the text, not of its bytes one by one
			var words []string
			words = append(words, "")
			for L := 1; L <= 3; L++ {
				var rec func(cur string, n int)
				rec = func(cur string, n int) {
					if n == L {
						words = append(words, cur)
						return
					}
					for ci, ch := range chars {
						if L == 3 && ci >= 4 {
							continue // length 3 over the ASCII characters only
						}
						rec(cur+ch, n+1)
					}
				}
				rec("", 0)
			}
			esc := func(x string) string {
				x = strings.ReplaceAll(x, "\\", "\\\\")
				x = strings.ReplaceAll(x, "=", "\\=")
				return strings.ReplaceAll(x, ",", "\\,")
			}
			r.Bound("encode_words", len(words))
			for _, k := range words {
				for _, v := range words {
					if !r.Want() {
						continue
					}
					r.Eval()
					set := attribute.NewSet(attribute.String(k, v), attribute.Int("zz", 1))
					want := esc(k) + "=" + esc(v) + ",zz=1"
					if k > "zz" {
						want = "zz=1," + esc(k) + "=" + esc(v)
					}
					if got := set.Encoded(attribute.DefaultEncoder()); got != want {
						r.FailHere("encoding|escape characters", map[string]any{"key": k, "value": v}, "Encoded %q, reference %q", got, want)
					}
					r.Outcome(want)
				}
			}
		case job == "long":
			// the 10-element storage switch: n distinct keys, every duplicate position, every rotation
			r.Section(job)
			sizes := []int{}
			for n := 1; n <= 40; n++ { // every size around (and well past) the fixed-array storage switch
				sizes = append(sizes, n)
			}
			for _, n := range sizes {
				base := make([]attribute.KeyValue, n)
				for i := range base {
					base[i] = attribute.Int(fmt.Sprintf("k%02d", i), i)
				}
				for rot := 0; rot < n; rot++ {
					for dup := -1; dup < n; dup++ {
						for at := 0; at <= n; at += 1 {
							if dup < 0 && at > 0 {
								break
							}
							if n > 16 && at != 0 && at != n/2 && at != n {
								continue // large sets: duplicate inserted at the front, the middle and the end only
							}
							if n > 16 && rot%5 != 0 {
								continue // ... and every fifth rotation
							}
							if !r.Want() {
								continue
							}
							kvs := make([]attribute.KeyValue, 0, n+1)
							for i := 0; i < n; i++ {
								kvs = append(kvs, base[(i+rot)%n])
							}
							wantVal := map[string]int64{}
							for i := 0; i < n; i++ {
								wantVal[fmt.Sprintf("k%02d", i)] = int64(i)
							}
							if dup >= 0 {
								d := attribute.Int(fmt.Sprintf("k%02d", dup), 1000+dup)
								kvs = append(kvs[:at], append([]attribute.KeyValue{d}, kvs[at:]...)...)
								// last supplied wins
								last := int64(-1)
								for _, kv := range kvs {
									if string(kv.Key) == string(d.Key) {
										last = kv.Value.AsInt64()
									}
								}
								wantVal[string(d.Key)] = last
							}
							in := len(kvs)
							s := attribute.NewSet(kvs...)
							r.Eval()
							sl := s.ToSlice()
							ok := len(sl) == n && s.Len() == n && len(kvs) == in
							for i := 0; ok && i < n; i++ {
								k := fmt.Sprintf("k%02d", i)
								ok = string(sl[i].Key) == k && sl[i].Value.AsInt64() == wantVal[k]
								if v, has := s.Value(attribute.Key(k)); !has || v.AsInt64() != wantVal[k] {
									ok = false
								}
							}
							s2 := attribute.NewSet(sl...)
							if !ok || !s.Equals(&s2) || !s.Equals(&s) {
								r.FailHere("long-set", map[string]any{"n": n, "rotation": rot, "dup_key": dup, "dup_at": at}, "set of %d keys (rotation %d, duplicate of k%02d inserted at %d) is wrong: %v", n, rot, dup, at, sl)
							}
							r.Outcome(fmt.Sprint(n, rot, dup >= 0))
						}
					}
				}
			}
		}
	})
}
