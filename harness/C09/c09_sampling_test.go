package trace_test

// C09 — sampling decisions are consistent and traces stay connected.
//
// Bounded-exhaustive enumeration on the REAL sdk/trace package against independent references:
//
//   ratio/…    TraceIDRatioBased as a black box. For every ratio of a fixed list the decision
//              threshold on the 63-bit key (upper 63 bits of the trace id's low half) is found by
//              binary search over trace ids and compared with r*2^63 computed in exact rational
//              arithmetic; then, over the boundary id set (every threshold-1/threshold/threshold+1,
//              the extreme keys) x upper-64-bit patterns x lowest bit: determinism (repeated call,
//              fresh sampler instance, every parent/name/kind/attribute/link variation), r<=0
//              samples nothing, r>=1 everything, independence from the upper 64 bits, threshold
//              shape, and monotonicity for EVERY ordered pair of ratios.
//   couple/…   tracer.Start coupling. Sampler compositions (stock, ratio, custom samplers returning
//              every decision x tracestate choice, ParentBased with every combination of root and
//              the four overrides) x parent contexts (absent, local/remote x sampled/unsampled x
//              with/without tracestate, extra flag bits, WithNewRoot) x every rooted span tree up to
//              N nodes x both end orders, on a real TracerProvider with a simple AND a batch span
//              processor feeding in-memory exporters, ids from the SDK's default generator driven
//              by a scripted source. The provider's sampler is wrapped in a recorder, so that the
//              sampler's answer (judged against a decision table) and what newSpan makes of that
//              answer (flag, recording state, export, tracestate, ids) are judged separately.
//   couple/env the samplers selected by OTEL_TRACES_SAMPLER[_ARG] behave like their programmatic
//              twins, directly (answer by answer) and through a provider built without WithSampler.
//   idgen      the default id generator, sequentially: scripted source with a run of zero draws at
//              every small position/length x every short sequence of NewIDs/NewSpanID calls: no
//              all-zero id, all ids pairwise distinct.
//
// Black box except for two doors in c09_export_test.go (default generator with a scripted source,
// samplerFromEnv).

import (
	"context"
	"encoding/binary"
	"fmt"
	"math"
	"math/big"
	"os"
	"sort"
	"strings"
	"sync"
	"testing"

	"go.opentelemetry.io/otel/attribute"
	sdktrace "go.opentelemetry.io/otel/sdk/trace"
	"go.opentelemetry.io/otel/trace"
	"verif/mc/enum"
)

const two63 = uint64(1) << 63

func decName(d sdktrace.SamplingDecision) string {
	switch d {
	case sdktrace.Drop:
		return "Drop"
	case sdktrace.RecordOnly:
		return "RecordOnly"
	case sdktrace.RecordAndSample:
		return "RecordAndSample"
	}
	return fmt.Sprintf("Decision(%d)", uint8(d))
}

// =======================================================================================
// (a) ratio sampler, black box

// refThreshold returns floor(r*2^63) and ceil(r*2^63) in exact rational arithmetic
// (0 for r<=0, 2^63 for r>=1).
func refThreshold(r float64) (floor, ceil uint64) {
	if r <= 0 {
		return 0, 0
	}
	if r >= 1 {
		return two63, two63
	}
	q := new(big.Rat).SetFloat64(r) // exact
	q.Mul(q, new(big.Rat).SetInt(new(big.Int).Lsh(big.NewInt(1), 63)))
	fl := new(big.Int).Quo(q.Num(), q.Denom()) // q > 0: truncation is floor
	floor = fl.Uint64()
	ceil = floor
	if !q.IsInt() {
		ceil++
	}
	return floor, ceil
}

func ratioList() []float64 {
	nz := math.Copysign(0, -1)
	// DESIGN §5 C09(a) first, then one representative per float/threshold shape
	xs := []float64{0, 1, 0.5, 0.25, 0.75, 0.1, 1e-9, math.Ldexp(1, -63), math.Ldexp(1, -62), 1 - math.Ldexp(1, -53), -1, 1.5, math.Inf(1),
		math.Inf(-1), nz, -math.SmallestNonzeroFloat64, math.SmallestNonzeroFloat64, -1e-300, 1e-300,
		math.Ldexp(1, -64), math.Ldexp(1, -65), math.Ldexp(3, -64), math.Ldexp(3, -65), math.Ldexp(5, -65),
		math.Nextafter(math.Ldexp(1, -63), 0), math.Nextafter(math.Ldexp(1, -63), 1),
		math.Nextafter(1, 2), 2, 1e300, math.MaxFloat64, -math.MaxFloat64,
		1.0 / 3, 2.0 / 3, 0.01, 0.001, 0.99, 0.999999, 0.3, 0.7}
	for k := 1; k <= 9; k++ {
		xs = append(xs, float64(k)/10)
	}
	for k := 1; k <= 20; k++ {
		xs = append(xs, math.Pow(10, -float64(k)))
	}
	for k := 2; k <= 62; k++ {
		xs = append(xs, math.Ldexp(1, -k))
	}
	for k := 2; k <= 52; k++ {
		xs = append(xs, 1-math.Ldexp(1, -k))
	}
	for k := 1; k <= 16; k++ { // k/2^63 and (k+1/2)/2^63: integral and half-way products
		xs = append(xs, math.Ldexp(float64(k), -63), math.Ldexp(float64(2*k+1), -64))
	}
	seen := map[uint64]bool{}
	var out []float64
	for _, x := range xs {
		b := math.Float64bits(x)
		if !seen[b] {
			seen[b] = true
			out = append(out, x)
		}
	}
	return out
}

func mkTID(hi, key, low uint64) trace.TraceID {
	var t trace.TraceID
	binary.BigEndian.PutUint64(t[0:8], hi)
	binary.BigEndian.PutUint64(t[8:16], key<<1|(low&1))
	return t
}

func keyOf(t trace.TraceID) uint64 { return binary.BigEndian.Uint64(t[8:16]) >> 1 }

var (
	tsP, _ = trace.ParseTraceState("p=1,q=2")
	tsO, _ = trace.ParseTraceState("o=9")
)

const nQueryVariants = 5

// queryParams builds SamplingParameters for tid under variation v: what accompanies the trace
// id (parent context, name, kind, attributes, links) must not change a ratio decision. A parent
// context, when present, carries the same trace id (as it does in every real call).
func queryParams(tid trace.TraceID, v int) sdktrace.SamplingParameters {
	p := sdktrace.SamplingParameters{ParentContext: context.Background(), TraceID: tid}
	if v == 0 {
		return p
	}
	cfg := trace.SpanContextConfig{TraceID: tid, SpanID: trace.SpanID{1, 2, 3, 4, 5, 6, 7, 8}}
	switch v {
	case 1:
		cfg.Remote, cfg.TraceFlags, cfg.TraceState = true, trace.FlagsSampled, tsP
	case 2:
		cfg.Remote = true
	case 3:
		cfg.TraceFlags = trace.FlagsSampled
		p.Name, p.Kind = "op", trace.SpanKindServer
	case 4:
		cfg.TraceState = tsO
		p.Name, p.Kind = "another name", trace.SpanKindConsumer
		p.Attributes = []attribute.KeyValue{attribute.String("sampling.priority", "1"), attribute.Int("n", 7)}
		p.Links = []trace.Link{{SpanContext: trace.NewSpanContext(trace.SpanContextConfig{TraceID: trace.TraceID{9}, SpanID: trace.SpanID{9}, TraceFlags: trace.FlagsSampled})}}
	}
	p.ParentContext = trace.ContextWithSpanContext(context.Background(), trace.NewSpanContext(cfg))
	return p
}

type ratioBox struct {
	r     *enum.R
	ratio float64
	s     sdktrace.Sampler
	pan   any
}

func newRatioBox(r *enum.R, ratio float64) *ratioBox {
	b := &ratioBox{r: r, ratio: ratio}
	func() {
		defer func() { b.pan = recover() }()
		b.s = sdktrace.TraceIDRatioBased(ratio)
	}()
	return b
}

// ask returns whether tid is sampled (decision RecordAndSample) under query variation v.
func (b *ratioBox) ask(s sdktrace.Sampler, tid trace.TraceID, v int) (sampled bool) {
	defer func() {
		if p := recover(); p != nil && b.pan == nil {
			b.pan = p
		}
	}()
	b.r.Eval()
	return s.ShouldSample(queryParams(tid, v)).Decision == sdktrace.RecordAndSample
}

const searchHi = uint64(0x0123456789abcdef)

// findThreshold: smallest key in [0,2^63] that is not sampled, by bisection (keys below are
// assumed sampled, keys above not: that shape is then checked on the boundary set).
func (b *ratioBox) findThreshold() uint64 {
	lo, hi := uint64(0), two63
	for lo < hi {
		mid := lo + (hi-lo)/2
		if b.ask(b.s, mkTID(searchHi, mid, 0), 0) {
			lo = mid + 1
		} else {
			hi = mid
		}
	}
	return lo
}

func ratioCase(ratio float64) map[string]any {
	fl, ce := refThreshold(ratio)
	return map[string]any{"ratio": fmt.Sprintf("%g", ratio), "ratio_bits": fmt.Sprintf("%016x", math.Float64bits(ratio)),
		"exact_floor_r_times_2^63": fmt.Sprintf("%d", fl), "exact_ceil": fmt.Sprintf("%d", ce)}
}

func boundaryKeys(ratios []float64) []uint64 {
	set := map[uint64]bool{}
	add := func(k uint64) {
		if k < two63 {
			set[k] = true
		}
	}
	for _, k := range []uint64{0, 1, 2, two63 - 1, two63 - 2, two63 - 3} {
		add(k)
	}
	for _, r := range ratios {
		fl, ce := refThreshold(r)
		for _, t := range []uint64{fl, ce} {
			if t > 0 {
				add(t - 1)
			}
			add(t)
			add(t + 1)
		}
	}
	ks := make([]uint64, 0, len(set))
	for k := range set {
		ks = append(ks, k)
	}
	sort.Slice(ks, func(i, j int) bool { return ks[i] < ks[j] })
	return ks
}

func hiPatterns(thorough bool) []uint64 {
	if thorough {
		return []uint64{0, ^uint64(0), 1, 1 << 63, searchHi, 0x00000000ffffffff}
	}
	return []uint64{0, ^uint64(0), searchHi}
}

func diffClass(found uint64, ratio float64) string {
	fl, ce := refThreshold(ratio)
	switch {
	case found == ce+1 || found+1 == fl:
		return "off by one key"
	case found == 0:
		return "nothing sampled"
	case found == two63:
		return "everything sampled"
	case found > ce:
		return "too many keys sampled"
	}
	return "too few keys sampled"
}

func runRatio(r *enum.R, job string) {
	ratios := ratioList()
	keys := boundaryKeys(ratios)
	his := hiPatterns(r.Thorough())
	r.Bound("ratios", len(ratios))
	r.Bound("boundary_keys", len(keys))
	r.Bound("upper_64_bit_patterns", len(his))
	r.Bound("lowest_bit_values", 2)
	r.Bound("query_variations(parent,name,kind,attributes,links)", nQueryVariants)
	r.Bound("threshold_tolerance_keys", "< 1 (floor or ceil of r*2^63)")
	r.Section(job)

	switch job {
	case "ratio/threshold":
		for _, ratio := range ratios {
			if r.Expired() {
				return
			}
			if !r.Want() {
				continue
			}
			b := newRatioBox(r, ratio)
			var found uint64
			if b.pan == nil {
				found = b.findThreshold()
			}
			r.Sample(func() any { return ratioCase(ratio) })
			if b.pan != nil {
				r.FailHere("panic|TraceIDRatioBased", ratioCase(ratio), "panic: %v", b.pan)
				continue
			}
			r.Outcome(fmt.Sprintf("T=%d", found))
			fl, ce := refThreshold(ratio)
			switch {
			case ratio <= 0:
				if found != 0 {
					r.FailHere("ratio-zero|ratio <= 0 samples", ratioCase(ratio), "ratio %g: keys below %d are sampled, a ratio <= 0 must sample nothing", ratio, found)
				}
			case ratio >= 1:
				if found != two63 {
					r.FailHere("ratio-one|ratio >= 1 drops", ratioCase(ratio), "ratio %g: key %d is not sampled, a ratio >= 1 must sample everything", ratio, found)
				}
			default:
				if found != fl && found != ce {
					r.FailHere("ratio-share|"+diffClass(found, ratio), ratioCase(ratio),
						"ratio %g: the sampler keeps the %d smallest of the 2^63 keys, r*2^63 lies in [%d,%d] (share off by %s keys)", ratio, found, fl, ce,
						new(big.Int).Abs(new(big.Int).Sub(new(big.Int).SetUint64(found), new(big.Int).SetUint64(fl))).String())
				}
				if found == fl {
					r.Count("thresholds_equal_to_floor", 1)
				}
			}
		}

	case "ratio/boundary":
		for _, ratio := range ratios {
			if r.Expired() {
				return
			}
			if !r.Want() {
				continue
			}
			b := newRatioBox(r, ratio)
			if b.pan != nil {
				continue // reported by ratio/threshold
			}
			found := b.findThreshold()
			fresh := sdktrace.TraceIDRatioBased(ratio)
			r.Sample(func() any { return ratioCase(ratio) })
			fail := func(key string, tid trace.TraceID, format string, a ...any) {
				c := ratioCase(ratio)
				c["trace_id"] = tid.String()
				c["key"] = fmt.Sprintf("%d", keyOf(tid))
				c["threshold_found_by_bisection"] = fmt.Sprintf("%d", found)
				r.FailHere(key, c, format, a...)
			}
			nS := 0
			for _, k := range keys {
				// decision at (k, low bit 0) and (k+1, low bit 0) under the first pattern: sandwich for low bit 1
				for low := uint64(0); low < 2; low++ {
					first, haveFirst := false, false
					for _, hi := range his {
						tid := mkTID(hi, k, low)
						if !tid.IsValid() {
							continue
						}
						d := b.ask(b.s, tid, 0)
						if d {
							nS++
						}
						if !haveFirst {
							first, haveFirst = d, true
						} else if d != first {
							fail("ratio-independence|upper 64 bits", tid, "ratio %g: decision for low half %016x changes with the upper 64 bits (%016x: sampled=%v)", ratio, k<<1|low, hi, d)
						}
						if d2 := b.ask(b.s, tid, 0); d2 != d {
							fail("ratio-determinism|repeated call", tid, "ratio %g, trace id %s: first call sampled=%v, second %v", ratio, tid, d, d2)
						}
						if d2 := b.ask(fresh, tid, 0); d2 != d {
							fail("ratio-determinism|second sampler instance", tid, "ratio %g, trace id %s: one sampler instance says sampled=%v, another %v", ratio, tid, d, d2)
						}
						for v := 1; v < nQueryVariants; v++ {
							if d2 := b.ask(b.s, tid, v); d2 != d {
								fail("ratio-determinism|depends on parent, name, kind, attributes or links", tid, "ratio %g, trace id %s: sampled=%v without parent, %v under query variation %d", ratio, tid, d, d2, v)
							}
						}
						if ratio <= 0 && d {
							fail("ratio-zero|ratio <= 0 samples", tid, "ratio %g samples trace id %s", ratio, tid)
						}
						if ratio >= 1 && !d {
							fail("ratio-one|ratio >= 1 drops", tid, "ratio %g drops trace id %s", ratio, tid)
						}
						if low == 0 {
							if want := k < found; d != want {
								cls := "key below the threshold dropped"
								if d {
									cls = "key at or above the threshold sampled"
								}
								fail("ratio-threshold-shape|"+cls, tid, "ratio %g: bisection found threshold %d but key %d is sampled=%v", ratio, found, k, d)
							}
						} else {
							// the lowest bit is not part of the 63-bit key; whether it is looked at is not
							// stated, only that the decision stays a threshold on the 64-bit value
							below := k < found   // decision at (k,0)
							above := k+1 < found // decision at (k+1,0)
							if (above && !d) || (d && !below) {
								fail("ratio-threshold-shape|not monotone in the low 64 bits", tid, "ratio %g: low half %016x sampled=%v, but key %d sampled=%v and key %d sampled=%v", ratio, k<<1|1, d, k, below, k+1, above)
							}
						}
					}
				}
			}
			if b.pan != nil {
				r.FailHere("panic|ratio ShouldSample", ratioCase(ratio), "panic: %v", b.pan)
			}
			r.Outcome(fmt.Sprintf("T=%d sampled=%d", found, nS))
		}

	case "ratio/monotone":
		// decision matrix ratio x id, then EVERY ordered pair r <= r'
		var ids []trace.TraceID
		for _, k := range keys {
			for low := uint64(0); low < 2; low++ {
				for _, hi := range his[:2] {
					if t := mkTID(hi, k, low); t.IsValid() {
						ids = append(ids, t)
					}
				}
			}
		}
		r.Bound("monotonicity_ids", len(ids))
		words := (len(ids) + 63) / 64
		mat := make([][]uint64, len(ratios))
		for i, ratio := range ratios {
			b := newRatioBox(r, ratio)
			mat[i] = make([]uint64, words)
			if b.pan != nil {
				continue
			}
			for j, tid := range ids {
				if b.ask(b.s, tid, j%nQueryVariants) {
					mat[i][j/64] |= 1 << (j % 64)
				}
			}
		}
		for i, ri := range ratios {
			if r.Expired() {
				return
			}
			for j, rj := range ratios {
				if !(ri <= rj) || i == j {
					continue
				}
				if !r.Want() {
					continue
				}
				r.Transition()
				for w := 0; w < words; w++ {
					if bad := mat[i][w] &^ mat[j][w]; bad != 0 {
						bit := 0
						for bad&1 == 0 {
							bad >>= 1
							bit++
						}
						tid := ids[w*64+bit]
						r.FailHere("ratio-monotone|sampled at r but not at r' >= r",
							map[string]any{"r": fmt.Sprintf("%g", ri), "r_prime": fmt.Sprintf("%g", rj), "trace_id": tid.String(), "key": fmt.Sprintf("%d", keyOf(tid))},
							"trace id %s is sampled at ratio %g but not at ratio %g", tid, ri, rj)
						break
					}
				}
			}
			n := 0
			for _, w := range mat[i] {
				for ; w != 0; w &= w - 1 {
					n++
				}
			}
			r.Outcome(fmt.Sprintf("row=%d", n))
			r.Sample(func() any { return ratioCase(ri) })
		}
	}
}

// =======================================================================================
// scripted random source for the SDK's default id generator

// scriptSrc is a math/rand.Source. Draw number i (0-based) is 0 inside the zero run
// [zeroAt, zeroAt+zeroLen); every other draw is a 56-bit value whose seven bytes are
// 0xff, d0, …, d5 (low byte first — the order in which math/rand.Read hands bytes out) with
// d0…d5 the base-127 digits of a running counter, each encoded as a non-zero byte with the top
// bit clear (hiBit=false) or set (hiBit=true). No draw repeats, no byte of a non-zero draw is
// zero, and any two 8-byte or 16-byte windows of the byte stream that start at different
// positions differ (the 0xff marker fixes the alignment, the digits the position), so ids cut
// from disjoint stretches of the stream are pairwise distinct unless the generator reuses one.
type scriptSrc struct {
	n, emitted      uint64
	hiBit           bool
	zeroAt, zeroLen uint64
}

func (s *scriptSrc) Seed(int64) {}
func (s *scriptSrc) Int63() int64 {
	i := s.n
	s.n++
	if i >= s.zeroAt && i < s.zeroAt+s.zeroLen {
		return 0
	}
	s.emitted++
	v := s.emitted
	out := uint64(0xff)
	for j := 1; j <= 6; j++ {
		d := v % 127
		v /= 127
		b := 1 + d
		if s.hiBit {
			b = 0x80 + d
		}
		out |= b << (8 * uint(j))
	}
	return int64(out)
}

func runIDGen(r *enum.R, job string) {
	maxOps := enum.Pick(r, 5, 7)
	maxAt := enum.Pick(r, 3, 5)
	maxLen := enum.Pick(r, 6, 9)
	r.Bound("idgen_max_calls", maxOps)
	r.Bound("idgen_zero_run_start_max", maxAt)
	r.Bound("idgen_zero_run_len_max", maxLen)
	r.Bound("idgen_call_alphabet", "NewIDs, NewSpanID")
	r.Section(job)
	ctx := context.Background()
	for n := 1; n <= maxOps; n++ {
		for seq := 0; seq < 1<<uint(n); seq++ {
			for zl := 0; zl <= maxLen; zl++ {
				for za := 0; za <= maxAt; za++ {
					if zl == 0 && za > 0 {
						continue
					}
					for _, hb := range []bool{false, true} {
						if r.Expired() {
							return
						}
						if !r.Want() {
							continue
						}
						var ops []string
						for i := 0; i < n; i++ {
							if seq>>uint(i)&1 == 0 {
								ops = append(ops, "NewIDs")
							} else {
								ops = append(ops, "NewSpanID")
							}
						}
						cas := map[string]any{"calls": ops, "zero_draws_from": za, "zero_draws": zl, "script_top_bit": hb}
						r.Sample(func() any { return cas })
						src := &scriptSrc{hiBit: hb, zeroAt: uint64(za), zeroLen: uint64(zl)}
						var tids []trace.TraceID
						var sids []trace.SpanID
						var draws []string
						var pan any
						func() {
							defer func() { pan = recover() }()
							gen := sdktrace.VerifC09DefaultIDGenerator(src)
							last := trace.TraceID{1}
							for _, op := range ops {
								before := src.n
								if op == "NewIDs" {
									t, s := gen.NewIDs(ctx)
									tids, sids = append(tids, t), append(sids, s)
									last = t
								} else {
									sids = append(sids, gen.NewSpanID(ctx, last))
								}
								draws = append(draws, fmt.Sprint(src.n-before))
							}
						}()
						r.Eval()
						if pan != nil {
							r.FailHere("panic|id generator", cas, "panic: %v", pan)
							continue
						}
						r.Outcome(strings.Join(draws, ","))
						seenT := map[trace.TraceID]bool{}
						for _, t := range tids {
							if !t.IsValid() {
								r.FailHere("idgen|all-zero trace id", cas, "NewIDs returned the all-zero trace id (trace ids so far %v)", tids)
							} else if seenT[t] {
								r.FailHere("idgen|trace id repeated", cas, "NewIDs returned trace id %s twice although the source never repeats (all: %v)", t, tids)
							}
							seenT[t] = true
						}
						seenS := map[trace.SpanID]bool{}
						for _, s := range sids {
							if !s.IsValid() {
								r.FailHere("idgen|all-zero span id", cas, "the generator returned the all-zero span id (span ids so far %v)", sids)
							} else if seenS[s] {
								r.FailHere("idgen|span id repeated", cas, "the generator returned span id %s twice although the source never repeats (all: %v)", s, sids)
							}
							seenS[s] = true
						}
					}
				}
			}
		}
	}
}

// =======================================================================================
// (b) newSpan coupling

// ---- sampler descriptions with their reference semantics -------------------------------

const (
	tsmParent = iota // custom sampler hands back the parent's tracestate
	tsmOther         // … a tracestate of its own
	tsmEmpty         // … the empty tracestate
)

var tsmNames = []string{"parent's", "other", "empty"}

type sspec struct {
	kind  string // "on" "off" "ratio" "custom" "pb"
	ratio float64
	dec   sdktrace.SamplingDecision
	tsm   int
	root  *sspec
	ovr   [4]*sspec // remote-sampled, remote-not-sampled, local-sampled, local-not-sampled; nil = option not given
}

var (
	sOn  = &sspec{kind: "on"}
	sOff = &sspec{kind: "off"}
)

func sRatio(f float64) *sspec { return &sspec{kind: "ratio", ratio: f} }
func sCustom(d sdktrace.SamplingDecision, tsm int) *sspec {
	return &sspec{kind: "custom", dec: d, tsm: tsm}
}
func sPB(root *sspec, ovr [4]*sspec) *sspec { return &sspec{kind: "pb", root: root, ovr: ovr} }

type customSampler struct {
	dec sdktrace.SamplingDecision
	tsm int
}

func (c customSampler) ShouldSample(p sdktrace.SamplingParameters) sdktrace.SamplingResult {
	res := sdktrace.SamplingResult{Decision: c.dec}
	switch c.tsm {
	case tsmParent:
		res.Tracestate = trace.SpanContextFromContext(p.ParentContext).TraceState()
	case tsmOther:
		res.Tracestate = tsO
	}
	return res
}
func (c customSampler) Description() string { return "custom" }

func (s *sspec) build() sdktrace.Sampler {
	switch s.kind {
	case "on":
		return sdktrace.AlwaysSample()
	case "off":
		return sdktrace.NeverSample()
	case "ratio":
		return sdktrace.TraceIDRatioBased(s.ratio)
	case "custom":
		return customSampler{s.dec, s.tsm}
	}
	var opts []sdktrace.ParentBasedSamplerOption
	if s.ovr[0] != nil {
		opts = append(opts, sdktrace.WithRemoteParentSampled(s.ovr[0].build()))
	}
	if s.ovr[1] != nil {
		opts = append(opts, sdktrace.WithRemoteParentNotSampled(s.ovr[1].build()))
	}
	if s.ovr[2] != nil {
		opts = append(opts, sdktrace.WithLocalParentSampled(s.ovr[2].build()))
	}
	if s.ovr[3] != nil {
		opts = append(opts, sdktrace.WithLocalParentNotSampled(s.ovr[3].build()))
	}
	return sdktrace.ParentBased(s.root.build(), opts...)
}

func (s *sspec) short() string {
	if s == nil {
		return "-"
	}
	switch s.kind {
	case "on":
		return "On"
	case "off":
		return "Off"
	case "ratio":
		return fmt.Sprintf("Ratio(%g)", s.ratio)
	case "custom":
		return fmt.Sprintf("Custom(%s,%s)", decName(s.dec), tsmNames[s.tsm])
	}
	return fmt.Sprintf("ParentBased(root=%s,remoteSampled=%s,remoteNotSampled=%s,localSampled=%s,localNotSampled=%s)",
		s.root.short(), s.ovr[0].short(), s.ovr[1].short(), s.ovr[2].short(), s.ovr[3].short())
}

func (s *sspec) family() string {
	if s.kind == "pb" {
		return "ParentBased"
	}
	return map[string]string{"on": "AlwaysSample", "off": "NeverSample", "ratio": "TraceIDRatioBased", "custom": "custom"}[s.kind]
}

// usesFraction: a ratio strictly between 0 and 1 occurs somewhere, so the decision may
// depend on the trace id and both id variants are enumerated.
func (s *sspec) usesFraction() bool {
	if s == nil {
		return false
	}
	if s.kind == "ratio" {
		return s.ratio > 0 && s.ratio < 1
	}
	if s.kind == "pb" {
		if s.root.usesFraction() {
			return true
		}
		for _, o := range s.ovr {
			if o.usesFraction() {
				return true
			}
		}
	}
	return false
}

// mctx is the model's view of a parent span context.
type mctx struct {
	valid, remote, sampled bool
	tid                    trace.TraceID
	ts                     string
}

// ref is the reference semantics (decision table). which names the leaf that decided.
func (s *sspec) ref(p mctx, tid trace.TraceID) (dec sdktrace.SamplingDecision, ts string, which string) {
	switch s.kind {
	case "on":
		return sdktrace.RecordAndSample, p.ts, "On"
	case "off":
		return sdktrace.Drop, p.ts, "Off"
	case "ratio":
		fl, _ := refThreshold(s.ratio)
		if keyOf(tid) < fl {
			return sdktrace.RecordAndSample, p.ts, "Ratio"
		}
		return sdktrace.Drop, p.ts, "Ratio"
	case "custom":
		switch s.tsm {
		case tsmParent:
			return s.dec, p.ts, "Custom"
		case tsmOther:
			return s.dec, tsO.String(), "Custom"
		}
		return s.dec, "", "Custom"
	}
	// ParentBased
	if !p.valid {
		d, t, w := s.root.ref(p, tid)
		return d, t, "root:" + w
	}
	i := 0
	if !p.remote {
		i = 2
	}
	if !p.sampled {
		i++
	}
	slot := []string{"remoteSampled", "remoteNotSampled", "localSampled", "localNotSampled"}[i]
	if o := s.ovr[i]; o != nil {
		d, t, w := o.ref(p, tid)
		return d, t, slot + ":" + w
	}
	if p.sampled {
		return sdktrace.RecordAndSample, p.ts, slot + ":default"
	}
	return sdktrace.Drop, p.ts, slot + ":default"
}

// ---- parents ------------------------------------------------------------------------------

type parentSpec struct {
	kind  int // 0 none, 1 local, 2 remote
	flags trace.TraceFlags
	ts    string
}

func (p parentSpec) class() string {
	if p.kind == 0 {
		return "none"
	}
	s := "ext-local"
	if p.kind == 2 {
		s = "ext-remote"
	}
	if p.flags.IsSampled() {
		return s + "-sampled"
	}
	return s + "-unsampled"
}

func (p parentSpec) String() string {
	if p.kind == 0 {
		return "none"
	}
	return fmt.Sprintf("%s flags=%02x tracestate=%q", p.class(), byte(p.flags), p.ts)
}

var (
	extTIDs = [2]trace.TraceID{
		{0x0a, 0xf7, 0x65, 0x19, 0x16, 0xcd, 0x43, 0xdd, 0x04, 0x48, 0xeb, 0x21, 0x1c, 0x80, 0x31, 0x9c}, // key < 2^62
		{0x0a, 0xf7, 0x65, 0x19, 0x16, 0xcd, 0x43, 0xdd, 0x84, 0x48, 0xeb, 0x21, 0x1c, 0x80, 0x31, 0x9c}, // key >= 2^62
	}
	extSID = trace.SpanID{0xb7, 0xad, 0x6b, 0x71, 0x69, 0x20, 0x33, 0x31}
)

func (p parentSpec) context(variant int) (context.Context, mctx) {
	if p.kind == 0 {
		return context.Background(), mctx{}
	}
	ts, err := trace.ParseTraceState(p.ts)
	if err != nil {
		panic(err)
	}
	sc := trace.NewSpanContext(trace.SpanContextConfig{TraceID: extTIDs[variant&1], SpanID: extSID, TraceFlags: p.flags, TraceState: ts, Remote: p.kind == 2})
	return trace.ContextWithSpanContext(context.Background(), sc),
		mctx{valid: true, remote: p.kind == 2, sampled: p.flags.IsSampled(), tid: sc.TraceID(), ts: p.ts}
}

func parentList(thorough bool) []parentSpec {
	ps := []parentSpec{{}}
	for _, kind := range []int{1, 2} {
		for _, fl := range []trace.TraceFlags{0, 1} {
			for _, ts := range []string{"", "p=1,q=2"} {
				ps = append(ps, parentSpec{kind, fl, ts})
			}
		}
	}
	// other flag bits next to the sampled bit
	for _, kind := range []int{1, 2} {
		for _, fl := range []trace.TraceFlags{0xfe, 0xff} {
			ps = append(ps, parentSpec{kind, fl, "p=1,q=2"})
		}
	}
	return ps
}

func trees(maxN int) [][]int {
	var out [][]int
	for n := 1; n <= maxN; n++ {
		var rec func(v []int)
		rec = func(v []int) {
			if len(v) == n {
				out = append(out, append([]int(nil), v...))
				return
			}
			for p := 0; p < len(v); p++ {
				rec(append(v, p))
			}
		}
		rec([]int{-1})
	}
	return out
}

// ---- plumbing -------------------------------------------------------------------------------

type memExporter struct {
	mu   sync.Mutex
	got  map[trace.SpanID]int
	sc   map[trace.SpanID]trace.SpanContext // what the exported span says about itself ...
	par  map[trace.SpanID]trace.SpanContext // ... and about its parent
	shut bool
}

func (e *memExporter) ExportSpans(_ context.Context, spans []sdktrace.ReadOnlySpan) error {
	e.mu.Lock()
	defer e.mu.Unlock()
	if e.got == nil {
		e.got = map[trace.SpanID]int{}
	}
	if e.sc == nil {
		e.sc, e.par = map[trace.SpanID]trace.SpanContext{}, map[trace.SpanID]trace.SpanContext{}
	}
	for _, s := range spans {
		e.got[s.SpanContext().SpanID()]++
		e.sc[s.SpanContext().SpanID()], e.par[s.SpanContext().SpanID()] = s.SpanContext(), s.Parent()
	}
	return nil
}
func (e *memExporter) Shutdown(context.Context) error {
	e.mu.Lock()
	e.shut = true
	e.mu.Unlock()
	return nil
}
func (e *memExporter) count(id trace.SpanID) int {
	e.mu.Lock()
	defer e.mu.Unlock()
	return e.got[id]
}
func (e *memExporter) ids() []trace.SpanID {
	e.mu.Lock()
	defer e.mu.Unlock()
	var out []trace.SpanID
	for id := range e.got {
		out = append(out, id)
	}
	sort.Slice(out, func(i, j int) bool { return string(out[i][:]) < string(out[j][:]) })
	return out
}

type spyCall struct {
	tid trace.TraceID
	res sdktrace.SamplingResult
}

// spy wraps the sampler under test and records every answer it gives to the tracer.
type spy struct {
	inner sdktrace.Sampler
	calls []spyCall
}

func (s *spy) ShouldSample(p sdktrace.SamplingParameters) sdktrace.SamplingResult {
	res := s.inner.ShouldSample(p)
	s.calls = append(s.calls, spyCall{p.TraceID, res})
	return res
}
func (s *spy) Description() string { return "spy{" + s.inner.Description() + "}" }

type envCfg struct {
	name, arg string
	hasArg    bool
	twin      *sspec
}

func (e *envCfg) String() string {
	if e.hasArg {
		return fmt.Sprintf("OTEL_TRACES_SAMPLER=%q OTEL_TRACES_SAMPLER_ARG=%q", e.name, e.arg)
	}
	return fmt.Sprintf("OTEL_TRACES_SAMPLER=%q", e.name)
}
func (e *envCfg) set() {
	os.Setenv("OTEL_TRACES_SAMPLER", e.name)
	if e.hasArg {
		os.Setenv("OTEL_TRACES_SAMPLER_ARG", e.arg)
	} else {
		os.Unsetenv("OTEL_TRACES_SAMPLER_ARG")
	}
}
func envClear() {
	os.Unsetenv("OTEL_TRACES_SAMPLER")
	os.Unsetenv("OTEL_TRACES_SAMPLER_ARG")
}

// idVariant: 0 and 1 use the SDK's default generator with the scripted source (digit bytes with
// the top bit clear / set, so that a fresh trace id falls below / above the 0.5 threshold) and
// the external parent trace id with the matching property; 2 leaves the provider's own default
// generator (real random source) in place.
const (
	idLow = iota
	idHigh
	idRandom
)

type coupleCase struct {
	s       *sspec
	env     *envCfg
	variant int
	par     parentSpec
	newRoot bool
	tree    []int
	fifo    bool
	late    bool // the last node of the tree is started (by the tracer obtained earlier) after the provider's Shutdown
}

func (c *coupleCase) describe() map[string]any {
	m := map[string]any{
		"parent_context": c.par.String(), "with_new_root": c.newRoot, "tree_parent_vector": fmt.Sprint(c.tree),
		"end_order":  map[bool]string{false: "children first", true: "creation order"}[c.fifo] + map[bool]string{false: "", true: "; the last node is started after TracerProvider.Shutdown"}[c.late],
		"id_variant": []string{"scripted ids, key below 2^62", "scripted ids, key at or above 2^62", "default random source"}[c.variant],
	}
	if c.env != nil {
		m["environment"] = c.env.String()
		m["twin"] = c.env.twin.short()
	} else {
		m["sampler"] = c.s.short()
	}
	return m
}

type nodeObs struct {
	sc        trace.SpanContext
	recording bool
	nS, nB    int // exports seen by the simple / batch processor's exporter
}

// execution is what one case did on the real SDK.
type execution struct {
	obs         []nodeObs
	calls       []spyCall // answers of the wrapped sampler, nil when the provider chose the sampler itself
	pan         any
	flushErr    error
	shutErr     error
	strangers   []trace.SpanID // exported span ids that no started span has
	parentModel mctx
	exportDiff  []string // exported span context / Parent() that differ from the started span and its parent
}

// execCouple runs one case: a fresh TracerProvider with a simple and a batch span processor,
// the tree of spans, both end orders, ForceFlush, Shutdown. With fromEnv the provider is built
// without WithSampler under the case's environment, otherwise with the recorder around sampler.
func execCouple(c *coupleCase, spec *sspec, fromEnv bool) *execution {
	n := len(c.tree)
	x := &execution{obs: make([]nodeObs, n)}
	pctx, pm := c.par.context(c.variant)
	x.parentModel = pm
	expS, expB := &memExporter{}, &memExporter{}
	var sp *spy
	func() {
		defer func() { x.pan = recover() }()
		opts := []sdktrace.TracerProviderOption{
			sdktrace.WithSpanProcessor(sdktrace.NewSimpleSpanProcessor(expS)),
			sdktrace.WithSpanProcessor(sdktrace.NewBatchSpanProcessor(expB)),
		}
		if c.variant != idRandom {
			opts = append(opts, sdktrace.WithIDGenerator(sdktrace.VerifC09DefaultIDGenerator(&scriptSrc{hiBit: c.variant == idHigh})))
		}
		if fromEnv {
			c.env.set()
			defer envClear()
		} else {
			sp = &spy{inner: spec.build()}
			opts = append(opts, sdktrace.WithSampler(sp))
		}
		tp := sdktrace.NewTracerProvider(opts...)
		envClear()
		tr := tp.Tracer("c09")
		ctxs := make([]context.Context, n)
		spans := make([]trace.Span, n)
		start := func(i int) {
			pc := pctx
			var so []trace.SpanStartOption
			if i > 0 {
				pc = ctxs[c.tree[i]]
			} else if c.newRoot {
				so = append(so, trace.WithNewRoot())
			}
			ctxs[i], spans[i] = tr.Start(pc, fmt.Sprintf("n%d", i), so...)
			x.obs[i] = nodeObs{sc: spans[i].SpanContext(), recording: spans[i].IsRecording()}
		}
		first := n
		if c.late {
			first = n - 1
		}
		for i := 0; i < first; i++ {
			start(i)
		}
		if c.fifo {
			for i := 0; i < first; i++ {
				spans[i].End()
			}
		} else {
			for i := first - 1; i >= 0; i-- {
				spans[i].End()
			}
		}
		x.flushErr = tp.ForceFlush(context.Background())
		x.shutErr = tp.Shutdown(context.Background())
		if c.late {
			// ids, flags and the sampler's say do not depend on whether anybody still listens
			start(n - 1)
			spans[n-1].End()
		}
	}()
	if sp != nil {
		x.calls = sp.calls
		if x.calls == nil {
			x.calls = []spyCall{}
		}
	}
	known := map[trace.SpanID]bool{}
	for i := range x.obs {
		id := x.obs[i].sc.SpanID()
		known[id] = true
		x.obs[i].nS, x.obs[i].nB = expS.count(id), expB.count(id)
	}
	for _, e := range []*memExporter{expS, expB} {
		for _, id := range e.ids() {
			if !known[id] {
				x.strangers = append(x.strangers, id)
			}
		}
	}
	// "traces stay connected": what reaches the exporter is the span that was started -- same span
	// context -- and names as its parent the span it was started under (the external parent for the
	// first node, nobody for a new root)
	for i := range x.obs {
		id := x.obs[i].sc.SpanID()
		for _, e := range []*memExporter{expS, expB} {
			e.mu.Lock()
			esc, ok := e.sc[id]
			epar := e.par[id]
			e.mu.Unlock()
			if !ok {
				continue
			}
			if !esc.Equal(x.obs[i].sc) {
				x.exportDiff = append(x.exportDiff, fmt.Sprintf("node %d: exported span context %v, the live span had %v", i, esc, x.obs[i].sc))
			}
			var wantPar trace.SpanContext
			switch {
			case i > 0:
				wantPar = x.obs[c.tree[i]].sc
			case !c.newRoot:
				wantPar = trace.SpanContextFromContext(pctx)
			}
			if epar.TraceID() != wantPar.TraceID() || epar.SpanID() != wantPar.SpanID() || epar.IsValid() != wantPar.IsValid() {
				x.exportDiff = append(x.exportDiff, fmt.Sprintf("node %d: exported Parent() %s/%s, started under %s/%s", i, epar.TraceID(), epar.SpanID(), wantPar.TraceID(), wantPar.SpanID()))
			}
		}
	}
	return x
}

// signature lists everything observable about an execution (scripted ids make it comparable
// between two providers).
func (x *execution) signature() string {
	var b strings.Builder
	fmt.Fprintf(&b, "panic=%v flush=%v shutdown=%v strangers=%d;", x.pan, x.flushErr, x.shutErr, len(x.strangers))
	for i, o := range x.obs {
		fmt.Fprintf(&b, " n%d{trace=%s span=%s sampled=%v tracestate=%q remote=%v recording=%v simple=%v batch=%v}", i,
			o.sc.TraceID(), o.sc.SpanID(), o.sc.IsSampled(), o.sc.TraceState().String(), o.sc.IsRemote(), o.recording, o.nS > 0, o.nB > 0)
	}
	return b.String()
}

func flagClass(p mctx) string {
	switch {
	case !p.valid:
		return "no parent"
	case p.sampled:
		return "parent sampled"
	}
	return "parent unsampled"
}

// judgeCouple compares an execution made with the recorder around the sampler with the
// references: the sampler's recorded answer with the decision table, the span with the answer.
func judgeCouple(r *enum.R, c *coupleCase, spec *sspec, x *execution) {
	cas := c.describe
	n := len(c.tree)
	if x.pan != nil {
		r.FailHere("panic|tracer.Start/End/flush", cas(), "panic: %v", x.pan)
		return
	}
	if len(x.exportDiff) > 0 {
		r.FailHere("exported-span-disconnected", cas(), "%s", strings.Join(x.exportDiff, "; "))
	}
	exportsJudged := true
	if x.flushErr != nil || x.shutErr != nil {
		r.Cap("ForceFlush/Shutdown returned an error; export oracle skipped for that case")
		r.Note("ForceFlush=%v Shutdown=%v in %v", x.flushErr, x.shutErr, cas())
		exportsJudged = false
	}
	fam := spec.family()
	calls := x.calls
	if len(calls) != n {
		r.FailHere("sampler-consulted|not exactly once per started span", cas(), "%d spans started, the sampler was asked %d times", n, len(calls))
		calls = nil
	}
	seen := map[trace.SpanID]int{}
	uses := map[trace.SpanID]int{} // exports are attributed by span id: only judged for ids used once
	if x.parentModel.valid {
		seen[extSID] = -1
		uses[extSID]++
	}
	for _, o := range x.obs {
		uses[o.sc.SpanID()]++
	}
	var out strings.Builder
	for i := 0; i < n; i++ {
		o := x.obs[i]
		sc := o.sc
		// the parent as this span must see it: the external context for the tree's root, the real
		// span context of the parent node (a local SDK span) otherwise
		var p mctx
		pclass := c.par.class()
		switch {
		case i == 0 && c.newRoot:
			pclass = "new-root(" + pclass + ")"
		case i == 0:
			p = x.parentModel
		default:
			q := x.obs[c.tree[i]].sc
			p = mctx{valid: q.IsValid(), remote: false, sampled: q.IsSampled(), tid: q.TraceID(), ts: q.TraceState().String()}
			pclass = "sdk-span-unsampled"
			if q.IsSampled() {
				pclass = "sdk-span-sampled"
			}
		}
		node := func() map[string]any {
			m := cas()
			m["node"] = i
			m["node_parent_class"] = pclass
			m["span_context"] = fmt.Sprintf("trace=%s span=%s flags=%s tracestate=%q", sc.TraceID(), sc.SpanID(), sc.TraceFlags(), sc.TraceState().String())
			return m
		}

		// ids
		if !sc.SpanID().IsValid() {
			r.FailHere("span-id|invalid", node(), "span %d has the all-zero span id", i)
		} else if j, dup := seen[sc.SpanID()]; dup {
			r.FailHere("span-id|not unique", node(), "span %d has span id %s, the same as %s", i, sc.SpanID(), map[bool]string{true: "its external parent", false: fmt.Sprintf("span %d", j)}[j < 0])
		}
		seen[sc.SpanID()] = i
		if p.valid {
			if sc.TraceID() != p.tid {
				r.FailHere("trace-id|not inherited from the parent|parent="+pclass, node(), "span %d has trace id %s, its parent %s", i, sc.TraceID(), p.tid)
			}
		} else {
			if !sc.TraceID().IsValid() {
				r.FailHere("trace-id|root has an invalid trace id", node(), "root span has the all-zero trace id")
			} else if c.par.kind != 0 && sc.TraceID() == extTIDs[c.variant&1] {
				r.FailHere("trace-id|new root is not fresh", node(), "span started WithNewRoot reuses the trace id %s of the span in its context", sc.TraceID())
			}
		}

		// the sampler's recorded answer for this span against the decision table
		wantDec, wantTS, which := spec.ref(p, sc.TraceID())
		ansDec, ansTS := wantDec, wantTS
		if calls != nil {
			a := calls[i]
			ansDec, ansTS = a.res.Decision, a.res.Tracestate.String()
			if a.tid != sc.TraceID() {
				r.FailHere("sampler-input|asked about another trace id than the span's", node(), "span %d: sampler was asked about trace id %s, the span has %s", i, a.tid, sc.TraceID())
			}
			if ansDec != wantDec {
				r.FailHere(fmt.Sprintf("sampler-decision|%s|decided by %s", fam, which), node(),
					"span %d: %s answered %s, the decision table says %s (parent: valid=%v remote=%v sampled=%v; deciding leaf %s)", i, spec.short(), decName(ansDec), decName(wantDec), p.valid, p.remote, p.sampled, which)
			}
			if ansTS != wantTS {
				r.FailHere(fmt.Sprintf("sampler-tracestate|%s|decided by %s", fam, which), node(),
					"span %d: %s answered tracestate %q, expected %q (parent's tracestate %q)", i, spec.short(), ansTS, wantTS, p.ts)
			}
		}
		// the span against the answer
		if got, want := sc.IsSampled(), ansDec == sdktrace.RecordAndSample; got != want {
			r.FailHere(fmt.Sprintf("sampled-flag|answer=%s, %s", decName(ansDec), flagClass(p)), node(), "span %d: sampler answer %s, sampled flag %v (flags %s)", i, decName(ansDec), got, sc.TraceFlags())
		}
		if got, want := o.recording, ansDec != sdktrace.Drop; got != want {
			r.FailHere("is-recording|answer="+decName(ansDec), node(), "span %d: sampler answer %s, IsRecording %v", i, decName(ansDec), got)
		}
		tsRel := func(ts string) string {
			switch ts {
			case p.ts:
				return "parent's"
			case "":
				return "empty"
			}
			return "another"
		}
		if got := sc.TraceState().String(); got != ansTS {
			r.FailHere("tracestate|span does not carry the sampler's answer|answer is "+tsRel(ansTS), node(), "span %d: tracestate %q, the sampler's answer carries %q (parent's %q)", i, got, ansTS, p.ts)
		}
		if exportsJudged && uses[sc.SpanID()] == 1 {
			want := ansDec == sdktrace.RecordAndSample && !(c.late && i == n-1) // nothing is exported after Shutdown
			if (o.nS > 0) != want {
				r.FailHere("exported-iff-sampled|simple processor|answer="+decName(ansDec), node(), "span %d: sampler answer %s, exported %d times through the simple span processor", i, decName(ansDec), o.nS)
			}
			if (o.nB > 0) != want {
				r.FailHere("exported-iff-sampled|batch processor|answer="+decName(ansDec), node(), "span %d: sampler answer %s, exported %d times through the batch span processor (after ForceFlush and Shutdown)", i, decName(ansDec), o.nB)
			}
		}
		fmt.Fprintf(&out, "%s/%v/%v/%d/%d/%s/%v;", decName(ansDec), sc.IsSampled(), o.recording, o.nS, o.nB, tsRel(sc.TraceState().String()), p.valid)
		switch {
		case spec.usesFraction() && ansDec == sdktrace.RecordAndSample:
			r.Count("fraction_sampler_spans_sampled", 1)
		case spec.usesFraction():
			r.Count("fraction_sampler_spans_dropped", 1)
		}
	}
	if exportsJudged && len(x.strangers) > 0 {
		r.FailHere("exported|span that was never started", cas(), "an exporter received span ids %v which no started span has", x.strangers)
	}
	r.Outcome(fam + ":" + out.String())
}

// runCouple executes one case on the real SDK and judges it. A case with an environment runs
// twice: on a provider built without WithSampler under that environment, and on a provider
// given the programmatic twin; the second run is judged like every other case, the first must
// be indistinguishable from it.
func runCouple(r *enum.R, c *coupleCase) {
	spec := c.s
	if c.env != nil {
		spec = c.env.twin
	}
	r.Eval()
	x := execCouple(c, spec, false)
	judgeCouple(r, c, spec, x)
	if c.env == nil {
		return
	}
	r.Eval()
	y := execCouple(c, spec, true)
	if a, b := y.signature(), x.signature(); a != b {
		r.FailHere("env-twin|"+c.env.name+"|provider configured from the environment behaves differently", c.describe(),
			"%s gives %s, WithSampler(%s) gives %s", c.env, a, spec.short(), b)
	}
	r.Outcome("env:" + c.env.name)
}

// ---- sampler families per job -----------------------------------------------------------------

func customList() []*sspec {
	var out []*sspec
	for _, d := range []sdktrace.SamplingDecision{sdktrace.Drop, sdktrace.RecordOnly, sdktrace.RecordAndSample} {
		for tsm := 0; tsm < 3; tsm++ {
			out = append(out, sCustom(d, tsm))
		}
	}
	return out
}

func stockList() []*sspec {
	none := [4]*sspec{}
	return []*sspec{sOn, sOff, sRatio(0), sRatio(0.5), sRatio(1), sRatio(-1), sRatio(0.25), sRatio(0.75), sRatio(2),
		// compositions beyond one level
		sPB(sPB(sOff, none), none),
		sPB(sPB(sRatio(0.5), none), [4]*sspec{nil, nil, sPB(sOff, [4]*sspec{nil, nil, sOff, sOn}), nil}),
		sPB(sOn, [4]*sspec{sRatio(0.5), sRatio(0.5), sRatio(0.5), sRatio(0.5)}),
		// a parent-based sampler whose ROOT is a parent-based sampler with every delegate inverted: the
		// inner delegates are never consulted (the inner sampler only ever sees parentless spans)
		sPB(sPB(sOn, [4]*sspec{sOff, sOn, sOff, sOn}), none),
		sPB(sPB(sOff, [4]*sspec{sOff, sOn, sOff, sOn}), [4]*sspec{nil, nil, sCustom(sdktrace.RecordOnly, tsmOther), nil}),
		sPB(sOff, [4]*sspec{sCustom(sdktrace.RecordOnly, tsmEmpty), sCustom(sdktrace.RecordAndSample, tsmOther), sCustom(sdktrace.Drop, tsmOther), sCustom(sdktrace.RecordOnly, tsmParent)}),
	}
}

var pbRoots = []struct {
	name string
	s    *sspec
}{
	{"On", sOn}, {"Off", sOff}, {"Ratio0", sRatio(0)}, {"Ratio0.5", sRatio(0.5)}, {"Ratio1", sRatio(1)},
	{"CustomRecordOnly", sCustom(sdktrace.RecordOnly, tsmOther)},
}

func pbDelegates(thorough bool) []struct {
	name string
	s    *sspec
} {
	d := []struct {
		name string
		s    *sspec
	}{{"unset", nil}, {"On", sOn}, {"Off", sOff}}
	if thorough {
		d = append(d, struct {
			name string
			s    *sspec
		}{"CustomRecordOnly", sCustom(sdktrace.RecordOnly, tsmOther)})
	}
	return d
}

func envList() []*envCfg {
	none := [4]*sspec{}
	out := []*envCfg{
		{name: "always_on", twin: sOn},
		{name: "always_off", twin: sOff},
		{name: "parentbased_always_on", twin: sPB(sOn, none)},
		{name: "parentbased_always_off", twin: sPB(sOff, none)},
	}
	for _, a := range []struct {
		arg string
		f   float64
	}{{"0.5", 0.5}, {"0", 0}, {"1", 1}, {"0.25", 0.25}, {"0.75", 0.75}, {"0.1", 0.1}, {"1e-9", 1e-9}, {"0.9999999999999999", 0.9999999999999999}} {
		out = append(out, &envCfg{name: "traceidratio", arg: a.arg, hasArg: true, twin: sRatio(a.f)})
		out = append(out, &envCfg{name: "parentbased_traceidratio", arg: a.arg, hasArg: true, twin: sPB(sRatio(a.f), none)})
	}
	return out
}

// couple enumerates parents x new-root x trees x end orders x id variants for the given samplers.
func couple(r *enum.R, samplers []*sspec, envs []*envCfg, withRandom bool) {
	maxNodes := enum.Pick(r, 4, 5)
	parents := parentList(r.Thorough())
	ts := trees(maxNodes)
	r.Bound("max_tree_nodes", maxNodes)
	r.Bound("trees(parent vectors)", len(ts))
	r.Bound("parent_contexts", len(parents))
	r.Bound("with_new_root", "false,true")
	r.Bound("end_orders", "children first, creation order")
	r.Bound("processors", "simple + batch, each into its own in-memory exporter")
	type item struct {
		s *sspec
		e *envCfg
	}
	var items []item
	for _, s := range samplers {
		items = append(items, item{s: s})
	}
	for _, e := range envs {
		items = append(items, item{e: e})
	}
	// simplest first: small trees, then parents, then samplers
	for _, tree := range ts {
		for _, par := range parents {
			for _, newRoot := range []bool{false, true} {
				for _, it := range items {
					spec := it.s
					if it.e != nil {
						spec = it.e.twin
					}
					variants := []int{idLow}
					if spec.usesFraction() {
						variants = []int{idLow, idHigh}
					} else if withRandom && len(tree) <= 3 {
						variants = []int{idLow, idRandom}
					}
					for _, v := range variants {
						for mode := 0; mode < 3; mode++ {
							fifo, late := mode >= 1, mode == 2
							if fifo && len(tree) == 1 {
								continue
							}
							if r.Expired() {
								return
							}
							if !r.Want() {
								continue
							}
							c := &coupleCase{s: it.s, env: it.e, variant: v, par: par, newRoot: newRoot, tree: tree, fifo: fifo, late: late}
							runCouple(r, c)
							r.Sample(func() any { return c.describe() })
						}
					}
				}
			}
		}
	}
}

// envDirect compares the sampler object selected by the environment with its programmatic twin,
// answer by answer, over the boundary trace ids and every parent context.
func envDirect(r *enum.R) {
	envs := envList()
	var fr []float64
	for _, e := range envs {
		if e.twin.kind == "ratio" {
			fr = append(fr, e.twin.ratio)
		}
	}
	keys := boundaryKeys(fr)
	parents := parentList(true)
	r.Bound("env_configurations", len(envs))
	r.Bound("env_direct_keys", len(keys))
	for _, e := range envs {
		if r.Expired() {
			return
		}
		if !r.Want() {
			continue
		}
		cas := map[string]any{"environment": e.String(), "twin": e.twin.short()}
		r.Sample(func() any { return cas })
		var got sdktrace.Sampler
		var err error
		var pan any
		func() {
			defer func() { pan = recover() }()
			e.set()
			defer envClear()
			got, err = sdktrace.VerifC09SamplerFromEnv()
		}()
		if pan != nil {
			r.FailHere("panic|samplerFromEnv", cas, "panic: %v", pan)
			continue
		}
		if got == nil || err != nil {
			r.FailHere("env-twin|"+e.name+"|not selected", cas, "%s selects sampler %v with error %v", e, got, err)
			continue
		}
		twin := e.twin.build()
		nS := 0
		func() {
			defer func() {
				if p := recover(); p != nil {
					r.FailHere("panic|env-selected sampler", cas, "panic: %v", p)
				}
			}()
			for _, k := range keys {
				for _, hi := range []uint64{0, ^uint64(0)} {
					tid := mkTID(hi, k, 1)
					for _, par := range parents {
						ctx := context.Background()
						if par.kind != 0 {
							ts, _ := trace.ParseTraceState(par.ts)
							ctx = trace.ContextWithSpanContext(ctx, trace.NewSpanContext(trace.SpanContextConfig{TraceID: tid, SpanID: extSID, TraceFlags: par.flags, TraceState: ts, Remote: par.kind == 2}))
						}
						p := sdktrace.SamplingParameters{ParentContext: ctx, TraceID: tid, Name: "x"}
						r.Eval()
						a, b := got.ShouldSample(p), twin.ShouldSample(p)
						if a.Decision == sdktrace.RecordAndSample {
							nS++
						}
						if a.Decision != b.Decision || a.Tracestate.String() != b.Tracestate.String() {
							c := map[string]any{"environment": e.String(), "twin": e.twin.short(), "trace_id": tid.String(), "parent_context": par.String()}
							r.FailHere("env-twin|"+e.name+"|answers differently from its programmatic twin", c,
								"%s answers %s/%q, %s answers %s/%q for trace id %s under parent %s", e, decName(a.Decision), a.Tracestate.String(), e.twin.short(), decName(b.Decision), b.Tracestate.String(), tid, par)
						}
					}
				}
			}
		}()
		r.Outcome(fmt.Sprintf("env %s sampled=%d", e.name, nS))
	}
}

// =======================================================================================

func jobNames(thorough bool) []string {
	jobs := []string{"ratio/threshold", "ratio/boundary", "ratio/monotone", "idgen", "couple/custom", "couple/stock", "couple/env"}
	for _, root := range pbRoots {
		for _, d := range pbDelegates(thorough) {
			jobs = append(jobs, fmt.Sprintf("couple/pb/root=%s/remoteSampled=%s", root.name, d.name))
		}
	}
	return jobs
}

func TestVerifC09(t *testing.T) {
	envClear()
	thorough := os.Getenv("VERIF_TIER") == "thorough"
	enum.Jobs(jobNames(thorough), func(job string) {
		r := enum.Start("C09", "sampling")
		defer r.Finish()
		switch {
		case strings.HasPrefix(job, "ratio/"):
			runRatio(r, job)
		case job == "idgen":
			runIDGen(r, job)
		case job == "couple/stock":
			r.Section(job)
			r.Bound("samplers_stock_and_compositions", len(stockList()))
			couple(r, stockList(), nil, true)
		case job == "couple/custom":
			r.Section(job)
			r.Bound("samplers_custom(decision x tracestate)", len(customList()))
			couple(r, customList(), nil, true)
		case job == "couple/env":
			r.Section(job + "/direct")
			envDirect(r)
			r.Section(job + "/provider")
			couple(r, nil, envList(), false)
		case strings.HasPrefix(job, "couple/pb/"):
			r.Section(job)
			dels := pbDelegates(r.Thorough())
			var list []*sspec
			for _, root := range pbRoots {
				for _, d0 := range dels {
					if job != fmt.Sprintf("couple/pb/root=%s/remoteSampled=%s", root.name, d0.name) {
						continue
					}
					for _, d1 := range dels {
						for _, d2 := range dels {
							for _, d3 := range dels {
								list = append(list, sPB(root.s, [4]*sspec{d0.s, d1.s, d2.s, d3.s}))
							}
						}
					}
				}
			}
			r.Bound("parentbased_roots", len(pbRoots))
			r.Bound("parentbased_override_alphabet", len(dels))
			r.Bound("parentbased_samplers_per_job", len(list))
			couple(r, list, nil, false)
		}
	})
}
