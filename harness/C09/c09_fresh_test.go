package trace_test

// C09 — "unique within the process" for the DEFAULT id generator across providers: every
// TracerProvider built with the default generator must draw from its own stream. Two (thorough:
// four) default providers, a few roots and children each: all span ids pairwise distinct, all root
// trace ids pairwise distinct. (A shared or replayed seed makes the n-th id of every provider equal;
// an accidental collision of honest 64-bit draws has probability < 2^-58 here.)

import (
	"context"
	"testing"

	sdktrace "go.opentelemetry.io/otel/sdk/trace"
	"verif/mc/enum"
)

func TestVerifC09Fresh(t *testing.T) {
	enum.Jobs([]string{"fresh/default-generators"}, func(job string) {
		r := enum.Start("C09", "fresh")
		defer r.Finish()
		r.Section(job)
		nProv := enum.Pick(r, 2, 4)
		r.Bound("default_providers_in_one_process", nProv)
		for round := 0; round < 3; round++ { // providers created at different moments of the process
			if !r.Want() {
				continue
			}
			r.Eval()
			spanIDs, traceIDs := map[string]int{}, map[string]int{}
			for p := 0; p < nProv; p++ {
				tp := sdktrace.NewTracerProvider(sdktrace.WithSampler(sdktrace.AlwaysSample()))
				tr := tp.Tracer("t")
				for i := 0; i < 3; i++ {
					ctx, root := tr.Start(context.Background(), "root")
					_, child := tr.Start(ctx, "child")
					for _, sc := range []interface{ String() string }{root.SpanContext().SpanID(), child.SpanContext().SpanID()} {
						if q, dup := spanIDs[sc.String()]; dup {
							r.FailHere("idgen-default|span id repeated across default providers", map[string]any{"providers": nProv, "round": round},
								"span id %s handed out by default provider %d was already handed out by default provider %d of the same process", sc.String(), p, q)
						}
						spanIDs[sc.String()] = p
					}
					tid := root.SpanContext().TraceID().String()
					if q, dup := traceIDs[tid]; dup {
						r.FailHere("idgen-default|trace id repeated across default providers", map[string]any{"providers": nProv, "round": round},
							"root trace id %s of default provider %d was already used by a root of default provider %d", tid, p, q)
					}
					traceIDs[tid] = p
					child.End()
					root.End()
				}
				_ = tp.Shutdown(context.Background())
			}
			r.Outcome(job + "/distinct")
			r.Outcome(job + "/round")
		}
	})
}
