package trace

// C09 part (c) — the default ID generator under concurrency. Its random source is replaced by a
// scripted rand.Source64 whose draw is a NON-atomic read-modify-write of a counter with a
// scheduling point in the middle (and which yields zero first): if the generator's mutex ever
// stops covering the draw, two callers receive the same value under some schedule, or a zero id
// escapes the retry loop. Three threads, every schedule up to the preemption bound.

import (
	"context"
	"fmt"
	"math/rand"
	"sort"
	"testing"

	"verif/mc/enum"
	"verif/mc/sched"
	"verif/mc/vsync"

	"go.opentelemetry.io/otel/trace"
)

type c09Src struct {
	n     int64
	zeros int // leading draws that return 0
}

func (s *c09Src) draw() uint64 {
	v := s.n
	sched.Yield("rand-source-draw", s) // another thread may run between the read and the write
	s.n = v + 1
	if int(v) < s.zeros {
		return 0
	}
	return uint64(v)*0x0101010101010101 + 1
}
func (s *c09Src) Int63() int64   { return int64(s.draw() >> 1) }
func (s *c09Src) Uint64() uint64 { return s.draw() }
func (s *c09Src) Seed(int64)     {}

func c09GenBody(threads [][]string, zeros int, res *string) func(x *sched.Exec) {
	return func(x *sched.Exec) {
		gen := &randomIDGenerator{randSource: rand.New(&c09Src{zeros: zeros})}
		type out struct {
			tids []trace.TraceID
			sids []trace.SpanID
		}
		outs := make([]out, len(threads))
		var wg vsync.WaitGroup
		wg.Add(len(threads))
		for ti, ops := range threads {
			sched.Go(func() {
				defer wg.Done()
				for _, op := range ops {
					switch op {
					case "IDs":
						t, s := gen.NewIDs(context.Background())
						outs[ti].tids = append(outs[ti].tids, t)
						outs[ti].sids = append(outs[ti].sids, s)
					case "Span":
						outs[ti].sids = append(outs[ti].sids, gen.NewSpanID(context.Background(), trace.TraceID{1}))
					}
				}
			})
		}
		wg.Wait()
		seen := map[string]bool{}
		var all []string
		for _, o := range outs {
			for _, t := range o.tids {
				if !t.IsValid() {
					x.Fail("C09|idgen-concurrent|all-zero trace id", "NewIDs returned an all-zero trace id")
				}
				k := "t" + t.String()
				if seen[k] {
					x.Fail("C09|idgen-concurrent|trace id handed out twice", "trace id %s returned to two callers", t)
				}
				seen[k] = true
				all = append(all, k)
			}
			for _, s := range o.sids {
				if !s.IsValid() {
					x.Fail("C09|idgen-concurrent|all-zero span id", "the generator returned an all-zero span id")
				}
				k := "s" + s.String()
				if seen[k] {
					x.Fail("C09|idgen-concurrent|span id handed out twice", "span id %s returned to two callers", s)
				}
				seen[k] = true
				all = append(all, k)
			}
		}
		sort.Strings(all)
		*res = fmt.Sprint(len(all))
	}
}

// ---- "reaches exporters exactly when sampled", under concurrency: spans of all three sampling
// answers ended by two threads while one of them flushes, through a blocking batch processor and a
// real TracerProvider; after the provider's Shutdown the exporter holds every sampled span exactly
// once and nothing else.

type c09NameSampler struct{}

func (c09NameSampler) ShouldSample(p SamplingParameters) SamplingResult {
	d := RecordAndSample
	switch p.Name[0] {
	case 'r':
		d = RecordOnly
	case 'd':
		d = Drop
	}
	return SamplingResult{Decision: d, Tracestate: trace.SpanContextFromContext(p.ParentContext).TraceState()}
}
func (c09NameSampler) Description() string { return "c09NameSampler" }

type c09RecExp struct{ names []string }

func (e *c09RecExp) ExportSpans(_ context.Context, ss []ReadOnlySpan) error {
	for _, s := range ss {
		e.names = append(e.names, s.Name())
	}
	sched.Yield("export in flight", e)
	return nil
}
func (e *c09RecExp) Shutdown(context.Context) error { return nil }

// nonBlockingQueue > 0: the batch processor drops on a full queue (the default mode) and its queue
// has exactly that many slots -- as many as the scenario has sampled spans, and the scenario does
// not flush: the queue can never be full when a sampled span ends, whatever the worker is doing,
// unless something other than sampled spans takes up its slots.
func c09ExportBody(threads [][]string, nonBlockingQueue int, res *string) func(x *sched.Exec) {
	return func(x *sched.Exec) {
		ctx := context.Background()
		exp := &c09RecExp{}
		bopts := []BatchSpanProcessorOption{WithBlocking(), WithMaxQueueSize(2), WithMaxExportBatchSize(2)}
		if nonBlockingQueue > 0 {
			bopts = []BatchSpanProcessorOption{WithMaxQueueSize(nonBlockingQueue), WithMaxExportBatchSize(1)}
		}
		tp := NewTracerProvider(WithSampler(c09NameSampler{}),
			WithSpanProcessor(NewBatchSpanProcessor(exp, bopts...)))
		tr := tp.Tracer("c09")
		want := map[string]int{}
		var wg vsync.WaitGroup
		wg.Add(len(threads))
		for _, ops := range threads {
			for _, op := range ops {
				if op[0] == 's' {
					want[op] = 1
				}
			}
			sched.Go(func() {
				defer wg.Done()
				for _, op := range ops {
					if op == "Flush" {
						_ = tp.ForceFlush(ctx)
						continue
					}
					_, sp := tr.Start(ctx, op)
					sp.End()
				}
			})
		}
		wg.Wait()
		if err := tp.Shutdown(ctx); err != nil {
			x.Fail("C09|exported-iff-sampled|concurrent|shutdown-error", "TracerProvider.Shutdown: %v", err)
		}
		got := map[string]int{}
		for _, n := range exp.names {
			got[n]++
		}
		for n, c := range got {
			if want[n] == 0 {
				x.Fail("C09|exported-iff-sampled|concurrent|span that was not sampled reached the exporter", "%q exported %d times", n, c)
			} else if c != 1 {
				x.Fail("C09|exported-iff-sampled|concurrent|sampled span exported more than once", "%q exported %d times", n, c)
			}
		}
		for n := range want {
			if got[n] == 0 {
				x.Fail("C09|exported-iff-sampled|concurrent|sampled span never reached the exporter", "%q was sampled and ended before Shutdown, which returned; exported: %v", n, exp.names)
			}
		}
		sort.Strings(exp.names)
		*res = fmt.Sprint(exp.names)
	}
}

func TestVerifC09IDGen(t *testing.T) {
	thorough := enum.Start("C09", "probe").Thorough()
	type scn struct {
		name    string
		threads [][]string
		zeros   int
	}
	scs := []scn{
		{"ids-ids-span", [][]string{{"IDs"}, {"IDs"}, {"Span"}}, 1},
		{"span-span-span", [][]string{{"Span", "Span"}, {"Span"}, {"Span"}}, 2},
		{"ids2-span2", [][]string{{"IDs", "Span"}, {"Span", "IDs"}}, 0},
	}
	p := 2
	if thorough {
		p = 3
	}
	var names []string
	for _, s := range scs {
		names = append(names, fmt.Sprintf("idgen/%s/P%d", s.name, p))
	}
	exps := []scn{
		{"flush-vs-end", [][]string{{"s1", "Flush"}, {"s2", "r1"}}, 0},
		{"three-threads", [][]string{{"s1", "d1"}, {"Flush"}, {"r1", "s2"}}, 0},
		{"dropping-mode-queue-sized-for-the-sampled-spans", [][]string{{"r1", "r2", "s1", "d1", "s2"}}, 2},
	}
	ep := p - 1 // executions through a batch processor are ~10x longer than the generator's
	for _, s := range exps {
		names = append(names, fmt.Sprintf("export/%s/P%d", s.name, ep))
	}
	enum.Jobs(names, func(job string) {
		r := enum.Start("C09", "idgen")
		defer r.Finish()
		for _, s := range exps {
			if fmt.Sprintf("export/%s/P%d", s.name, ep) != job {
				continue
			}
			r.Bound("export_max_preemptions", ep)
			var res string
			st := sched.Explore(r, sched.Config{Name: job, MaxP: ep, MaxE: 0, MaxSteps: 6000, Body: c09ExportBody(s.threads, s.zeros, &res), Outcome: func(*sched.Exec) string { return res }})
			t.Logf("%s: execs=%d states=%d outcomes=%d keys=%v", job, st.Execs, st.States, len(st.Outcomes), r.Keys())
		}
		for _, s := range scs {
			if fmt.Sprintf("idgen/%s/P%d", s.name, p) != job {
				continue
			}
			r.Bound("idgen_max_preemptions", p)
			var res string
			st := sched.Explore(r, sched.Config{Name: job, MaxP: p, MaxE: 0, MaxSteps: 3000, Body: c09GenBody(s.threads, s.zeros, &res), Outcome: func(*sched.Exec) string { return res }})
			t.Logf("%s: execs=%d states=%d outcomes=%d keys=%v", job, st.Execs, st.States, len(st.Outcomes), r.Keys())
		}
	})
}
