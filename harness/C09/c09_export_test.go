package trace

// C09 — in-package doors for the black-box harness in c09_sampling_test.go (package
// trace_test). Nothing here decides anything: it only hands out two unexported things.

import "math/rand"

// VerifC09DefaultIDGenerator returns the SDK's default ID generator (the one a
// TracerProvider installs when WithIDGenerator is not used) with its random source replaced
// by src, so that the ids it produces are a deterministic function of the scripted draws.
func VerifC09DefaultIDGenerator(src rand.Source) IDGenerator {
	gen := defaultIDGenerator().(*randomIDGenerator)
	gen.randSource = rand.New(src)
	return gen
}

// VerifC09SamplerFromEnv returns what OTEL_TRACES_SAMPLER / OTEL_TRACES_SAMPLER_ARG select.
func VerifC09SamplerFromEnv() (Sampler, error) { return samplerFromEnv() }
