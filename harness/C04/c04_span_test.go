package trace_test

// C04 — the exported span equals a reference model of the operations applied to it.
//
// Explicit-state breadth-first search over operation histories on REAL spans. A state is
// the history that reaches it; a successor is built by replaying history+op on a fresh span
// of a real TracerProvider (WithRawSpanLimits + a recording SpanProcessor) and, in lock
// step, on the reference model below (ordered map + two bounded FIFOs + scalars). The
// canonical key of a state is limits + initial state + model state. Every history up to
// the "full" depth is expanded regardless of its key (the implementation keeps hidden
// state — the un-deduplicated attribute slice — that the model does not have); beyond it
// only histories reaching a new canonical state are expanded, up to the maximum depth.
//
// Sub-explorations (one family of jobs each):
//   attr/…   SetAttributes alphabet x AttributeCountLimit x AttributeValueLengthLimit,
//            three initial states (plain, WithAttributes at start, sampler attributes)
//   evln/…   AddEvent / RecordError / AddLink alphabet x the four event/link limits,
//            two initial states (plain, links at start)
//   scalars  SetStatus / SetName / End / End(WithTimestamp)
//   mixed/…  a small alphabet of every call kind under all {unlimited,0,1}^6 limit vectors
//   trunc/…  every string over a 7-symbol alphabet (ASCII, 2/3/4-byte runes, a validly
//            encoded U+FFFD, an invalid byte, a truncated lead byte) x every length limit,
//            set as STRING and inside a STRINGSLICE, judged by the property-level oracle
//
// The harness uses the public API only.

import (
	"context"
	"encoding/binary"
	"encoding/hex"
	"encoding/json"
	"errors"
	"fmt"
	"os"
	"sort"
	"strconv"
	"strings"
	"testing"
	"time"
	"unicode/utf8"

	"go.opentelemetry.io/otel/attribute"
	"go.opentelemetry.io/otel/codes"
	sdktrace "go.opentelemetry.io/otel/sdk/trace"
	"go.opentelemetry.io/otel/trace"
	"verif/mc/enum"
)

// ---------------------------------------------------------------------------------------
// harness-side description of attribute values (the model never touches the attribute
// package; real values are read back through the public accessors)

type kv struct {
	key string
	typ byte // 'i' INT64, 's' STRING, 'S' STRINGSLICE, 'x' value of type INVALID
	i   int64
	s   string
	ss  []string
}

func kI(k string, i int64) kv       { return kv{key: k, typ: 'i', i: i} }
func kS(k, s string) kv             { return kv{key: k, typ: 's', s: s} }
func kSS(k string, ss ...string) kv { return kv{key: k, typ: 'S', ss: ss} }
func kX(k string) kv                { return kv{key: k, typ: 'x'} }

func (k kv) valid() bool { return k.key != "" && k.typ != 'x' }

func (k kv) real() attribute.KeyValue {
	switch k.typ {
	case 'i':
		return attribute.Int64(k.key, k.i)
	case 's':
		return attribute.String(k.key, k.s)
	case 'S':
		return attribute.StringSlice(k.key, append([]string(nil), k.ss...))
	}
	return attribute.KeyValue{Key: attribute.Key(k.key)}
}

func realKVs(kvs []kv) []attribute.KeyValue {
	out := make([]attribute.KeyValue, len(kvs))
	for i, k := range kvs {
		out[i] = k.real()
	}
	return out
}

// canon is the written-out value after reference truncation to L characters (L<0: none).
func (k kv) canon(L int) string { return string(k.appendCanon(nil, L)) }

func appendQuotedList(b []byte, ss []string, f func(string) string) []byte {
	b = append(b, '[')
	for i, s := range ss {
		if i > 0 {
			b = append(b, ' ')
		}
		if f != nil {
			s = f(s)
		}
		b = strconv.AppendQuote(b, s)
	}
	return append(b, ']')
}

func (k kv) appendCanon(b []byte, L int) []byte {
	switch k.typ {
	case 'i':
		return strconv.AppendInt(append(b, "i:"...), k.i, 10)
	case 's':
		return strconv.AppendQuote(append(b, "s:"...), refTrunc(L, k.s))
	case 'S':
		return appendQuotedList(append(b, "S:"...), k.ss, func(s string) string { return refTrunc(L, s) })
	}
	return append(b, 'x')
}

func kvList(kvs []kv) string {
	var xs []string
	for _, k := range kvs {
		xs = append(xs, fmt.Sprintf("%q=%s", k.key, k.canon(-1)))
	}
	return strings.Join(xs, ", ")
}

func realVal(v attribute.Value) string { return string(appendRealVal(nil, v)) }

func appendRealVal(b []byte, v attribute.Value) []byte {
	switch v.Type() {
	case attribute.INT64:
		return strconv.AppendInt(append(b, "i:"...), v.AsInt64(), 10)
	case attribute.STRING:
		return strconv.AppendQuote(append(b, "s:"...), v.AsString())
	case attribute.STRINGSLICE:
		return appendQuotedList(append(b, "S:"...), v.AsStringSlice(), nil)
	case attribute.INVALID:
		return append(b, 'x')
	}
	return append(b, fmt.Sprintf("%s:%s", v.Type(), v.Emit())...)
}

// ---------------------------------------------------------------------------------------
// truncation: what the property demands of a string value v set under length limit L
//
//   "string values longer than the configured length are cut to at most that many
//    characters, never splitting a character and discarding invalid bytes"
//
// Judged (L >= 0; an invalid byte counts as one character when measuring the input):
//   * input not longer than L characters: exported unchanged; exporting it with its invalid
//     bytes removed is accepted too (the statement does not say whether a value that needs
//     no cut is cleaned);
//   * input longer than L characters: the exported value is valid UTF-8 (no invalid byte,
//     no split character), has at most L characters, is a prefix of the input with its
//     invalid bytes removed, and is not shorter than what is left of the first L characters
//     of the input once the invalid bytes among them are removed (whether discarded bytes
//     count towards the limit is not stated: both readings are accepted, nothing shorter).
// For well-formed inputs this pins the result to exactly the first L characters.

func cleanUTF8(s string) string {
	var b strings.Builder
	for i := 0; i < len(s); {
		r, n := utf8.DecodeRuneInString(s[i:])
		if r == utf8.RuneError && n <= 1 {
			i++
			continue
		}
		b.WriteString(s[i : i+n])
		i += n
	}
	return b.String()
}

// firstChars returns the first n characters of s (an invalid byte is one character).
func firstChars(s string, n int) string {
	i := 0
	for c := 0; c < n && i < len(s); c++ {
		_, sz := utf8.DecodeRuneInString(s[i:])
		i += sz
	}
	return s[:i]
}

// refTrunc is the model's predicted value (the longest accepted one).
func refTrunc(L int, s string) string {
	if L < 0 || utf8.RuneCountInString(s) <= L {
		return s
	}
	return firstChars(cleanUTF8(s), L)
}

func inputClass(s string) string {
	hasFFFD, hasInvalid := false, false
	for i := 0; i < len(s); {
		r, n := utf8.DecodeRuneInString(s[i:])
		if r == utf8.RuneError {
			if n <= 1 {
				hasInvalid = true
			} else {
				hasFFFD = true
			}
		}
		i += n
	}
	switch {
	case hasFFFD:
		return "valid-U+FFFD-in-input"
	case hasInvalid:
		return "invalid-bytes-in-input"
	}
	return "well-formed-input"
}

// truncVerdict returns "" when got is an acceptable export of in under limit L, else the
// finding key (without the property prefix) and a message.
func truncVerdict(L int, in, got string) (string, string) {
	if L < 0 {
		if got != in {
			return "truncate|unlimited-value-changed|" + inputClass(in), fmt.Sprintf("no length limit, value %q exported as %q", in, got)
		}
		return "", ""
	}
	if utf8.RuneCountInString(in) <= L {
		if got != in && got != cleanUTF8(in) {
			return "truncate|value-within-limit-changed|" + inputClass(in), fmt.Sprintf("limit %d, value %q (%d characters) exported as %q", L, in, utf8.RuneCountInString(in), got)
		}
		return "", ""
	}
	clean := cleanUTF8(in)
	switch {
	case !utf8.ValidString(got):
		return "truncate|invalid-byte-or-split-character-exported|" + inputClass(in), fmt.Sprintf("limit %d, value %q exported as %q, which is not valid UTF-8", L, in, got)
	case utf8.RuneCountInString(got) > L:
		return "truncate|more-characters-than-limit|" + inputClass(in), fmt.Sprintf("limit %d, value %q exported as %q: %d characters", L, in, got, utf8.RuneCountInString(got))
	case !strings.HasPrefix(clean, got):
		return "truncate|not-a-prefix-of-the-input|" + inputClass(in), fmt.Sprintf("limit %d, value %q exported as %q, not a prefix of the cleaned input %q", L, in, got, clean)
	case utf8.RuneCountInString(got) < utf8.RuneCountInString(cleanUTF8(firstChars(in, L))):
		return "truncate|cut-shorter-than-needed|" + inputClass(in), fmt.Sprintf("limit %d, value %q exported as %q: only %d characters", L, in, got, utf8.RuneCountInString(got))
	}
	return "", ""
}

// ---------------------------------------------------------------------------------------
// limits

type limits struct{ vlen, attrs, events, links, perEvent, perLink int }

func (l limits) sdk() sdktrace.SpanLimits {
	return sdktrace.SpanLimits{
		AttributeValueLengthLimit: l.vlen, AttributeCountLimit: l.attrs, EventCountLimit: l.events,
		LinkCountLimit: l.links, AttributePerEventCountLimit: l.perEvent, AttributePerLinkCountLimit: l.perLink,
	}
}
func (l limits) arr() [6]int {
	return [6]int{l.vlen, l.attrs, l.events, l.links, l.perEvent, l.perLink}
}
func limitsOf(a [6]int) limits { return limits{a[0], a[1], a[2], a[3], a[4], a[5]} }
func (l limits) String() string {
	return fmt.Sprintf("AttributeValueLength=%d AttributeCount=%d EventCount=%d LinkCount=%d AttributePerEvent=%d AttributePerLink=%d",
		l.vlen, l.attrs, l.events, l.links, l.perEvent, l.perLink)
}

var unlimited = limits{-1, -1, -1, -1, -1, -1}

func limClass(n int) string {
	switch {
	case n < 0:
		return "<0"
	case n == 0:
		return "=0"
	}
	return ">0"
}

// ---------------------------------------------------------------------------------------
// the reference model: ordered map + two bounded FIFOs + scalars

type mEvent struct {
	name    string
	ts      int64 // seconds after base: identifies the call that added it
	all     []kv  // attributes supplied
	keep    int   // how many of them are kept (the first ones)
	isError bool  // added by RecordError: which of its attributes come first is not stated
}

type mLink struct {
	kind byte // 'A', 'B' valid contexts; 'I' invalid context with attributes
	id   int  // identifies the call that added it (encoded in the SpanID of valid contexts)
	all  []kv
	keep int
}

type model struct {
	lim     limits
	ended   bool
	endTS   int64 // 0: End without timestamp, else seconds after base
	name    string
	code    int // 0 Unset < 1 Error < 2 Ok
	desc    string
	keys    []string // attribute keys in first-insertion order
	vals    map[string]kv
	dAttr   int
	events  []mEvent
	dEvents int
	links   []mLink
	dLinks  int
}

func newModel(l limits) *model { return &model{lim: l, name: "span", vals: map[string]kv{}} }

func (m *model) setAttrs(kvs []kv) {
	if m.ended {
		return
	}
	for _, a := range kvs {
		if !a.valid() {
			m.dAttr++
			continue
		}
		if _, ok := m.vals[a.key]; ok {
			m.vals[a.key] = a // last value wins, also when full
			continue
		}
		if m.lim.attrs >= 0 && len(m.keys) >= m.lim.attrs {
			m.dAttr++
			continue
		}
		m.keys = append(m.keys, a.key)
		m.vals[a.key] = a
	}
}

func capKeep(n, limit int) int {
	if limit >= 0 && n > limit {
		return limit
	}
	return n
}

func (m *model) addEvent(e mEvent) {
	if m.ended {
		return
	}
	e.keep = capKeep(len(e.all), m.lim.perEvent)
	m.events = append(m.events, e)
	if m.lim.events >= 0 {
		for len(m.events) > m.lim.events {
			m.events = m.events[1:]
			m.dEvents++
		}
	}
}

func (m *model) addLink(l mLink) {
	if m.ended {
		return
	}
	l.keep = capKeep(len(l.all), m.lim.perLink)
	m.links = append(m.links, l)
	if m.lim.links >= 0 {
		for len(m.links) > m.lim.links {
			m.links = m.links[1:]
			m.dLinks++
		}
	}
}

func (m *model) setStatus(code int, desc string) {
	if m.ended || m.code > code {
		return
	}
	m.code, m.desc = code, ""
	if code == 1 {
		m.desc = desc
	}
}

func (m *model) setName(n string) {
	if !m.ended {
		m.name = n
	}
}

func (m *model) end(ts int64) {
	if !m.ended {
		m.ended, m.endTS = true, ts
	}
}

func (m *model) sortedKeys() []string {
	ks := append([]string(nil), m.keys...)
	sort.Strings(ks)
	return ks
}

// key is the canonical model state (call identities and timestamps of events left out:
// they do not influence any future).
func (m *model) key() string {
	b := make([]byte, 0, 160)
	num := func(p string, n int64) { b = strconv.AppendInt(append(b, p...), n, 10) }
	b = append(b, "end="...)
	b = strconv.AppendBool(b, m.ended)
	num("/", m.endTS)
	b = strconv.AppendQuote(append(b, " name="...), m.name)
	num(" st=", int64(m.code))
	b = strconv.AppendQuote(append(b, '/'), m.desc)
	b = append(b, " A["...)
	for _, k := range m.sortedKeys() {
		b = strconv.AppendQuote(b, k)
		b = append(b, '=')
		b = m.vals[k].appendCanon(b, m.lim.vlen)
		b = append(b, ';')
	}
	num("]d", int64(m.dAttr))
	b = append(b, " E["...)
	for _, e := range m.events {
		b = append(b, e.name...)
		num("/", int64(len(e.all)))
		num("/", int64(e.keep))
		b = append(b, ';')
	}
	num("]d", int64(m.dEvents))
	b = append(b, " L["...)
	for _, l := range m.links {
		b = append(b, l.kind)
		num("/", int64(len(l.all)))
		num("/", int64(l.keep))
		b = append(b, ';')
	}
	num("]d", int64(m.dLinks))
	return string(b)
}

// ---------------------------------------------------------------------------------------
// observation of a real span

type obs struct {
	name                   string
	code                   codes.Code
	desc                   string
	attrs                  []attribute.KeyValue
	dAttr, dEvents, dLinks int
	events                 []sdktrace.Event
	links                  []sdktrace.Link
	end                    time.Time
}

func readSpan(ro sdktrace.ReadOnlySpan) obs {
	st := ro.Status()
	return obs{
		name: ro.Name(), code: st.Code, desc: st.Description,
		attrs: append([]attribute.KeyValue(nil), ro.Attributes()...),
		dAttr: ro.DroppedAttributes(), dEvents: ro.DroppedEvents(), dLinks: ro.DroppedLinks(),
		events: append([]sdktrace.Event(nil), ro.Events()...),
		links:  append([]sdktrace.Link(nil), ro.Links()...),
		end:    ro.EndTime(),
	}
}

func attrsCanon(kvs []attribute.KeyValue, sorted bool) string {
	return string(appendAttrsCanon(nil, kvs, sorted))
}

func appendAttrsCanon(b []byte, kvs []attribute.KeyValue, sorted bool) []byte {
	if sorted && len(kvs) > 1 {
		kvs = append([]attribute.KeyValue(nil), kvs...)
		sort.SliceStable(kvs, func(i, j int) bool { return kvs[i].Key < kvs[j].Key })
	}
	for i, a := range kvs {
		if i > 0 {
			b = append(b, ';')
		}
		b = strconv.AppendQuote(b, string(a.Key))
		b = append(b, '=')
		b = appendRealVal(b, a.Value)
	}
	return b
}

// canon writes the observation out: attributes sorted by key (their order is not an
// observable fact), events and links in order. Times only when asked for.
func (o obs) canon(times bool) string {
	b := make([]byte, 0, 256)
	num := func(p string, n int64) { b = strconv.AppendInt(append(b, p...), n, 10) }
	b = strconv.AppendQuote(append(b, "name="...), o.name)
	num(" st=", int64(o.code))
	b = strconv.AppendQuote(append(b, '/'), o.desc)
	b = append(b, " A["...)
	b = appendAttrsCanon(b, o.attrs, true)
	num("]d", int64(o.dAttr))
	b = append(b, " E["...)
	for _, e := range o.events {
		b = append(append(b, e.Name...), '{')
		b = appendAttrsCanon(b, e.Attributes, false)
		num("}d", int64(e.DroppedAttributeCount))
		if times {
			num("@", e.Time.UnixNano())
		}
		b = append(b, ';')
	}
	num("]d", int64(o.dEvents))
	b = append(b, " L["...)
	for _, l := range o.links {
		tid, sid := l.SpanContext.TraceID(), l.SpanContext.SpanID()
		b = hex.AppendEncode(b, tid[:])
		b = append(b, '/')
		b = hex.AppendEncode(b, sid[:])
		b = append(b, '{')
		b = appendAttrsCanon(b, l.Attributes, false)
		num("}d", int64(l.DroppedAttributeCount))
		b = append(b, ';')
	}
	num("]d", int64(o.dLinks))
	if times {
		num(" end=", o.end.UnixNano())
	}
	return string(b)
}

// ---------------------------------------------------------------------------------------
// operations

var base = time.Date(2001, 2, 3, 4, 5, 6, 0, time.UTC)

func tsAt(n int64) time.Time { return base.Add(time.Duration(n) * time.Second) }

func linkSC(kind byte, id int) trace.SpanContext {
	return trace.NewSpanContext(trace.SpanContextConfig{
		TraceID: trace.TraceID{kind, 1}, SpanID: trace.SpanID{kind, byte(id + 1)}, TraceFlags: trace.FlagsSampled,
	})
}

type op struct {
	label string
	kind  string // API method: names the culprit in after-End and panic keys
	real  func(sp trace.Span, pos int)
	model func(m *model, pos int)
}

func opSet(kvs ...kv) op {
	return op{
		label: "SetAttributes(" + kvList(kvs) + ")", kind: "SetAttributes",
		real: func(sp trace.Span, _ int) {
			// the caller keeps using its slice: what the span holds must not follow
			a := realKVs(kvs)
			sp.SetAttributes(a...)
			scribbleKVs(a)
		},
		model: func(m *model, _ int) { m.setAttrs(kvs) },
	}
}

func opEvent(name string, attrs ...kv) op {
	return op{
		label: fmt.Sprintf("AddEvent(%s; %s)", name, kvList(attrs)), kind: "AddEvent",
		real: func(sp trace.Span, pos int) {
			a := realKVs(attrs)
			sp.AddEvent(name, trace.WithTimestamp(tsAt(int64(pos+1))), trace.WithAttributes(a...))
			scribbleKVs(a)
		},
		model: func(m *model, pos int) { m.addEvent(mEvent{name: name, ts: int64(pos + 1), all: attrs}) },
	}
}

var errBoom = errors.New("boom")

// scribbleKVs overwrites the argument slice after the call returned (a caller re-using its buffer).
// SetAttributes and AddEvent copy what they keep; link attributes are retained by reference in the
// pinned tree (not stated either way), so links are left alone.
func scribbleKVs(a []attribute.KeyValue) {
	for i := range a {
		a[i] = attribute.String("scribbled-by-caller", "x")
	}
}

func opRecordError() op {
	all := []kv{kS("exception.type", "?"), kS("exception.message", "boom")}
	return op{
		label: "RecordError(errors.New(\"boom\"))", kind: "RecordError",
		real: func(sp trace.Span, pos int) { sp.RecordError(errBoom, trace.WithTimestamp(tsAt(int64(pos+1)))) },
		model: func(m *model, pos int) {
			m.addEvent(mEvent{name: "exception", ts: int64(pos + 1), all: all, isError: true})
		},
	}
}

// opRecordErrorWith: RecordError with an attribute of the caller's, or with a stack trace: the event
// holds the caller's attributes AND the generated ones, all of them under the per-event cap.
func opRecordErrorWith(stack bool) op {
	all := []kv{kI("x", 1), kS("exception.type", "?"), kS("exception.message", "boom")}
	label := "RecordError(errors.New(\"boom\"), WithAttributes(x=1))"
	if stack {
		all = []kv{kS("exception.type", "?"), kS("exception.message", "boom"), kS("exception.stacktrace", "?")}
		label = "RecordError(errors.New(\"boom\"), WithStackTrace(true))"
	}
	return op{
		label: label, kind: "RecordError",
		real: func(sp trace.Span, pos int) {
			if stack {
				sp.RecordError(errBoom, trace.WithTimestamp(tsAt(int64(pos+1))), trace.WithStackTrace(true))
			} else {
				sp.RecordError(errBoom, trace.WithTimestamp(tsAt(int64(pos+1))), trace.WithAttributes(attribute.Int64("x", 1)))
			}
		},
		model: func(m *model, pos int) {
			m.addEvent(mEvent{name: "exception", ts: int64(pos + 1), all: all, isError: true})
		},
	}
}

func opRecordNil() op {
	return op{
		label: "RecordError(nil)", kind: "RecordError",
		real:  func(sp trace.Span, pos int) { sp.RecordError(nil) },
		model: func(m *model, pos int) {},
	}
}

func opLink(kind byte, attrs ...kv) op {
	return op{
		label: fmt.Sprintf("AddLink(%c; %s)", kind, kvList(attrs)), kind: "AddLink",
		real: func(sp trace.Span, pos int) {
			l := trace.Link{Attributes: realKVs(attrs)}
			if kind != 'I' {
				l.SpanContext = linkSC(kind, pos)
			}
			if len(attrs) == 0 {
				l.Attributes = nil
			}
			sp.AddLink(l)
		},
		model: func(m *model, pos int) {
			if kind == 'I' && len(attrs) == 0 {
				return // neither a valid context nor attributes nor tracestate: not a link
			}
			m.addLink(mLink{kind: kind, id: pos, all: attrs})
		},
	}
}

func opStatus(code codes.Code, desc string) op {
	return op{
		label: fmt.Sprintf("SetStatus(%s, %q)", code, desc), kind: "SetStatus",
		real: func(sp trace.Span, _ int) { sp.SetStatus(code, desc) },
		model: func(m *model, _ int) {
			m.setStatus(map[codes.Code]int{codes.Unset: 0, codes.Error: 1, codes.Ok: 2}[code], desc)
		},
	}
}

func opName(n string) op {
	return op{
		label: fmt.Sprintf("SetName(%q)", n), kind: "SetName",
		real:  func(sp trace.Span, _ int) { sp.SetName(n) },
		model: func(m *model, _ int) { m.setName(n) },
	}
}

func opEnd(ts int64) op {
	if ts == 0 {
		return op{label: "End()", kind: "End", real: func(sp trace.Span, _ int) { sp.End() }, model: func(m *model, _ int) { m.end(0) }}
	}
	return op{
		label: fmt.Sprintf("End(WithTimestamp(base+%ds))", ts), kind: "End",
		real:  func(sp trace.Span, _ int) { sp.End(trace.WithTimestamp(tsAt(ts))) },
		model: func(m *model, _ int) { m.end(ts) },
	}
}

// initial states: what the span is started with
type initState struct {
	label   string
	attrs   []kv    // trace.WithAttributes at Start
	sampler []kv    // attributes returned by the sampler
	links   []mLink // trace.WithLinks at Start
}

type attrSampler struct{ attrs []kv }

func (s attrSampler) ShouldSample(p sdktrace.SamplingParameters) sdktrace.SamplingResult {
	return sdktrace.SamplingResult{
		Decision:   sdktrace.RecordAndSample,
		Attributes: realKVs(s.attrs),
		Tracestate: trace.SpanContextFromContext(p.ParentContext).TraceState(),
	}
}
func (attrSampler) Description() string { return "c04 sampler" }

// the sub-explorations ------------------------------------------------------------------

type subx struct {
	name  string
	ops   []op
	inits []initState
}

func subAttr() subx {
	return subx{
		name: "attr",
		ops: []op{
			opSet(kI("a", 1)),
			opSet(kI("a", 2)),
			opSet(kI("b", 1), kI("c", 1)),
			opSet(kI("a", 3), kI("d", 1)),
			opSet(kI("e", 1), kI("a", 4)), // a new key BEFORE an update of an existing key, in one call
			opSet(kI("", 1)),
			opSet(kX("x"), kI("b", 2)),
			opSet(kS("s", "abcdef")),
			opSet(kSS("ss", "abcdef", "é€")),
			opSet(kI("a", 1), kI("a", 2)),
			opSet(kS("u", "\uFFFDab")),
			opSet(kS("v", "a\xffbc")),
			opEnd(0),
		},
		inits: []initState{
			{label: "plain"},
			{label: "Start(WithAttributes(a=0, z=\"abcdef\"))", attrs: []kv{kI("a", 0), kS("z", "abcdef")}},
			{label: "sampler returns attributes (a=9, y=1)", sampler: []kv{kI("a", 9), kI("y", 1)}},
		},
	}
}

func subEvLn() subx {
	sx := subEvLnBase()
	if os.Getenv("VERIF_TIER") == "thorough" {
		sx.ops = append(sx.ops, opRecordErrorWith(true)) // with a stack trace: three generated attributes
	}
	return sx
}

func subEvLnBase() subx {
	return subx{
		name: "evln",
		ops: []op{
			opEvent("e0"),
			opEvent("e1", kI("x", 1)),
			opEvent("e3", kI("x", 1), kS("y", "two"), kI("z", 3)),
			opRecordError(),
			opRecordErrorWith(false),
			opRecordNil(),
			opLink('A', kI("p", 1), kI("q", 2)),
			opLink('B'),
			opLink('I'),
			opLink('I', kI("r", 1)),
			opEnd(0),
		},
		inits: []initState{
			{label: "plain"},
			{label: "Start(WithLinks(A{p,q}, B{}))", links: []mLink{{kind: 'A', id: 100, all: []kv{kI("p", 1), kI("q", 2)}}, {kind: 'B', id: 101}}},
			// more start links than a small limit holds, with links that are no links among them
			{label: "Start(WithLinks(A{p,q}, B{}, I{}))", links: []mLink{{kind: 'A', id: 100, all: []kv{kI("p", 1), kI("q", 2)}}, {kind: 'B', id: 101}, {kind: 'I', id: 102}}},
			{label: "Start(WithLinks(I{}, A{p}, I{}, B{}, I{r}))", links: []mLink{{kind: 'I', id: 100}, {kind: 'A', id: 101, all: []kv{kI("p", 1)}}, {kind: 'I', id: 102}, {kind: 'B', id: 103}, {kind: 'I', id: 104, all: []kv{kI("r", 1)}}}},
		},
	}
}

func subScalars() subx {
	var ops []op
	for _, c := range []codes.Code{codes.Unset, codes.Error, codes.Ok} {
		for _, d := range []string{"", "d1", "d2"} {
			ops = append(ops, opStatus(c, d))
		}
	}
	ops = append(ops, opName("n1"), opName("n2"), opEnd(0), opEnd(1000), opEnd(2000))
	return subx{name: "scalars", ops: ops, inits: []initState{{label: "plain"}}}
}

func subMixed() subx {
	return subx{
		name: "mixed",
		ops: []op{
			opSet(kI("a", 1)),
			opSet(kI("a", 2), kS("b", "abcdef")),
			opEvent("e2", kI("x", 1), kI("y", 2)),
			opRecordError(),
			opLink('A', kI("p", 1), kI("q", 2)),
			opStatus(codes.Error, "d1"),
			opStatus(codes.Ok, ""),
			opName("n1"),
			opEnd(0),
		},
		inits: []initState{{label: "plain"}},
	}
}

func subByName(n string) subx {
	switch n {
	case "attr":
		return subAttr()
	case "evln":
		return subEvLn()
	case "scalars":
		return subScalars()
	case "mixed":
		return subMixed()
	}
	panic("unknown sub-exploration " + n)
}

// ---------------------------------------------------------------------------------------
// the real side

type recProc struct{ ended []sdktrace.ReadOnlySpan }

func (p *recProc) OnStart(context.Context, sdktrace.ReadWriteSpan) {}
func (p *recProc) OnEnd(s sdktrace.ReadOnlySpan)                   { p.ended = append(p.ended, s) }
func (p *recProc) Shutdown(context.Context) error                  { return nil }
func (p *recProc) ForceFlush(context.Context) error                { return nil }

type realEnv struct {
	proc   *recProc
	tracer trace.Tracer
}

type replayCase struct {
	Sub  string `json:"sub"`
	Lim  [6]int `json:"limits"`
	Init int    `json:"init"`
	Ops  []int  `json:"ops"`
	Hex  string `json:"hex,omitempty"` // trunc: the string, hex encoded
}

type run struct {
	r    *enum.R
	envs map[string]*realEnv
	cur  *realEnv // provider of the search in progress
	tenv [16]*realEnv
	seen map[string]bool // finding keys already reported by this job
}

func (x *run) env(L limits, in initState) *realEnv {
	k := fmt.Sprint(L.arr(), len(in.sampler))
	if e, ok := x.envs[k]; ok {
		return e
	}
	p := &recProc{}
	opts := []sdktrace.TracerProviderOption{sdktrace.WithRawSpanLimits(L.sdk()), sdktrace.WithSpanProcessor(p)}
	if len(in.sampler) > 0 {
		opts = append(opts, sdktrace.WithSampler(attrSampler{in.sampler}))
	} else {
		opts = append(opts, sdktrace.WithSampler(sdktrace.AlwaysSample()))
	}
	e := &realEnv{proc: p, tracer: sdktrace.NewTracerProvider(opts...).Tracer("c04")}
	x.envs[k] = e
	return e
}

func catch(f func()) (p any) {
	defer func() { p = recover() }()
	f()
	return nil
}

// hash128 folds a canonical key into 128 bits (two independent FNV variants) so that the
// visited set stays small.
func hash128(parts ...string) string {
	const (
		off64   = 14695981039346656037
		prime64 = 1099511628211
	)
	var h1, h2 uint64 = off64, off64
	for _, s := range parts {
		for i := 0; i < len(s); i++ {
			h1 = (h1 ^ uint64(s[i])) * prime64 // FNV-1a
			h2 = (h2 * prime64) ^ uint64(s[i]) // FNV-1
		}
	}
	var b [16]byte
	binary.BigEndian.PutUint64(b[:8], h1)
	binary.BigEndian.PutUint64(b[8:], h2)
	return string(b[:])
}

// eval replays one history on a fresh real span and on a fresh model, judges every oracle
// and returns the canonical state key.
func (x *run) eval(sx *subx, L limits, initIdx int, hist []int) string {
	r := x.r
	in := sx.inits[initIdx]
	env := x.cur
	if env == nil {
		env = x.env(L, in)
	}
	env.proc.ended = env.proc.ended[:0]
	r.Eval()

	desc := func() any {
		labels := make([]string, len(hist))
		for i, o := range hist {
			labels[i] = sx.ops[o].label
		}
		return map[string]any{"sub_exploration": sx.name, "limits": L.String(), "initial": in.label, "ops": labels, "then": "End() by the harness unless already ended"}
	}
	fail := func(key, format string, a ...any) {
		if x.seen[key] {
			r.Fail(key, nil, nil, "") // folded: only counted
			return
		}
		x.seen[key] = true
		r.Fail(key, desc(), replayCase{Sub: sx.name, Lim: L.arr(), Init: initIdx, Ops: append([]int(nil), hist...)}, format, a...)
	}

	// model: initial state
	m := newModel(L)
	for _, l := range in.links {
		if l.kind == 'I' && len(l.all) == 0 {
			continue // neither a valid context nor attributes nor tracestate: not a link (nor a dropped one)
		}
		m.addLink(l)
	}
	m.setAttrs(in.sampler)
	m.setAttrs(in.attrs)

	// real: start
	var startOpts []trace.SpanStartOption
	if len(in.attrs) > 0 {
		startOpts = append(startOpts, trace.WithAttributes(realKVs(in.attrs)...))
	}
	if len(in.links) > 0 {
		var ls []trace.Link
		for _, l := range in.links {
			rl := trace.Link{Attributes: realKVs(l.all)}
			if l.kind != 'I' {
				rl.SpanContext = linkSC(l.kind, l.id)
			}
			if len(l.all) == 0 {
				rl.Attributes = nil
			}
			ls = append(ls, rl)
		}
		startOpts = append(startOpts, trace.WithLinks(ls...))
	}
	var span trace.Span
	if p := catch(func() { _, span = env.tracer.Start(context.Background(), "span", startOpts...) }); p != nil {
		fail("panic|Start", "Start panicked: %v", p)
		return "panic"
	}
	live, ok := span.(sdktrace.ReadOnlySpan)
	if !ok || !span.IsRecording() {
		fail("not-recording", "Start returned a span that is not a recording ReadOnlySpan (%T)", span)
		return "not-recording"
	}

	// after End nothing may change: the live span and what was handed to the processor
	var liveAtEnd, snapAtEnd string
	afterEnd := func() {
		liveAtEnd = readSpan(live).canon(true)
		snapAtEnd = ""
		if len(env.proc.ended) == 1 {
			snapAtEnd = readSpan(env.proc.ended[0]).canon(true)
		}
	}
	for pos, oi := range hist {
		o := sx.ops[oi]
		wasEnded := m.ended
		if p := catch(func() { o.real(span, pos) }); p != nil {
			fail("panic|"+o.kind, "%s panicked: %v", o.label, p)
			return "panic"
		}
		o.model(m, pos)
		switch {
		case !wasEnded && m.ended:
			afterEnd()
		case wasEnded:
			if n := len(env.proc.ended); n != 1 {
				// reported below as exported-count; do not blame it twice
				continue
			}
			if now := readSpan(live).canon(true); now != liveAtEnd {
				fail("after-end|live-span-changed|"+o.kind, "%s after End changed the span:\n was %s\n now %s", o.label, liveAtEnd, now)
				liveAtEnd = now
			}
			if now := readSpan(env.proc.ended[0]).canon(true); now != snapAtEnd {
				fail("after-end|exported-span-changed|"+o.kind, "%s after End changed the span already handed to the processor:\n was %s\n now %s", o.label, snapAtEnd, now)
				snapAtEnd = now
			}
		}
	}
	if !m.ended {
		if p := catch(func() { span.End() }); p != nil {
			fail("panic|End", "End panicked: %v", p)
			return "panic"
		}
		m.end(0)
	}

	// exactly one span handed to the processor
	switch n := len(env.proc.ended); {
	case n == 0:
		fail("exported-count|0", "End did not hand the span to the processor")
		return m.key()
	case n > 1:
		fail("exported-count|>1", "the span was handed to the processor %d times", n)
	}
	o := readSpan(env.proc.ended[0])
	r.Outcome(o.canon(false))
	key := m.key()
	for _, f := range judge(o, m, x.seen) {
		if x.seen[f[0]] {
			fail(f[0], "")
			continue
		}
		fail(f[0], "%s\n exported: %s\n model:    %s", f[1], o.canon(false), key)
	}
	return key
}

// judge compares an exported span with the model. At most one finding per component
// (attributes, events, links, status, name, end time), the most basic first.
func judge(o obs, m *model, seen map[string]bool) (out [][2]string) {
	add := func(key, format string, a ...any) {
		if seen[key] {
			out = append(out, [2]string{key, ""}) // folded into an earlier, simpler case
			return
		}
		out = append(out, [2]string{key, fmt.Sprintf(format, a...)})
	}
	L := m.lim

	// ---- attributes: each key once, last value wins, earliest keys kept, exact drop count
	func() {
		got := map[string]attribute.Value{}
		var gotKeys []string
		for _, a := range o.attrs {
			k := string(a.Key)
			if _, dup := got[k]; dup {
				add("attributes|key-exported-twice", "attribute key %q is exported twice", k)
				return
			}
			got[k] = a.Value
			gotKeys = append(gotKeys, k)
		}
		if L.attrs >= 0 && len(gotKeys) > L.attrs {
			add("attributes|more-than-limit", "%d attributes exported, AttributeCountLimit is %d", len(gotKeys), L.attrs)
			return
		}
		sort.Strings(gotKeys)
		want := m.sortedKeys()
		if !sameStrings(gotKeys, want) {
			add("attributes|wrong-keys-kept|AttributeCountLimit"+limClass(L.attrs), "exported attribute keys %q, model %q", gotKeys, want)
			return
		}
		for _, k := range want {
			w, g := m.vals[k], got[k]
			if key, msg := valueVerdict(L.vlen, w, g); key != "" {
				add(key, "attribute %q: %s", k, msg)
				return
			}
		}
		if o.dAttr != m.dAttr {
			add("dropped-attributes|AttributeCountLimit"+limClass(L.attrs), "DroppedAttributes %d, model %d", o.dAttr, m.dAttr)
		}
	}()

	// ---- events: the most recent ones, in order, with their per-event caps, exact drop count
	func() {
		if L.events >= 0 && len(o.events) > L.events {
			add("events|more-than-limit", "%d events exported, EventCountLimit is %d", len(o.events), L.events)
			return
		}
		same := len(o.events) == len(m.events)
		for i := 0; same && i < len(m.events); i++ {
			same = o.events[i].Name == m.events[i].name && o.events[i].Time.Equal(tsAt(m.events[i].ts))
		}
		if !same {
			var g, w []string
			for _, e := range o.events {
				g = append(g, fmt.Sprintf("%s@%d", e.Name, int64(e.Time.Sub(base)/time.Second)))
			}
			for _, e := range m.events {
				w = append(w, fmt.Sprintf("%s@%d", e.name, e.ts))
			}
			add("events|wrong-events-kept|EventCountLimit"+limClass(L.events), "exported events (name@call) %v, model %v", g, w)
			return
		}
		for i, e := range m.events {
			if msg := itemAttrsVerdict(o.events[i].Attributes, o.events[i].DroppedAttributeCount, e.all, e.keep, e.isError); msg != "" {
				add("events|event-attributes|AttributePerEventCountLimit"+limClass(L.perEvent), "event %d (%s): %s", i, e.name, msg)
				return
			}
		}
		if o.dEvents != m.dEvents {
			add("dropped-events|EventCountLimit"+limClass(L.events), "DroppedEvents %d, model %d", o.dEvents, m.dEvents)
		}
	}()

	// ---- links
	func() {
		if L.links >= 0 && len(o.links) > L.links {
			add("links|more-than-limit", "%d links exported, LinkCountLimit is %d", len(o.links), L.links)
			return
		}
		same := len(o.links) == len(m.links)
		for i := 0; same && i < len(m.links); i++ {
			if m.links[i].kind == 'I' {
				same = !o.links[i].SpanContext.IsValid()
			} else {
				same = o.links[i].SpanContext.Equal(linkSC(m.links[i].kind, m.links[i].id))
			}
		}
		if !same {
			var g, w []string
			for _, l := range o.links {
				if l.SpanContext.IsValid() {
					g = append(g, l.SpanContext.TraceID().String()+"/"+l.SpanContext.SpanID().String())
				} else {
					g = append(g, "invalid-context")
				}
			}
			for _, l := range m.links {
				if l.kind == 'I' {
					w = append(w, "invalid-context")
				} else {
					sc := linkSC(l.kind, l.id)
					w = append(w, sc.TraceID().String()+"/"+sc.SpanID().String())
				}
			}
			add("links|wrong-links-kept|LinkCountLimit"+limClass(L.links), "exported links %v, model %v", g, w)
			return
		}
		for i, l := range m.links {
			if msg := itemAttrsVerdict(o.links[i].Attributes, o.links[i].DroppedAttributeCount, l.all, l.keep, false); msg != "" {
				add("links|link-attributes|AttributePerLinkCountLimit"+limClass(L.perLink), "link %d: %s", i, msg)
				return
			}
		}
		if o.dLinks != m.dLinks {
			add("dropped-links|LinkCountLimit"+limClass(L.links), "DroppedLinks %d, model %d", o.dLinks, m.dLinks)
		}
	}()

	// ---- status, name, end time
	wantCode := []codes.Code{codes.Unset, codes.Error, codes.Ok}[m.code]
	if o.code != wantCode {
		add(fmt.Sprintf("status|code|model %s exported %s", wantCode, o.code), "status code %s, model %s", o.code, wantCode)
	} else if o.desc != m.desc {
		add(fmt.Sprintf("status|description|code %s", wantCode), "status description %q, model %q", o.desc, m.desc)
	}
	if o.name != m.name {
		add("name", "name %q, model %q", o.name, m.name)
	}
	switch {
	case m.endTS != 0 && !o.end.Equal(tsAt(m.endTS)):
		add("end-time|explicit-timestamp", "end time %v, model %v", o.end, tsAt(m.endTS))
	case m.endTS == 0 && (o.end.IsZero() || o.end.Year() < 2020):
		add("end-time|implicit", "End() without timestamp exported end time %v", o.end)
	}
	return out
}

func sameStrings(a, b []string) bool {
	if len(a) != len(b) {
		return false
	}
	for i := range a {
		if a[i] != b[i] {
			return false
		}
	}
	return true
}

// valueVerdict judges one exported span attribute value against the value last set.
func valueVerdict(vlen int, w kv, g attribute.Value) (string, string) {
	switch w.typ {
	case 'i':
		if g.Type() != attribute.INT64 || g.AsInt64() != w.i {
			return "attributes|wrong-value|INT64", fmt.Sprintf("exported %s, model %s (last value set)", realVal(g), w.canon(-1))
		}
	case 's':
		if g.Type() != attribute.STRING {
			return "attributes|wrong-value|STRING", fmt.Sprintf("exported %s, model %s", realVal(g), w.canon(vlen))
		}
		return truncVerdict(vlen, w.s, g.AsString())
	case 'S':
		if g.Type() != attribute.STRINGSLICE || len(g.AsStringSlice()) != len(w.ss) {
			return "attributes|wrong-value|STRINGSLICE", fmt.Sprintf("exported %s, model %s", realVal(g), w.canon(vlen))
		}
		for i, s := range g.AsStringSlice() {
			if key, msg := truncVerdict(vlen, w.ss[i], s); key != "" {
				return key, fmt.Sprintf("element %d: %s", i, msg)
			}
		}
	}
	return "", ""
}

// itemAttrsVerdict judges the attributes of one event or link: the first `keep` of the
// supplied ones, the rest counted as dropped. For RecordError the order of the two
// attributes the SDK generates is not stated: any `keep` distinct ones of them are accepted
// (and the exception type string is not judged).
func itemAttrsVerdict(got []attribute.KeyValue, gotDropped int, all []kv, keep int, isError bool) string {
	if len(got) != keep || gotDropped != len(all)-keep {
		return fmt.Sprintf("%d attributes kept and %d dropped, model %d kept and %d dropped (supplied %d)", len(got), gotDropped, keep, len(all)-keep, len(all))
	}
	if isError {
		allowed := map[string]kv{}
		for _, a := range all {
			allowed[a.key] = a
		}
		seen := map[string]bool{}
		for _, a := range got {
			k := string(a.Key)
			m, ok := allowed[k]
			if seen[k] || !ok {
				return fmt.Sprintf("unexpected attributes {%s}", attrsCanon(got, false))
			}
			seen[k] = true
			switch {
			case strings.HasPrefix(k, "exception."):
				if a.Value.Type() != attribute.STRING || (k == "exception.message" && a.Value.AsString() != "boom") {
					return fmt.Sprintf("unexpected attributes {%s}", attrsCanon(got, false))
				}
			default: // an attribute the caller passed to RecordError: as supplied
				var w []byte
				w = m.appendCanon(w, -1)
				if g := attrsCanon([]attribute.KeyValue{a}, false); g != strconv.Quote(k)+"="+string(w) {
					return fmt.Sprintf("caller's attribute %s, supplied %s=%s", g, strconv.Quote(k), w)
				}
			}
		}
		return ""
	}
	if keep == 0 {
		return ""
	}
	var w []byte
	for i, a := range all[:keep] {
		if i > 0 {
			w = append(w, ';')
		}
		w = strconv.AppendQuote(w, a.key)
		w = append(w, '=')
		w = a.appendCanon(w, -1)
	}
	if g := attrsCanon(got, false); g != string(w) {
		return fmt.Sprintf("attributes {%s}, model {%s}", g, w)
	}
	return ""
}

// ---------------------------------------------------------------------------------------
// breadth-first search over histories

func (x *run) bfs(sx *subx, L limits, initIdx, fullDepth, maxDepth int) {
	r := x.r
	prefix := fmt.Sprintf("%v/%d/", L.arr(), initIdx)
	r.Section(sx.name + "/" + prefix)
	x.cur = x.env(L, sx.inits[initIdx])
	defer func() { x.cur = nil }()
	frontier := [][]int{nil}
	if r.Want() {
		r.State(hash128(prefix, x.eval(sx, L, initIdx, nil)))
	}
	for depth := 0; depth < maxDepth && len(frontier) > 0; depth++ {
		var next [][]int
		for _, h := range frontier {
			if r.Expired() {
				return
			}
			for oi := range sx.ops {
				if !r.Want() {
					continue
				}
				h2 := append(append(make([]int, 0, len(h)+1), h...), oi)
				key := x.eval(sx, L, initIdx, h2)
				r.Transition()
				isNew := r.State(hash128(prefix, key))
				if isNew || depth+1 <= fullDepth {
					next = append(next, h2)
				}
				if isNew {
					r.Sample(func() any {
						labels := make([]string, len(h2))
						for i, o := range h2 {
							labels[i] = sx.ops[o].label
						}
						return map[string]any{"limits": L.String(), "initial": sx.inits[initIdx].label, "ops": labels, "model_state": key}
					})
				}
			}
		}
		frontier = next
	}
}

// ---------------------------------------------------------------------------------------
// truncation: every string over the symbol alphabet through the real span API

var truncSyms = []string{"a", "é", "€", "😀", "\uFFFD", "\xff", "\xc3"}

func (x *run) truncOne(L int, s string) {
	r := x.r
	lim := unlimited
	lim.vlen = L
	if x.tenv[L+1] == nil {
		x.tenv[L+1] = x.env(lim, initState{})
	}
	env := x.tenv[L+1]
	env.proc.ended = env.proc.ended[:0]
	r.Eval()
	var cas map[string]any
	var rep replayCase
	fail := func(key, format string, a ...any) {
		if cas == nil {
			cas = map[string]any{"sub_exploration": "trunc", "AttributeValueLengthLimit": L, "value_quoted": fmt.Sprintf("%q", s), "value_hex": hex.EncodeToString([]byte(s))}
			rep = replayCase{Sub: "trunc", Lim: lim.arr(), Hex: hex.EncodeToString([]byte(s))}
		}
		r.Fail(key, cas, rep, format, a...)
	}
	if p := catch(func() {
		_, sp := env.tracer.Start(context.Background(), "span")
		sp.SetAttributes(attribute.String("k", s), attribute.StringSlice("l", []string{s, "xyz"}))
		sp.End()
	}); p != nil {
		fail("panic|SetAttributes", "SetAttributes/End panicked: %v", p)
		return
	}
	if len(env.proc.ended) != 1 {
		fail("exported-count|0", "span handed to the processor %d times", len(env.proc.ended))
		return
	}
	var gotK string
	var gotL []string
	n := 0
	for _, a := range env.proc.ended[0].Attributes() {
		switch {
		case a.Key == "k" && a.Value.Type() == attribute.STRING:
			gotK = a.Value.AsString()
			n++
		case a.Key == "l" && a.Value.Type() == attribute.STRINGSLICE:
			gotL = a.Value.AsStringSlice()
			n++
		}
	}
	if n != 2 || len(gotL) != 2 || len(env.proc.ended[0].Attributes()) != 2 {
		fail("attributes|wrong-keys-kept|AttributeCountLimit<0", "exported attributes %s", attrsCanon(env.proc.ended[0].Attributes(), true))
		return
	}
	r.Outcome(strconv.Itoa(L) + " " + gotK + "\x00" + gotL[0] + "\x00" + gotL[1])
	if key, msg := truncVerdict(L, s, gotK); key != "" {
		fail(key, "STRING value: %s", msg)
	}
	if key, msg := truncVerdict(L, s, gotL[0]); key != "" {
		fail(key, "STRINGSLICE element: %s", msg)
	}
	if key, msg := truncVerdict(L, "xyz", gotL[1]); key != "" {
		fail(key, "STRINGSLICE element after %q: %s", s, msg)
	}
	r.State("t/" + strconv.Itoa(L) + "/" + gotK)
	r.Sample(func() any {
		return map[string]any{"limit": L, "value": fmt.Sprintf("%q", s), "exported": fmt.Sprintf("%q", gotK)}
	})
}

func (x *run) trunc(first int) {
	r := x.r
	maxLen := enum.Pick(r, 5, 7)
	maxLim := enum.Pick(r, 4, 5)
	r.Bound("trunc.symbols", fmt.Sprintf("%q", truncSyms))
	r.Bound("trunc.max_symbols_per_string", maxLen)
	r.Bound("trunc.length_limits", fmt.Sprintf("-1..%d", maxLim))
	r.Section(fmt.Sprintf("trunc/%d", first))
	one := func(s string) {
		for L := -1; L <= maxLim; L++ {
			if r.Want() {
				x.truncOne(L, s)
			}
		}
	}
	if first == 0 {
		one("")
	}
	for n := 1; n <= maxLen; n++ { // shortest strings first
		idx := make([]int, n)
		idx[0] = first
		for {
			if r.Expired() {
				return
			}
			var b strings.Builder
			for _, i := range idx {
				b.WriteString(truncSyms[i])
			}
			one(b.String())
			p := n - 1
			for p >= 1 {
				idx[p]++
				if idx[p] < len(truncSyms) {
					break
				}
				idx[p] = 0
				p--
			}
			if p < 1 {
				break
			}
		}
	}
}

// ---------------------------------------------------------------------------------------
// jobs

var (
	attrCountLimits = []int{-1, 0, 1, 2, 3}
	attrVlenLimits  = []int{-1, 0, 1, 3}
	queueLimits     = []int{-1, 0, 1, 2}
	perItemLimits   = []int{-1, 0, 1}
	mixedLimits     = []int{-1, 0, 1}
)

func jobNames() []string {
	var jobs []string
	// the driver keeps, per finding key, the case of the first job that reports it: the
	// small single-purpose jobs come first, then the long ones (unlimited queues first)
	jobs = append(jobs, "scalars")
	for i := range truncSyms {
		jobs = append(jobs, fmt.Sprintf("trunc/first=%d", i))
	}
	for _, e := range queueLimits {
		for _, l := range queueLimits {
			jobs = append(jobs, fmt.Sprintf("evln/events=%d,links=%d", e, l))
		}
	}
	for _, c := range attrCountLimits {
		for _, v := range attrVlenLimits {
			jobs = append(jobs, fmt.Sprintf("attr/count=%d,vlen=%d", c, v))
		}
	}
	for _, v := range mixedLimits {
		jobs = append(jobs, fmt.Sprintf("mixed/vlen=%d", v))
	}
	return jobs
}

func (x *run) replay(rc replayCase) {
	r := x.r
	r.Section("replay")
	r.Want()
	L := limitsOf(rc.Lim)
	if rc.Sub == "trunc" {
		b, err := hex.DecodeString(rc.Hex)
		if err != nil {
			panic(err)
		}
		x.truncOne(L.vlen, string(b))
		return
	}
	sx := subByName(rc.Sub)
	x.eval(&sx, L, rc.Init, rc.Ops)
}

func TestVerifC04(t *testing.T) {
	enum.Jobs(jobNames(), func(job string) {
		r := enum.Start("C04", "span")
		defer r.Finish()
		x := &run{r: r, envs: map[string]*realEnv{}, seen: map[string]bool{}}
		if r.Replaying() {
			var rc replayCase
			if d := r.ReplayData(); d != nil && json.Unmarshal(d, &rc) == nil && rc.Sub != "" {
				x.replay(rc)
				return
			}
		}
		bounds := func(sx *subx, full, max int) {
			var labels []string
			for _, o := range sx.ops {
				labels = append(labels, o.label)
			}
			r.Bound(sx.name+".ops", labels)
			r.Bound(sx.name+".initial_states", len(sx.inits))
			r.Bound(sx.name+".all_histories_up_to_length", full+1)
			r.Bound(sx.name+".new_state_histories_up_to_length", max)
		}
		switch {
		case job == "scalars":
			sx := subScalars()
			full, max := enum.Pick(r, 3, 4), enum.Pick(r, 5, 7)
			bounds(&sx, full, max)
			r.Bound("scalars.limit_vectors", "all unlimited; all zero")
			x.bfs(&sx, unlimited, 0, full, max)
			x.bfs(&sx, limits{}, 0, full, max)
		case strings.HasPrefix(job, "trunc/"):
			var first int
			fmt.Sscanf(job, "trunc/first=%d", &first)
			x.trunc(first)
		case strings.HasPrefix(job, "attr/"):
			var c, v int
			fmt.Sscanf(job, "attr/count=%d,vlen=%d", &c, &v)
			sx := subAttr()
			// the plain initial state is searched one call deeper than the two start-time ones
			full, max := enum.Pick(r, 3, 5), enum.Pick(r, 6, 8)
			bounds(&sx, full, max)
			r.Bound("attr.all_histories_up_to_length(start-time attribute states)", full)
			r.Bound("attr.AttributeCountLimit", attrCountLimits)
			r.Bound("attr.AttributeValueLengthLimit", attrVlenLimits)
			L := unlimited
			L.attrs, L.vlen = c, v
			for i := range sx.inits {
				f := full
				if i > 0 {
					f = full - 1
				}
				x.bfs(&sx, L, i, f, max)
			}
		case strings.HasPrefix(job, "evln/"):
			var e, l int
			fmt.Sscanf(job, "evln/events=%d,links=%d", &e, &l)
			sx := subEvLn()
			full, max := enum.Pick(r, 3, 4), enum.Pick(r, 5, 7)
			bounds(&sx, full, max)
			r.Bound("evln.EventCountLimit", queueLimits)
			r.Bound("evln.LinkCountLimit", queueLimits)
			r.Bound("evln.AttributePerEventCountLimit", perItemLimits)
			r.Bound("evln.AttributePerLinkCountLimit", perItemLimits)
			for _, pe := range perItemLimits {
				for _, pl := range perItemLimits {
					L := unlimited
					L.events, L.links, L.perEvent, L.perLink = e, l, pe, pl
					for i := range sx.inits {
						x.bfs(&sx, L, i, full, max)
					}
				}
			}
		case strings.HasPrefix(job, "mixed/"):
			var v int
			fmt.Sscanf(job, "mixed/vlen=%d", &v)
			sx := subMixed()
			full := enum.Pick(r, 2, 3)
			bounds(&sx, full, full+1)
			r.Bound("mixed.limit_vectors", "{-1,0,1}^6")
			for _, a := range mixedLimits {
				for _, e := range mixedLimits {
					for _, l := range mixedLimits {
						for _, pe := range mixedLimits {
							for _, pl := range mixedLimits {
								x.bfs(&sx, limits{v, a, e, l, pe, pl}, 0, full, full+1)
							}
						}
					}
				}
			}
		}
	})
}
