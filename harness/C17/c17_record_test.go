package log

// C17 — log records obey the attribute count and value-length limits for every edit sequence.
//
// Explicit-state breadth-first search over sequences of AddAttributes / SetAttributes calls on REAL
// Records (a state is an op history replayed on a fresh record; the canonical key is limits +
// observable record content + model state), once editing the record directly and once delivering the
// same attribute streams through Logger.Emit (one AddAttributes per attribute inside the SDK) with
// the remaining edits made by a Processor inside OnEmit. Every state is compared with an independent
// reference model (ordered map, last value wins, earliest keys kept, drop counting, reference
// truncation) and every transition carries a Clone-independence check in both directions.
//
// Model of "offered" (the accounting clause): every KeyValue handed to AddAttributes/SetAttributes
// counts as one offered attribute — duplicates inside one call and values overwriting a held key
// included; SetAttributes restarts the count. AttributesLen + DroppedAttributes must equal that
// number, plus the number of nested map entries the record removed as duplicates from the values
// it stored (CHANGELOG #5230 documents that removal; the held nested entries are not part of
// AttributesLen, so only the removed ones enter the balance). The latter number is observed after each
// call on the values the call stored (supplied entries minus held entries), never predicted. One
// corner is not judged: when a single AddAttributes call offers several values for a key the record
// already holds, nested duplicates inside the superseded values may or may not be counted (model
// field slack). States that fail a structural oracle (key uniqueness, count limit, accounting,
// retained key set) are terminal: they are reported and not expanded.

import (
	"context"
	"encoding/json"
	"fmt"
	"hash/fnv"
	"math"
	"sort"
	"strings"
	"testing"
	"unicode/utf8"

	"go.opentelemetry.io/otel/log"
	"verif/mc/enum"
)

// ---------------------------------------------------------------------------
// value descriptions: immutable, owned by the harness; real values are built fresh for every use
// because the record truncates slices / de-duplicates maps in place in the caller's memory.

type c17vd struct {
	kind  log.Kind
	i     int64
	f     float64
	s     string // string or bytes content
	items []c17vd
	keys  []string // map keys, parallel to items
}

func c17Int(i int64) c17vd      { return c17vd{kind: log.KindInt64, i: i} }
func c17Str(s string) c17vd     { return c17vd{kind: log.KindString, s: s} }
func c17Bytes(s string) c17vd   { return c17vd{kind: log.KindBytes, s: s} }
func c17Slice(v ...c17vd) c17vd { return c17vd{kind: log.KindSlice, items: v} }
func c17Float(f float64) c17vd  { return c17vd{kind: log.KindFloat64, f: f} }
func c17Bool(b bool) c17vd      { return c17vd{kind: log.KindBool, i: map[bool]int64{true: 1}[b]} }
func c17Empty() c17vd           { return c17vd{kind: log.KindEmpty} }
func c17Map(kv ...c17attr) c17vd {
	d := c17vd{kind: log.KindMap}
	for _, a := range kv {
		d.keys = append(d.keys, a.key)
		d.items = append(d.items, a.v)
	}
	return d
}

type c17attr struct {
	key string
	v   c17vd
}

func c17kv(k string, v c17vd) c17attr { return c17attr{k, v} }

func (d c17vd) build() log.Value {
	switch d.kind {
	case log.KindBool:
		return log.BoolValue(d.i != 0)
	case log.KindInt64:
		return log.Int64Value(d.i)
	case log.KindFloat64:
		return log.Float64Value(d.f)
	case log.KindString:
		return log.StringValue(d.s)
	case log.KindBytes:
		return log.BytesValue([]byte(d.s))
	case log.KindSlice:
		vs := make([]log.Value, len(d.items))
		for i, it := range d.items {
			vs[i] = it.build()
		}
		return log.SliceValue(vs...)
	case log.KindMap:
		kvs := make([]log.KeyValue, len(d.items))
		for i, it := range d.items {
			kvs[i] = log.KeyValue{Key: d.keys[i], Value: it.build()}
		}
		return log.MapValue(kvs...)
	}
	return log.Value{}
}

func (d c17vd) String() string {
	switch d.kind {
	case log.KindBool:
		return fmt.Sprintf("bool(%v)", d.i != 0)
	case log.KindInt64:
		return fmt.Sprintf("%d", d.i)
	case log.KindFloat64:
		return fmt.Sprintf("f%016x", math.Float64bits(d.f))
	case log.KindString:
		return fmt.Sprintf("%q", d.s)
	case log.KindBytes:
		return fmt.Sprintf("bytes(%x)", d.s)
	case log.KindSlice:
		var p []string
		for _, it := range d.items {
			p = append(p, it.String())
		}
		return "[" + strings.Join(p, ",") + "]"
	case log.KindMap:
		var p []string
		for i, it := range d.items {
			p = append(p, d.keys[i]+":"+it.String())
		}
		return "{" + strings.Join(p, ",") + "}"
	}
	return "empty"
}

// describe renders a real value exactly (kinds, order, duplicates, bytes of strings).
func c17describe(v log.Value) string {
	switch v.Kind() {
	case log.KindBool:
		return fmt.Sprintf("bool(%v)", v.AsBool())
	case log.KindInt64:
		return fmt.Sprintf("%d", v.AsInt64())
	case log.KindFloat64:
		return fmt.Sprintf("f%016x", math.Float64bits(v.AsFloat64()))
	case log.KindString:
		return fmt.Sprintf("%q", v.AsString())
	case log.KindBytes:
		return fmt.Sprintf("bytes(%x)", v.AsBytes())
	case log.KindSlice:
		var p []string
		for _, it := range v.AsSlice() {
			p = append(p, c17describe(it))
		}
		return "[" + strings.Join(p, ",") + "]"
	case log.KindMap:
		var p []string
		for _, kv := range v.AsMap() {
			p = append(p, kv.Key+":"+c17describe(kv.Value))
		}
		return "{" + strings.Join(p, ",") + "}"
	}
	return "empty"
}

// ---------------------------------------------------------------------------
// op alphabet (simplest first)

const (
	c17L1 = "aé€😀z"           // 1-, 2-, 3-, 4-byte characters: 5 characters, 11 bytes
	c17L2 = "\uFFFDab\uFFFDc" // validly encoded U+FFFD: 5 characters, 9 bytes
	c17L3 = "a\xffb\xc3c€d"   // invalid bytes (0xff, a lead byte without continuation) between valid characters
	c17L4 = "\xff"            // a lone invalid byte
)

type c17op struct {
	name  string
	set   bool
	attrs []c17attr
}

func c17nestedSlice() c17vd {
	return c17Slice(c17Str(c17L1), c17Int(7), c17Slice(c17Str(c17L3), c17Bytes("bytes!"), c17Empty()), c17Str("ab"), c17Str(c17L2), c17Float(1.5), c17Bool(true), c17Str(c17L4))
}

func c17nestedMap() c17vd {
	return c17Map(
		c17kv("x", c17Map(c17kv("q", c17Int(1)), c17kv("q", c17Int(2)))), // dropped as a duplicate: its own duplicates must not count
		c17kv("x", c17Str(c17L2)),
		c17kv("y", c17Map(c17kv("z", c17Str(c17L3)), c17kv("z", c17Str(c17L1)), c17kv("w", c17Slice(c17Str(c17L2), c17Str(c17L1))))),
		c17kv("v", c17Str("ab")),
		c17kv("x", c17Str(c17L1)),
	)
}

func c17ops() []c17op {
	six := func() []c17attr {
		var a []c17attr
		for i := 1; i <= 6; i++ {
			a = append(a, c17kv(fmt.Sprintf("k%d", i), c17Int(int64(i))))
		}
		return a
	}
	return []c17op{
		{name: "Add(a=1)", attrs: []c17attr{c17kv("a", c17Int(1))}},
		{name: "Add(a=2)", attrs: []c17attr{c17kv("a", c17Int(2))}},
		{name: "Add(a=1,a=3)", attrs: []c17attr{c17kv("a", c17Int(1)), c17kv("a", c17Int(3))}},
		{name: "Add(b=1,c=1)", attrs: []c17attr{c17kv("b", c17Int(1)), c17kv("c", c17Int(1))}},
		{name: "Add()"},
		{name: "Add(k1..k6)", attrs: six()},
		{name: "Add(k6=9)", attrs: []c17attr{c17kv("k6", c17Int(9))}},
		{name: "Add(a=L1)", attrs: []c17attr{c17kv("a", c17Str(c17L1))}},
		{name: "Add(a=L2)", attrs: []c17attr{c17kv("a", c17Str(c17L2))}},
		{name: "Add(a=L3)", attrs: []c17attr{c17kv("a", c17Str(c17L3))}},
		{name: "Add(k6=L1)", attrs: []c17attr{c17kv("k6", c17Str(c17L1))}},
		{name: "Add(a=slice)", attrs: []c17attr{c17kv("a", c17nestedSlice())}},
		{name: "Add(a=map)", attrs: []c17attr{c17kv("a", c17nestedMap())}},
		{name: "Add(k6=[L1,{x:L2,x:L3}])", attrs: []c17attr{c17kv("k6", c17Slice(c17Str(c17L1), c17Map(c17kv("x", c17Str(c17L2)), c17kv("x", c17Str(c17L3)))))}},
		{name: "Add(d={q:1,q:2},d=L1)", attrs: []c17attr{c17kv("d", c17Map(c17kv("q", c17Int(1)), c17kv("q", c17Int(2)))), c17kv("d", c17Str(c17L1))}},
		{name: "Add(a=4,e=L1,a=5)", attrs: []c17attr{c17kv("a", c17Int(4)), c17kv("e", c17Str(c17L1)), c17kv("a", c17Int(5))}},
		{name: "Set()", set: true},
		{name: "Set(a=1,b=L1)", set: true, attrs: []c17attr{c17kv("a", c17Int(1)), c17kv("b", c17Str(c17L1))}},
		{name: "Set(k1=1,k2=L1,k3=3,k1=L2,k4={x:1,x:2},k5=5,k6=6,k7=L3)", set: true, attrs: []c17attr{
			c17kv("k1", c17Int(1)), c17kv("k2", c17Str(c17L1)), c17kv("k3", c17Int(3)), c17kv("k1", c17Str(c17L2)),
			c17kv("k4", c17Map(c17kv("x", c17Int(1)), c17kv("x", c17Int(2)))), c17kv("k5", c17Int(5)), c17kv("k6", c17Int(6)), c17kv("k7", c17Str(c17L3)),
		}},
	}
}

func c17build(attrs []c17attr) []log.KeyValue {
	kvs := make([]log.KeyValue, len(attrs))
	for i, a := range attrs {
		kvs[i] = log.KeyValue{Key: a.key, Value: a.v.build()}
	}
	return kvs
}

// a symbol of a job's alphabet: an op and where it is executed
type c17sym struct {
	op   *c17op
	api  bool // attribute stream handed to Logger.Emit in the API record (emit mode only)
	name string
}

// ---------------------------------------------------------------------------
// reference model

type c17held struct {
	sup  c17vd  // value supplied last
	kind string // "newly added value" | "value overwriting an existing key"
}

type c17model struct {
	cl, ll  int
	keys    []string
	val     map[string]*c17held
	offered int
	nested  int // nested map entries observed to have been removed from stored values
	slack   int // nested duplicates inside values that overwrote a held key and were replaced later in the same call: counting them is not judged
}

func c17newModel(cl, ll int) *c17model {
	return &c17model{cl: cl, ll: ll, val: map[string]*c17held{}}
}

const (
	c17added     = "newly added value"
	c17overwrite = "value overwriting an existing key"
)

// apply runs one call on the model and returns the keys whose stored value the call set.
func (m *c17model) apply(set bool, attrs []c17attr) []string {
	if set {
		m.keys, m.val, m.offered, m.nested, m.slack = nil, map[string]*c17held{}, 0, 0, 0
	}
	before := map[string]bool{}
	for _, k := range m.keys {
		before[k] = true
	}
	var touched []string
	seen := map[string]bool{}
	for i, a := range attrs {
		if before[a.key] {
			for _, later := range attrs[i+1:] {
				if later.key == a.key {
					m.slack += c17nestedDups(a.v)
					break
				}
			}
		}
		m.offered++
		if h, ok := m.val[a.key]; ok {
			h.sup = a.v
			if before[a.key] {
				h.kind = c17overwrite
			}
		} else if m.cl < 0 || len(m.keys) < m.cl {
			m.keys = append(m.keys, a.key)
			m.val[a.key] = &c17held{sup: a.v, kind: c17added}
		} else {
			continue // over the limit: dropped
		}
		if !seen[a.key] {
			seen[a.key] = true
			touched = append(touched, a.key)
		}
	}
	return touched
}

// clone: the model of a cloned record starts from the model of the original and lives on alone.
func (m *c17model) clone() *c17model {
	c := *m
	c.keys = append([]string{}, m.keys...)
	c.val = map[string]*c17held{}
	for k, h := range m.val {
		hh := *h
		c.val[k] = &hh
	}
	return &c
}

func (m *c17model) String() string {
	var b strings.Builder
	fmt.Fprintf(&b, "off=%d nest=%d slack=%d", m.offered, m.nested, m.slack)
	for _, k := range m.keys {
		h := m.val[k]
		fmt.Fprintf(&b, ";%s/%c=%s", k, h.kind[0], h.sup.String())
	}
	return b.String()
}

// nestedDups is the number of nested map entries a complete last-value-wins de-duplication removes from d.
func c17nestedDups(d c17vd) int {
	n := 0
	switch d.kind {
	case log.KindSlice:
		for _, it := range d.items {
			n += c17nestedDups(it)
		}
	case log.KindMap:
		last := map[string]int{}
		for i, k := range d.keys {
			last[k] = i
		}
		n = len(d.keys) - len(last)
		for i, k := range d.keys {
			if last[k] == i {
				n += c17nestedDups(d.items[i])
			}
		}
	}
	return n
}

// removedObs counts the nested map entries that the record removed from a stored value:
// entries supplied minus entries held, level by level along the surviving (last) entries.
func c17removedObs(sv c17vd, rv log.Value) int {
	switch sv.kind {
	case log.KindSlice:
		if rv.Kind() != log.KindSlice {
			return 0
		}
		n, rs := 0, rv.AsSlice()
		for i := 0; i < len(rs) && i < len(sv.items); i++ {
			n += c17removedObs(sv.items[i], rs[i])
		}
		return n
	case log.KindMap:
		if rv.Kind() != log.KindMap {
			return 0
		}
		rs := rv.AsMap()
		n := 0
		if len(sv.items) > len(rs) {
			n = len(sv.items) - len(rs)
		}
		last := map[string]int{}
		for i, kv := range rs {
			last[kv.Key] = i
		}
		for i, kv := range rs {
			if last[kv.Key] != i {
				continue
			}
			for j := len(sv.keys) - 1; j >= 0; j-- {
				if sv.keys[j] == kv.Key {
					n += c17removedObs(sv.items[j], kv.Value)
					break
				}
			}
		}
		return n
	}
	return 0
}

// ---------------------------------------------------------------------------
// reference truncation

func c17validFFFD(s string) bool {
	for i := 0; i < len(s); {
		r, size := utf8.DecodeRuneInString(s[i:])
		if r == utf8.RuneError && size == 3 {
			return true
		}
		i += size
	}
	return false
}

func c17content(s string) string {
	switch {
	case c17validFFFD(s):
		return "string contains a validly encoded U+FFFD"
	case !utf8.ValidString(s):
		return "string is not valid UTF-8"
	}
	return "valid UTF-8 string"
}

// firstN returns the first n runes of s (an invalid byte counts as one).
func c17firstN(s string, n int) string {
	c := 0
	for i := range s {
		if c == n {
			return s[:i]
		}
		c++
	}
	return s
}

func c17strip(s string) string {
	var b strings.Builder
	for i := 0; i < len(s); {
		r, size := utf8.DecodeRuneInString(s[i:])
		if !(r == utf8.RuneError && size == 1) {
			b.WriteString(s[i : i+size])
		}
		i += size
	}
	return b.String()
}

// ---------------------------------------------------------------------------
// the checker for one job

type c17job struct {
	r      *enum.R
	mode   string // "direct" | "emit"
	cl, ll int
	syms   []c17sym
	lg     log.Logger
	p1, p2 *c17proc
	failed map[string]bool // finding keys already recorded by this job
}

type c17proc struct{ f func(*Record) }

func (p *c17proc) OnEmit(_ context.Context, r *Record) error {
	if p.f != nil {
		p.f(r)
	}
	return nil
}
func (p *c17proc) Shutdown(context.Context) error   { return nil }
func (p *c17proc) ForceFlush(context.Context) error { return nil }

type c17replay struct {
	Mode        string   `json:"mode"`
	CountLimit  int      `json:"count_limit"`
	LengthLimit int      `json:"length_limit"`
	Ops         []string `json:"ops"`
}

type c17case struct {
	j    *c17job
	hist []uint8
	rec  *Record   // the record under test once it exists
	m    *c17model // model in lockstep
	stop bool      // a structural oracle failed: the state is not expanded
	// jobs that are not a walk over j.syms (clonepos, longlist): the calls made so far on this record,
	// and the case description; failures are then replayed by enumeration position
	ops []*c17op
	alt func() map[string]any
}

func (c *c17case) names() []string {
	out := []string{}
	for _, h := range c.hist {
		out = append(out, c.j.syms[h].name)
	}
	return out
}

func (c *c17case) desc() map[string]any {
	d := map[string]any{"mode": c.j.mode, "count_limit": c.j.cl, "length_limit": c.j.ll, "ops": c.names()}
	if c.rec != nil {
		d["record"] = c17snapshot(c.rec)
	}
	if c.m != nil {
		d["model"] = c.m.String()
	}
	return d
}

func (c *c17case) fail(key string, format string, a ...any) {
	if c.j.failed[key] {
		c.j.r.Fail(key, nil, nil, "") // folded under the first (simplest) case: only counted
		return
	}
	c.j.failed[key] = true
	if c.alt != nil {
		c.j.r.FailHere(key, c.alt(), format, a...)
		return
	}
	c.j.r.Fail(key, c.desc(), c17replay{c.j.mode, c.j.cl, c.j.ll, c.names()}, format, a...)
}

// snapshot is the deep, order-preserving rendering of everything observable on a record.
func c17snapshot(r *Record) string {
	var b strings.Builder
	fmt.Fprintf(&b, "cl=%d ll=%d nF=%d nB=%d len=%d dropped=%d", r.attributeCountLimit, r.attributeValueLengthLimit, r.nFront, len(r.back), r.AttributesLen(), r.DroppedAttributes())
	r.WalkAttributes(func(kv log.KeyValue) bool {
		b.WriteString(" ")
		b.WriteString(kv.Key)
		b.WriteString("=")
		b.WriteString(c17describe(kv.Value))
		return true
	})
	return b.String()
}

func c17real(r *Record, key string) (log.Value, bool) {
	var v log.Value
	found := false
	r.WalkAttributes(func(kv log.KeyValue) bool {
		if kv.Key == key {
			v, found = kv.Value, true // last one wins if the record wrongly holds it twice
		}
		return true
	})
	return v, found
}

// protect runs real code; a panic is a violation with its own key.
func (c *c17case) protect(where string, f func()) (ok bool) {
	defer func() {
		if p := recover(); p != nil {
			c.fail("panic|"+where, "%s panicked: %v", where, p)
			c.stop = true
			ok = false
		}
	}()
	f()
	return true
}

func c17call(rec *Record, op *c17op) {
	// the caller goes on using its slice (and the nested slices / maps it built the values from): what
	// the record holds must not follow
	kvs := c17build(op.attrs)
	if op.set {
		rec.SetAttributes(kvs...)
	} else {
		rec.AddAttributes(kvs...)
	}
	for i := range kvs {
		kvs[i] = log.String("scribbled-by-caller", "this text is far longer than any length limit of the jobs")
	}
}

// c17variant: the same edit (same keys, same shapes) with other scalar values, for the second
// clone: two records that write the same values into shared memory would hide the sharing.
func c17variant(d c17vd) c17vd {
	switch d.kind {
	case log.KindInt64:
		d.i += 1000
	case log.KindFloat64:
		d.f += 1000
	case log.KindString, log.KindBytes:
		d.s = "V" + d.s
	case log.KindSlice, log.KindMap:
		items := make([]c17vd, len(d.items))
		for i, it := range d.items {
			items[i] = c17variant(it)
		}
		d.items = items
	}
	return d
}

func c17variantOp(op *c17op) *c17op {
	v := &c17op{name: op.name + " with other values", set: op.set}
	for _, a := range op.attrs {
		v.attrs = append(v.attrs, c17attr{a.key, c17variant(a.v)})
	}
	return v
}

func c17where(op *c17op) string {
	if op.set {
		return "SetAttributes"
	}
	return "AddAttributes"
}

// step applies one call to the real record and the model and observes nested removals.
func (c *c17case) step(rec *Record, set bool, attrs []c17attr, op *c17op) bool {
	touched := c.m.apply(set, attrs)
	o := op
	if o == nil {
		o = &c17op{set: set, attrs: attrs}
	}
	c.j.r.Eval()
	if !c.protect(c17where(o), func() { c17call(rec, o) }) {
		return false
	}
	for _, k := range touched {
		if rv, ok := c17real(rec, k); ok {
			c.m.nested += c17removedObs(c.m.val[k].sup, rv)
		}
	}
	return true
}

// lastStep is step plus the Clone-independence check in both directions.
func (c *c17case) lastStep(rec *Record, op *c17op) bool {
	var cl Record
	c.j.r.Eval()
	if !c.protect("Clone", func() { cl = rec.Clone() }) {
		return false
	}
	pre, clPre := c17snapshot(rec), c17snapshot(&cl)
	if pre != clPre {
		c.rec = rec
		c.fail("clone-differs|content at clone time", "Clone() of\n  %s\nholds\n  %s", pre, clPre)
	}
	var cl2 Record // a second clone of the same state: it gets the edit with other values, last
	if !c.protect("Clone", func() { cl2 = rec.Clone() }) {
		return false
	}
	if !c.step(rec, op.set, op.attrs, op) {
		return false
	}
	c.rec = rec
	post := c17snapshot(rec)
	if now := c17snapshot(&cl); now != clPre {
		c.fail("clone-shares-state|edit of the original visible in the clone", "clone taken before %s on the original changed:\n  was %s\n  now %s", op.name, clPre, now)
	}
	c.j.r.Eval()
	if !c.protect(c17where(op), func() { c17call(&cl, op) }) {
		return false
	}
	if now := c17snapshot(rec); now != post {
		c.fail("clone-shares-state|edit of the clone visible in the original", "%s on the clone changed the original:\n  was %s\n  now %s", op.name, post, now)
	} else if cs := c17snapshot(&cl); cs != post {
		c.fail("clone-diverges|same edit gives a different record", "%s on the clone gives\n  %s\non the original\n  %s", op.name, cs, post)
	}
	// the second clone is edited with other values: neither the original nor the first clone may notice
	clPost := c17snapshot(&cl)
	vop := c17variantOp(op)
	c.j.r.Eval()
	if !c.protect(c17where(op), func() { c17call(&cl2, vop) }) {
		return false
	}
	if now := c17snapshot(rec); now != post {
		c.fail("clone-shares-state|edit of the clone visible in the original", "%s on a clone changed the original:\n  was %s\n  now %s", vop.name, post, now)
	}
	if now := c17snapshot(&cl); now != clPost {
		c.fail("clone-shares-state|edit of one clone visible in another", "%s on a second clone changed the first:\n  was %s\n  now %s", vop.name, clPost, now)
	}
	return true
}

// run executes history + oracles. It returns the canonical state key ("" if the state is terminal).
func (c *c17case) run() string {
	j := c.j
	c.m = c17newModel(j.cl, j.ll)
	n := len(c.hist)
	lastAPI := false
	if j.mode == "direct" {
		rec := &Record{attributeCountLimit: j.cl, attributeValueLengthLimit: j.ll}
		c.rec = rec
		for i, h := range c.hist {
			op := j.syms[h].op
			if i == n-1 {
				if !c.lastStep(rec, op) {
					return ""
				}
			} else if !c.step(rec, op.set, op.attrs, op) {
				return ""
			}
		}
		if n == 0 {
			c.cloneOnly(rec)
		}
	} else {
		// attribute stream of the API-phase prefix goes through Logger.Emit, the rest is applied in OnEmit
		var api log.Record
		var flat []c17attr
		k := 0
		for k < n && j.syms[c.hist[k]].api {
			op := j.syms[c.hist[k]].op
			api.AddAttributes(c17build(op.attrs)...)
			flat = append(flat, op.attrs...)
			k++
		}
		lastAPI = n > 0 && k == n
		var first, second *Record
		bad := false
		j.p1.f = func(rec *Record) {
			first = rec
			c.rec = rec
			// the SDK adds the attributes one call each: the model does the same on a directly edited shadow record
			shadow := &Record{attributeCountLimit: j.cl, attributeValueLengthLimit: j.ll}
			for _, a := range flat {
				if !c.step(shadow, false, []c17attr{a}, nil) {
					bad = true
					return
				}
			}
			if got, want := c17snapshot(rec), c17snapshot(shadow); got != want {
				c.fail("emit-differs-from-direct-edits", "record delivered by Emit\n  %s\nrecord built by the same AddAttributes calls under the configured limits\n  %s", got, want)
				c.stop = true
			}
			for i := k; i < n; i++ {
				op := j.syms[c.hist[i]].op
				if i == n-1 {
					if !c.lastStep(rec, op) {
						bad = true
						return
					}
				} else if !c.step(rec, op.set, op.attrs, op) {
					bad = true
					return
				}
			}
			if k == n {
				c.cloneOnly(rec)
			}
		}
		j.p2.f = func(rec *Record) { second = rec }
		j.r.Eval()
		ok := c.protect("Logger.Emit", func() { j.lg.Emit(context.Background(), api) })
		j.p1.f, j.p2.f = nil, nil
		if !ok || bad {
			return ""
		}
		if first == nil || second == nil || first != second {
			c.fail("emit-delivery", "processors did not receive one shared record (first %p second %p)", first, second)
			return ""
		}
		c.rec = second
	}
	c.oracles(lastAPI)
	snap := c17snapshot(c.rec)
	j.r.Outcome(snap)
	if c.stop {
		return ""
	}
	phase := "-"
	if j.mode == "emit" && (n == 0 || lastAPI) {
		phase = "api"
	}
	h := fnv.New128a()
	h.Write([]byte(phase + "|" + snap + "|" + c.m.String()))
	return fmt.Sprintf("%x", h.Sum(nil))
}

// cloneOnly: states reached without a direct edit still get a clone-equality check.
func (c *c17case) cloneOnly(rec *Record) {
	var cl Record
	c.j.r.Eval()
	if !c.protect("Clone", func() { cl = rec.Clone() }) {
		return
	}
	if a, b := c17snapshot(rec), c17snapshot(&cl); a != b {
		c.fail("clone-differs|content at clone time", "Clone() of\n  %s\nholds\n  %s", a, b)
	}
}

func (c *c17case) oracles(lastAPI bool) {
	rec, m := c.rec, c.m
	type rkv struct {
		k string
		v log.Value
	}
	var held []rkv
	rec.WalkAttributes(func(kv log.KeyValue) bool {
		held = append(held, rkv{kv.Key, kv.Value})
		return true
	})
	n, d := rec.AttributesLen(), rec.DroppedAttributes()
	if len(held) != n {
		c.fail("attributes-len|disagrees with WalkAttributes", "AttributesLen %d, WalkAttributes yields %d", n, len(held))
		c.stop = true
		return
	}
	// each key at most once
	seen := map[string]bool{}
	for _, h := range held {
		if seen[h.k] {
			c.fail("duplicate-key", "key %q is held twice: %s", h.k, c17snapshot(rec))
			c.stop = true
			return
		}
		seen[h.k] = true
	}
	// at most the configured number
	if m.cl >= 0 && n > m.cl {
		if m.cl == 0 {
			via := "record edited directly"
			if lastAPI {
				via = "attributes delivered through Logger.Emit"
			}
			c.fail("count-limit-exceeded|limit=0|"+via, "attribute count limit 0 (documented: no attributes will be recorded), record holds %d: %s", n, c17snapshot(rec))
		} else {
			c.fail("count-limit-exceeded|limit>0", "attribute count limit %d, record holds %d: %s", m.cl, n, c17snapshot(rec))
		}
		c.stop = true
		return
	}
	// count + dropped == offered (+ nested duplicates removed)
	if excess := n + d - m.offered - m.nested; excess < 0 || excess > m.slack {
		cls := "top-level attributes only"
		if m.nested > 0 || c.nestedDupsOffered() {
			cls = "values with duplicate nested map keys offered"
		}
		c.fail("dropped-accounting|"+cls, "AttributesLen %d + DroppedAttributes %d != offered %d + nested duplicates removed %d (tolerated surplus %d): %s", n, d, m.offered, m.nested, m.slack, c17snapshot(rec))
		c.stop = true
		return
	}
	// earliest keys retained
	var rk []string
	for _, h := range held {
		rk = append(rk, h.k)
	}
	mk := append([]string{}, m.keys...)
	sort.Strings(rk)
	sort.Strings(mk)
	if strings.Join(rk, ",") != strings.Join(mk, ",") {
		c.fail("earliest-keys-not-retained", "record holds keys [%s], model (earliest %d keys) [%s]", strings.Join(rk, ","), m.cl, strings.Join(mk, ","))
		c.stop = true
		return
	}
	// last value, limited
	for _, h := range held {
		mh := m.val[h.k]
		c.walk(h.k, mh.kind, mh.sup, h.v)
	}
}

func (c *c17case) nestedDupsOffered() bool {
	var has func(d c17vd) bool
	has = func(d c17vd) bool {
		if d.kind == log.KindMap {
			s := map[string]bool{}
			for _, k := range d.keys {
				if s[k] {
					return true
				}
				s[k] = true
			}
		}
		for _, it := range d.items {
			if has(it) {
				return true
			}
		}
		return false
	}
	for _, h := range c.hist {
		for _, a := range c.j.syms[h].op.attrs {
			if has(a.v) {
				return true
			}
		}
	}
	for _, op := range c.ops {
		for _, a := range op.attrs {
			if has(a.v) {
				return true
			}
		}
	}
	return false
}

// lengthOnly checks every string below a held value that has no model counterpart.
func (c *c17case) lengthOnly(path, kind string, rv log.Value) {
	switch rv.Kind() {
	case log.KindString:
		t := rv.AsString()
		if c.m.ll >= 0 && utf8.RuneCountInString(t) > c.m.ll {
			c.fail("string-too-long|"+kind+"|"+c17content(t), "%s holds %q: %d characters, limit %d", path, t, utf8.RuneCountInString(t), c.m.ll)
		}
	case log.KindSlice:
		for i, it := range rv.AsSlice() {
			c.lengthOnly(fmt.Sprintf("%s[%d]", path, i), kind, it)
		}
	case log.KindMap:
		for _, kv := range rv.AsMap() {
			c.lengthOnly(path+"."+kv.Key, kind, kv.Value)
		}
	}
}

// walk compares a held value with the value supplied last, modulo reference truncation and
// nested-map canonicalisation (last value wins, order not judged).
func (c *c17case) walk(path, kind string, sv c17vd, rv log.Value) {
	if rv.Kind() != sv.kind {
		c.fail("last-value|"+kind, "%s holds %s, supplied last %s", path, c17describe(rv), sv.String())
		return
	}
	switch sv.kind {
	case log.KindString:
		c.checkString(path, kind, sv.s, rv.AsString())
	case log.KindSlice:
		rs := rv.AsSlice()
		if len(rs) != len(sv.items) {
			c.fail("last-value|"+kind, "%s holds %s, supplied last %s", path, c17describe(rv), sv.String())
			return
		}
		for i := range rs {
			c.walk(fmt.Sprintf("%s[%d]", path, i), kind, sv.items[i], rs[i])
		}
	case log.KindMap:
		rs := rv.AsMap()
		slast := map[string]int{}
		for i, k := range sv.keys {
			slast[k] = i
		}
		rlast := map[string]int{}
		for i, kv := range rs {
			rlast[kv.Key] = i
		}
		var a, b []string
		for k := range slast {
			a = append(a, k)
		}
		for k := range rlast {
			b = append(b, k)
		}
		sort.Strings(a)
		sort.Strings(b)
		if strings.Join(a, ",") != strings.Join(b, ",") {
			c.fail("last-value|"+kind, "%s holds map keys %v, supplied %v", path, b, a)
			return
		}
		for i, kv := range rs {
			if rlast[kv.Key] != i {
				c.lengthOnly(path+"."+kv.Key+"(shadowed duplicate)", kind, kv.Value)
				continue
			}
			c.walk(path+"."+kv.Key, kind, sv.items[slast[kv.Key]], kv.Value)
		}
	default:
		if got, want := c17describe(rv), sv.String(); got != want {
			c.fail("last-value|"+kind, "%s holds %s, supplied last %s", path, got, want)
		}
	}
}

func (c *c17case) checkString(path, kind, s, t string) {
	N := c.m.ll
	cls := kind + "|" + c17content(s)
	if N < 0 {
		if t != s {
			c.fail("last-value|"+kind+"|string changed without a length limit", "%s holds %q, supplied last %q", path, t, s)
		}
		return
	}
	if cnt := utf8.RuneCountInString(t); cnt > N {
		c.fail("string-too-long|"+cls, "%s holds %q: %d characters, limit %d (supplied %q)", path, t, cnt, N, s)
		return
	}
	var accepted []string
	if utf8.ValidString(s) {
		accepted = []string{c17firstN(s, N)}
	} else {
		// which invalid bytes survive is not specified: unchanged if short enough, invalid bytes
		// dropped then cut, or cut counting each invalid byte as one character
		if utf8.RuneCountInString(s) <= N {
			accepted = append(accepted, s)
		}
		accepted = append(accepted, c17firstN(c17strip(s), N), c17firstN(s, N))
	}
	for _, w := range accepted {
		if t == w {
			return
		}
	}
	if strings.HasPrefix(s, t) && !utf8.ValidString(t) && utf8.ValidString(s) {
		c.fail("split-character|"+cls, "%s holds %q, which ends inside a character of the supplied %q (limit %d)", path, t, s, N)
		return
	}
	c.fail("truncation-mismatch|"+cls, "%s holds %q, reference truncation of %q to %d characters is %q", path, t, s, N, accepted[0])
}

// ---------------------------------------------------------------------------
// job family "clonepos": Clone() after EVERY prefix of an edit sequence, then the rest of the sequence
// on the original and ANOTHER continuation (its own ops, other values) on the clone, the two sides
// taking turns. After every call the side that was not edited must be unchanged (deep snapshot), and
// at the end each side must be what the reference model predicts for its own history (the model of
// the clone is a copy of the model of the original taken at clone time). Nothing is merged: records
// of equal content may differ in representation (what sits in the 5 inline slots, spare capacity of
// the overflow slice), so every (sequence, clone position, clone continuation) is executed.

func c17cloneposOps() []c17op {
	keep := []string{"Add(a=1)", "Add(b=1,c=1)", "Add(k1..k6)", "Add(k6=9)", "Add(a=slice)", "Add(k6=[L1,{x:L2,x:L3}])", "Set(a=1,b=L1)", "Set(k1=1,"}
	var out []c17op
	for _, op := range c17ops() {
		for _, k := range keep {
			if op.name == k || (strings.HasSuffix(k, ",") && strings.HasPrefix(op.name, k)) {
				out = append(out, op)
			}
		}
	}
	return out
}

var c17cloneposLimits = [][2]int{{-1, -1}, {5, 3}, {6, 3}, {7, 1}, {4, -1}}

// c17words calls f with every word of exactly n letters over 0..k-1, in lexicographic order.
func c17words(n, k int, f func([]int)) {
	w := make([]int, n)
	var rec func(i int)
	rec = func(i int) {
		if i == n {
			f(w)
			return
		}
		for x := 0; x < k; x++ {
			w[i] = x
			rec(i + 1)
		}
	}
	rec(0)
}

func (j *c17job) fork(ops []c17op, vops []*c17op, seq []int, p int, contC []int, cloneFirst bool) {
	r := j.r
	rec := &Record{attributeCountLimit: j.cl, attributeValueLengthLimit: j.ll}
	var cl Record
	co := &c17case{j: j, rec: rec, m: c17newModel(j.cl, j.ll)}
	cc := &c17case{j: j}
	desc := func(side string) func() map[string]any {
		return func() map[string]any {
			first := "original"
			if cloneFirst {
				first = "clone"
			}
			d := map[string]any{"count_limit": j.cl, "length_limit": j.ll, "first_call_after_clone_on": first, "judged": side,
				"original": c17snapshot(rec), "model_of_original": co.m.String()}
			var a, b, c []string
			for _, i := range seq[:p] {
				a = append(a, ops[i].name)
			}
			for _, i := range seq[p:] {
				b = append(b, ops[i].name)
			}
			for _, i := range contC {
				c = append(c, vops[i].name)
			}
			d["calls_before_clone"], d["calls_on_original_after_clone"], d["calls_on_clone"] = a, b, c
			if cc.rec != nil {
				d["clone"], d["model_of_clone"] = c17snapshot(&cl), cc.m.String()
			}
			return d
		}
	}
	co.alt, cc.alt = desc("original"), desc("clone")
	defer r.Sample(func() any { return co.alt() })
	for _, i := range seq[:p] {
		op := &ops[i]
		co.ops = append(co.ops, op)
		if !co.step(rec, op.set, op.attrs, op) {
			return
		}
	}
	r.Eval()
	if !co.protect("Clone", func() { cl = rec.Clone() }) {
		return
	}
	cc.rec, cc.m, cc.ops = &cl, co.m.clone(), append([]*c17op{}, co.ops...)
	so, sc := c17snapshot(rec), c17snapshot(&cl)
	if so != sc {
		co.fail("clone-differs|content at clone time", "Clone() of\n  %s\nholds\n  %s", so, sc)
		return
	}
	restO, restC := seq[p:], contC
	onClone := cloneFirst
	for len(restO) > 0 || len(restC) > 0 {
		if onClone && len(restC) == 0 {
			onClone = false
		} else if !onClone && len(restO) == 0 {
			onClone = true
		}
		if onClone {
			op := vops[restC[0]]
			restC = restC[1:]
			cc.ops = append(cc.ops, op)
			if !cc.step(&cl, op.set, op.attrs, op) {
				return
			}
			if now := c17snapshot(rec); now != so {
				cc.fail("clone-shares-state|edit of the clone visible in the original", "%s on the clone changed the original:\n  was %s\n  now %s", op.name, so, now)
				return
			}
			sc = c17snapshot(&cl)
		} else {
			op := &ops[restO[0]]
			restO = restO[1:]
			co.ops = append(co.ops, op)
			if !co.step(rec, op.set, op.attrs, op) {
				return
			}
			if now := c17snapshot(&cl); now != sc {
				co.fail("clone-shares-state|edit of the original visible in the clone", "%s on the original changed the clone:\n  was %s\n  now %s", op.name, sc, now)
				return
			}
			so = c17snapshot(rec)
		}
		r.Transition()
		onClone = !onClone
	}
	// each side against the model of its own history
	co.oracles(false)
	cc.oracles(false)
	r.Outcome(so + " || " + sc)
}

func c17clonepos(r *enum.R, j *c17job) {
	ops := c17cloneposOps()
	var vops []*c17op
	for i := range ops {
		vops = append(vops, c17variantOp(&ops[i]))
	}
	maxSeq := enum.Pick(r, 3, 4)  // calls on the original, the clone taken after 0..len of them
	maxCont := enum.Pick(r, 2, 2) // calls on the clone
	orders := enum.Pick(r, 1, 2)  // who is edited first after the clone: the original | either
	r.Bound("clonepos_limit_pairs", c17cloneposLimits)
	r.Bound("clonepos_ops", len(ops))
	r.Bound("clonepos_max_calls_on_original", maxSeq)
	r.Bound("clonepos_clone_positions", "every prefix, 0..len")
	r.Bound("clonepos_max_calls_on_clone", maxCont)
	r.Bound("clonepos_turn_orders", orders)
	for l := 0; l <= maxSeq; l++ {
		c17words(l, len(ops), func(seq []int) {
			for p := 0; p <= l; p++ {
				for m := 0; m <= maxCont; m++ {
					c17words(m, len(ops), func(cont []int) {
						for o := 0; o < orders; o++ {
							if r.Expired() || !r.Want() {
								continue
							}
							j.fork(ops, vops, seq, p, cont, o == 1)
						}
					})
				}
			}
		})
	}
}

// ---------------------------------------------------------------------------
// job family "longlist": ONE AddAttributes / SetAttributes call with more attributes than the 5
// inline slots. A list is a word of n key occurrences in which up to D positions repeat an earlier
// key of the list (every choice of the repeating positions and of the key each repeats: the repeats
// fall before, on and behind the inline/overflow boundary, which the record's prior content moves);
// values differ per position (integers, long strings, maps with duplicate keys) so that "last value
// wins" and the per-value limits are told apart position by position. The call is made on a fresh
// record and on records that already hold 1, 4, 5, 6 or 8 attributes, some under keys of the list
// (in the inline array, in its last slot, in the overflow slice); a second long call then overwrites
// every key of the list in reverse order and adds one more. Both states are judged by the model.

var c17longlistCounts = []int{4, 5, 6, 7, -1}

func c17longValue(p int) c17vd {
	switch p % 3 {
	case 1:
		return c17Str(string(rune('A'+p)) + c17L1)
	case 2:
		return c17Map(c17kv("x", c17Int(int64(p))), c17kv("x", c17Str(c17L2)), c17kv("y", c17Int(int64(p))))
	}
	return c17Int(int64(100 + p))
}

func c17opName(set bool, attrs []c17attr) string {
	var b strings.Builder
	b.WriteString(map[bool]string{false: "Add(", true: "Set("}[set])
	for i, a := range attrs {
		if i > 0 {
			b.WriteString(",")
		}
		b.WriteString(a.key + "=" + a.v.String())
	}
	b.WriteString(")")
	return b.String()
}

// c17lists calls f with every list of n key indices that has exactly d repeating positions.
func c17lists(n, d int, f func([]int)) {
	w := make([]int, n)
	var rec func(pos, fresh, used int)
	rec = func(pos, fresh, used int) {
		if pos == n {
			if used == d {
				f(w)
			}
			return
		}
		if n-pos-1 >= d-used {
			w[pos] = fresh
			rec(pos+1, fresh+1, used)
		}
		if used < d {
			for k := 0; k < fresh; k++ {
				w[pos] = k
				rec(pos+1, fresh, used+1)
			}
		}
	}
	rec(0, 0, 0)
}

func c17longlistPre() []*c17op {
	mk := func(keys ...string) *c17op {
		op := &c17op{}
		for i, k := range keys {
			v := c17Int(int64(900 + i))
			if i == 1 {
				v = c17Str("pre" + c17L1)
			}
			op.attrs = append(op.attrs, c17kv(k, v))
		}
		op.name = c17opName(false, op.attrs)
		return op
	}
	return []*c17op{
		nil, // fresh record
		mk("k3"),
		mk("p1", "k2", "p3", "k6"),
		mk("p1", "k6", "p3", "k1", "k5"),       // inline array full, k5 in its last slot
		mk("p1", "p2", "k7", "p4", "k5", "k6"), // k5 in the last inline slot, k6 first in the overflow slice
		mk("k8", "p2", "p3", "p4", "p5", "k1", "p7", "k6"), // three in the overflow slice
	}
}

func (j *c17job) longCase(pre *c17op, set bool, list []int) {
	r := j.r
	rec := &Record{attributeCountLimit: j.cl, attributeValueLengthLimit: j.ll}
	c := &c17case{j: j, rec: rec, m: c17newModel(j.cl, j.ll)}
	c.alt = func() map[string]any {
		var calls []string
		for _, op := range c.ops {
			calls = append(calls, op.name)
		}
		return map[string]any{"count_limit": j.cl, "length_limit": j.ll, "calls": calls, "record": c17snapshot(rec), "model": c.m.String()}
	}
	defer r.Sample(func() any { return c.alt() })
	call := func(op *c17op) bool {
		c.ops = append(c.ops, op)
		if !c.step(rec, op.set, op.attrs, op) {
			return false
		}
		r.Transition()
		c.oracles(false)
		r.Outcome(c17snapshot(rec))
		return !c.stop
	}
	if pre != nil && !call(pre) {
		return
	}
	long := &c17op{set: set}
	distinct := 0
	for p, k := range list {
		long.attrs = append(long.attrs, c17kv(fmt.Sprintf("k%d", k+1), c17longValue(p)))
		if k >= distinct {
			distinct = k + 1
		}
	}
	long.name = c17opName(set, long.attrs)
	if !call(long) {
		return
	}
	probe := &c17op{}
	for k := distinct - 1; k >= 0; k-- {
		probe.attrs = append(probe.attrs, c17kv(fmt.Sprintf("k%d", k+1), c17Int(int64(500+k))))
	}
	probe.attrs = append(probe.attrs, c17kv("zz", c17Str("z"+c17L1)))
	probe.name = c17opName(false, probe.attrs)
	call(probe)
}

func c17longlist(r *enum.R, j *c17job) {
	pres := c17longlistPre()
	// list length -> most repeating positions
	repeats := map[int]int{6: 3, 7: 3, 8: 2, 9: 2, 10: 2, 11: 2, 12: 2}
	if r.Thorough() {
		repeats = map[int]int{6: 4, 7: 4, 8: 4, 9: 3, 10: 3, 11: 3, 12: 3}
	}
	r.Bound("longlist_count_limits", c17longlistCounts)
	r.Bound("longlist_length_limit", j.ll)
	r.Bound("longlist_attributes_per_call", "6..12")
	r.Bound("longlist_max_repeating_positions_by_length", repeats)
	r.Bound("longlist_prior_contents", len(pres))
	for n := 6; n <= 12; n++ {
		for d := 0; d <= repeats[n]; d++ {
			c17lists(n, d, func(list []int) {
				for _, pre := range pres {
					for _, set := range []bool{false, true} {
						if r.Expired() || !r.Want() {
							continue
						}
						j.longCase(pre, set, list)
					}
				}
			})
		}
	}
}

// ---------------------------------------------------------------------------

var (
	c17countLimits  = []int{-1, -2, 0, 1, 2, 5, 6, 7} // -2: every negative value means unlimited, not only -1
	c17lengthLimits = []int{-1, -2, 0, 1, 3}
)

func c17jobName(mode string, cl, ll int) string {
	return fmt.Sprintf("%s/count=%d/len=%d", mode, cl, ll)
}

func TestVerifC17(t *testing.T) {
	var jobs []string
	for _, mode := range []string{"direct", "emit"} {
		for _, cl := range c17countLimits {
			for _, ll := range c17lengthLimits {
				jobs = append(jobs, c17jobName(mode, cl, ll))
			}
		}
	}
	// "plain" jobs: the same edits and oracles WITHOUT merging states of equal content -- a record
	// may carry representation state that its content does not show (what has spilled out of the
	// inline slots, spare capacity, anything an implementation caches), so every sequence over a
	// reduced alphabet is executed to the full depth.
	for _, lim := range [][2]int{{-1, -1}, {3, -1}, {-1, 1}, {6, 3}} {
		jobs = append(jobs, c17jobName("plain", lim[0], lim[1]))
	}
	// clone at every position / long attribute lists (see the two job families above)
	for _, lim := range c17cloneposLimits {
		jobs = append(jobs, c17jobName("clonepos", lim[0], lim[1]))
	}
	for _, cl := range c17longlistCounts {
		jobs = append(jobs, c17jobName("longlist", cl, 3))
	}
	enum.Jobs(jobs, func(job string) {
		r := enum.Start("C17", "record")
		defer r.Finish()
		var mode string
		var cl, ll int
		parts := strings.Split(job, "/")
		mode = parts[0]
		plain := mode == "plain"
		if plain {
			mode = "direct"
		}
		fmt.Sscanf(parts[1], "count=%d", &cl)
		fmt.Sscanf(parts[2], "len=%d", &ll)

		if mode == "clonepos" || mode == "longlist" {
			// replayed by enumeration position (r.Want)
			j := &c17job{r: r, mode: mode, cl: cl, ll: ll, failed: map[string]bool{}}
			r.Section(job)
			if mode == "clonepos" {
				c17clonepos(r, j)
			} else {
				c17longlist(r, j)
			}
			return
		}

		ops := c17ops()
		j := &c17job{r: r, mode: mode, cl: cl, ll: ll, failed: map[string]bool{}}
		if mode == "emit" {
			for i := range ops {
				if !ops[i].set {
					j.syms = append(j.syms, c17sym{op: &ops[i], api: true, name: "Emit:" + ops[i].name})
				}
			}
			for i := range ops {
				j.syms = append(j.syms, c17sym{op: &ops[i], name: "OnEmit:" + ops[i].name})
			}
			j.p1, j.p2 = &c17proc{}, &c17proc{}
			p := NewLoggerProvider(WithProcessor(j.p1), WithProcessor(j.p2), WithAttributeCountLimit(cl), WithAttributeValueLengthLimit(ll))
			j.lg = p.Logger("c17")
		} else {
			keep := map[string]bool{"Add(a=1)": true, "Add(b=1,c=1)": true, "Add(k1..k6)": true, "Add(k6=9)": true, "Add(a=L1)": true,
				"Set()": true, "Set(a=1,b=L1)": true, "Add(a=4,e=L1,a=5)": true}
			for i := range ops {
				if !plain || keep[ops[i].name] || (ops[i].set && strings.HasPrefix(ops[i].name, "Set(k1=1,")) {
					j.syms = append(j.syms, c17sym{op: &ops[i], name: ops[i].name})
				}
			}
		}
		depth := enum.Pick(r, 3, 4)
		if mode == "direct" {
			depth = enum.Pick(r, 4, 5)
		}
		if plain {
			r.Bound("plain_symbols", len(j.syms))
			r.Bound("plain_max_depth", depth)
		}
		r.Bound("count_limits", c17countLimits)
		r.Bound("length_limits", c17lengthLimits)
		r.Bound("ops", len(ops))
		r.Bound("max_depth_"+mode, depth)
		r.Bound("symbols_"+mode, len(j.syms))
		r.Section(job)

		if r.Replaying() {
			var rp c17replay
			if err := json.Unmarshal(r.ReplayData(), &rp); err != nil {
				panic(err)
			}
			var hist []uint8
			for _, name := range rp.Ops {
				idx := -1
				for i, s := range j.syms {
					if s.name == name {
						idx = i
					}
				}
				if idx < 0 {
					panic("unknown op in replay: " + name)
				}
				hist = append(hist, uint8(idx))
			}
			c := &c17case{j: j, hist: hist}
			c.run()
			return
		}

		// depth 0
		frontier := [][]uint8{}
		if r.Want() {
			c := &c17case{j: j}
			if key := c.run(); key != "" && r.State(key) {
				frontier = append(frontier, nil)
			}
			r.Sample(func() any { return c.desc() })
		}
	bfs:
		for d := 1; d <= depth; d++ {
			var next [][]uint8
			for _, h := range frontier {
				procPhase := false
				if mode == "emit" && len(h) > 0 && !j.syms[h[len(h)-1]].api {
					procPhase = true
				}
				for si := range j.syms {
					if procPhase && j.syms[si].api {
						continue
					}
					if r.Expired() {
						break bfs
					}
					if !r.Want() {
						continue
					}
					hist := make([]uint8, len(h)+1)
					copy(hist, h)
					hist[len(h)] = uint8(si)
					c := &c17case{j: j, hist: hist}
					key := c.run()
					r.Transition()
					r.Sample(func() any { return c.desc() })
					if key != "" && (r.State(key) || plain) && d < depth {
						next = append(next, hist)
					}
				}
			}
			frontier = next
		}
	})
}
