// C08 — delta and cumulative views of the same measurements agree across collections.
//
// Explicit-state breadth-first search over measurement histories executed on the real
// SDK: one MeterProvider with two ManualReaders (every instrument kind delta / every
// instrument kind cumulative), both collected at the same points of the history. A
// state is what a history leaves behind after its last collection (what both readers
// reported plus the reference bookkeeping); a transition is one more cycle: a sequence
// of events (measurements on synchronous instruments, registration / unregistration of
// a multi-instrument callback) followed by a collection of both readers during which
// the callbacks observe a chosen attribute-set -> value map. Every history is replayed
// on a fresh provider (live SDK objects are not cloned).
//
// The reference is written here and knows nothing of the aggregators: per attribute
// set the measurements of the current interval, the running total of what the delta
// reader reported so far, the values the callbacks observed in the previous cycle, the
// last value a gauge recorded, and the collection times of each stream.
package metric_test

import (
	"context"
	"encoding/json"
	"fmt"
	"os"
	"sort"
	"strconv"
	"strings"
	"testing"
	"time"

	"github.com/go-logr/logr"
	"go.opentelemetry.io/otel"
	"go.opentelemetry.io/otel/attribute"
	"go.opentelemetry.io/otel/metric"
	sdk "go.opentelemetry.io/otel/sdk/metric"
	"go.opentelemetry.io/otel/sdk/metric/exemplar"
	"go.opentelemetry.io/otel/sdk/metric/metricdata"
	"verif/mc/enum"
)

// ---------------------------------------------------------------------------
// instruments, attribute sets, alphabets

type c08kind uint8

const (
	c08Counter c08kind = iota
	c08UpDown
	c08Hist
	c08EHist
	c08Gauge
	c08OCounter
	c08OUpDown
	c08OGauge
	c08nKinds
)

var c08kindName = [c08nKinds]string{"counter", "updown", "histogram", "expohistogram", "gauge", "obs-counter", "obs-updown", "obs-gauge"}

func (k c08kind) String() string { return c08kindName[k] }
func (k c08kind) async() bool    { return k >= c08OCounter }
func (k c08kind) obsIndex() int  { return int(k - c08OCounter) }

// data type the kind must be reported as
func (k c08kind) dataType() string {
	switch k {
	case c08Counter, c08UpDown, c08OCounter, c08OUpDown:
		return "sum"
	case c08Hist:
		return "histogram"
	case c08EHist:
		return "expohistogram"
	}
	return "gauge"
}

// Attribute sets: A is the empty set, B and C differ in keys and size. A and B are used
// by measurements and by the instruments' own callbacks, C only by the multi-instrument
// callback (so that no (instrument, attribute set) is observed twice in one cycle by
// two different callbacks: what the SDK does then is not stated by the property).
var (
	c08setNames = []string{"A", "B", "C"}
	c08sets     = []attribute.Set{
		attribute.NewSet(),
		attribute.NewSet(attribute.String("k", "b")),
		attribute.NewSet(attribute.String("k", "c"), attribute.Int("n", 1)),
	}
	c08setOpts = []metric.MeasurementOption{
		metric.WithAttributeSet(c08sets[0]),
		metric.WithAttributeSet(c08sets[1]),
		metric.WithAttributeSet(c08sets[2]),
	}
	c08setDesc = []string{"{}", "{k=b}", "{k=c,n=1}"}
)

func c08setName(s attribute.Set) string {
	for i := range c08sets {
		if s.Equals(&c08sets[i]) {
			return c08setNames[i]
		}
	}
	return "?" + s.Encoded(attribute.DefaultEncoder())
}

const (
	c08opMeasure = iota
	c08opReg
	c08opUnreg
)

// c08sym is one event of the alphabet.
type c08sym struct {
	op   int
	kind c08kind // measure: instrument
	set  int     // measure: attribute set index
	val  float64 // measure: value; reg: value the multi-instrument callback observes
	name string
}

// c08sigma is what the instruments' own callbacks observe during one collection:
// a partial map {A,B} -> value.
type c08sigma struct {
	has  [2]bool
	v    [2]float64
	name string
}

func (s c08sigma) swapped() c08sigma {
	return c08sigma{has: [2]bool{s.has[1], s.has[0]}, v: [2]float64{s.v[1], s.v[0]}}
}

func c08fmt(v float64) string { return strconv.FormatFloat(v, 'g', -1, 64) }

func c08measureSyms(k c08kind, set int, vals []float64) []c08sym {
	var out []c08sym
	verb := "Add"
	if k == c08Hist || k == c08EHist || k == c08Gauge {
		verb = "Record"
	}
	for _, v := range vals {
		out = append(out, c08sym{op: c08opMeasure, kind: k, set: set, val: v,
			name: fmt.Sprintf("%s.%s(%s, %s)", k, verb, c08fmt(v), c08setDesc[set])})
	}
	return out
}

func c08regSyms(vals []float64) []c08sym {
	var out []c08sym
	for _, v := range vals {
		out = append(out, c08sym{op: c08opReg, val: v, name: fmt.Sprintf("RegisterCallback(observes %s at %s on every observable)", c08fmt(v), c08setDesc[2])})
	}
	out = append(out, c08sym{op: c08opUnreg, name: "Registration.Unregister()"})
	return out
}

func c08sigmas(vals []float64) []c08sigma {
	// all partial maps {A,B} -> vals, the empty map first
	opts := append([]float64{-1}, vals...) // -1 = not observed
	var out []c08sigma
	for _, a := range opts {
		for _, b := range opts {
			var s c08sigma
			var parts []string
			if a >= 0 {
				s.has[0], s.v[0] = true, a
				parts = append(parts, "A="+c08fmt(a))
			}
			if b >= 0 {
				s.has[1], s.v[1] = true, b
				parts = append(parts, "B="+c08fmt(b))
			}
			s.name = "{" + strings.Join(parts, ",") + "}"
			out = append(out, s)
		}
	}
	return out
}

// values per kind and attribute set: small numbers whose sums are exact in float64; the
// float64 alphabets contain a fraction; histogram values fall into two different default
// buckets; exponential-histogram values are zero or +-powers of two far enough apart to
// force different scales in the delta and the cumulative stream (MaxSize 4). size 0 is
// the reduced alphabet of the mixed jobs (one value per set), 1 the quick, 2 the thorough
// alphabet.
func c08values(k c08kind, isInt bool, size int) (a, b []float64) {
	one := 1.0
	if !isInt {
		one = 0.5
	}
	switch k {
	case c08Counter:
		a, b = []float64{one, 2}, []float64{one, 2}
	case c08UpDown:
		a, b = []float64{one, 2, -1}, []float64{one, -1}
	case c08Hist:
		a, b = []float64{one, 2, 7}, []float64{one, 7}
	case c08EHist:
		a, b = []float64{1, 2, 64}, []float64{1, 64}
		if size == 1 {
			// a zero and a negative value: cycles in which one sign has no buckets at all
			a, b = []float64{1, 64, 0, -1}, []float64{1, 0}
		}
		if size == 2 {
			a, b = []float64{1, 2, 64, 0, -1}, []float64{1, 2, 64, 0, -1}
		}
	case c08Gauge:
		a, b = []float64{one, 2, -1}, []float64{one, 2, -1}
	}
	if size == 0 {
		a, b = a[:1], b[len(b)-1:]
	}
	return a, b
}

// ---------------------------------------------------------------------------
// jobs

type c08job struct {
	name     string
	isInt    bool
	reuse    bool // one ResourceMetrics per reader reused for every collection, cumulative reader first
	insts    []c08kind
	syms     []c08sym
	sigmas   []c08sigma
	perCycle []int
	shard    int
	shards   int
	hasAsync bool
	sel      *c08selector // a third reader whose temporality depends on the instrument kind (c08_selector_test.go)

	r *enum.R
}

func c08numName(isInt bool) string {
	if isInt {
		return "int64"
	}
	return "float64"
}

func c08modeName(reuse bool) string {
	if reuse {
		return "reuse"
	}
	return "fresh"
}

// c08jobs lists the jobs of a tier. The list depends only on the tier.
//
// Bounds (max events per cycle, one entry per cycle; shards of the last level):
//
//	                quick (both modes)   thorough fresh        thorough reuse
//	sync-counter    3,2,2                3,3,3,2               3,3,3
//	sync-updown     3,2,2                3,3,3   (2 shards)    3,2,2
//	sync-histogram  3,2,2                3,3,3   (2 shards)    3,2,2
//	sync-expohist   3,2,2                3,2,2   (4 shards)    2,2,1
//	sync-gauge      3,3,3                3,3,3,3               3,3,3
//	async           2,1,1                3,2,2,2               2,2,2,2
//	mixed           2,1                  2,1,1   (2 shards)    2,1,1  (2 shards)
//
// The families selector / selector-onekind (a third reader with a kind-dependent temporality
// selector over the instruments of mixed) are listed in c08_selector_test.go.
func c08jobs(thorough bool) []*c08job {
	var jobs []*c08job
	add := func(j *c08job, shards int) {
		for _, k := range j.insts {
			if k.async() {
				j.hasAsync = true
			}
		}
		if !j.hasAsync {
			j.sigmas = []c08sigma{{name: "{}"}}
		}
		for s := 0; s < shards; s++ {
			c := *j
			c.shard, c.shards = s, shards
			if shards > 1 {
				c.name = fmt.Sprintf("%s/shard=%d", j.name, s)
			}
			jobs = append(jobs, &c)
		}
	}
	type bnd struct {
		per    []int
		shards int
	}
	pick := func(reuse bool, quick, fresh, reused bnd) bnd {
		switch {
		case !thorough:
			return quick
		case reuse:
			return reused
		}
		return fresh
	}
	size := 1
	if thorough {
		size = 2
	}
	for _, reuse := range []bool{false, true} {
		for _, isInt := range []bool{true, false} {
			sfx := "/" + c08numName(isInt) + "/" + c08modeName(reuse)
			// one synchronous instrument, full value alphabet
			for _, k := range []c08kind{c08Counter, c08UpDown, c08Hist, c08EHist, c08Gauge} {
				j := &c08job{name: "sync-" + k.String() + sfx, isInt: isInt, reuse: reuse, insts: []c08kind{k}}
				va, vb := c08values(k, isInt, size)
				j.syms = append(c08measureSyms(k, 0, va), c08measureSyms(k, 1, vb)...)
				var b bnd
				switch k {
				case c08Counter:
					b = pick(reuse, bnd{[]int{3, 2, 2}, 1}, bnd{[]int{3, 3, 3, 2}, 1}, bnd{[]int{3, 3, 3}, 1})
				case c08UpDown, c08Hist:
					b = pick(reuse, bnd{[]int{3, 2, 2}, 1}, bnd{[]int{3, 3, 3}, 2}, bnd{[]int{3, 2, 2}, 1})
				case c08EHist:
					b = pick(reuse, bnd{[]int{3, 2, 2}, 1}, bnd{[]int{3, 2, 2}, 4}, bnd{[]int{2, 2, 1}, 1})
				case c08Gauge:
					b = pick(reuse, bnd{[]int{3, 3, 3}, 1}, bnd{[]int{3, 3, 3, 3}, 1}, bnd{[]int{3, 3, 3}, 1})
				}
				j.perCycle = b.per
				add(j, b.shards)
			}
			// the three observables with their own callbacks and a multi-instrument callback
			{
				j := &c08job{name: "async" + sfx, isInt: isInt, reuse: reuse, insts: []c08kind{c08OCounter, c08OUpDown, c08OGauge}}
				one := 1.0
				if !isInt {
					one = 1.5
				}
				j.syms = c08regSyms([]float64{2, 4})
				if thorough {
					j.sigmas = c08sigmas([]float64{one, 3, 5})
				} else {
					j.sigmas = c08sigmas([]float64{one, 3})
				}
				b := pick(reuse, bnd{[]int{2, 1, 1}, 1}, bnd{[]int{3, 2, 2, 2}, 1}, bnd{[]int{2, 2, 2, 2}, 1})
				j.perCycle = b.per
				add(j, b.shards)
			}
			// every instrument in one provider, reduced alphabets
			{
				j := c08mixedJob("mixed"+sfx, isInt, reuse)
				b := pick(reuse, bnd{[]int{2, 1}, 1}, bnd{[]int{2, 1, 1}, 2}, bnd{[]int{2, 1, 1}, 2})
				j.perCycle = b.per
				add(j, b.shards)
			}
		}
	}
	// the same eight instruments read by a third reader with a kind-dependent temporality selector
	c08selectorJobs(thorough, add)
	return jobs
}

// c08mixedJob: all eight instruments in one meter, one value per attribute set.
func c08mixedJob(name string, isInt, reuse bool) *c08job {
	j := &c08job{name: name, isInt: isInt, reuse: reuse,
		insts: []c08kind{c08Counter, c08UpDown, c08Hist, c08EHist, c08Gauge, c08OCounter, c08OUpDown, c08OGauge}}
	for _, k := range []c08kind{c08Counter, c08UpDown, c08Hist, c08EHist, c08Gauge} {
		va, _ := c08values(k, isInt, 0)
		j.syms = append(j.syms, c08measureSyms(k, 0, va)...)
	}
	for _, k := range []c08kind{c08Counter, c08EHist, c08Gauge} {
		_, vb := c08values(k, isInt, 0)
		j.syms = append(j.syms, c08measureSyms(k, 1, vb)...)
	}
	j.syms = append(j.syms, c08regSyms([]float64{2})...)
	for _, s := range c08sigmas([]float64{1, 3}) {
		switch s.name {
		case "{}", "{A=1}", "{A=3,B=1}":
			j.sigmas = append(j.sigmas, s)
		}
	}
	return j
}

// ---------------------------------------------------------------------------
// aggregates: the comparable content of a data point

type c08agg struct {
	typ string // sum | gauge | histogram | expohistogram

	val float64 // sum, gauge

	count  uint64 // histograms
	sum    float64
	bounds []float64
	counts []uint64

	scale    int32 // exponential histogram
	zero     uint64
	pos, neg map[int32]uint64
}

func c08appendBuckets(b []byte, m map[int32]uint64) []byte {
	idx := make([]int, 0, len(m))
	for i, n := range m {
		if n != 0 {
			idx = append(idx, int(i))
		}
	}
	sort.Ints(idx)
	b = append(b, '[')
	for n, i := range idx {
		if n > 0 {
			b = append(b, ' ')
		}
		b = strconv.AppendInt(b, int64(i), 10)
		b = append(b, ':')
		b = strconv.AppendUint(b, m[int32(i)], 10)
	}
	return append(b, ']')
}

// appendTo writes the aggregate in a canonical, readable form (no fmt: this runs for
// every collected point of every history).
func (a *c08agg) appendTo(b []byte) []byte {
	if a == nil {
		return append(b, "none"...)
	}
	switch a.typ {
	case "sum", "gauge":
		return strconv.AppendFloat(b, a.val, 'g', -1, 64)
	case "histogram":
		b = append(b, "count="...)
		b = strconv.AppendUint(b, a.count, 10)
		b = append(b, " sum="...)
		b = strconv.AppendFloat(b, a.sum, 'g', -1, 64)
		b = append(b, " buckets=["...)
		for i, n := range a.counts {
			if i > 0 {
				b = append(b, ' ')
			}
			b = strconv.AppendUint(b, n, 10)
		}
		return append(b, ']')
	case "expohistogram":
		b = append(b, "count="...)
		b = strconv.AppendUint(b, a.count, 10)
		b = append(b, " sum="...)
		b = strconv.AppendFloat(b, a.sum, 'g', -1, 64)
		b = append(b, " scale="...)
		b = strconv.AppendInt(b, int64(a.scale), 10)
		b = append(b, " zero="...)
		b = strconv.AppendUint(b, a.zero, 10)
		b = append(b, " pos="...)
		b = c08appendBuckets(b, a.pos)
		b = append(b, " neg="...)
		return c08appendBuckets(b, a.neg)
	case "":
		return append(b, "nothing"...)
	}
	return append(b, '?')
}

func (a *c08agg) String() string { return string(a.appendTo(nil)) }

// c08identical: exactly the same reported content (no scale alignment).
func c08identical(a, b *c08agg) bool {
	if a.typ != b.typ || a.val != b.val || a.count != b.count || a.sum != b.sum || a.scale != b.scale || a.zero != b.zero ||
		len(a.counts) != len(b.counts) || len(a.bounds) != len(b.bounds) {
		return false
	}
	for i := range a.counts {
		if a.counts[i] != b.counts[i] {
			return false
		}
	}
	for i := range a.bounds {
		if a.bounds[i] != b.bounds[i] {
			return false
		}
	}
	return c08sameBuckets(a.pos, b.pos) && c08sameBuckets(a.neg, b.neg)
}

func c08downscale(m map[int32]uint64, by int32) map[int32]uint64 {
	out := make(map[int32]uint64, len(m))
	for i, n := range m {
		if n != 0 {
			out[i>>uint(by)] += n
		}
	}
	return out
}

func c08sameBuckets(a, b map[int32]uint64) bool {
	for i, n := range a {
		if b[i] != n {
			return false
		}
	}
	for i, n := range b {
		if a[i] != n {
			return false
		}
	}
	return true
}

// add folds the delta point d into the running total a (a may be the zero aggregate).
// Exponential histograms are brought to the coarser of the two scales first.
func (a *c08agg) add(d *c08agg) {
	if a.typ == "" {
		a.typ = d.typ
		if d.typ == "expohistogram" {
			a.scale = d.scale
			a.pos, a.neg = map[int32]uint64{}, map[int32]uint64{}
		}
		if d.typ == "histogram" {
			a.bounds = append([]float64(nil), d.bounds...)
			a.counts = make([]uint64, len(d.counts))
		}
	}
	switch d.typ {
	case "sum":
		a.val += d.val
	case "histogram":
		a.count += d.count
		a.sum += d.sum
		for i := range d.counts {
			if i < len(a.counts) {
				a.counts[i] += d.counts[i]
			}
		}
	case "expohistogram":
		a.count += d.count
		a.sum += d.sum
		a.zero += d.zero
		dp, dn := d.pos, d.neg
		if d.scale < a.scale {
			a.pos, a.neg = c08downscale(a.pos, a.scale-d.scale), c08downscale(a.neg, a.scale-d.scale)
			a.scale = d.scale
		} else if d.scale > a.scale {
			dp, dn = c08downscale(dp, d.scale-a.scale), c08downscale(dn, d.scale-a.scale)
		}
		for i, n := range dp {
			a.pos[i] += n
		}
		for i, n := range dn {
			a.neg[i] += n
		}
	}
}

// diff names the first field in which the reported aggregate differs from the expected
// one ("" = equal). Exponential buckets are compared at the coarser of the two scales.
func c08diff(got, want *c08agg) string {
	switch got.typ {
	case "sum", "gauge":
		if got.val != want.val {
			return "value"
		}
	case "histogram":
		if got.count != want.count {
			return "count"
		}
		if got.sum != want.sum {
			return "sum"
		}
		if want.typ != "" {
			if len(got.counts) != len(want.counts) {
				return "bucket_counts"
			}
			for i := range got.counts {
				if got.counts[i] != want.counts[i] {
					return "bucket_counts"
				}
			}
		} else {
			for _, n := range got.counts {
				if n != 0 {
					return "bucket_counts"
				}
			}
		}
	case "expohistogram":
		if got.count != want.count {
			return "count"
		}
		if got.sum != want.sum {
			return "sum"
		}
		if got.zero != want.zero {
			return "zero_count"
		}
		gp, gn, wp, wn := got.pos, got.neg, want.pos, want.neg
		if want.typ != "" {
			if got.scale > want.scale {
				gp, gn = c08downscale(gp, got.scale-want.scale), c08downscale(gn, got.scale-want.scale)
			} else if want.scale > got.scale {
				wp, wn = c08downscale(wp, want.scale-got.scale), c08downscale(wn, want.scale-got.scale)
			}
		}
		if !c08sameBuckets(gp, wp) {
			return "positive_buckets"
		}
		if !c08sameBuckets(gn, wn) {
			return "negative_buckets"
		}
	}
	return ""
}

// c08reference aggregates the measurements of one interval the obvious way. For
// histograms the bucket of a value is taken against the boundaries the point reports;
// for exponential histograms (values are 0 or +-2^e) the index at the reported scale is
// ceil(e * 2^scale) - 1.
func c08reference(typ string, vals []float64, like *c08agg) *c08agg {
	a := &c08agg{typ: typ}
	switch typ {
	case "sum":
		for _, v := range vals {
			a.val += v
		}
	case "histogram":
		a.bounds = like.bounds
		a.counts = make([]uint64, len(like.bounds)+1)
		for _, v := range vals {
			a.count++
			a.sum += v
			i := 0
			for i < len(like.bounds) && v > like.bounds[i] {
				i++
			}
			a.counts[i]++
		}
	case "expohistogram":
		a.scale = like.scale
		a.pos, a.neg = map[int32]uint64{}, map[int32]uint64{}
		for _, v := range vals {
			a.count++
			a.sum += v
			if v == 0 {
				a.zero++
				continue
			}
			m := a.pos
			if v < 0 {
				m, v = a.neg, -v
			}
			e := 0
			for x := v; x > 1; x /= 2 {
				e++
			}
			for x := v; x < 1; x *= 2 {
				e--
			}
			var idx int32
			if a.scale >= 0 {
				idx = int32(e)<<uint(a.scale) - 1
			} else {
				// ceil(e / 2^-scale) - 1 == (e - 1) >> -scale for every integer e
				idx = int32(e-1) >> uint(-a.scale)
			}
			m[idx]++
		}
	}
	return a
}

// ---------------------------------------------------------------------------
// what a reader reported

type c08point struct {
	start, time time.Time
	agg         c08agg
}

type c08metric struct {
	typ         string
	temporality metricdata.Temporality // 0 for gauges
	points      map[string]*c08point
	dup         string // attribute set reported twice
}

type c08snap map[string]*c08metric

func c08parseDPs[N int64 | float64](m *c08metric, typ string, dps []metricdata.DataPoint[N]) {
	for i := range dps {
		p := &c08point{start: dps[i].StartTime, time: dps[i].Time, agg: c08agg{typ: typ, val: float64(dps[i].Value)}}
		m.put(c08setName(dps[i].Attributes), p)
	}
}

func (m *c08metric) put(set string, p *c08point) {
	if _, ok := m.points[set]; ok {
		m.dup = set
	}
	m.points[set] = p
}

func c08parseHist[N int64 | float64](m *c08metric, dps []metricdata.HistogramDataPoint[N]) {
	for i := range dps {
		d := &dps[i]
		p := &c08point{start: d.StartTime, time: d.Time, agg: c08agg{typ: "histogram", count: d.Count, sum: float64(d.Sum),
			bounds: append([]float64(nil), d.Bounds...), counts: append([]uint64(nil), d.BucketCounts...)}}
		m.put(c08setName(d.Attributes), p)
	}
}

func c08parseEHist[N int64 | float64](m *c08metric, dps []metricdata.ExponentialHistogramDataPoint[N]) {
	for i := range dps {
		d := &dps[i]
		p := &c08point{start: d.StartTime, time: d.Time, agg: c08agg{typ: "expohistogram", count: d.Count, sum: float64(d.Sum),
			scale: d.Scale, zero: d.ZeroCount, pos: map[int32]uint64{}, neg: map[int32]uint64{}}}
		for k, n := range d.PositiveBucket.Counts {
			if n != 0 {
				p.agg.pos[d.PositiveBucket.Offset+int32(k)] += n
			}
		}
		for k, n := range d.NegativeBucket.Counts {
			if n != 0 {
				p.agg.neg[d.NegativeBucket.Offset+int32(k)] += n
			}
		}
		m.put(c08setName(d.Attributes), p)
	}
}

// c08parse copies everything the property talks about out of a ResourceMetrics.
func c08parse(rm *metricdata.ResourceMetrics) (c08snap, string) {
	snap := c08snap{}
	problem := ""
	for si := range rm.ScopeMetrics {
		for mi := range rm.ScopeMetrics[si].Metrics {
			mm := &rm.ScopeMetrics[si].Metrics[mi]
			m := &c08metric{points: map[string]*c08point{}}
			switch d := mm.Data.(type) {
			case metricdata.Sum[int64]:
				m.typ, m.temporality = "sum", d.Temporality
				c08parseDPs(m, "sum", d.DataPoints)
			case metricdata.Sum[float64]:
				m.typ, m.temporality = "sum", d.Temporality
				c08parseDPs(m, "sum", d.DataPoints)
			case metricdata.Gauge[int64]:
				m.typ = "gauge"
				c08parseDPs(m, "gauge", d.DataPoints)
			case metricdata.Gauge[float64]:
				m.typ = "gauge"
				c08parseDPs(m, "gauge", d.DataPoints)
			case metricdata.Histogram[int64]:
				m.typ, m.temporality = "histogram", d.Temporality
				c08parseHist(m, d.DataPoints)
			case metricdata.Histogram[float64]:
				m.typ, m.temporality = "histogram", d.Temporality
				c08parseHist(m, d.DataPoints)
			case metricdata.ExponentialHistogram[int64]:
				m.typ, m.temporality = "expohistogram", d.Temporality
				c08parseEHist(m, d.DataPoints)
			case metricdata.ExponentialHistogram[float64]:
				m.typ, m.temporality = "expohistogram", d.Temporality
				c08parseEHist(m, d.DataPoints)
			default:
				m.typ = fmt.Sprintf("%T", mm.Data)
			}
			if _, ok := snap[mm.Name]; ok {
				problem = "metric " + mm.Name + " reported twice in one collection"
			}
			snap[mm.Name] = m
		}
	}
	return snap, problem
}

// appendTo writes the values (no timestamps) of one metric, sets sorted.
func (m *c08metric) appendTo(b []byte) []byte {
	if m == nil {
		return append(b, '-')
	}
	sets := make([]string, 0, len(m.points))
	for s := range m.points {
		sets = append(sets, s)
	}
	sort.Strings(sets)
	b = append(b, m.typ...)
	for _, s := range sets {
		b = append(b, ' ')
		b = append(b, s...)
		b = append(b, "=<"...)
		b = m.points[s].agg.appendTo(b)
		b = append(b, '>')
	}
	return b
}

func (m *c08metric) canon() string { return string(m.appendTo(nil)) }

func (m *c08metric) identical(o *c08metric) bool {
	if m == nil || o == nil {
		return m == o
	}
	if m.typ != o.typ || len(m.points) != len(o.points) {
		return false
	}
	for s, p := range m.points {
		q := o.points[s]
		if q == nil || !c08identical(&p.agg, &q.agg) {
			return false
		}
	}
	return true
}

func (s c08snap) appendTo(b []byte) []byte {
	names := make([]string, 0, len(s))
	for n := range s {
		names = append(names, n)
	}
	sort.Strings(names)
	for _, n := range names {
		b = append(b, n...)
		b = append(b, ": "...)
		b = s[n].appendTo(b)
		b = append(b, "; "...)
	}
	return b
}

// ---------------------------------------------------------------------------
// reference bookkeeping

type c08setState struct {
	cyc      []float64 // measurements of the current interval, in order
	lastRec  float64   // gauge: last value ever recorded
	recorded bool
	run      c08agg // running total of the delta values reported so far
	runLive  bool   // async: the set was reported by the delta reader in the previous cycle
	prevObs  float64
	prevHas  bool // async: observed in the preceding cycle
}

type c08stream struct {
	kind c08kind
	sets map[string]*c08setState

	// times
	dPrevLo, dPrevHi time.Time // time of the previous collection of the delta stream (an interval when it reported nothing)
	dHavePrev        bool
	cStart           time.Time // start of the cumulative stream
	cHaveStart       bool
}

func (s *c08stream) set(name string) *c08setState {
	st := s.sets[name]
	if st == nil {
		st = &c08setState{}
		s.sets[name] = st
	}
	return st
}

func c08appendBool(b []byte, v bool) []byte {
	if v {
		return append(b, 'T')
	}
	return append(b, 'F')
}

func (s *c08stream) appendTo(b []byte) []byte {
	names := make([]string, 0, len(s.sets))
	for n := range s.sets {
		names = append(names, n)
	}
	sort.Strings(names)
	b = append(b, s.kind.String()...)
	b = append(b, '{')
	for _, n := range names {
		st := s.sets[n]
		b = append(b, n...)
		b = append(b, ": run=<"...)
		b = st.run.appendTo(b)
		b = append(b, "> live="...)
		b = c08appendBool(b, st.runLive)
		b = append(b, " prev="...)
		b = c08appendBool(b, st.prevHas)
		b = strconv.AppendFloat(b, st.prevObs, 'g', -1, 64)
		b = append(b, " rec="...)
		b = c08appendBool(b, st.recorded)
		b = strconv.AppendFloat(b, st.lastRec, 'g', -1, 64)
		b = append(b, "; "...)
	}
	return append(b, '}')
}

// ---------------------------------------------------------------------------
// one execution of one history

type c08cycle struct {
	ev []uint8
	sg uint8
}

type c08replay struct {
	Job    string         `json:"job"`
	Cycles []c08replayCyc `json:"cycles"`
}

type c08replayCyc struct {
	Events   []string `json:"events"`
	Observed string   `json:"callbacks_observe"`
}

type c08exec struct {
	j    *c08job
	hist []c08cycle

	ctx     context.Context
	rd, rc  *sdk.ManualReader
	rmD     *metricdata.ResourceMetrics
	rmC     *metricdata.ResourceMetrics
	record  [c08nKinds]func(v float64, opt metric.MeasurementOption)
	meter   metric.Meter
	obsInt  [3]metric.Int64Observable
	obsFlt  [3]metric.Float64Observable
	sigma   *c08sigma // what the instruments' own callbacks observe now (nil outside collections)
	reg     metric.Registration
	regLive bool
	regVal  float64

	streams []*c08stream

	// third reader (jobs with a kind-dependent temporality selector): its own reference
	// bookkeeping, one stream per instrument; keyPfx / note mark the findings of its pass
	rk       *sdk.ManualReader
	rmK      *metricdata.ResourceMetrics
	streamsK []*c08stream
	keyPfx   string
	note     string

	kept []c08kept // fresh mode: every ResourceMetrics with the values read from it at collection time

	failed bool
	nColl  int
}

type c08kept struct {
	rm    *metricdata.ResourceMetrics
	snap  c08snap
	label string
	n     int
}

func (x *c08exec) desc() map[string]any {
	var steps []string
	n := 0
	for _, c := range x.hist {
		for _, e := range c.ev {
			steps = append(steps, x.j.syms[e].name)
		}
		n++
		s := fmt.Sprintf("collect #%d (delta reader and cumulative reader)", n)
		if x.j.sel != nil {
			s = fmt.Sprintf("collect #%d (delta reader, cumulative reader and the reader with the kind-dependent selector)", n)
		}
		if x.j.hasAsync {
			s += "; the observables' own callbacks observe " + x.j.sigmas[c.sg].name + " (obs-updown: A and B swapped; obs-updown +10, obs-gauge +20)"
		}
		steps = append(steps, s)
	}
	var insts []string
	for _, k := range x.j.insts {
		insts = append(insts, k.String())
	}
	mode := "a fresh ResourceMetrics per Collect, delta reader collected first"
	if x.j.reuse {
		mode = "one ResourceMetrics per reader reused by every Collect, cumulative reader collected first"
	}
	out := map[string]any{"number": c08numName(x.j.isInt), "instruments": insts, "collect_mode": mode, "history": steps,
		"attribute_sets": "A = {}, B = {k=b}, C = {k=c,n=1}"}
	if x.j.sel != nil {
		out["third_reader_temporality_selector"] = x.j.sel.describe()
	}
	return out
}

func (x *c08exec) replay() c08replay {
	rp := c08replay{Job: x.j.name}
	for _, c := range x.hist {
		rc := c08replayCyc{Observed: x.j.sigmas[c.sg].name, Events: []string{}}
		for _, e := range c.ev {
			rc.Events = append(rc.Events, x.j.syms[e].name)
		}
		rp.Cycles = append(rp.Cycles, rc)
	}
	return rp
}

func (x *c08exec) fail(key, format string, a ...any) {
	x.failed = true
	x.j.r.Fail(x.keyPfx+key, x.desc(), x.replay(), "collect #%d: "+x.note+format, append([]any{x.nColl}, a...)...)
}

type c08noExemplars struct{}

func (c08noExemplars) Offer(context.Context, time.Time, exemplar.Value, []attribute.KeyValue) {}
func (c08noExemplars) Collect(dest *[]exemplar.Exemplar)                                      { *dest = (*dest)[:0] }

func c08deltaSelector(sdk.InstrumentKind) metricdata.Temporality { return metricdata.DeltaTemporality }
func c08cumulativeSelector(sdk.InstrumentKind) metricdata.Temporality {
	return metricdata.CumulativeTemporality
}

func (x *c08exec) setup() error {
	x.ctx = context.Background()
	x.rd = sdk.NewManualReader(sdk.WithTemporalitySelector(c08deltaSelector))
	x.rc = sdk.NewManualReader(sdk.WithTemporalitySelector(c08cumulativeSelector))
	view := func(i sdk.Instrument) (sdk.Stream, bool) {
		s := sdk.Stream{Name: i.Name, Description: i.Description, Unit: i.Unit,
			// exemplars are not part of the property: filter off, no-op reservoir
			ExemplarReservoirProviderSelector: func(sdk.Aggregation) exemplar.ReservoirProvider {
				return func(attribute.Set) exemplar.Reservoir { return c08noExemplars{} }
			}}
		if i.Name == c08EHist.String() {
			s.Aggregation = sdk.AggregationBase2ExponentialHistogram{MaxSize: 4, MaxScale: 20}
		}
		return s, true
	}
	opts := []sdk.Option{sdk.WithReader(x.rd), sdk.WithReader(x.rc), sdk.WithExemplarFilter(exemplar.AlwaysOffFilter), sdk.WithView(view)}
	if x.j.sel != nil {
		x.rk = sdk.NewManualReader(sdk.WithTemporalitySelector(x.j.sel.selector()))
		// registered between the two plain readers
		opts = []sdk.Option{sdk.WithReader(x.rd), sdk.WithReader(x.rk), sdk.WithReader(x.rc), sdk.WithExemplarFilter(exemplar.AlwaysOffFilter), sdk.WithView(view)}
	}
	mp := sdk.NewMeterProvider(opts...)
	m := mp.Meter("c08")
	x.meter = m
	ctx := x.ctx
	for _, k := range x.j.insts {
		x.streams = append(x.streams, &c08stream{kind: k, sets: map[string]*c08setState{}})
		if x.j.sel != nil {
			x.streamsK = append(x.streamsK, &c08stream{kind: k, sets: map[string]*c08setState{}})
		}
		name := k.String()
		var err error
		switch {
		case k == c08Counter && x.j.isInt:
			var in metric.Int64Counter
			in, err = m.Int64Counter(name)
			x.record[k] = func(v float64, o metric.MeasurementOption) { in.Add(ctx, int64(v), o.(metric.AddOption)) }
		case k == c08Counter:
			var in metric.Float64Counter
			in, err = m.Float64Counter(name)
			x.record[k] = func(v float64, o metric.MeasurementOption) { in.Add(ctx, v, o.(metric.AddOption)) }
		case k == c08UpDown && x.j.isInt:
			var in metric.Int64UpDownCounter
			in, err = m.Int64UpDownCounter(name)
			x.record[k] = func(v float64, o metric.MeasurementOption) { in.Add(ctx, int64(v), o.(metric.AddOption)) }
		case k == c08UpDown:
			var in metric.Float64UpDownCounter
			in, err = m.Float64UpDownCounter(name)
			x.record[k] = func(v float64, o metric.MeasurementOption) { in.Add(ctx, v, o.(metric.AddOption)) }
		case (k == c08Hist || k == c08EHist) && x.j.isInt:
			var in metric.Int64Histogram
			in, err = m.Int64Histogram(name)
			x.record[k] = func(v float64, o metric.MeasurementOption) { in.Record(ctx, int64(v), o.(metric.RecordOption)) }
		case k == c08Hist || k == c08EHist:
			var in metric.Float64Histogram
			in, err = m.Float64Histogram(name)
			x.record[k] = func(v float64, o metric.MeasurementOption) { in.Record(ctx, v, o.(metric.RecordOption)) }
		case k == c08Gauge && x.j.isInt:
			var in metric.Int64Gauge
			in, err = m.Int64Gauge(name)
			x.record[k] = func(v float64, o metric.MeasurementOption) { in.Record(ctx, int64(v), o.(metric.RecordOption)) }
		case k == c08Gauge:
			var in metric.Float64Gauge
			in, err = m.Float64Gauge(name)
			x.record[k] = func(v float64, o metric.MeasurementOption) { in.Record(ctx, v, o.(metric.RecordOption)) }
		case k.async() && x.j.isInt:
			j := k.obsIndex()
			cb := func(_ context.Context, o metric.Int64Observer) error {
				x.ownCallback(j, func(v float64, opt metric.MeasurementOption) { o.Observe(int64(v), opt.(metric.ObserveOption)) })
				return nil
			}
			switch k {
			case c08OCounter:
				x.obsInt[j], err = m.Int64ObservableCounter(name, metric.WithInt64Callback(cb))
			case c08OUpDown:
				x.obsInt[j], err = m.Int64ObservableUpDownCounter(name, metric.WithInt64Callback(cb))
			default:
				x.obsInt[j], err = m.Int64ObservableGauge(name, metric.WithInt64Callback(cb))
			}
		case k.async():
			j := k.obsIndex()
			cb := func(_ context.Context, o metric.Float64Observer) error {
				x.ownCallback(j, func(v float64, opt metric.MeasurementOption) { o.Observe(v, opt.(metric.ObserveOption)) })
				return nil
			}
			switch k {
			case c08OCounter:
				x.obsFlt[j], err = m.Float64ObservableCounter(name, metric.WithFloat64Callback(cb))
			case c08OUpDown:
				x.obsFlt[j], err = m.Float64ObservableUpDownCounter(name, metric.WithFloat64Callback(cb))
			default:
				x.obsFlt[j], err = m.Float64ObservableGauge(name, metric.WithFloat64Callback(cb))
			}
		}
		if err != nil {
			return fmt.Errorf("creating %s: %w", name, err)
		}
	}
	if x.j.reuse {
		x.rmD, x.rmC, x.rmK = &metricdata.ResourceMetrics{}, &metricdata.ResourceMetrics{}, &metricdata.ResourceMetrics{}
	}
	return nil
}

// sigmaFor is the map the own callback of observable j observes: obs-updown sees A and
// B swapped, and every observable adds 10*j, so that observations routed to the wrong
// instrument cannot go unnoticed.
func c08sigmaFor(sg *c08sigma, j int) c08sigma {
	s := *sg
	if j == 1 {
		s = s.swapped()
	}
	for i := range s.v {
		s.v[i] += float64(10 * j)
	}
	return s
}

func (x *c08exec) ownCallback(j int, observe func(v float64, opt metric.MeasurementOption)) {
	if x.sigma == nil {
		return
	}
	s := c08sigmaFor(x.sigma, j)
	for i := 0; i < 2; i++ {
		if !s.has[i] {
			continue
		}
		if j == 2 {
			// a gauge reports the last value recorded in the cycle
			observe(s.v[i]+100, c08setOpts[i])
		}
		observe(s.v[i], c08setOpts[i])
	}
}

func (x *c08exec) multiValue(j int) float64 { return x.regVal + float64(10*j) }

func (x *c08exec) register(v float64) error {
	x.regVal = v
	var insts []metric.Observable
	for _, k := range x.j.insts {
		if !k.async() {
			continue
		}
		if x.j.isInt {
			insts = append(insts, x.obsInt[k.obsIndex()])
		} else {
			insts = append(insts, x.obsFlt[k.obsIndex()])
		}
	}
	val := v // the registration keeps reporting the value it was registered with
	reg, err := x.meter.RegisterCallback(func(_ context.Context, o metric.Observer) error {
		for _, k := range x.j.insts {
			if !k.async() {
				continue
			}
			j := k.obsIndex()
			if x.j.isInt {
				o.ObserveInt64(x.obsInt[j], int64(val)+int64(10*j), c08setOpts[2].(metric.ObserveOption))
			} else {
				o.ObserveFloat64(x.obsFlt[j], val+float64(10*j), c08setOpts[2].(metric.ObserveOption))
			}
		}
		return nil
	}, insts...)
	if err != nil {
		return err
	}
	x.reg, x.regLive = reg, true
	return nil
}

// run executes the history and judges every collection. It returns the canonical state
// after the last collection ("" when an oracle failed: such states are not expanded).
func (x *c08exec) run() (key string) {
	defer func() {
		if p := recover(); p != nil {
			x.fail("panic|history execution", "panic: %v", p)
			key = ""
		}
	}()
	if err := x.setup(); err != nil {
		x.fail("setup-error|instrument creation", "%v", err)
		return ""
	}
	var last string
	for ci, c := range x.hist {
		for _, e := range c.ev {
			s := &x.j.syms[e]
			switch s.op {
			case c08opMeasure:
				x.record[s.kind](s.val, c08setOpts[s.set])
				for _, sts := range [][]*c08stream{x.streams, x.streamsK} {
					for _, st := range sts {
						if st.kind == s.kind {
							ss := st.set(c08setNames[s.set])
							ss.cyc = append(ss.cyc, s.val)
							ss.lastRec, ss.recorded = s.val, true
						}
					}
				}
			case c08opReg:
				if err := x.register(s.val); err != nil {
					x.fail("setup-error|RegisterCallback", "%v", err)
					return ""
				}
			case c08opUnreg:
				if err := x.reg.Unregister(); err != nil {
					x.fail("setup-error|Unregister", "%v", err)
					return ""
				}
				x.regLive = false
			}
		}
		x.nColl = ci + 1
		last = x.collect(&x.j.sigmas[c.sg], ci == len(x.hist)-1)
	}
	if !x.j.reuse {
		x.checkKept()
	}
	if x.failed {
		return ""
	}
	b := append([]byte(nil), last...)
	b = append(b, "|reg="...)
	b = c08appendBool(b, x.reg != nil)
	b = c08appendBool(b, x.regLive)
	b = strconv.AppendFloat(b, x.regVal, 'g', -1, 64)
	b = append(b, '|')
	for _, st := range x.streams {
		b = st.appendTo(b)
	}
	if x.streamsK != nil {
		b = append(b, "|selector reader: "...)
		for _, st := range x.streamsK {
			b = st.appendTo(b)
		}
	}
	return string(b)
}

func (x *c08exec) collectOne(rd *sdk.ManualReader, reused *metricdata.ResourceMetrics, label string) (c08snap, time.Time, time.Time, bool) {
	rm := reused
	if rm == nil {
		rm = &metricdata.ResourceMetrics{}
	}
	t0 := time.Now()
	err := rd.Collect(x.ctx, rm)
	t1 := time.Now()
	if err != nil {
		x.fail("collect-error|"+label+" reader", "Collect returned %v", err)
		return nil, t0, t1, false
	}
	snap, problem := c08parse(rm)
	if problem != "" {
		x.fail("malformed-collection|"+label+" reader", "%s", problem)
		return nil, t0, t1, false
	}
	if reused == nil {
		x.kept = append(x.kept, c08kept{rm: rm, snap: snap, label: label, n: x.nColl})
	} else {
		// reuse mode: the consumer owns what it was handed and overwrites all of it before it
		// passes the same ResourceMetrics to the next collection
		vScribble(rm)
	}
	return snap, t0, t1, true
}

func (x *c08exec) collect(sg *c08sigma, isLast bool) string {
	x.sigma = sg
	var d, c, k c08snap
	var d0, d1, k0, k1 time.Time
	var ok1, ok2 bool
	ok3 := true
	if x.j.reuse {
		if x.rk != nil {
			k, k0, k1, ok3 = x.collectOne(x.rk, x.rmK, "selector")
		}
		c, _, _, ok2 = x.collectOne(x.rc, x.rmC, "cumulative")
		d, d0, d1, ok1 = x.collectOne(x.rd, x.rmD, "delta")
	} else {
		d, d0, d1, ok1 = x.collectOne(x.rd, nil, "delta")
		if x.rk != nil {
			k, k0, k1, ok3 = x.collectOne(x.rk, nil, "selector")
		}
		c, _, _, ok2 = x.collectOne(x.rc, nil, "cumulative")
	}
	x.sigma = nil
	if !ok1 || !ok2 || !ok3 {
		return ""
	}
	if isLast {
		x.j.r.Eval()
	} else {
		x.j.r.Count("prefix_collections_rechecked", 1)
	}
	for _, st := range x.streams {
		x.judge(st, d[st.kind.String()], c[st.kind.String()], sg, d0, d1)
	}
	for name := range d {
		if !x.known(name) {
			x.fail("unknown-metric|delta reader", "metric %q was never created", name)
		}
	}
	for name := range c {
		if !x.known(name) {
			x.fail("unknown-metric|cumulative reader", "metric %q was never created", name)
		}
	}
	if x.rk != nil && !x.failed {
		// the two plain readers agree with the reference up to here: whatever the pass of the
		// third reader finds concerns the third reader
		x.judgeSelector(d, c, k, sg, d0, d1, k0, k1)
	}
	if !isLast {
		return "-"
	}
	b := append([]byte(nil), "delta: "...)
	b = d.appendTo(b)
	b = append(b, " cumulative: "...)
	b = c.appendTo(b)
	if x.rk != nil {
		b = append(b, " selector: "...)
		b = k.appendTo(b)
	}
	return string(b)
}

func (x *c08exec) known(name string) bool {
	for _, st := range x.streams {
		if st.kind.String() == name {
			return true
		}
	}
	return false
}

// observed returns what the callbacks observe for stream st in this cycle.
func (x *c08exec) observed(st *c08stream, sg *c08sigma) map[string]float64 {
	j := st.kind.obsIndex()
	s := c08sigmaFor(sg, j)
	out := map[string]float64{}
	for i := 0; i < 2; i++ {
		if s.has[i] {
			out[c08setNames[i]] = s.v[i]
		}
	}
	if x.regLive {
		out["C"] = x.multiValue(j)
	}
	return out
}

func c08sortedSets(ms ...map[string]*c08point) []string {
	seen := map[string]bool{}
	for _, m := range ms {
		for s := range m {
			seen[s] = true
		}
	}
	out := make([]string, 0, len(seen))
	for s := range seen {
		out = append(out, s)
	}
	sort.Strings(out)
	return out
}

// judge evaluates the property for one instrument at one collection point.
func (x *c08exec) judge(st *c08stream, d, c *c08metric, sg *c08sigma, d0, d1 time.Time) {
	k := st.kind
	kn := k.String()
	empty := &c08metric{points: map[string]*c08point{}}
	if d == nil {
		d = empty
	}
	if c == nil {
		c = empty
	}
	// structure: the right data type, the reader's temporality, one point per attribute set
	for _, rv := range []struct {
		m    *c08metric
		lbl  string
		temp metricdata.Temporality
	}{{d, "delta", metricdata.DeltaTemporality}, {c, "cumulative", metricdata.CumulativeTemporality}} {
		if rv.m == empty {
			continue
		}
		if rv.m.typ != k.dataType() {
			x.fail("data-type|"+kn+"/"+rv.lbl, "%s reported as %s by the %s reader", kn, rv.m.typ, rv.lbl)
			return
		}
		if rv.m.typ != "gauge" && rv.m.temporality != rv.temp {
			x.fail("temporality-label|"+kn+"/"+rv.lbl, "%s data from the %s reader is labelled %v", kn, rv.lbl, rv.m.temporality)
		}
		if rv.m.dup != "" {
			x.fail("duplicate-point|"+kn+"/"+rv.lbl, "%s reader reports attribute set %s twice for %s", rv.lbl, rv.m.dup, kn)
			return
		}
	}

	x.judgeTimes(st, d, c, d0, d1)

	sets := c08sortedSets(d.points, c.points)
	for name := range st.sets {
		if _, ok := d.points[name]; !ok {
			if _, ok := c.points[name]; !ok {
				sets = append(sets, name)
			}
		}
	}
	sort.Strings(sets)

	switch {
	case !k.async() && k != c08Gauge:
		for _, name := range sets {
			ss := st.set(name)
			dp, cp := d.points[name], c.points[name]
			measured := len(ss.cyc) > 0
			if dp == nil && measured {
				x.fail("delta-missing|"+kn, "%s[%s] was measured in this interval %v but the delta reader reports no point for it", kn, name, ss.cyc)
			}
			if dp != nil {
				want := c08reference(k.dataType(), ss.cyc, &dp.agg)
				if f := c08diff(&dp.agg, want); f != "" {
					x.fail("delta-interval|"+kn+"."+f, "delta point of %s[%s] is <%s>, the measurements of this interval %v amount to <%s>", kn, name, dp.agg.String(), ss.cyc, want.String())
				}
				if k == c08Hist && ss.run.typ != "" && len(ss.run.counts) != len(dp.agg.counts) {
					x.fail("running-total|"+kn+".bucket_layout", "delta point of %s[%s] has %d buckets, earlier delta points had %d", kn, name, len(dp.agg.counts), len(ss.run.counts))
				}
				ss.run.add(&dp.agg)
			}
			if cp == nil && (measured || dp != nil) {
				x.fail("cumulative-missing|"+kn, "%s[%s] was measured in this interval (delta point <%s>) but the cumulative reader reports no point for it", kn, name, dp.aggString())
			}
			if cp != nil {
				if f := c08diff(&cp.agg, &ss.run); f != "" {
					x.fail("running-total|"+kn+"."+f, "cumulative point of %s[%s] is <%s>, the delta points reported so far add up to <%s>", kn, name, cp.agg.String(), ss.run.String())
				}
			}
			ss.cyc = ss.cyc[:0]
		}
	case k == c08Gauge:
		for _, name := range sets {
			ss := st.set(name)
			dp, cp := d.points[name], c.points[name]
			measured := len(ss.cyc) > 0
			if measured {
				last := ss.cyc[len(ss.cyc)-1]
				for _, rv := range []struct {
					p   *c08point
					lbl string
				}{{dp, "delta"}, {cp, "cumulative"}} {
					if rv.p == nil {
						x.fail("gauge-missing|"+kn+"/"+rv.lbl, "%s[%s] recorded %v in this cycle but the %s reader reports no point", kn, name, ss.cyc, rv.lbl)
					} else if rv.p.agg.val != last {
						x.fail("gauge-last-value|"+kn+"/"+rv.lbl, "%s[%s] recorded %v in this cycle, the %s reader reports %s", kn, name, ss.cyc, rv.lbl, c08fmt(rv.p.agg.val))
					}
				}
			} else {
				if dp != nil {
					x.fail("gauge-stale|"+kn+"/delta", "%s[%s] was not recorded in this cycle but the delta reader reports %s", kn, name, c08fmt(dp.agg.val))
				}
				// cumulative reader: whether a set not recorded in this cycle is still reported is
				// not stated; if it is, it must carry the last value recorded
				if cp != nil && (!ss.recorded || cp.agg.val != ss.lastRec) {
					x.fail("gauge-last-value|"+kn+"/cumulative-retained", "%s[%s] was not recorded in this cycle, last recorded value %s (recorded ever: %v), the cumulative reader reports %s", kn, name, c08fmt(ss.lastRec), ss.recorded, c08fmt(cp.agg.val))
				}
			}
			ss.cyc = ss.cyc[:0]
		}
	default: // observables
		obs := x.observed(st, sg)
		for _, name := range sets {
			ss := st.set(name)
			dp, cp := d.points[name], c.points[name]
			v, seen := obs[name]
			for _, rv := range []struct {
				p   *c08point
				lbl string
			}{{dp, "delta"}, {cp, "cumulative"}} {
				if seen && rv.p == nil {
					x.fail("async-missing-set|"+kn+"/"+rv.lbl, "%s[%s] was observed (%s) by this cycle's callbacks but the %s reader reports no point", kn, name, c08fmt(v), rv.lbl)
				}
				if !seen && rv.p != nil {
					x.fail("async-unobserved-set|"+kn+"/"+rv.lbl, "%s[%s] was not observed by this cycle's callbacks (registered multi-instrument callback: %v) but the %s reader reports %s", kn, name, x.regLive, rv.lbl, c08fmt(rv.p.agg.val))
				}
			}
			if k == c08OGauge {
				for _, rv := range []struct {
					p   *c08point
					lbl string
				}{{dp, "delta"}, {cp, "cumulative"}} {
					if seen && rv.p != nil && rv.p.agg.val != v {
						x.fail("async-gauge-value|"+kn+"/"+rv.lbl, "%s[%s]: last value observed in this cycle is %s, the %s reader reports %s", kn, name, c08fmt(v), rv.lbl, c08fmt(rv.p.agg.val))
					}
				}
			} else {
				if seen && dp != nil {
					prev := 0.0
					if ss.prevHas {
						prev = ss.prevObs
					}
					if dp.agg.val != v-prev {
						x.fail("async-delta|"+kn, "%s[%s] observed %s, in the preceding cycle %s (observed then: %v): delta must be %s, the delta reader reports %s", kn, name, c08fmt(v), c08fmt(prev), ss.prevHas, c08fmt(v-prev), c08fmt(dp.agg.val))
					}
				}
				if seen && cp != nil && cp.agg.val != v {
					x.fail("async-cumulative|"+kn, "%s[%s] observed %s, the cumulative reader reports %s", kn, name, c08fmt(v), c08fmt(cp.agg.val))
				}
				// running total of the reported delta values; it restarts when the set was not
				// reported in the preceding cycle (its delta is then taken against zero)
				if dp != nil {
					if !ss.runLive {
						ss.run = c08agg{}
					}
					ss.run.add(&dp.agg)
					if cp != nil && cp.agg.val != ss.run.val {
						x.fail("running-total|"+kn+".value", "cumulative point of %s[%s] is %s, the delta points reported since the set (re)appeared add up to %s", kn, name, c08fmt(cp.agg.val), c08fmt(ss.run.val))
					}
				}
				ss.runLive = dp != nil
			}
			ss.prevObs, ss.prevHas = v, seen
		}
	}
}

func (p *c08point) aggString() string {
	if p == nil {
		return "none"
	}
	return p.agg.String()
}

// judgeTimes: start <= time for every point; a delta point starts where the previous
// collection of its stream ended; cumulative points keep the first start.
func (x *c08exec) judgeTimes(st *c08stream, d, c *c08metric, d0, d1 time.Time) {
	kn := st.kind.String()
	for _, name := range c08sortedSets(d.points) {
		p := d.points[name]
		if p.start.After(p.time) {
			x.fail("start-after-time|"+kn+"/delta", "delta point %s[%s] has StartTime %s after Time %s", kn, name, c08ts(p.start), c08ts(p.time))
		}
		if st.dHavePrev && (p.start.Before(st.dPrevLo) || p.start.After(st.dPrevHi)) {
			x.fail("delta-interval-start|"+kn, "delta point %s[%s] starts at %s, the previous collection of this stream happened at %s..%s", kn, name, c08ts(p.start), c08ts(st.dPrevLo), c08ts(st.dPrevHi))
		}
	}
	// the time of this delta collection: what the points say, or the harness clock
	// around Collect when the stream reported nothing
	lo, hi := d0, d1
	first := true
	for _, p := range d.points {
		if first || p.time.Before(lo) {
			lo = p.time
		}
		if first || p.time.After(hi) {
			hi = p.time
		}
		first = false
	}
	st.dPrevLo, st.dPrevHi, st.dHavePrev = lo, hi, true

	for _, name := range c08sortedSets(c.points) {
		p := c.points[name]
		if p.start.After(p.time) {
			x.fail("start-after-time|"+kn+"/cumulative", "cumulative point %s[%s] has StartTime %s after Time %s", kn, name, c08ts(p.start), c08ts(p.time))
		}
		if !st.cHaveStart {
			st.cStart, st.cHaveStart = p.start, true
		} else if !p.start.Equal(st.cStart) {
			x.fail("cumulative-start-moved|"+kn, "cumulative point %s[%s] has StartTime %s, earlier cumulative points of this stream had %s", kn, name, c08ts(p.start), c08ts(st.cStart))
		}
	}
}

func c08ts(t time.Time) string { return t.Format("15:04:05.000000000") }

// checkKept: a collection that was handed out must not change when the history goes on
// (each Collect got its own ResourceMetrics, so the SDK has no licence to reuse it).
func (x *c08exec) checkKept() {
	for _, k := range x.kept {
		now, _ := c08parse(k.rm)
		names := make([]string, 0, len(k.snap))
		for n := range k.snap {
			names = append(names, n)
		}
		sort.Strings(names)
		for _, n := range names {
			if !k.snap[n].identical(now[n]) {
				was, is := k.snap[n].canon(), now[n].canon()
				x.fail("collected-data-changed-later|"+n+"/"+k.label, "the %s reader's collection #%d reported %s as <%s>; after the rest of the history the same ResourceMetrics reads <%s>", k.label, k.n, n, was, is)
			}
		}
	}
}

// ---------------------------------------------------------------------------
// search

// regState of the multi-instrument callback as far as enabledness is concerned
type c08reg struct{ ever, live bool }

func (j *c08job) regAfter(h []c08cycle) c08reg {
	var s c08reg
	for _, c := range h {
		for _, e := range c.ev {
			s = j.regStep(s, e)
		}
	}
	return s
}

func (j *c08job) regStep(s c08reg, e uint8) c08reg {
	switch j.syms[e].op {
	case c08opReg:
		return c08reg{true, true}
	case c08opUnreg:
		return c08reg{s.ever, false}
	}
	return s
}

// enabled: a callback is registered only while none is (two registrations would observe
// the same attribute set twice); Unregister needs a registration and may be repeated.
func (j *c08job) enabled(s c08reg, e uint8) bool {
	switch j.syms[e].op {
	case c08opReg:
		return !s.live
	case c08opUnreg:
		return s.ever
	}
	return true
}

// words enumerates every enabled event sequence of length <= max, shortest first, in
// alphabet order.
func (j *c08job) words(start c08reg, max int, f func(w []uint8) bool) {
	for l := 0; l <= max; l++ {
		w := make([]uint8, l)
		var rec func(pos int, s c08reg) bool
		rec = func(pos int, s c08reg) bool {
			if pos == l {
				return f(w)
			}
			for e := range j.syms {
				if !j.enabled(s, uint8(e)) {
					continue
				}
				w[pos] = uint8(e)
				if !rec(pos+1, j.regStep(s, uint8(e))) {
					return false
				}
			}
			return true
		}
		if !rec(0, start) {
			return
		}
	}
}

func (j *c08job) search() {
	r := j.r
	seen := map[string]struct{}{}
	frontier := [][]c08cycle{nil}
	cycles := len(j.perCycle)
	newAtLast := int64(0)
	defer func() {
		r.Count("states_first_seen_at_last_level/"+c08family(j.name)+"/"+c08numName(j.isInt)+"/"+c08modeName(j.reuse), newAtLast)
	}()
	for level := 1; level <= cycles; level++ {
		var next [][]c08cycle
		lastLevel := level == cycles
		// only the last level is divided between the shards; the levels below are
		// recomputed by every shard and counted by shard 0
		counted := lastLevel || j.shard == 0
		for fi, h := range frontier {
			if lastLevel && j.shards > 1 && fi%j.shards != j.shard {
				continue
			}
			stop := false
			j.words(j.regAfter(h), j.perCycle[level-1], func(w []uint8) bool {
				for sg := range j.sigmas {
					if r.Expired() {
						stop = true
						return false
					}
					if !r.Want() {
						continue
					}
					hist := make([]c08cycle, len(h)+1)
					copy(hist, h)
					hist[len(h)] = c08cycle{ev: append([]uint8(nil), w...), sg: uint8(sg)}
					x := &c08exec{j: j, hist: hist}
					key := x.run()
					if counted {
						r.Transition()
						r.Sample(func() any { return x.desc() })
					} else {
						r.Count("histories_reexecuted_by_shard", 1)
					}
					if key == "" {
						continue
					}
					r.OutcomeHash(enum.Hash(key))
					if _, dup := seen[key]; dup {
						continue
					}
					seen[key] = struct{}{}
					if counted {
						r.AddStates(1)
					}
					if lastLevel {
						// 0 over all shards of a job family: every reachable canonical state was
						// expanded, the state graph is closed under the alphabet
						newAtLast++
					}
					if !lastLevel {
						next = append(next, hist)
					}
				}
				return true
			})
			if stop {
				return
			}
		}
		frontier = next
	}
}

func TestVerifC08(t *testing.T) {
	thorough := os.Getenv("VERIF_TIER") == "thorough"
	jobs := c08jobs(thorough)
	names := make([]string, len(jobs))
	for i, j := range jobs {
		names[i] = j.name
	}
	enum.Jobs(names, func(job string) {
		r := enum.Start("C08", "views")
		defer r.Finish()
		otel.SetLogger(logr.Discard())
		otel.SetErrorHandler(otel.ErrorHandlerFunc(func(error) { r.Count("errors_passed_to_otel_handle", 1) }))
		var j *c08job
		for _, c := range jobs {
			if c.name == job {
				j = c
			}
		}
		j.r = r
		r.Bound("cycles", len(j.perCycle))
		r.Bound("max_events_per_cycle/"+c08family(j.name), j.perCycle)
		r.Bound("event_alphabet/"+c08family(j.name)+"/"+c08numName(j.isInt), c08symNames(j.syms))
		if j.hasAsync {
			var sn []string
			for _, s := range j.sigmas {
				sn = append(sn, s.name)
			}
			r.Bound("callback_observation_maps/"+c08family(j.name)+"/"+c08numName(j.isInt), sn)
		}
		r.Bound("attribute_sets", c08setDesc)
		r.Bound("expohistogram_view", "Base2ExponentialHistogram{MaxSize:4, MaxScale:20}")
		r.Bound("collect_modes", []string{"fresh ResourceMetrics per Collect, delta reader first", "reused ResourceMetrics, cumulative reader first"})
		if j.sel != nil {
			r.Bound("third_reader_temporality_selector/"+j.sel.name, j.sel.describe())
		}
		r.Section(job)

		if r.Replaying() {
			var rp c08replay
			if err := json.Unmarshal(r.ReplayData(), &rp); err != nil {
				panic(err)
			}
			var hist []c08cycle
			for _, rc := range rp.Cycles {
				var c c08cycle
				for _, en := range rc.Events {
					idx := -1
					for i := range j.syms {
						if j.syms[i].name == en {
							idx = i
						}
					}
					if idx < 0 {
						panic("unknown event in replay: " + en)
					}
					c.ev = append(c.ev, uint8(idx))
				}
				sg := -1
				for i := range j.sigmas {
					if j.sigmas[i].name == rc.Observed {
						sg = i
					}
				}
				if sg < 0 {
					panic("unknown observation map in replay: " + rc.Observed)
				}
				c.sg = uint8(sg)
				hist = append(hist, c)
			}
			x := &c08exec{j: j, hist: hist}
			x.run()
			return
		}
		j.search()
	})
}

func c08family(job string) string { return strings.SplitN(job, "/", 2)[0] }

func c08symNames(syms []c08sym) []string {
	out := make([]string, len(syms))
	for i := range syms {
		out[i] = syms[i].name
	}
	return out
}
