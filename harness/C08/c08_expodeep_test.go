package metric_test

// C08 — exponential histograms, deep histories. The main unit keeps cycles short (<= 3 events);
// bucket re-use bugs need a sign's buckets to be FULL before a value forces a downscale. Here:
// every word of length <= 6 (thorough 7) over {2, 4, 8, 16, 256, -2, 0} recorded into one
// exponential histogram (MaxSize 4; MaxScale 0 and 20), read by a delta and a cumulative
// ManualReader after every k-th measurement for k in {1, 2, 3, 4}: after every collection the
// cumulative count, zero count and per-bucket counts must equal the running total of the delta
// points (buckets brought to the coarser of the two scales), and each point's buckets must sum to
// its count.

import (
	"context"
	"fmt"
	"testing"

	sdk "go.opentelemetry.io/otel/sdk/metric"
	"go.opentelemetry.io/otel/sdk/metric/metricdata"
	"verif/mc/enum"
)

type c08dHist struct {
	scale    int32
	pos, neg map[int32]uint64
	zero     uint64
	count    uint64
	present  bool
}

func c08dRead(rm *metricdata.ResourceMetrics) (h c08dHist) {
	h.pos, h.neg = map[int32]uint64{}, map[int32]uint64{}
	for _, sm := range rm.ScopeMetrics {
		for _, m := range sm.Metrics {
			d, ok := m.Data.(metricdata.ExponentialHistogram[float64])
			if !ok || len(d.DataPoints) == 0 {
				continue
			}
			p := d.DataPoints[0]
			h.present, h.scale, h.zero, h.count = true, p.Scale, p.ZeroCount, p.Count
			for i, c := range p.PositiveBucket.Counts {
				if c != 0 {
					h.pos[p.PositiveBucket.Offset+int32(i)] += c
				}
			}
			for i, c := range p.NegativeBucket.Counts {
				if c != 0 {
					h.neg[p.NegativeBucket.Offset+int32(i)] += c
				}
			}
		}
	}
	return
}

func c08dRescale(m map[int32]uint64, from, to int32) map[int32]uint64 {
	out := map[int32]uint64{}
	for i, c := range m {
		out[i>>uint(from-to)] += c
	}
	return out
}

func c08dSum(m map[int32]uint64) (s uint64) {
	for _, c := range m {
		s += c
	}
	return
}

func TestVerifC08ExpoDeep(t *testing.T) {
	alphabet := []float64{2, 4, 8, 16, 256, -2, 0}
	// the default size: buckets grow long at a fine scale, are shortened by a downscale (values an
	// octave apart, one in between), and are then extended far downwards (values 4 and 11 octaves
	// below) or upwards within what the shortened slice still has room for
	wide := []float64{2, 1, 1.5, 0.125, 6, 1e-3, -1.5, 0}
	var jobs []string
	for _, ms := range []int32{0, 20} {
		for first := range alphabet {
			jobs = append(jobs, fmt.Sprintf("expodeep/maxscale=%d/first=%d", ms, first))
		}
	}
	for first := range wide {
		jobs = append(jobs, fmt.Sprintf("expodeep/maxscale=%d/first=%d/size=160", 20, first))
	}
	enum.Jobs(jobs, func(job string) {
		r := enum.Start("C08", "expodeep")
		defer r.Finish()
		r.Section(job)
		var maxScale, maxSize int32
		var first int
		alphabet := alphabet
		maxLen := enum.Pick(r, 6, 7)
		if n, _ := fmt.Sscanf(job, "expodeep/maxscale=%d/first=%d/size=%d", &maxScale, &first, &maxSize); n == 3 {
			alphabet = wide
			maxLen = enum.Pick(r, 5, 6)
			r.Bound("expodeep_alphabet_size160", alphabet)
			r.Bound("expodeep_max_len_size160", maxLen)
		} else {
			maxSize = 4
		}
		if maxSize == 4 {
			r.Bound("expodeep_alphabet", alphabet)
			r.Bound("expodeep_max_len", maxLen)
		}
		ctx := context.Background()
		for L := 1; L <= maxLen; L++ {
			word := make([]int, L)
			word[0] = first
			var rec func(i int)
			rec = func(i int) {
				if r.Expired() {
					return
				}
				if i < L {
					for a := range alphabet {
						word[i] = a
						rec(i + 1)
					}
					return
				}
				for _, every := range []int{1, 2, 3, 4} {
					if every > L && every != 1 {
						continue
					}
					if !r.Want() {
						continue
					}
					cas := map[string]any{"max_scale": maxScale, "max_size": maxSize, "collect_every": every, "values": func() (v []float64) {
						for _, w := range word {
							v = append(v, alphabet[w])
						}
						return
					}()}
					deltaSel := func(sdk.InstrumentKind) metricdata.Temporality { return metricdata.DeltaTemporality }
					dr := sdk.NewManualReader(sdk.WithTemporalitySelector(deltaSel))
					cr := sdk.NewManualReader()
					mp := sdk.NewMeterProvider(sdk.WithReader(dr), sdk.WithReader(cr),
						sdk.WithView(sdk.NewView(sdk.Instrument{Name: "h"}, sdk.Stream{Aggregation: sdk.AggregationBase2ExponentialHistogram{MaxSize: maxSize, MaxScale: maxScale}})))
					h, _ := mp.Meter("m").Float64Histogram("h")
					// running totals of the delta points, kept at the coarsest scale seen
					run := c08dHist{scale: 100, pos: map[int32]uint64{}, neg: map[int32]uint64{}}
					var drm, crm metricdata.ResourceMetrics // reused destinations, like a periodic reader's pool
					for i, w := range word {
						h.Record(ctx, alphabet[w])
						if (i+1)%every != 0 && i != L-1 {
							continue
						}
						r.Eval()
						_ = dr.Collect(ctx, &drm)
						_ = cr.Collect(ctx, &crm)
						d, c := c08dRead(&drm), c08dRead(&crm)
						if d.present {
							if c08dSum(d.pos)+c08dSum(d.neg)+d.zero != d.count {
								r.FailHere("expodeep|delta point inconsistent", cas, "after %d measurements the delta point has count %d but zero %d + positive %v + negative %v", i+1, d.count, d.zero, d.pos, d.neg)
							}
							to := run.scale
							if d.scale < to {
								to = d.scale
							}
							if run.scale != 100 {
								run.pos, run.neg = c08dRescale(run.pos, run.scale, to), c08dRescale(run.neg, run.scale, to)
							}
							dp, dn := c08dRescale(d.pos, d.scale, to), c08dRescale(d.neg, d.scale, to)
							for k, v := range dp {
								run.pos[k] += v
							}
							for k, v := range dn {
								run.neg[k] += v
							}
							run.scale = to
							run.zero += d.zero
							run.count += d.count
						}
						if !c.present {
							r.FailHere("expodeep|cumulative point missing", cas, "no cumulative point after %d measurements", i+1)
							break
						}
						if c08dSum(c.pos)+c08dSum(c.neg)+c.zero != c.count {
							r.FailHere("expodeep|cumulative point inconsistent", cas, "after %d measurements the cumulative point has count %d but zero %d + positive %v + negative %v", i+1, c.count, c.zero, c.pos, c.neg)
						}
						to := run.scale
						if c.scale < to {
							to = c.scale
						}
						rp, rn := c08dRescale(run.pos, run.scale, to), c08dRescale(run.neg, run.scale, to)
						cp, cn := c08dRescale(c.pos, c.scale, to), c08dRescale(c.neg, c.scale, to)
						if c.count != run.count || c.zero != run.zero || fmt.Sprint(cp) != fmt.Sprint(rp) || fmt.Sprint(cn) != fmt.Sprint(rn) {
							r.FailHere("expodeep|running-total", cas, "after %d measurements cumulative (count %d zero %d pos %v neg %v at scale %d) != running total of deltas (count %d zero %d pos %v neg %v)", i+1, c.count, c.zero, cp, cn, to, run.count, run.zero, rp, rn)
						}
						r.Outcome(fmt.Sprint(c.scale, c.count, cp, cn))
					}
					_ = mp.Shutdown(ctx)
					r.Sample(func() any { return cas })
				}
			}
			rec(1)
		}
	})
}
