package metric_test

// C08 (unit "views", job families "selector" and "selector-onekind") — temporality selectors that
// depend on the instrument kind.
//
// The other jobs give a reader one temporality for every instrument kind. Deployed readers use
// selectors that answer per kind (the OTLP exporters' "delta" preference: delta for Counter,
// Histogram and ObservableCounter, cumulative for the rest; "lowmemory": delta for Counter and
// Histogram only). Here the provider has a THIRD ManualReader with such a selector next to the
// all-delta and the all-cumulative reader, the meter holds all eight instruments of the mixed jobs
// (seven instrument kinds; the explicit and the exponential histogram are both kind Histogram), and
// all three readers are collected at the same points of every history.
//
// Each instrument is judged for the temporality the selector gave ITS kind, with the reference of
// the main file and a reference bookkeeping of its own:
//
//   - kind selected delta: the third reader's stream takes the place of the delta reader's and is
//     judged together with the plain cumulative reader: labelled delta, every point equals the
//     aggregate of its interval (it resets), intervals are adjacent (start = the third reader's
//     previous collection of that stream), and the plain cumulative value is the running total of
//     the third reader's delta points;
//   - kind selected cumulative: the third reader's stream takes the place of the cumulative reader's
//     and is judged together with the plain delta reader: labelled cumulative, the value is the
//     running total of the plain reader's delta points (it accumulates), one fixed start;
//   - gauges (no temporality field): a synchronous gauge selected delta reports exactly the sets
//     recorded in the cycle, selected cumulative the last value recorded; an observable gauge the
//     sets observed in the cycle either way.
//
// The pass of the third reader runs only while the two plain readers agreed with the reference at
// every collection of the history so far, so a finding of this pass (key prefix "kind-selector|")
// concerns the third reader.

import (
	"fmt"
	"strings"
	"time"

	sdk "go.opentelemetry.io/otel/sdk/metric"
	"go.opentelemetry.io/otel/sdk/metric/metricdata"
)

// c08sdkKinds: the seven instrument kinds a selector is asked about, in declaration order.
var c08sdkKinds = []sdk.InstrumentKind{
	sdk.InstrumentKindCounter, sdk.InstrumentKindUpDownCounter, sdk.InstrumentKindHistogram, sdk.InstrumentKindGauge,
	sdk.InstrumentKindObservableCounter, sdk.InstrumentKindObservableUpDownCounter, sdk.InstrumentKindObservableGauge,
}

var c08sdkKindName = map[sdk.InstrumentKind]string{
	sdk.InstrumentKindCounter: "Counter", sdk.InstrumentKindUpDownCounter: "UpDownCounter", sdk.InstrumentKindHistogram: "Histogram",
	sdk.InstrumentKindGauge: "Gauge", sdk.InstrumentKindObservableCounter: "ObservableCounter",
	sdk.InstrumentKindObservableUpDownCounter: "ObservableUpDownCounter", sdk.InstrumentKindObservableGauge: "ObservableGauge",
}

// sdkKind is the instrument kind the SDK is expected to consult the selector with.
func (k c08kind) sdkKind() sdk.InstrumentKind {
	switch k {
	case c08Counter:
		return sdk.InstrumentKindCounter
	case c08UpDown:
		return sdk.InstrumentKindUpDownCounter
	case c08Hist, c08EHist:
		return sdk.InstrumentKindHistogram
	case c08Gauge:
		return sdk.InstrumentKindGauge
	case c08OCounter:
		return sdk.InstrumentKindObservableCounter
	case c08OUpDown:
		return sdk.InstrumentKindObservableUpDownCounter
	}
	return sdk.InstrumentKindObservableGauge
}

// c08selector is a temporality selector written out as a table: delta for the listed kinds,
// cumulative for every other argument (also for a kind that is none of the seven).
type c08selector struct {
	name  string
	delta map[sdk.InstrumentKind]bool
}

func (s *c08selector) temporality(k sdk.InstrumentKind) metricdata.Temporality {
	if s.delta[k] {
		return metricdata.DeltaTemporality
	}
	return metricdata.CumulativeTemporality
}

func (s *c08selector) selector() sdk.TemporalitySelector {
	return func(k sdk.InstrumentKind) metricdata.Temporality { return s.temporality(k) }
}

func (s *c08selector) describe() string {
	var dl, cm []string
	for _, k := range c08sdkKinds {
		if s.delta[k] {
			dl = append(dl, c08sdkKindName[k])
		} else {
			cm = append(cm, c08sdkKindName[k])
		}
	}
	return fmt.Sprintf("%s: delta for {%s}, cumulative for {%s}", s.name, strings.Join(dl, ", "), strings.Join(cm, ", "))
}

func c08newSelector(name string, delta ...sdk.InstrumentKind) *c08selector {
	s := &c08selector{name: name, delta: map[sdk.InstrumentKind]bool{}}
	for _, k := range delta {
		s.delta[k] = true
	}
	return s
}

// c08namedSelectors: the two uniform selectors, the two kind-dependent preferences of the OTLP
// exporters (tables written out here, not imported), and the complement of the first of them.
func c08namedSelectors() []*c08selector {
	return []*c08selector{
		c08newSelector("all-delta", c08sdkKinds...),
		c08newSelector("all-cumulative"),
		c08newSelector("delta-preference", sdk.InstrumentKindCounter, sdk.InstrumentKindHistogram, sdk.InstrumentKindObservableCounter),
		c08newSelector("low-memory", sdk.InstrumentKindCounter, sdk.InstrumentKindHistogram),
		c08newSelector("inverse-preference", sdk.InstrumentKindUpDownCounter, sdk.InstrumentKindObservableUpDownCounter,
			sdk.InstrumentKindGauge, sdk.InstrumentKindObservableGauge),
	}
}

// c08oneKindSelectors: for every kind, delta for that kind alone and delta for every kind but
// that one (each kind is told apart from each other kind by some selector of the list).
func c08oneKindSelectors() []*c08selector {
	var out []*c08selector
	for _, k := range c08sdkKinds {
		out = append(out, c08newSelector("only-"+c08sdkKindName[k]+"-delta", k))
	}
	for _, k := range c08sdkKinds {
		var rest []sdk.InstrumentKind
		for _, o := range c08sdkKinds {
			if o != k {
				rest = append(rest, o)
			}
		}
		out = append(out, c08newSelector("only-"+c08sdkKindName[k]+"-cumulative", rest...))
	}
	return out
}

// c08selectorJobs appends the jobs of the two families.
//
//	                  quick                                        thorough
//	selector          2,1  int64 and float64, fresh and reuse      2,1,1 (2 shards), all four
//	selector-onekind  1,1  int64/fresh and float64/reuse           2,1, all four
func c08selectorJobs(thorough bool, add func(j *c08job, shards int)) {
	type combo struct{ isInt, reuse bool }
	all := []combo{{true, false}, {false, false}, {true, true}, {false, true}}
	for _, s := range c08namedSelectors() {
		for _, c := range all {
			j := c08mixedJob("selector/"+c08numName(c.isInt)+"/"+c08modeName(c.reuse)+"/"+s.name, c.isInt, c.reuse)
			j.sel = s
			if thorough {
				j.perCycle = []int{2, 1, 1}
				add(j, 2)
			} else {
				j.perCycle = []int{2, 1}
				add(j, 1)
			}
		}
	}
	few := []combo{{true, false}, {false, true}}
	for _, s := range c08oneKindSelectors() {
		cs := few
		if thorough {
			cs = all
		}
		for _, c := range cs {
			j := c08mixedJob("selector-onekind/"+c08numName(c.isInt)+"/"+c08modeName(c.reuse)+"/"+s.name, c.isInt, c.reuse)
			j.sel = s
			j.perCycle = []int{1, 1}
			if thorough {
				j.perCycle = []int{2, 1}
			}
			add(j, 1)
		}
	}
}

// judgeSelector judges what the third reader reported at one collection point: every instrument
// against the reference for the temporality the selector gives its kind (see the head of the file).
func (x *c08exec) judgeSelector(d, c, k c08snap, sg *c08sigma, d0, d1, k0, k1 time.Time) {
	sel := x.j.sel
	defer func() { x.keyPfx, x.note = "", "" }()
	for _, st := range x.streamsK {
		name := st.kind.String()
		sk := st.kind.sdkKind()
		want := sel.temporality(sk)
		x.keyPfx = "kind-selector|" + sel.name + "|"
		if want == metricdata.DeltaTemporality {
			x.note = fmt.Sprintf("[third reader, selector %s; kind %s is selected DELTA: its %s stream is judged in the place of the delta reader's, next to the plain cumulative reader] ", sel.describe(), c08sdkKindName[sk], name)
			x.judge(st, k[name], c[name], sg, k0, k1)
		} else {
			x.note = fmt.Sprintf("[third reader, selector %s; kind %s is selected CUMULATIVE: its %s stream is judged in the place of the cumulative reader's, next to the plain delta reader] ", sel.describe(), c08sdkKindName[sk], name)
			x.judge(st, d[name], k[name], sg, d0, d1)
		}
	}
	x.keyPfx, x.note = "kind-selector|"+sel.name+"|", "[third reader, selector "+sel.describe()+"] "
	for name := range k {
		if !x.known(name) {
			x.fail("unknown-metric|selector reader", "metric %q was never created", name)
		}
	}
}
