package metric_test

// C08 (unit "multicb") — several multi-instrument callbacks on one meter. The main unit has one
// registration at a time; here three callbacks, each observing its OWN attribute set on one
// observable counter and one observable gauge, are registered and unregistered in every order:
// every history of <= 5 (thorough 6) events over {Register(i), Unregister(i), collect}, read by a
// delta and a cumulative ManualReader at every collect. Each cycle must report exactly the
// attribute sets of the callbacks registered at that moment (Unregister may be repeated on a
// registration that is already gone: it is documented as idempotent); the cumulative counter value is the
// observed value, the delta is the observed value minus the value observed in the preceding cycle
// (the whole value if the set was not observed then); the gauge reports the observed value.

import (
	"context"
	"fmt"
	"sort"
	"strings"
	"testing"

	"go.opentelemetry.io/otel/attribute"
	"go.opentelemetry.io/otel/metric"
	sdk "go.opentelemetry.io/otel/sdk/metric"
	"go.opentelemetry.io/otel/sdk/metric/metricdata"
	"verif/mc/enum"
)

const c08mN = 3 // callbacks

func c08mPoints(rm *metricdata.ResourceMetrics, name string) (map[string]int64, bool) {
	out := map[string]int64{}
	found := false
	for _, sm := range rm.ScopeMetrics {
		for _, m := range sm.Metrics {
			if m.Name != name {
				continue
			}
			found = true
			switch d := m.Data.(type) {
			case metricdata.Sum[int64]:
				for _, p := range d.DataPoints {
					v, _ := p.Attributes.Value("cb")
					out[v.Emit()] += p.Value
				}
			case metricdata.Gauge[int64]:
				for _, p := range d.DataPoints {
					v, _ := p.Attributes.Value("cb")
					out[v.Emit()] += p.Value
				}
			}
		}
	}
	return out, found
}

func c08mShow(m map[string]int64) string {
	var ks []string
	for k := range m {
		ks = append(ks, k)
	}
	sort.Strings(ks)
	var p []string
	for _, k := range ks {
		p = append(p, fmt.Sprintf("cb%s=%d", k, m[k]))
	}
	return "{" + strings.Join(p, " ") + "}"
}

// c08mRun executes one history. Events: 0..2 Register(i), 3..5 Unregister(i), 6 collect.
func c08mRun(r *enum.R, hist []int) {
	ctx := context.Background()
	deltaR := sdk.NewManualReader(sdk.WithTemporalitySelector(func(sdk.InstrumentKind) metricdata.Temporality { return metricdata.DeltaTemporality }))
	cumR := sdk.NewManualReader()
	mp := sdk.NewMeterProvider(sdk.WithReader(deltaR), sdk.WithReader(cumR))
	defer func() { _ = mp.Shutdown(ctx) }()
	meter := mp.Meter("c08m")
	ctr, _ := meter.Int64ObservableCounter("oc")
	gau, _ := meter.Int64ObservableGauge("og")
	cycle := 0
	var regs [c08mN]metric.Registration
	var live [c08mN]bool
	value := func(i int) int64 { return int64(1000*(i+1) + 7*cycle) }
	var names []string
	desc := func() any { return map[string]any{"events": append([]string{}, names...)} }
	prevObserved := map[string]int64{} // counter values observed in the preceding cycle
	for _, e := range hist {
		switch {
		case e < c08mN:
			i := e
			names = append(names, fmt.Sprintf("Register(cb%d)", i))
			reg, err := meter.RegisterCallback(func(_ context.Context, o metric.Observer) error {
				o.ObserveInt64(ctr, value(i), metric.WithAttributes(attribute.Int("cb", i)))
				o.ObserveInt64(gau, -value(i), metric.WithAttributes(attribute.Int("cb", i)))
				return nil
			}, ctr, gau)
			if err != nil {
				r.FailHere("multicb|RegisterCallback error", desc(), "%v", err)
				return
			}
			regs[i], live[i] = reg, true
		case e < 2*c08mN:
			i := e - c08mN
			names = append(names, fmt.Sprintf("Unregister(cb%d)", i))
			if err := regs[i].Unregister(); err != nil {
				r.FailHere("multicb|Unregister error", desc(), "%v", err)
				return
			}
			live[i] = false
		default:
			names = append(names, "collect")
			cycle++
			wantCum, wantDelta, wantGauge := map[string]int64{}, map[string]int64{}, map[string]int64{}
			for i := 0; i < c08mN; i++ {
				if live[i] {
					k := fmt.Sprint(i)
					wantCum[k] = value(i)
					wantDelta[k] = value(i) - prevObserved[k]
					wantGauge[k] = -value(i)
				}
			}
			for ri, rd := range []*sdk.ManualReader{deltaR, cumR} {
				r.Eval()
				var rm metricdata.ResourceMetrics
				if err := rd.Collect(ctx, &rm); err != nil {
					r.FailHere("multicb|collect error", desc(), "Collect: %v", err)
					return
				}
				which, want := "delta", wantDelta
				if ri == 1 {
					which, want = "cumulative", wantCum
				}
				got, _ := c08mPoints(&rm, "oc")
				if c08mShow(got) != c08mShow(want) {
					cls := "values"
					if len(got) != len(want) {
						cls = "attribute sets reported differ from the callbacks registered"
					}
					r.FailHere("multicb|observable counter|"+which+"|"+cls, desc(), "cycle %d, %s reader reports %s, the registered callbacks observed %s (expected %s)", cycle, which, c08mShow(got), c08mShow(wantCum), c08mShow(want))
				}
				gg, _ := c08mPoints(&rm, "og")
				if c08mShow(gg) != c08mShow(wantGauge) {
					r.FailHere("multicb|observable gauge|"+which, desc(), "cycle %d, %s reader reports %s, expected %s", cycle, which, c08mShow(gg), c08mShow(wantGauge))
				}
			}
			prevObserved = wantCum
		}
	}
	r.Outcome(fmt.Sprint(hist))
}

func TestVerifC08MultiCB(t *testing.T) {
	var jobs []string
	for i := 0; i < c08mN; i++ {
		jobs = append(jobs, fmt.Sprintf("multicb/first=Register(cb%d)", i))
	}
	enum.Jobs(jobs, func(job string) {
		r := enum.Start("C08", "multicb")
		defer r.Finish()
		var first int
		fmt.Sscanf(job, "multicb/first=Register(cb%d)", &first)
		maxLen := enum.Pick(r, 6, 7)
		r.Bound("multicb_callbacks", c08mN)
		r.Bound("multicb_max_events", maxLen)
		r.Section(job)
		// histories: every enabled event sequence that starts with Register(first) and ends with a collect
		// Unregister(i) is enabled once callback i has been registered at all: a second Unregister of
		// the same registration (the API documents it as idempotent) is part of the alphabet
		var rec func(hist []int, live, ever [c08mN]bool)
		rec = func(hist []int, live, ever [c08mN]bool) {
			if r.Expired() {
				return
			}
			if hist[len(hist)-1] == 2*c08mN && r.Want() {
				c08mRun(r, hist)
				r.Sample(func() any { return map[string]any{"events": fmt.Sprint(hist)} })
			}
			if len(hist) == maxLen {
				return
			}
			for e := 0; e <= 2*c08mN; e++ {
				l, ev := live, ever
				switch {
				case e < c08mN:
					if live[e] {
						continue
					}
					l[e], ev[e] = true, true
				case e < 2*c08mN:
					if !ever[e-c08mN] {
						continue
					}
					l[e-c08mN] = false
				}
				rec(append(append([]int{}, hist...), e), l, ev)
			}
		}
		var live [c08mN]bool
		live[first] = true
		rec([]int{first}, live, live)
	})
}
