package metric_test

import "testing"

// C08 (unit "abandon"): see harness/common/vabandon_test.go.
func TestVerifC08Abandon(t *testing.T) { vAbandonRun(t, "C08") }
