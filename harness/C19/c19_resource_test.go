package resource_test

// C19 — resource merging is a right-biased union with well-defined schema handling.
//
// Bounded-exhaustive enumeration of the real sdk/resource functions against a map model:
//
//   lists     every attribute list up to a length over {a,b,""} x {1,2} through
//             NewSchemaless / NewWithAttributes (only valid keys kept)
//   pairs     every ordered pair of resources (all small attribute sets x schema URLs, one
//             list with an invalid key, nil, Empty()) through Merge: union with right bias,
//             identity, idempotence, schema rule, operands unchanged, equal => equal identity
//   triples   every ordered triple: associativity on attributes, every intermediate Merge
//             checked against the model as well
//   envchars  every string up to a length over {k j = , space % 2 0 v} as
//             OTEL_RESOURCE_ATTRIBUTES x OTEL_SERVICE_NAME in {unset, "", "svc"}
//   envtokens every token sequence up to a length over a token alphabet that can spell
//             service.name, %2C, %3D, %25, multi-byte escapes, tabs and '+'
//   detect    every sequence of scripted detectors through Detect and New
//
// The model is maps and a hand-written percent-decoder; nothing of the implementation
// (attribute.Set, net/url, strings.Split/Cut/TrimSpace) is used to compute expectations.

import (
	"context"
	"errors"
	"fmt"
	"os"
	"sort"
	"strconv"
	"strings"
	"testing"

	"go.opentelemetry.io/otel"
	"go.opentelemetry.io/otel/attribute"
	"go.opentelemetry.io/otel/sdk/resource"
	"verif/mc/enum"
)

const (
	c19s1 = "https://verif.test/schemas/1.0.0"
	c19s2 = "https://verif.test/schemas/2.0.0"

	c19AttrVar = "OTEL_RESOURCE_ATTRIBUTES"
	c19SvcVar  = "OTEL_SERVICE_NAME"
)

// value alphabet of the merge algebra (index 2 only in the thorough tier)
var c19vals = []attribute.Value{attribute.IntValue(1), attribute.IntValue(2), attribute.StringValue("")}

func c19vstr(v attribute.Value) string { return v.Type().String() + ":" + v.Emit() }

var c19valStr = func() []string {
	out := make([]string, len(c19vals))
	for i, v := range c19vals {
		out[i] = c19vstr(v)
	}
	return out
}()

// ---------------------------------------------------------------------------------------
// model of a resource: key -> value index, plus schema URL

type mres struct {
	attrs  map[string]int
	schema string
}

func sortedKeys[V any](m map[string]V) []string {
	ks := make([]string, 0, len(m))
	for k := range m {
		ks = append(ks, k)
	}
	sort.Strings(ks)
	return ks
}

func canonModel(m map[string]int) string {
	var b strings.Builder
	for _, k := range sortedKeys(m) {
		b.WriteString(strconv.Quote(k))
		b.WriteByte('=')
		b.WriteString(c19valStr[m[k]])
		b.WriteByte(';')
	}
	return b.String()
}

// canonKVs renders an attribute list order-independently (the order of Attributes() is
// not judged); a key listed twice stays visible.
func canonKVs(kvs []attribute.KeyValue) string {
	xs := make([]string, len(kvs))
	for i, kv := range kvs {
		xs[i] = strconv.Quote(string(kv.Key)) + "=" + c19vstr(kv.Value) + ";"
	}
	sort.Strings(xs)
	return strings.Join(xs, "")
}

func canonReal(r *resource.Resource) string { return canonKVs(r.Attributes()) }

func modelKVs(m map[string]int) []attribute.KeyValue {
	var kvs []attribute.KeyValue
	for _, k := range sortedKeys(m) {
		kvs = append(kvs, attribute.KeyValue{Key: attribute.Key(k), Value: c19vals[m[k]]})
	}
	return kvs
}

// ---------------------------------------------------------------------------------------
// resource descriptors

const (
	kBuilt = iota
	kNil
	kEmpty
)

type lkv struct {
	key string
	val int
}

type rdesc struct {
	kind   int
	list   []lkv // as handed to the constructor; may contain an invalid (empty) key
	schema string
}

func (d rdesc) String() string {
	switch d.kind {
	case kNil:
		return "nil"
	case kEmpty:
		return "Empty()"
	}
	var xs []string
	for _, e := range d.list {
		xs = append(xs, fmt.Sprintf("%q=%s", e.key, c19valStr[e.val]))
	}
	s := "[" + strings.Join(xs, ",") + "]"
	if d.schema != "" {
		s += "@" + d.schema
	}
	return s
}

func (d rdesc) model() mres {
	m := mres{attrs: map[string]int{}, schema: d.schema}
	for _, e := range d.list {
		if e.key != "" { // a key is valid iff it is not empty
			m.attrs[e.key] = e.val // last value wins (documented on NewWithAttributes)
		}
	}
	return m
}

func (d rdesc) kvs() []attribute.KeyValue {
	kvs := make([]attribute.KeyValue, len(d.list))
	for i, e := range d.list {
		kvs[i] = attribute.KeyValue{Key: attribute.Key(e.key), Value: c19vals[e.val]}
	}
	return kvs
}

func (d rdesc) build() *resource.Resource {
	switch d.kind {
	case kNil:
		return nil
	case kEmpty:
		return resource.Empty()
	}
	if d.schema == "" {
		return resource.NewSchemaless(d.kvs()...)
	}
	return resource.NewWithAttributes(d.schema, d.kvs()...)
}

// resourceSpace: nil, Empty(), then every attribute set of size <= maxSize over keys x nvals
// values and the invalid-key lists, each under every schema URL; smaller sets first.
func resourceSpace(keys []string, nvals, maxSize int, schemas []string, thorough bool) []rdesc {
	out := []rdesc{{kind: kNil}, {kind: kEmpty}}
	var lists [][]lkv
	for size := 0; size <= maxSize; size++ {
		var rec func(from int, cur []lkv)
		rec = func(from int, cur []lkv) {
			if len(cur) == size {
				lists = append(lists, append([]lkv{}, cur...))
				return
			}
			for k := from; k < len(keys); k++ {
				for v := 0; v < nvals; v++ {
					rec(k+1, append(cur, lkv{keys[k], v}))
				}
			}
		}
		rec(0, nil)
	}
	// lists with an invalid key: the key must be dropped, the rest kept
	lists = append(lists, []lkv{{"", 0}, {"a", 0}})
	if thorough {
		lists = append(lists, []lkv{{"b", 0}, {"", 1}, {"b", 1}})
	}
	for _, l := range lists {
		for _, s := range schemas {
			out = append(out, rdesc{kind: kBuilt, list: l, schema: s})
		}
	}
	return out
}

type opnd struct {
	r    *resource.Resource
	m    mres
	kind int
	desc string
}

func mkOpnd(d rdesc) opnd { return opnd{r: d.build(), m: d.model(), kind: d.kind, desc: d.String()} }

// operandOK reports a wrongly CONSTRUCTED operand under the constructor's oracle, so that the
// merge oracles are not blamed for it (the case is then skipped).
func (c *c19) operandOK(o opnd) bool {
	c.accessors(o)
	if canonReal(o.r) == canonModel(o.m.attrs) && o.r.SchemaURL() == o.m.schema && o.r.Len() == len(o.m.attrs) {
		return true
	}
	c.r.FailHere("list-attrs|merge-operand-construction", map[string]any{"operand": o.desc}, "operand %s was constructed as %s@%q, model %s@%q", o.desc, canonReal(o.r), o.r.SchemaURL(), canonModel(o.m.attrs), o.m.schema)
	return false
}

func c19kind(k int) string { return [...]string{"built", "nil", "Empty()"}[k] }

// accessors: the other views of a resource (Set, Iter, Encoded, Equivalent, String, MarshalJSON, a nil
// receiver everywhere) agree with Attributes() -- they are what "equal resources have equal map
// identities" and every consumer of a merged resource go through.
func (c *c19) accessors(o opnd) {
	defer func() {
		if p := recover(); p != nil {
			c.r.FailHere("accessor-panic|"+c19kind(o.kind), map[string]any{"operand": o.desc}, "an accessor of %s panicked: %v", o.desc, p)
		}
	}()
	ref := attribute.NewSet(o.r.Attributes()...)
	if set := o.r.Set(); set == nil || !set.Equals(&ref) || o.r.Equivalent() != ref.Equivalent() {
		c.r.FailHere("accessors|Set/Equivalent differ from Attributes|"+c19kind(o.kind), map[string]any{"operand": o.desc}, "Set()/Equivalent() of %s do not hold what Attributes() lists", o.desc)
	}
	if got, want := o.r.Encoded(attribute.DefaultEncoder()), ref.Encoded(attribute.DefaultEncoder()); got != want {
		c.r.FailHere("accessors|Encoded differs from Attributes|"+c19kind(o.kind), map[string]any{"operand": o.desc}, "Encoded = %q, the attributes encode as %q", got, want)
	}
	if got, want := o.r.String(), ref.Encoded(attribute.DefaultEncoder()); got != want {
		c.r.FailHere("accessors|String differs from Attributes|"+c19kind(o.kind), map[string]any{"operand": o.desc}, "String = %q, the attributes encode as %q", got, want)
	}
	n := 0
	for it := o.r.Iter(); it.Next(); n++ {
		if v, ok := ref.Value(it.Attribute().Key); !ok || v != it.Attribute().Value {
			c.r.FailHere("accessors|Iter differs from Attributes|"+c19kind(o.kind), map[string]any{"operand": o.desc}, "Iter yields %v", it.Attribute())
		}
	}
	if n != ref.Len() || o.r.Len() != ref.Len() {
		c.r.FailHere("accessors|Iter/Len differ from Attributes|"+c19kind(o.kind), map[string]any{"operand": o.desc}, "Iter visits %d, Len %d, Attributes %d", n, o.r.Len(), ref.Len())
	}
	gj, err := o.r.MarshalJSON()
	wj, _ := ref.MarshalJSON()
	if err != nil || (ref.Len() > 0 && string(gj) != string(wj)) { // how an empty resource is spelled in JSON (null / []) is nobody's business
		c.r.FailHere("accessors|MarshalJSON differs from Attributes|"+c19kind(o.kind), map[string]any{"operand": o.desc}, "MarshalJSON = %s (%v), the attribute set marshals to %s", gj, err, wj)
	}
	before := canonReal(o.r)
	kvs := o.r.Attributes()
	for i := range kvs {
		kvs[i] = attribute.String("scribbled-by-caller", "x")
	}
	if now := canonReal(o.r); now != before {
		c.r.FailHere("accessors|Attributes hands out the resource's own storage|"+c19kind(o.kind), map[string]any{"operand": o.desc}, "writing to the slice returned by Attributes changed the resource: %s -> %s", before, now)
	}
	if !o.r.Equal(o.r) {
		c.r.FailHere("accessors|resource not Equal to itself|"+c19kind(o.kind), map[string]any{"operand": o.desc}, "%s.Equal(itself) is false", o.desc)
	}
}

// ---------------------------------------------------------------------------------------

type c19 struct {
	r *enum.R
}

func schemaRel(a, b string) string {
	switch {
	case a == "" && b == "":
		return "both-empty"
	case a == "":
		return "left-empty"
	case b == "":
		return "right-empty"
	case a == b:
		return "same"
	}
	return "conflict"
}

// mergeDiff names the way a merge result deviates from the union (first deviation in key order).
func mergeDiff(got []attribute.KeyValue, want, a, b map[string]int) string {
	gm := map[string]string{}
	for _, kv := range got {
		if _, dup := gm[string(kv.Key)]; dup {
			return "duplicate-key"
		}
		gm[string(kv.Key)] = c19vstr(kv.Value)
	}
	all := map[string]bool{}
	for k := range gm {
		all[k] = true
	}
	for k := range want {
		all[k] = true
	}
	for _, k := range sortedKeys(all) {
		g, gok := gm[k]
		w, wok := want[k]
		switch {
		case wok && !gok:
			return "attribute-lost"
		case gok && !wok:
			return "attribute-invented"
		case g != c19valStr[w]:
			ai, ina := a[k]
			_, inb := b[k]
			if ina && inb && g == c19valStr[ai] {
				return "left-value-wins-on-shared-key"
			}
			return "wrong-value"
		}
	}
	return ""
}

// merge calls the real Merge and judges the result against the model. same marks
// Merge(x, x) (idempotence). Returns the result as an operand for further merging.
func (c *c19) merge(a, b opnd, same bool, cas func() any) (out opnd, ok bool) {
	r := c.r
	defer func() {
		if p := recover(); p != nil {
			r.FailHere("panic|Merge", cas(), "Merge(%s, %s) panicked: %v", a.desc, b.desc, p)
			ok = false
		}
	}()
	r.Eval()
	got, err := resource.Merge(a.r, b.r)

	// ---- model: union, b wins; schema rule
	want := mres{attrs: make(map[string]int, len(a.m.attrs)+len(b.m.attrs))}
	for k, v := range a.m.attrs {
		want.attrs[k] = v
	}
	for k, v := range b.m.attrs {
		want.attrs[k] = v
	}
	rel := schemaRel(a.m.schema, b.m.schema)
	switch rel {
	case "both-empty", "left-empty":
		want.schema = b.m.schema
	case "right-empty", "same":
		want.schema = a.m.schema
	case "conflict":
		want.schema = ""
	}

	oracle := "merge-union"
	switch {
	case a.kind == kNil && b.kind == kNil:
		oracle = "merge-identity|nil-nil"
	case a.kind == kNil:
		oracle = "merge-identity|nil-left"
	case b.kind == kNil:
		oracle = "merge-identity|nil-right"
	case a.kind == kEmpty:
		oracle = "merge-identity|Empty()-left"
	case b.kind == kEmpty:
		oracle = "merge-identity|Empty()-right"
	case same:
		oracle = "merge-idempotent"
	}
	onConflict := ""
	if rel == "conflict" {
		onConflict = "|on-schema-conflict"
	}

	gotKVs := got.Attributes()
	if canonKVs(gotKVs) != canonModel(want.attrs) || got.Len() != len(want.attrs) {
		d := mergeDiff(gotKVs, want.attrs, a.m.attrs, b.m.attrs)
		if d == "" {
			d = "Len-disagrees"
		}
		r.FailHere(oracle+"|"+d+onConflict, cas(), "Merge(%s, %s) holds %s (Len %d), union with right bias is %s", a.desc, b.desc, canonKVs(gotKVs), got.Len(), canonModel(want.attrs))
	}
	if got.SchemaURL() != want.schema {
		r.FailHere("merge-schema|"+rel, cas(), "Merge(%s, %s) has schema URL %q, rule gives %q", a.desc, b.desc, got.SchemaURL(), want.schema)
	}
	if rel == "conflict" {
		if err == nil || !errors.Is(err, resource.ErrSchemaURLConflict) {
			r.FailHere("merge-error|conflict-not-reported", cas(), "Merge(%s, %s) returned error %v, want one wrapping ErrSchemaURLConflict", a.desc, b.desc, err)
		}
	} else if err != nil {
		r.FailHere("merge-error|spurious|"+rel, cas(), "Merge(%s, %s) returned error %v although the schema URLs do not conflict", a.desc, b.desc, err)
	}
	// equal resources have equal map identities: the merge result against a resource
	// constructed directly from the union
	ref := resource.NewSchemaless(modelKVs(want.attrs)...)
	if canonReal(ref) == canonKVs(gotKVs) {
		if !got.Equal(ref) || !ref.Equal(got) || got.Equivalent() != ref.Equivalent() {
			r.FailHere("equal-identity|merge-result-vs-constructed", cas(), "Merge(%s, %s) and NewSchemaless(%s) hold the same attributes but Equal=%v/%v, same Equivalent=%v", a.desc, b.desc, canonModel(want.attrs), got.Equal(ref), ref.Equal(got), got.Equivalent() == ref.Equivalent())
		}
	}
	e := "ok"
	if err != nil {
		e = "err"
		if errors.Is(err, resource.ErrSchemaURLConflict) {
			e = "conflict"
		}
	}
	r.Outcome("merge:" + canonKVs(gotKVs) + "@" + got.SchemaURL() + "!" + e)
	// The result is handed on as an operand with the model of what it REALLY holds, so that a
	// wrong result is reported once, where it was produced, and not again by later merges.
	have, hok := readBack(got)
	return opnd{r: got, m: have, kind: kBuilt, desc: "Merge(" + a.desc + ", " + b.desc + ")"}, hok
}

// readBack turns a real resource into a model value (ok=false when it holds something the
// model cannot express: a duplicate key or a value outside the alphabet).
func readBack(res *resource.Resource) (mres, bool) {
	m := mres{attrs: map[string]int{}, schema: res.SchemaURL()}
	for _, kv := range res.Attributes() {
		if _, dup := m.attrs[string(kv.Key)]; dup {
			return m, false
		}
		vi := -1
		for i, s := range c19valStr {
			if s == c19vstr(kv.Value) {
				vi = i
			}
		}
		if vi < 0 {
			return m, false
		}
		m.attrs[string(kv.Key)] = vi
	}
	return m, true
}

func (c *c19) checkUnchanged(what string, o opnd, cas func() any) {
	if canonReal(o.r) != canonModel(o.m.attrs) || o.r.SchemaURL() != o.m.schema || o.r.Len() != len(o.m.attrs) {
		c.r.FailHere("merge-mutates-operand|"+what, cas(), "operand %s changed to %s@%q", o.desc, canonReal(o.r), o.r.SchemaURL())
	}
}

// ---------------------------------------------------------------------------------------
// jobs: lists, pairs, triples

func (c *c19) jobLists(maxLen int) {
	r := c.r
	r.Section("lists")
	keys := []string{"a", "b", ""}
	var al []lkv
	for _, k := range keys {
		for v := 0; v < 2; v++ {
			al = append(al, lkv{k, v})
		}
	}
	schemas := []string{"", c19s1}
	ident := map[string]attribute.Distinct{}
	for L := 0; L <= maxLen; L++ {
		var rec func(cur []lkv)
		rec = func(cur []lkv) {
			if len(cur) < L {
				if r.Expired() {
					return
				}
				for _, s := range al {
					rec(append(cur, s))
				}
				return
			}
			for _, schema := range schemas {
				for ctor := 0; ctor < 2; ctor++ {
					if ctor == 1 && schema != "" {
						continue
					}
					if !r.Want() {
						continue
					}
					d := rdesc{kind: kBuilt, list: append([]lkv{}, cur...), schema: schema}
					name := "NewWithAttributes"
					if ctor == 1 {
						name = "NewSchemaless"
					}
					cas := func() any { return map[string]any{"constructor": name, "schema": schema, "list": d.String()} }
					r.Sample(cas)
					c.listCase(d, ctor, name, cas, ident)
				}
			}
		}
		rec(nil)
	}
}

func (c *c19) listCase(d rdesc, ctor int, name string, cas func() any, ident map[string]attribute.Distinct) {
	r := c.r
	defer func() {
		if p := recover(); p != nil {
			r.FailHere("panic|"+name, cas(), "%s(%s) panicked: %v", name, d, p)
		}
	}()
	r.Eval()
	var res *resource.Resource
	if ctor == 1 {
		res = resource.NewSchemaless(d.kvs()...)
	} else {
		res = resource.NewWithAttributes(d.schema, d.kvs()...)
	}
	m := d.model()
	got := res.Attributes()
	if canonKVs(got) != canonModel(m.attrs) || res.Len() != len(m.attrs) {
		class := "other"
		gm := map[string]string{}
		for _, kv := range got {
			gm[string(kv.Key)] = c19vstr(kv.Value)
		}
		if _, has := gm[""]; has {
			class = "invalid-key-kept"
		} else {
			for _, k := range sortedKeys(m.attrs) {
				g, has := gm[k]
				if !has {
					class = "valid-key-lost"
					break
				}
				if g != c19valStr[m.attrs[k]] {
					class = "duplicate-key-not-last-value"
					break
				}
			}
		}
		r.FailHere("list-attrs|"+class, cas(), "%s(%s) holds %s (Len %d), model (valid keys, last value) %s", name, d, canonKVs(got), res.Len(), canonModel(m.attrs))
	}
	if res.SchemaURL() != d.schema {
		r.FailHere("list-schema", cas(), "%s(%s) has schema URL %q", name, d, res.SchemaURL())
	}
	// equal attributes => Equal and equal Equivalent(), whatever list and schema they came from
	ck := canonModel(m.attrs)
	if canonKVs(got) == ck {
		if first, seen := ident[ck]; seen {
			if first != res.Equivalent() {
				r.FailHere("equal-identity|same-attributes-different-lists", cas(), "two resources holding %s have different Equivalent()", ck)
			}
		} else {
			ident[ck] = res.Equivalent()
		}
		ref := resource.NewSchemaless(modelKVs(m.attrs)...)
		if !res.Equal(ref) || !ref.Equal(res) {
			r.FailHere("equal-identity|same-attributes-not-Equal", cas(), "%s(%s) is not Equal to NewSchemaless(%s)", name, d, ck)
		}
	}
	r.Outcome("list:" + canonKVs(got) + "@" + res.SchemaURL())
}

func (c *c19) jobPairs(space []rdesc, section ...string) {
	r := c.r
	if len(section) > 0 {
		r.Section(section[0])
	} else {
		r.Section("pairs")
	}
	for i := range space {
		if r.Expired() {
			return
		}
		for j := range space {
			if !r.Want() {
				continue
			}
			a, b := mkOpnd(space[i]), mkOpnd(space[j])
			cas := func() any { return map[string]any{"a": a.desc, "b": b.desc} }
			r.Sample(cas)
			if !c.operandOK(a) || !c.operandOK(b) {
				continue
			}
			c.merge(a, b, false, cas)
			c.checkUnchanged("left", a, cas)
			c.checkUnchanged("right", b, cas)
			if i == j {
				// idempotence on the very same operand value
				c.merge(a, a, true, cas)
				c.checkUnchanged("both", a, cas)
			}
			// equal resources have equal map identities (schema URLs do not take part)
			func() {
				defer func() {
					if p := recover(); p != nil {
						r.FailHere("panic|Equal", cas(), "Equal/Equivalent panicked on %s, %s: %v", a.desc, b.desc, p)
					}
				}()
				sameAttrs := canonModel(a.m.attrs) == canonModel(b.m.attrs)
				eqAB, eqBA := a.r.Equal(b.r), b.r.Equal(a.r)
				sameID := a.r.Equivalent() == b.r.Equivalent()
				if sameAttrs && !(eqAB && eqBA && sameID) {
					r.FailHere("equal-identity|same-attributes", cas(), "%s and %s hold the same attributes but Equal=%v/%v, same Equivalent=%v", a.desc, b.desc, eqAB, eqBA, sameID)
				}
				if (eqAB || eqBA) && !sameID {
					r.FailHere("equal-identity|Equal-but-different-Equivalent", cas(), "%s and %s are Equal but their Equivalent() differ", a.desc, b.desc)
				}
				probe := map[attribute.Distinct]bool{a.r.Equivalent(): true}
				if sameAttrs && !probe[b.r.Equivalent()] {
					r.FailHere("equal-identity|map-key-unfindable", cas(), "Equivalent() of %s does not find the map entry of %s", b.desc, a.desc)
				}
			}()
		}
	}
}

func (c *c19) jobTriples(space []rdesc, part, parts int) {
	r := c.r
	r.Section(fmt.Sprintf("triples/%02d", part))
	ops := make([]opnd, len(space))
	bad := make([]bool, len(space))
	for i := range space {
		ops[i] = mkOpnd(space[i])
		bad[i] = !c.operandOK(ops[i])
	}
	none := func() any { return "post-run operand check" }
	for i := part; i < len(ops); i += parts {
		for j := range ops {
			if r.Expired() {
				return
			}
			for k := range ops {
				if !r.Want() {
					continue
				}
				if bad[i] || bad[j] || bad[k] {
					continue
				}
				a, b, cc := ops[i], ops[j], ops[k]
				cas := func() any { return map[string]any{"a": a.desc, "b": b.desc, "c": cc.desc} }
				r.Sample(cas)
				ab, ok1 := c.merge(a, b, false, cas)
				bc, ok2 := c.merge(b, cc, false, cas)
				if !ok1 || !ok2 {
					continue
				}
				l, ok1 := c.merge(ab, cc, false, cas)
				rr, ok2 := c.merge(a, bc, false, cas)
				if !ok1 || !ok2 {
					continue
				}
				if lc, rc := canonReal(l.r), canonReal(rr.r); lc != rc {
					r.FailHere("merge-assoc|attributes", cas(), "Merge(Merge(a,b),c) holds %s but Merge(a,Merge(b,c)) holds %s for a=%s b=%s c=%s", lc, rc, a.desc, b.desc, cc.desc)
				}
			}
		}
	}
	for i, o := range ops {
		if !bad[i] {
			c.checkUnchanged("after-all-merges", o, none)
		}
	}
}

// ---------------------------------------------------------------------------------------
// environment: reference parser for OTEL_RESOURCE_ATTRIBUTES / OTEL_SERVICE_NAME
//
//   list   = member *( "," member )           members split at every ","
//   member = OWS key OWS "=" OWS value OWS    split at the FIRST "="; OWS = SP / HTAB
//   key    : kept only if not empty (verbatim, W3C Baggage token - not percent-decoded)
//   value  : %XX (two hex digits) -> that byte, after the surrounding OWS is removed
//   OTEL_SERVICE_NAME (non-empty) overrides service.name

func owsTrim(s string) string {
	for len(s) > 0 && (s[0] == ' ' || s[0] == '\t') {
		s = s[1:]
	}
	for len(s) > 0 && (s[len(s)-1] == ' ' || s[len(s)-1] == '\t') {
		s = s[:len(s)-1]
	}
	return s
}

func hexVal(c byte) int {
	switch {
	case c >= '0' && c <= '9':
		return int(c - '0')
	case c >= 'a' && c <= 'f':
		return int(c-'a') + 10
	case c >= 'A' && c <= 'F':
		return int(c-'A') + 10
	}
	return -1
}

// pctDecode decodes every well-formed %XX; ok is false when some '%' is not followed by
// two hex digits (that '%' is then kept as it is).
func pctDecode(s string) (dec string, ok bool) {
	ok = true
	b := make([]byte, 0, len(s))
	for i := 0; i < len(s); {
		if s[i] == '%' {
			if i+2 < len(s) && hexVal(s[i+1]) >= 0 && hexVal(s[i+2]) >= 0 {
				b = append(b, byte(hexVal(s[i+1])<<4|hexVal(s[i+2])))
				i += 3
				continue
			}
			ok = false
		}
		b = append(b, s[i])
		i++
	}
	return string(b), ok
}

const (
	vPlain       = iota // no '%'
	vDecodable          // every '%' starts a well-formed escape
	vUndecodable        // some '%' does not
)

type envPair struct {
	accept  []string // acceptable values (more than one only where the behaviour is unspecified)
	kind    int
	earlier []string // values of earlier members with the same key (last one wins)
	fromSvc bool
}

type envModel struct {
	pairs       map[string]*envPair
	malformed   bool // a non-blank member without "="
	blank       bool // an empty / all-whitespace member
	emptyKey    bool
	undecodable bool
	svc         string // effective OTEL_SERVICE_NAME ("" = not in effect)
}

func (m *envModel) clean() bool { return !m.malformed && !m.blank && !m.emptyKey && !m.undecodable }

func modelEnv(raw string, svcSet bool, svc string) *envModel {
	m := &envModel{pairs: map[string]*envPair{}}
	s := owsTrim(raw)
	if s != "" {
		start := 0
		for i := 0; i <= len(s); i++ {
			if i < len(s) && s[i] != ',' {
				continue
			}
			member := s[start:i]
			start = i + 1
			eq := -1
			for j := 0; j < len(member); j++ {
				if member[j] == '=' {
					eq = j
					break
				}
			}
			if eq < 0 {
				if owsTrim(member) == "" {
					m.blank = true
				} else {
					m.malformed = true
				}
				continue
			}
			key := owsTrim(member[:eq])
			rawVal := member[eq+1:]
			if key == "" {
				m.emptyKey = true
				continue
			}
			val := owsTrim(rawVal)
			p := &envPair{}
			if old, dup := m.pairs[key]; dup {
				p.earlier = append(append([]string{}, old.earlier...), old.accept...)
			}
			dec, ok := pctDecode(val)
			switch {
			case !strings.Contains(val, "%"):
				p.kind, p.accept = vPlain, []string{val}
			case ok:
				p.kind, p.accept = vDecodable, []string{dec}
			default:
				// unspecified in detail: the text must survive - verbatim (with or without
				// the surrounding whitespace) or with the well-formed escapes decoded
				p.kind, p.accept = vUndecodable, []string{val, rawVal, dec}
				m.undecodable = true
			}
			m.pairs[key] = p
		}
	}
	if svcSet {
		if sv := owsTrim(svc); sv != "" {
			m.svc = sv
			p := &envPair{accept: []string{sv}, fromSvc: true}
			if old, dup := m.pairs["service.name"]; dup {
				p.earlier = append(append([]string{}, old.earlier...), old.accept...)
			}
			m.pairs["service.name"] = p
		}
	}
	return m
}

func (m *envModel) String() string {
	var b strings.Builder
	for _, k := range sortedKeys(m.pairs) {
		fmt.Fprintf(&b, "%q=%q;", k, m.pairs[k].accept)
	}
	return b.String()
}

func contains(xs []string, x string) bool {
	for _, y := range xs {
		if x == y {
			return true
		}
	}
	return false
}

// envDiff returns "" when got is acceptable, else the class of the deviation.
func envDiff(m *envModel, got []attribute.KeyValue) string {
	gm := map[string]string{}
	for _, kv := range got {
		k := string(kv.Key)
		if _, dup := gm[k]; dup {
			return "duplicate-key"
		}
		if kv.Value.Type() != attribute.STRING {
			return "non-string-value"
		}
		gm[k] = kv.Value.AsString()
	}
	if _, has := gm[""]; has {
		return "invalid-key-kept"
	}
	for _, k := range sortedKeys(gm) {
		if owsTrim(k) != k {
			return "key-whitespace-kept"
		}
	}
	if m.svc != "" {
		if g, has := gm["service.name"]; !has || g != m.svc {
			return "service-name-precedence"
		}
	}
	for _, k := range sortedKeys(m.pairs) {
		p := m.pairs[k]
		g, has := gm[k]
		if !has {
			switch {
			case p.kind == vUndecodable && (m.malformed || m.blank):
				return "pair-lost|undecodable-escape-or-bad-neighbour" // two explanations, not told apart
			case m.malformed:
				return "pair-lost|next-to-malformed-pair"
			case m.blank:
				return "pair-lost|next-to-empty-member"
			case p.kind == vUndecodable:
				return "pair-lost|undecodable-escape"
			case p.kind == vDecodable:
				return "pair-lost|percent-escape"
			}
			return "pair-lost"
		}
		if contains(p.accept, g) {
			continue
		}
		if contains(p.earlier, g) {
			if p.kind == vUndecodable {
				return "pair-lost|undecodable-escape" // an earlier member shows through
			}
			return "duplicate-key-not-last-value"
		}
		switch p.kind {
		case vUndecodable:
			return "undecodable-escape-not-kept"
		case vDecodable:
			return "percent-decoding"
		}
		if contains(p.accept, owsTrim(g)) {
			return "value-whitespace-kept"
		}
		return "wrong-value"
	}
	for _, k := range sortedKeys(gm) {
		if _, has := m.pairs[k]; !has {
			return "extra-pair"
		}
	}
	return ""
}

var svcModes = []struct {
	name string
	set  bool
	val  string
}{{"unset", false, ""}, {`""`, true, ""}, {`"svc"`, true, "svc"},
	// the service name is a value, not a list: delimiters and escapes in it mean themselves
	{`"a,b=c"`, true, "a,b=c"}, {`"x%2Fy"`, true, "x%2Fy"}}

func (c *c19) envCase(raw string, mode int) {
	r := c.r
	sm := svcModes[mode]
	cas := func() any {
		return map[string]any{c19AttrVar: raw, c19SvcVar: sm.name}
	}
	r.Sample(cas)
	if err := os.Setenv(c19AttrVar, raw); err != nil {
		panic(err)
	}
	if sm.set {
		if err := os.Setenv(c19SvcVar, sm.val); err != nil {
			panic(err)
		}
	} else {
		os.Unsetenv(c19SvcVar)
	}
	defer func() {
		if p := recover(); p != nil {
			r.FailHere("panic|env", cas(), "environment detection panicked for %s=%q %s=%s: %v", c19AttrVar, raw, c19SvcVar, sm.name, p)
		}
	}()
	r.Eval()
	env := resource.Environment() // the env detector directly (errors go to the global handler)
	res, err := resource.New(context.Background(), resource.WithFromEnv())

	m := modelEnv(raw, sm.set, sm.val)
	got := env.Attributes()
	if d := envDiff(m, got); d != "" {
		r.FailHere("env-attrs|"+d, cas(), "%s=%q %s=%s gives %s, reference parser accepts %s", c19AttrVar, raw, c19SvcVar, sm.name, canonKVs(got), m)
	}
	if canonReal(res) != canonKVs(got) {
		r.FailHere("env-paths-disagree", cas(), "%s=%q %s=%s: Environment() holds %s, New(WithFromEnv()) holds %s", c19AttrVar, raw, c19SvcVar, sm.name, canonKVs(got), canonReal(res))
	}
	switch {
	case m.malformed:
		r.Count("env_cases_with_malformed_member", 1)
		if err == nil || !errors.Is(err, resource.ErrPartialResource) {
			r.FailHere("env-error|malformed-pair-not-reported", cas(), "%s=%q has a member without '=' but the error is %v (want one wrapping ErrPartialResource)", c19AttrVar, raw, err)
		}
	case m.clean():
		r.Count("env_cases_well_formed", 1)
		if err != nil {
			r.FailHere("env-error|spurious", cas(), "%s=%q %s=%s is well-formed but the error is %v", c19AttrVar, raw, c19SvcVar, sm.name, err)
		}
	default:
		r.Count("env_cases_error_not_judged", 1) // empty key / empty member / undecodable value only
	}
	if m.undecodable {
		r.Count("env_cases_with_undecodable_value", 1)
	}
	// equal resources have equal map identities: against a resource built from the list
	ref := resource.NewSchemaless(got...)
	if canonReal(ref) == canonKVs(got) && (!env.Equal(ref) || !ref.Equal(env) || env.Equivalent() != ref.Equivalent()) {
		r.FailHere("equal-identity|env-vs-constructed", cas(), "%s=%q: the detected resource and NewSchemaless of its attributes are not Equal / have different Equivalent()", c19AttrVar, raw)
	}
	e := "ok"
	if err != nil {
		e = "err"
	}
	r.Outcome("env:" + canonKVs(got) + "!" + e)
}

// jobEnv enumerates every sequence of 1..maxLen symbols that starts with symbol first
// (shorter first), each under the three OTEL_SERVICE_NAME settings.
func (c *c19) jobEnv(section string, symbols []string, first, maxLen int, withEmpty bool) {
	r := c.r
	r.Section(section)
	os.Unsetenv(c19AttrVar)
	os.Unsetenv(c19SvcVar)
	if withEmpty {
		for mode := range svcModes {
			if r.Want() {
				c.envCase("", mode)
			}
		}
		// OTEL_RESOURCE_ATTRIBUTES absent altogether
		for mode := 1; mode < len(svcModes); mode++ {
			if r.Want() {
				c.envUnsetCase(mode)
			}
		}
	}
	for L := 1; L <= maxLen; L++ {
		idx := make([]int, L)
		idx[0] = first
		for {
			if r.Expired() {
				return
			}
			var sb strings.Builder
			for _, i := range idx {
				sb.WriteString(symbols[i])
			}
			raw := sb.String()
			for mode := range svcModes {
				if r.Want() {
					c.envCase(raw, mode)
				}
			}
			// next sequence (position 0 is fixed)
			p := L - 1
			for p >= 1 {
				idx[p]++
				if idx[p] < len(symbols) {
					break
				}
				idx[p] = 0
				p--
			}
			if p < 1 {
				break
			}
		}
	}
}

// envUnsetCase: OTEL_RESOURCE_ATTRIBUTES not in the environment at all.
func (c *c19) envUnsetCase(mode int) {
	r := c.r
	sm := svcModes[mode]
	cas := func() any { return map[string]any{c19AttrVar: "(unset)", c19SvcVar: sm.name} }
	os.Unsetenv(c19AttrVar)
	os.Setenv(c19SvcVar, sm.val)
	defer func() {
		if p := recover(); p != nil {
			r.FailHere("panic|env", cas(), "environment detection panicked: %v", p)
		}
	}()
	r.Eval()
	res, err := resource.New(context.Background(), resource.WithFromEnv())
	m := modelEnv("", sm.set, sm.val)
	if d := envDiff(m, res.Attributes()); d != "" {
		r.FailHere("env-attrs|"+d, cas(), "%s unset, %s=%s gives %s, reference accepts %s", c19AttrVar, c19SvcVar, sm.name, canonReal(res), m)
	}
	if err != nil {
		r.FailHere("env-error|spurious", cas(), "%s unset, %s=%s: error %v", c19AttrVar, c19SvcVar, sm.name, err)
	}
	r.Outcome("env:" + canonReal(res) + "!unset")
}

// ---------------------------------------------------------------------------------------
// Detect / New with scripted detectors

type dkind struct {
	name    string
	keys    []string
	vals    []int64
	schema  string
	errKind int // 0 none, 1 partial (wraps ErrPartialResource), 2 hard
	nilRes  bool
}

var detKinds = []dkind{
	{name: "ok{a=1,b=1}", keys: []string{"a", "b"}, vals: []int64{1, 1}},
	{name: "ok{a=2}@s1", keys: []string{"a"}, vals: []int64{2}, schema: c19s1},
	{name: "partial{b=2,c=1}", keys: []string{"b", "c"}, vals: []int64{2, 1}, errKind: 1},
	{name: "hard-error{a=9,d=9}", keys: []string{"a", "d"}, vals: []int64{9, 9}, errKind: 2},
	{name: "nil-resource", nilRes: true},
	{name: "ok{c=2}@s2", keys: []string{"c"}, vals: []int64{2}, schema: c19s2},
	// a partial result whose schema URL conflicts: the detector's own error and the conflict are both reported
	{name: "partial{a=3}@s2", keys: []string{"a"}, vals: []int64{3}, schema: c19s2, errKind: 1},
	// thorough only
	{name: "partial-nil-resource", nilRes: true, errKind: 1},
}

type scripted struct {
	res *resource.Resource
	err error
}

func (s scripted) Detect(context.Context) (*resource.Resource, error) { return s.res, s.err }

func (k dkind) instantiate(pos int) scripted {
	var s scripted
	if !k.nilRes {
		kvs := make([]attribute.KeyValue, len(k.keys))
		for i := range k.keys {
			kvs[i] = attribute.Int64(k.keys[i], k.vals[i])
		}
		s.res = resource.NewWithAttributes(k.schema, kvs...)
	}
	switch k.errKind {
	case 1:
		s.err = fmt.Errorf("detector #%d incomplete: %w", pos, resource.ErrPartialResource)
	case 2:
		s.err = fmt.Errorf("detector #%d failed", pos)
	}
	return s
}

var detEntries = []string{"Detect", "New(WithDetectors(all))", "New(WithDetectors(first),WithDetectors(rest))", "New(WithSchemaURL(s1),WithDetectors(all))", "New(WithDetectors(all),WithSchemaURL(s2))"}

func (c *c19) detectCase(seq []int, entry int) {
	r := c.r
	var names []string
	for _, k := range seq {
		names = append(names, detKinds[k].name)
	}
	cas := func() any { return map[string]any{"entry": detEntries[entry], "detectors": names} }
	r.Sample(cas)
	defer func() {
		if p := recover(); p != nil {
			r.FailHere("panic|Detect", cas(), "%s with %v panicked: %v", detEntries[entry], names, p)
		}
	}()
	ds := make([]resource.Detector, len(seq))
	sc := make([]scripted, len(seq))
	for i, k := range seq {
		sc[i] = detKinds[k].instantiate(i)
		ds[i] = sc[i]
	}
	// ---- model: later wins, partial results merged, hard-error results not, errors collected
	want := map[string]int64{}
	schemas := map[string]bool{}
	initSchema := ""
	switch entry {
	case 3:
		initSchema = c19s1
	case 4:
		initSchema = c19s2
	}
	if initSchema != "" {
		schemas[initSchema] = true
	}
	for _, k := range seq {
		dk := detKinds[k]
		if dk.errKind == 2 || dk.nilRes {
			continue
		}
		for j, key := range dk.keys {
			want[key] = dk.vals[j]
		}
		if dk.schema != "" {
			schemas[dk.schema] = true
		}
	}
	wantSchema, conflict := "", len(schemas) > 1
	if len(schemas) == 1 {
		for s := range schemas {
			wantSchema = s
		}
	}

	ctx := context.Background()
	r.Eval()
	var res *resource.Resource
	var err error
	switch entry {
	case 0:
		res, err = resource.Detect(ctx, ds...)
	case 1:
		res, err = resource.New(ctx, resource.WithDetectors(ds...))
	case 2:
		if len(ds) == 0 {
			res, err = resource.New(ctx)
		} else {
			res, err = resource.New(ctx, resource.WithDetectors(ds[:1]...), resource.WithDetectors(ds[1:]...))
		}
	case 3:
		res, err = resource.New(ctx, resource.WithSchemaURL(c19s1), resource.WithDetectors(ds...))
	case 4:
		res, err = resource.New(ctx, resource.WithDetectors(ds...), resource.WithSchemaURL(c19s2))
	}

	// ---- attributes
	got := map[string]string{}
	gotKVs := res.Attributes()
	dupKey := false
	for _, kv := range gotKVs {
		if _, dup := got[string(kv.Key)]; dup {
			dupKey = true
		}
		got[string(kv.Key)] = c19vstr(kv.Value)
	}
	wantS := map[string]string{}
	for k, v := range want {
		wantS[k] = c19vstr(attribute.Int64Value(v))
	}
	// A deviation is named after the simplest wrong rule that reproduces the whole answer:
	// earlier detector wins / partial results dropped / hard-error results merged.
	alt := func(firstWins, dropPartial, mergeHard bool) string {
		m := map[string]string{}
		for _, k := range seq {
			dk := detKinds[k]
			if dk.nilRes || (dk.errKind == 1 && dropPartial) || (dk.errKind == 2 && !mergeHard) {
				continue
			}
			for j, key := range dk.keys {
				if _, has := m[key]; has && firstWins {
					continue
				}
				m[key] = c19vstr(attribute.Int64Value(dk.vals[j]))
			}
		}
		return fmt.Sprint(m)
	}
	class := ""
	gs := fmt.Sprint(got)
	switch {
	case dupKey:
		class = "duplicate-key"
	case gs == fmt.Sprint(wantS):
	case gs == alt(true, false, false):
		class = "earlier-detector-wins"
	case gs == alt(false, true, false):
		class = "partial-result-dropped"
	case gs == alt(false, false, true):
		class = "hard-error-result-merged"
	default:
		all := map[string]bool{}
		for k := range got {
			all[k] = true
		}
		for k := range wantS {
			all[k] = true
		}
		for _, k := range sortedKeys(all) {
			g, gok := got[k]
			w, wok := wantS[k]
			switch {
			case wok && !gok:
				class = "attribute-lost"
			case gok && !wok:
				class = "attribute-invented"
			case g != w:
				class = "wrong-value"
			}
			if class != "" {
				break
			}
		}
	}
	if class == "" && res.Len() != len(want) {
		class = "Len-disagrees"
	}
	if class != "" {
		r.FailHere("detect-attrs|"+class, cas(), "%s with %v holds %s, model (later detector wins, partial merged, hard errors skipped) %v", detEntries[entry], names, canonKVs(gotKVs), wantS)
	}
	// ---- schema URL
	if res.SchemaURL() != wantSchema {
		switch {
		case conflict:
			r.FailHere("detect-schema|conflict-not-cleared", cas(), "%s with %v: schema URLs conflict but the result has %q", detEntries[entry], names, res.SchemaURL())
		case entry >= 3:
			r.FailHere("detect-schema|WithSchemaURL", cas(), "%s with %v has schema URL %q, want %q", detEntries[entry], names, res.SchemaURL(), wantSchema)
		default:
			r.FailHere("detect-schema|wrong", cas(), "%s with %v has schema URL %q, want %q", detEntries[entry], names, res.SchemaURL(), wantSchema)
		}
	}
	// ---- errors collected
	anyErr := conflict
	for i, s := range sc {
		if s.err == nil {
			continue
		}
		anyErr = true
		if err == nil || !errors.Is(err, s.err) {
			kind := "partial"
			if detKinds[seq[i]].errKind == 2 {
				kind = "hard"
			}
			r.FailHere("detect-error|detector-error-not-collected|"+kind, cas(), "%s with %v: error %v does not wrap the error of detector #%d (%v)", detEntries[entry], names, err, i, s.err)
		}
	}
	if conflict && (err == nil || !errors.Is(err, resource.ErrSchemaURLConflict)) {
		r.FailHere("detect-error|conflict-not-reported", cas(), "%s with %v: schema URLs conflict but the error is %v", detEntries[entry], names, err)
	}
	if !conflict && err != nil && errors.Is(err, resource.ErrSchemaURLConflict) {
		r.FailHere("detect-error|spurious-conflict", cas(), "%s with %v: no schema URL conflict but the error is %v", detEntries[entry], names, err)
	}
	if !anyErr && err != nil {
		r.FailHere("detect-error|spurious", cas(), "%s with %v: nothing failed but the error is %v", detEntries[entry], names, err)
	}
	// scripted detector results must not be modified
	for i, s := range sc {
		dk := detKinds[seq[i]]
		if s.res == nil {
			continue
		}
		exp := map[string]string{}
		for j, k := range dk.keys {
			exp[k] = c19vstr(attribute.Int64Value(dk.vals[j]))
		}
		have := map[string]string{}
		for _, kv := range s.res.Attributes() {
			have[string(kv.Key)] = c19vstr(kv.Value)
		}
		if fmt.Sprint(exp) != fmt.Sprint(have) || s.res.SchemaURL() != dk.schema {
			r.FailHere("merge-mutates-operand|detector-result", cas(), "%s changed the resource returned by detector #%d (%s) to %v@%q", detEntries[entry], i, dk.name, have, s.res.SchemaURL())
		}
	}
	e := "ok"
	if err != nil {
		e = fmt.Sprintf("err(partial=%v,conflict=%v)", errors.Is(err, resource.ErrPartialResource), errors.Is(err, resource.ErrSchemaURLConflict))
	}
	r.Outcome("detect:" + canonKVs(gotKVs) + "@" + res.SchemaURL() + "!" + e)
}

func (c *c19) jobDetect(nKinds, maxLen int) {
	r := c.r
	r.Section("detect")
	for L := 0; L <= maxLen; L++ {
		var rec func(seq []int)
		rec = func(seq []int) {
			if len(seq) < L {
				if r.Expired() {
					return
				}
				for k := 0; k < nKinds; k++ {
					rec(append(seq, k))
				}
				return
			}
			for entry := range detEntries {
				if r.Want() {
					c.detectCase(append([]int{}, seq...), entry)
				}
			}
		}
		rec(nil)
	}
}

// ---------------------------------------------------------------------------------------

var envChars = []string{"k", "j", "=", ",", " ", "%", "2", "0", "v"}

var envTokens = []string{"k", "service.name", "=", ",", " ", "v", "%2C", "%3D", "%25", "%", "%2", "%C3%A9", "é", "\t", "+", "%FF", "%E9"} // the last two decode to bytes that are not UTF-8: decoding is lossless all the same

const tripleParts = 8

// jobHistory: resources are values -- what one call built must not show in what a later,
// unrelated call returns. Every sequence of <= 3 calls from a menu of constructors (with and
// without schema URL, with only invalid attributes, Empty, Merge of nils, the environment detector
// with nothing set), each judged on its own result, and after every call the probes: Empty(),
// NewSchemaless() and NewSchemaless(only invalid) are empty and schemaless, and merging them with
// a resource X from either side gives X (attributes, schema URL, no error).
func (c *c19) jobHistory(job string) {
	r := c.r
	type spec struct {
		attrs  string
		schema string
	}
	type call struct {
		name string
		do   func() (*resource.Resource, error)
		want spec
	}
	bad := attribute.String("", "no-key")
	a1 := attribute.Int("a", 1)
	menu := []call{
		{"NewWithAttributes(s1, a=1)", func() (*resource.Resource, error) { return resource.NewWithAttributes(c19s1, a1), nil }, spec{canonKVs([]attribute.KeyValue{a1}), c19s1}},
		{"NewWithAttributes(s1, <only an attribute without key>)", func() (*resource.Resource, error) { return resource.NewWithAttributes(c19s1, bad), nil }, spec{"", c19s1}},
		{"NewWithAttributes(s2)", func() (*resource.Resource, error) { return resource.NewWithAttributes(c19s2), nil }, spec{"", c19s2}},
		{"NewSchemaless(<only an attribute without key>)", func() (*resource.Resource, error) { return resource.NewSchemaless(bad), nil }, spec{"", ""}},
		{"NewSchemaless()", func() (*resource.Resource, error) { return resource.NewSchemaless(), nil }, spec{"", ""}},
		{"Empty()", func() (*resource.Resource, error) { return resource.Empty(), nil }, spec{"", ""}},
		{"Merge(nil, nil)", func() (*resource.Resource, error) { return resource.Merge(nil, nil) }, spec{"", ""}},
		{"Merge(NewWithAttributes(s1, a=1), Empty())", func() (*resource.Resource, error) {
			return resource.Merge(resource.NewWithAttributes(c19s1, a1), resource.Empty())
		}, spec{canonKVs([]attribute.KeyValue{a1}), c19s1}},
		{"Merge(Empty(), NewWithAttributes(s2, a=1))", func() (*resource.Resource, error) {
			return resource.Merge(resource.Empty(), resource.NewWithAttributes(c19s2, a1))
		}, spec{canonKVs([]attribute.KeyValue{a1}), c19s2}},
		{"Environment() with nothing set", func() (*resource.Resource, error) { return resource.Environment(), nil }, spec{"", ""}},
	}
	var names []string
	for _, m := range menu {
		names = append(names, m.name)
	}
	r.Bound("history_calls", names)
	r.Bound("history_max_len", 3)
	os.Unsetenv(c19AttrVar)
	os.Unsetenv(c19SvcVar)
	r.Section(job)
	judge := func(what, class string, res *resource.Resource, err error, want spec, cas any) {
		if res == nil {
			res = resource.Empty()
		}
		if err != nil || canonReal(res) != want.attrs || res.SchemaURL() != want.schema {
			r.FailHere("history|"+class, cas, "%s gives attributes %s schema URL %q error %v; expected attributes %s schema URL %q", what, canonReal(res), res.SchemaURL(), err, want.attrs, want.schema)
		}
	}
	b2 := attribute.Int("b", 2)
	for L := 1; L <= 3; L++ {
		seq := make([]int, L)
		for {
			if r.Want() {
				r.Eval()
				var done []string
				for step, i := range seq {
					res, err := menu[i].do()
					done = append(done, menu[i].name)
					cas := map[string]any{"calls_so_far": append([]string{}, done...)}
					cls := "first call"
					if step > 0 {
						cls = "after earlier, unrelated calls"
					}
					judge(menu[i].name, "result of a call|"+cls, res, err, menu[i].want, cas)
					// probes
					judge("Empty()", "Empty() is not empty and schemaless", resource.Empty(), nil, spec{}, cas)
					judge("NewSchemaless()", "NewSchemaless() is not empty and schemaless", resource.NewSchemaless(), nil, spec{}, cas)
					judge("NewSchemaless(<only an attribute without key>)", "NewSchemaless(invalid only) is not empty and schemaless", resource.NewSchemaless(bad), nil, spec{}, cas)
					x := resource.NewWithAttributes(c19s2, b2)
					wantX := spec{canonKVs([]attribute.KeyValue{b2}), c19s2}
					m1, e1 := resource.Merge(resource.Empty(), x)
					judge("Merge(Empty(), X)", "merging with Empty() is not the identity", m1, e1, wantX, cas)
					m2, e2 := resource.Merge(x, resource.Empty())
					judge("Merge(X, Empty())", "merging with Empty() is not the identity", m2, e2, wantX, cas)
				}
				r.Outcome(fmt.Sprint(seq))
			}
			i := L - 1
			for i >= 0 {
				seq[i]++
				if seq[i] < len(menu) {
					break
				}
				seq[i] = 0
				i--
			}
			if i < 0 {
				break
			}
		}
	}
}

// jobOptions: resource.New with every sequence of options from a menu that puts the environment
// detector, plain attributes, the SDK's own detector, scripted detectors (complete, with a schema
// URL, partial, failing, a nil Detector) and WithSchemaURL next to each other. What each option
// contributes is measured by giving it to New alone; a sequence must hold the later-wins union of
// the contributions, the one schema URL named (or none and ErrSchemaURLConflict when they
// differ; of several WithSchemaURL the last counts), and an error exactly when a contribution had
// one or the schema URLs conflict.
func (c *c19) jobOptions(maxLen int) {
	r := c.r
	r.Section("options")
	os.Setenv(c19AttrVar, "a=7,e=1")
	os.Setenv(c19SvcVar, "svc")
	defer os.Unsetenv(c19AttrVar)
	defer os.Unsetenv(c19SvcVar)
	ctx := context.Background()
	type opt struct {
		name      string
		mk        func() resource.Option
		isSchema  string // WithSchemaURL(x)
		attrs     map[string]string
		schema    string
		err       error
		isPartial bool
	}
	det := func(k int) func() resource.Option {
		return func() resource.Option { return resource.WithDetectors(detKinds[k].instantiate(0)) }
	}
	menu := []*opt{
		{name: "WithFromEnv()", mk: func() resource.Option { return resource.WithFromEnv() }},
		{name: "WithAttributes(a=5,f=1)", mk: func() resource.Option {
			return resource.WithAttributes(attribute.Int("a", 5), attribute.Int("f", 1))
		}},
		{name: "WithTelemetrySDK()", mk: func() resource.Option { return resource.WithTelemetrySDK() }},
		{name: "WithDetectors(" + detKinds[0].name + ")", mk: det(0)},
		{name: "WithDetectors(" + detKinds[1].name + ")", mk: det(1)},
		{name: "WithDetectors(" + detKinds[2].name + ")", mk: det(2), isPartial: true},
		{name: "WithDetectors(" + detKinds[3].name + ")", mk: det(3)},
		{name: "WithDetectors(nil)", mk: func() resource.Option { return resource.WithDetectors(nil) }},
		{name: "WithSchemaURL(s1)", mk: func() resource.Option { return resource.WithSchemaURL(c19s1) }, isSchema: c19s1},
		{name: "WithSchemaURL(s2)", mk: func() resource.Option { return resource.WithSchemaURL(c19s2) }, isSchema: c19s2},
	}
	var names []string
	for _, o := range menu {
		names = append(names, o.name)
		res, err := resource.New(ctx, o.mk())
		o.attrs = map[string]string{}
		for _, kv := range res.Attributes() {
			o.attrs[string(kv.Key)] = c19vstr(kv.Value)
		}
		o.schema, o.err = res.SchemaURL(), err
	}
	r.Bound("options_menu", names)
	r.Bound("options_max_len", maxLen)
	r.Bound("options_environment", c19AttrVar+"=a=7,e=1 "+c19SvcVar+"=svc")
	// the menu itself: what the environment and the SDK detector are documented to give
	if fmt.Sprint(menu[0].attrs) != fmt.Sprint(map[string]string{"a": "STRING:7", "e": "STRING:1", "service.name": "STRING:svc"}) || menu[0].schema != "" || menu[0].err != nil {
		r.FailHere("options|environment alone", menu[0].name, "New(WithFromEnv()) holds %v@%q err=%v", menu[0].attrs, menu[0].schema, menu[0].err)
	}
	if len(menu[2].attrs) != 3 || menu[2].attrs["telemetry.sdk.language"] != "STRING:go" || menu[2].schema == "" || menu[2].err != nil {
		r.FailHere("options|telemetry SDK alone", menu[2].name, "New(WithTelemetrySDK()) holds %v@%q err=%v", menu[2].attrs, menu[2].schema, menu[2].err)
	}
	for L := 1; L <= maxLen; L++ {
		seq := make([]int, L)
		for {
			if r.Expired() {
				return
			}
			if r.Want() {
				var sn []string
				var opts []resource.Option
				for _, k := range seq {
					sn = append(sn, menu[k].name)
					opts = append(opts, menu[k].mk())
				}
				want := map[string]string{}
				schemas := map[string]bool{}
				init := ""
				anyErr, partial := false, false
				for _, k := range seq {
					o := menu[k]
					if o.isSchema != "" {
						init = o.isSchema
						continue
					}
					for key, v := range o.attrs {
						want[key] = v
					}
					if o.schema != "" {
						schemas[o.schema] = true
					}
					anyErr = anyErr || o.err != nil
					partial = partial || o.isPartial
				}
				if init != "" {
					schemas[init] = true
				}
				wantSchema, conflict := "", len(schemas) > 1
				if len(schemas) == 1 {
					for u := range schemas {
						wantSchema = u
					}
				}
				r.Eval()
				r.Sample(func() any { return map[string]any{"entry": "New", "options": sn} })
				var res *resource.Resource
				var err error
				func() {
					defer func() {
						if p := recover(); p != nil {
							r.FailHere("panic|New", sn, "New(%v) panicked: %v", sn, p)
						}
					}()
					res, err = resource.New(ctx, opts...)
				}()
				if res == nil {
					goto next
				}
				{
					got := map[string]string{}
					dup := false
					for _, kv := range res.Attributes() {
						if _, d := got[string(kv.Key)]; d {
							dup = true
						}
						got[string(kv.Key)] = c19vstr(kv.Value)
					}
					if dup || fmt.Sprint(got) != fmt.Sprint(want) || res.Len() != len(want) {
						r.FailHere("options-attrs|not the later-wins union of what each option gives alone", sn, "New(%v) holds %s, the contributions merged in option order give %v", sn, canonKVs(res.Attributes()), want)
					}
					if res.SchemaURL() != wantSchema {
						r.FailHere("options-schema|wrong", sn, "New(%v) has schema URL %q, want %q (conflict=%v)", sn, res.SchemaURL(), wantSchema, conflict)
					}
					if conflict != (err != nil && errors.Is(err, resource.ErrSchemaURLConflict)) {
						r.FailHere("options-error|conflict", sn, "New(%v): schema URLs conflict=%v, error %v", sn, conflict, err)
					}
					if (anyErr || conflict) != (err != nil) {
						r.FailHere("options-error|presence", sn, "New(%v): a contribution failed=%v conflict=%v, error %v", sn, anyErr, conflict, err)
					}
					if partial && !errors.Is(err, resource.ErrPartialResource) {
						r.FailHere("options-error|partial not reported", sn, "New(%v): error %v does not wrap ErrPartialResource", sn, err)
					}
					r.Outcome("options:" + canonKVs(res.Attributes()) + "@" + res.SchemaURL() + fmt.Sprint(err != nil))
				}
			}
		next:
			i := L - 1
			for ; i >= 0; i-- {
				seq[i]++
				if seq[i] < len(menu) {
					break
				}
				seq[i] = 0
			}
			if i < 0 {
				break
			}
		}
	}
}

func TestVerifC19(t *testing.T) {
	// decode failures are reported through the global error handler: keep them off stderr
	otel.SetErrorHandler(otel.ErrorHandlerFunc(func(error) {}))

	jobs := []string{"lists", "pairs", "lookalike-schemas", "wide", "detect", "history", "options"}
	for i := 0; i < tripleParts; i++ {
		jobs = append(jobs, fmt.Sprintf("triples/%02d", i))
	}
	for i := range envChars {
		jobs = append(jobs, fmt.Sprintf("envchars/first=%d", i))
	}
	for i := range envTokens {
		jobs = append(jobs, fmt.Sprintf("envtokens/first=%02d", i))
	}
	enum.Jobs(jobs, func(job string) {
		r := enum.Start("C19", "resource")
		defer r.Finish()
		c := &c19{r: r}

		keys := []string{"a", "b", "c"}
		nvals := enum.Pick(r, 2, 3)
		maxSize := enum.Pick(r, 2, 3)
		schemas := []string{"", c19s1, c19s2}
		space := resourceSpace(keys, nvals, maxSize, schemas, r.Thorough())
		listLen := enum.Pick(r, 4, 6)
		charLen := enum.Pick(r, 6, 7)
		tokLen := enum.Pick(r, 4, 5)
		detKindsN := enum.Pick(r, 7, 8)
		detLen := enum.Pick(r, 3, 4)

		r.Bound("merge_keys", keys)
		r.Bound("merge_values", c19valStr[:nvals])
		r.Bound("merge_max_set_size", maxSize)
		r.Bound("merge_schema_urls", schemas)
		r.Bound("merge_resources", len(space))
		r.Bound("merge_pairs", len(space)*len(space))
		r.Bound("merge_triples", len(space)*len(space)*len(space))
		r.Bound("list_alphabet", `keys {a,b,""} x values {1,2}`)
		r.Bound("list_max_len", listLen)
		r.Bound("env_chars", envChars)
		r.Bound("env_chars_max_len", charLen)
		r.Bound("env_tokens", envTokens)
		r.Bound("env_tokens_max_len", tokLen)
		r.Bound("env_service_name", []string{"unset", `""`, `"svc"`, `"a,b=c"`, `"x%2Fy"`})
		r.Bound("detector_kinds", detKindsN)
		r.Bound("detector_max_seq_len", detLen)
		r.Bound("detect_entry_points", detEntries)

		var n int
		switch {
		case job == "lists":
			c.jobLists(listLen)
		case job == "pairs":
			c.jobPairs(space)
		case job == "wide":
			// more than 10 attributes: the attribute set switches from fixed-size arrays to its reflect-built
			// representation there, which every real Default()+process+host resource uses
			r.Section(job)
			mkSet := func(lo, hi int, val int64) []attribute.KeyValue {
				var kvs []attribute.KeyValue
				for i := lo; i <= hi; i++ {
					kvs = append(kvs, attribute.Int64(fmt.Sprintf("k%02d", i), val))
				}
				return kvs
			}
			sets := [][]attribute.KeyValue{mkSet(0, 5, 1), mkSet(6, 11, 2), mkSet(0, 10, 3), mkSet(3, 14, 4), mkSet(0, 19, 5)}
			for i, A := range sets {
				for j, B := range sets {
					if !r.Want() {
						continue
					}
					r.Eval()
					cas := map[string]any{"a_keys": len(A), "b_keys": len(B), "a": i, "b": j}
					func() {
						defer func() {
							if p := recover(); p != nil {
								r.FailHere("panic|wide merge", cas, "panic: %v", p)
							}
						}()
						a, b := resource.NewSchemaless(A...), resource.NewSchemaless(B...)
						got, err := resource.Merge(a, b)
						if err != nil {
							r.FailHere("merge-error|wide", cas, "Merge: %v", err)
							return
						}
						union := map[attribute.Key]attribute.KeyValue{}
						for _, kv := range A {
							union[kv.Key] = kv
						}
						for _, kv := range B {
							union[kv.Key] = kv
						}
						var want []attribute.KeyValue
						for _, kv := range union {
							want = append(want, kv)
						}
						sort.Slice(want, func(x, y int) bool { return want[x].Key > want[y].Key }) // handed over in DESCENDING order
						ref := resource.NewSchemaless(want...)
						if canonKVs(got.Attributes()) != canonKVs(want) || got.Len() != len(want) {
							r.FailHere("merge-attrs|more than 10 attributes", cas, "Merge holds %s, union with right bias is %s", canonKVs(got.Attributes()), canonKVs(want))
						}
						if !got.Equal(ref) || !ref.Equal(got) || got.Equivalent() != ref.Equivalent() {
							r.FailHere("identity|more than 10 attributes", cas, "the merged resource and a resource built from the same %d attributes in another order are not Equal / have different Equivalent()", len(want))
						}
						r.Outcome(fmt.Sprint("wide", i, j, got.Len()))
					}()
				}
			}
		case job == "lookalike-schemas":
			// schema URLs are compared as they are written: URLs that only look alike (a trailing slash,
			// upper-case host or path, a trailing space) differ, so merging them is a conflict -- all
			// ordered pairs over a small attribute space
			look := []string{c19s1, c19s1 + "/", strings.ToUpper(c19s1[:14]) + c19s1[14:], strings.ToUpper(c19s1), c19s1 + " "}
			r.Bound("lookalike_schema_urls", look)
			c.jobPairs(resourceSpace([]string{"a", "b"}, 2, 1, look, false), job)
		case job == "detect":
			c.jobDetect(detKindsN, detLen)
		case job == "history":
			c.jobHistory(job)
		case job == "options":
			c.jobOptions(enum.Pick(r, 3, 5))
		case strings.HasPrefix(job, "triples/"):
			fmt.Sscanf(job, "triples/%d", &n)
			c.jobTriples(space, n, tripleParts)
		case strings.HasPrefix(job, "envchars/first="):
			fmt.Sscanf(job, "envchars/first=%d", &n)
			c.jobEnv(job, envChars, n, charLen, n == 0)
		case strings.HasPrefix(job, "envtokens/first="):
			fmt.Sscanf(job, "envtokens/first=%d", &n)
			c.jobEnv(job, envTokens, n, tokLen, false)
		}
	})
}
