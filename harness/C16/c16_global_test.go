package global

// C16 — global providers forward to the installed SDK without loss or deadlock. The real
// internal/global package (instrumented copy) runs under the controlled scheduler: user threads
// create meters / instruments / tracers through the global API, record, register and unregister
// callbacks while another thread installs the providers. The delegate is a recording fake built on
// the noop implementations (the SDK cannot be imported from inside this package: import cycle).
// The same drivers are explored again in a -race build.

import (
	"context"
	"errors"
	"fmt"
	"sort"
	"strings"
	"sync"
	"sync/atomic"
	"testing"

	"verif/mc/enum"
	"verif/mc/sched"
	"verif/mc/vsync"

	"go.opentelemetry.io/otel/metric"
	mnoop "go.opentelemetry.io/otel/metric/noop"
	"go.opentelemetry.io/otel/propagation"
	"go.opentelemetry.io/otel/trace"
	tnoop "go.opentelemetry.io/otel/trace/noop"
)

// ---- recording fake SDK (harness side: real mutex, invisible to the scheduler, visible to the race detector)

type c16SDK struct {
	mu           sync.Mutex
	created      map[string]int   // instrument name -> creations
	values       map[string][]int // instrument name -> recorded values
	foreignInsts int              // observables handed to RegisterCallback that are nil or not this SDK's
	regs         int              // RegisterCallback calls
	unregs       int
	live         map[int]metric.Callback
	liveInsts    map[int][]metric.Observable
	spans        []string // tracer/name of started spans
	tracers      int
	// pipeline: like the real SDK's pipeline lock, held by a collection WHILE the callbacks run and
	// taken by RegisterCallback (scenario G15 only; usePL)
	usePL    bool
	pipeline vsync.Mutex
}

func newC16SDK() *c16SDK {
	return &c16SDK{created: map[string]int{}, values: map[string][]int{}, live: map[int]metric.Callback{}, liveInsts: map[int][]metric.Observable{}}
}

type c16MP struct {
	mnoop.MeterProvider
	s *c16SDK
}

func (p c16MP) Meter(name string, _ ...metric.MeterOption) metric.Meter {
	return c16Meter{s: p.s, name: name}
}

type c16Meter struct {
	mnoop.Meter
	s    *c16SDK
	name string
}

// made records the creation; instrument names that start with "bad" are refused the way an SDK
// refuses an instrument: (nil, error).
func (m c16Meter) made(n string) error {
	m.s.mu.Lock()
	m.s.created[n]++
	m.s.mu.Unlock()
	if strings.HasPrefix(n, "bad") {
		return errors.New("c16: instrument refused")
	}
	return nil
}

type c16Counter struct {
	mnoop.Int64Counter
	s *c16SDK
	n string
}

func (c c16Counter) Add(_ context.Context, v int64, _ ...metric.AddOption) {
	c.s.mu.Lock()
	c.s.values[c.n] = append(c.s.values[c.n], int(v))
	c.s.mu.Unlock()
}

type c16Hist struct {
	mnoop.Float64Histogram
	s *c16SDK
	n string
}

func (c c16Hist) Record(_ context.Context, v float64, _ ...metric.RecordOption) {
	c.s.mu.Lock()
	c.s.values[c.n] = append(c.s.values[c.n], int(v))
	c.s.mu.Unlock()
}

type c16UpDown struct {
	mnoop.Float64UpDownCounter
	s *c16SDK
	n string
}

func (c c16UpDown) Add(_ context.Context, v float64, _ ...metric.AddOption) {
	c.s.mu.Lock()
	c.s.values[c.n] = append(c.s.values[c.n], int(v))
	c.s.mu.Unlock()
}

type c16Gauge struct {
	mnoop.Int64ObservableGauge
	s *c16SDK
	n string
}

type c16ObsCounter struct {
	mnoop.Float64ObservableCounter
	s *c16SDK
	n string
}

func (m c16Meter) Int64Counter(n string, _ ...metric.Int64CounterOption) (metric.Int64Counter, error) {
	if err := m.made(n); err != nil {
		return nil, err
	}
	return c16Counter{s: m.s, n: n}, nil
}
func (m c16Meter) Float64Histogram(n string, _ ...metric.Float64HistogramOption) (metric.Float64Histogram, error) {
	if err := m.made(n); err != nil {
		return nil, err
	}
	return c16Hist{s: m.s, n: n}, nil
}
func (m c16Meter) Float64UpDownCounter(n string, _ ...metric.Float64UpDownCounterOption) (metric.Float64UpDownCounter, error) {
	if err := m.made(n); err != nil {
		return nil, err
	}
	return c16UpDown{s: m.s, n: n}, nil
}
func (m c16Meter) Int64ObservableGauge(n string, _ ...metric.Int64ObservableGaugeOption) (metric.Int64ObservableGauge, error) {
	if err := m.made(n); err != nil {
		return nil, err
	}
	return c16Gauge{s: m.s, n: n}, nil
}
func (m c16Meter) Float64ObservableCounter(n string, _ ...metric.Float64ObservableCounterOption) (metric.Float64ObservableCounter, error) {
	if err := m.made(n); err != nil {
		return nil, err
	}
	return c16ObsCounter{s: m.s, n: n}, nil
}

type c16Int64UpDownCounter struct {
	mnoop.Int64UpDownCounter
	s *c16SDK
	n string
}

func (c c16Int64UpDownCounter) Add(_ context.Context, v int64, _ ...metric.AddOption) {
	c.s.mu.Lock()
	c.s.values[c.n] = append(c.s.values[c.n], int(v))
	c.s.mu.Unlock()
}
func (m c16Meter) Int64UpDownCounter(n string, _ ...metric.Int64UpDownCounterOption) (metric.Int64UpDownCounter, error) {
	if err := m.made(n); err != nil {
		return nil, err
	}
	return c16Int64UpDownCounter{s: m.s, n: n}, nil
}

type c16Int64Histogram struct {
	mnoop.Int64Histogram
	s *c16SDK
	n string
}

func (c c16Int64Histogram) Record(_ context.Context, v int64, _ ...metric.RecordOption) {
	c.s.mu.Lock()
	c.s.values[c.n] = append(c.s.values[c.n], int(v))
	c.s.mu.Unlock()
}
func (m c16Meter) Int64Histogram(n string, _ ...metric.Int64HistogramOption) (metric.Int64Histogram, error) {
	if err := m.made(n); err != nil {
		return nil, err
	}
	return c16Int64Histogram{s: m.s, n: n}, nil
}

type c16Int64Gauge struct {
	mnoop.Int64Gauge
	s *c16SDK
	n string
}

func (c c16Int64Gauge) Record(_ context.Context, v int64, _ ...metric.RecordOption) {
	c.s.mu.Lock()
	c.s.values[c.n] = append(c.s.values[c.n], int(v))
	c.s.mu.Unlock()
}
func (m c16Meter) Int64Gauge(n string, _ ...metric.Int64GaugeOption) (metric.Int64Gauge, error) {
	if err := m.made(n); err != nil {
		return nil, err
	}
	return c16Int64Gauge{s: m.s, n: n}, nil
}

type c16Float64Counter struct {
	mnoop.Float64Counter
	s *c16SDK
	n string
}

func (c c16Float64Counter) Add(_ context.Context, v float64, _ ...metric.AddOption) {
	c.s.mu.Lock()
	c.s.values[c.n] = append(c.s.values[c.n], int(v))
	c.s.mu.Unlock()
}
func (m c16Meter) Float64Counter(n string, _ ...metric.Float64CounterOption) (metric.Float64Counter, error) {
	if err := m.made(n); err != nil {
		return nil, err
	}
	return c16Float64Counter{s: m.s, n: n}, nil
}

type c16Float64Gauge struct {
	mnoop.Float64Gauge
	s *c16SDK
	n string
}

func (c c16Float64Gauge) Record(_ context.Context, v float64, _ ...metric.RecordOption) {
	c.s.mu.Lock()
	c.s.values[c.n] = append(c.s.values[c.n], int(v))
	c.s.mu.Unlock()
}
func (m c16Meter) Float64Gauge(n string, _ ...metric.Float64GaugeOption) (metric.Float64Gauge, error) {
	if err := m.made(n); err != nil {
		return nil, err
	}
	return c16Float64Gauge{s: m.s, n: n}, nil
}

type c16Int64ObservableCounter struct {
	mnoop.Int64ObservableCounter
	s *c16SDK
	n string
}

func (m c16Meter) Int64ObservableCounter(n string, _ ...metric.Int64ObservableCounterOption) (metric.Int64ObservableCounter, error) {
	if err := m.made(n); err != nil {
		return nil, err
	}
	return c16Int64ObservableCounter{s: m.s, n: n}, nil
}

type c16Int64ObservableUpDownCounter struct {
	mnoop.Int64ObservableUpDownCounter
	s *c16SDK
	n string
}

func (m c16Meter) Int64ObservableUpDownCounter(n string, _ ...metric.Int64ObservableUpDownCounterOption) (metric.Int64ObservableUpDownCounter, error) {
	if err := m.made(n); err != nil {
		return nil, err
	}
	return c16Int64ObservableUpDownCounter{s: m.s, n: n}, nil
}

type c16Float64ObservableUpDownCounter struct {
	mnoop.Float64ObservableUpDownCounter
	s *c16SDK
	n string
}

func (m c16Meter) Float64ObservableUpDownCounter(n string, _ ...metric.Float64ObservableUpDownCounterOption) (metric.Float64ObservableUpDownCounter, error) {
	if err := m.made(n); err != nil {
		return nil, err
	}
	return c16Float64ObservableUpDownCounter{s: m.s, n: n}, nil
}

type c16Float64ObservableGauge struct {
	mnoop.Float64ObservableGauge
	s *c16SDK
	n string
}

func (m c16Meter) Float64ObservableGauge(n string, _ ...metric.Float64ObservableGaugeOption) (metric.Float64ObservableGauge, error) {
	if err := m.made(n); err != nil {
		return nil, err
	}
	return c16Float64ObservableGauge{s: m.s, n: n}, nil
}

type c16Reg struct {
	mnoop.Registration
	s  *c16SDK
	id int
}

func (r c16Reg) Unregister() error {
	r.s.mu.Lock()
	r.s.unregs++
	delete(r.s.live, r.id)
	delete(r.s.liveInsts, r.id)
	r.s.mu.Unlock()
	return nil
}

func (m c16Meter) RegisterCallback(f metric.Callback, insts ...metric.Observable) (metric.Registration, error) {
	if m.s.usePL {
		m.s.pipeline.Lock()
		defer m.s.pipeline.Unlock()
	}
	m.s.mu.Lock()
	defer m.s.mu.Unlock()
	m.s.regs++
	id := m.s.regs
	m.s.live[id] = f
	m.s.liveInsts[id] = insts
	// a real SDK refuses observables that are not its own ("invalid observable: from different
	// implementation") and the callback is lost: what the global API hands over must be this SDK's
	// instruments, already unwrapped
	for _, in := range insts {
		if in == nil || !strings.Contains(fmt.Sprintf("%T", in), "c16") {
			m.s.foreignInsts++
		}
	}
	return c16Reg{s: m.s, id: id}, nil
}

type c16Observer struct {
	mnoop.Observer
	seen []string
}

func (o *c16Observer) ObserveInt64(i metric.Int64Observable, v int64, _ ...metric.ObserveOption) {
	o.seen = append(o.seen, fmt.Sprintf("%T=%d", i, v))
}
func (o *c16Observer) ObserveFloat64(i metric.Float64Observable, v float64, _ ...metric.ObserveOption) {
	o.seen = append(o.seen, fmt.Sprintf("%T=%v", i, v))
}

// collect runs every live callback once, like an SDK collection.
func (s *c16SDK) collect() (runs int, seen []string) {
	s.mu.Lock()
	ids := make([]int, 0, len(s.live))
	for id := range s.live {
		ids = append(ids, id)
	}
	sort.Ints(ids)
	var fs []metric.Callback
	for _, id := range ids {
		fs = append(fs, s.live[id])
	}
	s.mu.Unlock()
	if s.usePL {
		s.pipeline.Lock()
		defer s.pipeline.Unlock()
	}
	for _, f := range fs {
		o := &c16Observer{}
		_ = f(context.Background(), o)
		runs++
		seen = append(seen, o.seen...)
	}
	return
}

type c16TP struct {
	tnoop.TracerProvider
	s *c16SDK
}

func (p c16TP) Tracer(name string, _ ...trace.TracerOption) trace.Tracer {
	p.s.mu.Lock()
	p.s.tracers++
	p.s.mu.Unlock()
	return c16Tracer{s: p.s, name: name}
}

type c16Tracer struct {
	tnoop.Tracer
	s    *c16SDK
	name string
}

func (t c16Tracer) Start(ctx context.Context, n string, _ ...trace.SpanStartOption) (context.Context, trace.Span) {
	t.s.mu.Lock()
	t.s.spans = append(t.s.spans, t.name+"/"+n)
	t.s.mu.Unlock()
	return tnoop.Tracer{}.Start(ctx, n)
}

type c16Prop struct{ injects atomic.Int32 }

func (p *c16Prop) Inject(context.Context, propagation.TextMapCarrier) { p.injects.Add(1) }
func (p *c16Prop) Extract(ctx context.Context, _ propagation.TextMapCarrier) context.Context {
	return ctx
}
func (p *c16Prop) Fields() []string { return nil }

// ---- driver

type c16Silent struct{}

func (c16Silent) Handle(error) {}

func c16Reset() {
	globalErrorHandler = defaultErrorHandler()
	globalTracer = defaultTracerValue()
	globalPropagators = defaultPropagatorsValue()
	globalMeterProvider = defaultMeterProvider()
	delegateErrorHandlerOnce = vsync.Once{}
	delegateTraceOnce = vsync.Once{}
	delegateTextMapPropagatorOnce = vsync.Once{}
	delegateMeterOnce = vsync.Once{}
}

type c16Scn struct {
	name    string
	threads [][]string
}

// ops:
//
//	InstallM / InstallT       SetMeterProvider / SetTracerProvider
//	Ctr                       c := Meter("x").Int64Counter("c"); c.Add(1)
//	Hist                      h := Meter("y").Float64Histogram("h"); h.Record(2)
//	UpDown                    u := Meter("x").Float64UpDownCounter("u"); u.Add(3)
//	Cb / CbU                  g := Meter("x").Int64ObservableGauge("g"); reg := RegisterCallback(f,g) [; reg.Unregister()]
//	Cb2U                      like CbU on a Float64ObservableCounter of meter "y", two Unregister calls
//	Span                      Tracer("t").Start(ctx,"s").End()
//	SelfT / SelfM / SelfP     SetXxx(Xxx()): setting the global default to itself, a reported no-op
//	CbY / Collect             a callback with a scheduling point inside / one collection of the fake SDK (a reader)
func c16Body(sc c16Scn, res *string) func(x *sched.Exec) {
	return func(x *sched.Exec) {
		c16Reset()
		SetErrorHandler(c16Silent{}) // the self-set ops report through the global error handler
		sdk := newC16SDK()
		sdk.usePL = strings.HasPrefix(sc.name, "G15-")
		ctx := context.Background()
		var installedAt atomic.Int64 // step+1 at which SetMeterProvider returned
		var tinstalledAt atomic.Int64
		var pinstalledAt atomic.Int64
		prop := &c16Prop{}
		type made struct {
			add    func(v int)
			name   string
			preVal int  // value recorded in the creating thread
			mustIn bool // the recording call started after installation had returned
		}
		type cb struct {
			name         string
			unregistered bool
			runs         *atomic.Int32
		}
		type out struct {
			insts    []made
			cbs      []cb
			spans    []func()
			sMust    []bool
			props    []propagation.TextMapPropagator
			propLost bool
			after    []func() // use of refused instruments after the join: must stay harmless
		}
		outs := make([]out, len(sc.threads))
		// G13: tracers handed out before anybody installs an SDK
		var preTr [2]trace.Tracer
		var preLost atomic.Int32
		if strings.HasPrefix(sc.name, "G13-") {
			preTr[0], preTr[1] = TracerProvider().Tracer("pre-a"), TracerProvider().Tracer("pre-b")
		}
		var preCtr metric.Int64Counter
		if strings.HasPrefix(sc.name, "G14-") {
			preCtr, _ = MeterProvider().Meter("pre").Int64Counter("pc")
		}
		var wg vsync.WaitGroup
		wg.Add(len(sc.threads))
		for ti, ops := range sc.threads {
			sched.Go(func() {
				defer wg.Done()
				o := &outs[ti]
				for oi, op := range ops {
					val := 100*(ti+1) + oi + 1
					switch op {
					case "InstallM":
						SetMeterProvider(c16MP{s: sdk})
						installedAt.Store(int64(x.Step()) + 1)
					case "InstallT":
						SetTracerProvider(c16TP{s: sdk})
						tinstalledAt.Store(int64(x.Step()) + 1)
					case "Install2Span":
						// a second installation racing the first one: once THIS call has returned, the tracers
						// handed out earlier forward (to whichever SDK got them), however far the other call is
						SetTracerProvider(c16TP{s: sdk})
						for i, tr := range preTr {
							name := fmt.Sprintf("pre%d-%d", val, i)
							_, sp := tr.Start(ctx, name)
							sp.End()
							sdk.mu.Lock()
							n := 0
							for _, got := range sdk.spans {
								if strings.HasSuffix(got, "/"+name) {
									n++
								}
							}
							sdk.mu.Unlock()
							if n != 1 {
								preLost.Add(1)
							}
						}
					case "Install2Ctr": // the same for meters: an instrument created before any installation
						SetMeterProvider(c16MP{s: sdk})
						preCtr.Add(ctx, int64(val))
						sdk.mu.Lock()
						n := 0
						for _, v := range sdk.values["pc"] {
							if v == val {
								n++
							}
						}
						sdk.mu.Unlock()
						if n != 1 {
							preLost.Add(1)
						}
					case "SelfT": // documented no-op (save-and-restore pattern): must not use up the delegation
						SetTracerProvider(TracerProvider())
					case "SelfM":
						SetMeterProvider(MeterProvider())
					case "SelfP":
						SetTextMapPropagator(TextMapPropagator())
					case "Ctr":
						c, _ := MeterProvider().Meter("x").Int64Counter("c")
						must := installedAt.Load() != 0
						c.Add(ctx, int64(val))
						o.insts = append(o.insts, made{func(v int) { c.Add(ctx, int64(v)) }, "c", val, must})
					case "Hist":
						h, _ := MeterProvider().Meter("y").Float64Histogram("h")
						must := installedAt.Load() != 0
						h.Record(ctx, float64(val))
						o.insts = append(o.insts, made{func(v int) { h.Record(ctx, float64(v)) }, "h", val, must})
					case "UpDown":
						u, _ := MeterProvider().Meter("x").Float64UpDownCounter("u")
						must := installedAt.Load() != 0
						u.Add(ctx, float64(val))
						o.insts = append(o.insts, made{func(v int) { u.Add(ctx, float64(v)) }, "u", val, must})
					case "Cb", "CbU":
						m := MeterProvider().Meter("x")
						g, _ := m.Int64ObservableGauge("g")
						runs := &atomic.Int32{}
						reg, err := m.RegisterCallback(func(_ context.Context, ob metric.Observer) error {
							runs.Add(1)
							ob.ObserveInt64(g, 7)
							return nil
						}, g)
						if err == nil && op == "CbU" {
							_ = reg.Unregister()
						}
						o.cbs = append(o.cbs, cb{"g", op == "CbU", runs})
					case "CbY": // a callback that takes time between being called and observing
						m := MeterProvider().Meter("x")
						g, _ := m.Int64ObservableGauge("g")
						runs := &atomic.Int32{}
						_, _ = m.RegisterCallback(func(_ context.Context, ob metric.Observer) error {
							runs.Add(1)
							sched.Yield("callback running", runs)
							ob.ObserveInt64(g, 7)
							return nil
						}, g)
						o.cbs = append(o.cbs, cb{"g", false, runs})
					case "CbInner": // a callback that itself asks the global API for a meter (lazy set-up inside a callback)
						m := MeterProvider().Meter("x")
						g, _ := m.Int64ObservableGauge("g")
						runs := &atomic.Int32{}
						_, _ = m.RegisterCallback(func(_ context.Context, ob metric.Observer) error {
							runs.Add(1)
							_ = MeterProvider().Meter("inner")
							ob.ObserveInt64(g, 7)
							return nil
						}, g)
						o.cbs = append(o.cbs, cb{"g", false, runs})
					case "CbOnY": // a callback on another meter (delegated after meter "x"'s by an installation)
						m := MeterProvider().Meter("y")
						g, _ := m.Float64ObservableCounter("oc")
						runs := &atomic.Int32{}
						_, _ = m.RegisterCallback(func(_ context.Context, ob metric.Observer) error {
							runs.Add(1)
							ob.ObserveFloat64(g, 9)
							return nil
						}, g)
						o.cbs = append(o.cbs, cb{"oc", false, runs})
					case "Collect": // a reader of the SDK collects: its observer receives what ITS run of the callbacks observed
						runs, seen := sdk.collect()
						if len(seen) != runs {
							x.Fail("C16|observation-delivered-to-another-collection", "a collection ran %d callback(s), each observing once; its observer received %d observation(s) (another collection was running the same callback)", runs, len(seen))
						}
					case "Cb2U":
						m := MeterProvider().Meter("y")
						g, _ := m.Float64ObservableCounter("oc")
						runs := &atomic.Int32{}
						reg, err := m.RegisterCallback(func(_ context.Context, ob metric.Observer) error {
							runs.Add(1)
							ob.ObserveFloat64(g, 9)
							return nil
						}, g)
						if err == nil {
							_ = reg.Unregister()
							_ = reg.Unregister()
						}
						o.cbs = append(o.cbs, cb{"oc", true, runs})
					case "AllSync": // the remaining synchronous kinds, one measurement each
						m := MeterProvider().Meter("z")
						must := installedAt.Load() != 0
						a, _ := m.Int64UpDownCounter("iud")
						b, _ := m.Int64Histogram("ih")
						c, _ := m.Int64Gauge("ig")
						d, _ := m.Float64Counter("fc")
						e, _ := m.Float64Gauge("fg")
						a.Add(ctx, int64(val))
						b.Record(ctx, int64(val))
						c.Record(ctx, int64(val))
						d.Add(ctx, float64(val))
						e.Record(ctx, float64(val))
						o.insts = append(o.insts,
							made{func(v int) { a.Add(ctx, int64(v)) }, "iud", val, must},
							made{func(v int) { b.Record(ctx, int64(v)) }, "ih", val, must},
							made{func(v int) { c.Record(ctx, int64(v)) }, "ig", val, must},
							made{func(v int) { d.Add(ctx, float64(v)) }, "fc", val, must},
							made{func(v int) { e.Record(ctx, float64(v)) }, "fg", val, must})
					case "BadSync": // instruments the SDK will refuse with (nil, error), next to a healthy one
						m := MeterProvider().Meter("z")
						a, _ := m.Int64Counter("bad counter")
						b, _ := m.Float64Histogram("bad histogram")
						c, _ := m.Int64Gauge("bad gauge")
						d, _ := m.Float64UpDownCounter("bad updown")
						if a == nil || b == nil || c == nil || d == nil {
							break // created after the installation: the SDK itself refused, nothing to use
						}
						a.Add(ctx, 1)
						b.Record(ctx, 1)
						c.Record(ctx, 1)
						d.Add(ctx, 1)
						o.after = append(o.after, func() { a.Add(ctx, 1); b.Record(ctx, 1); c.Record(ctx, 1); d.Add(ctx, 1) })
					case "BadAsync":
						m := MeterProvider().Meter("z")
						a, _ := m.Int64ObservableCounter("bad ocounter")
						b, _ := m.Float64ObservableGauge("bad ogauge")
						_, _ = a, b
					case "AllAsync": // the remaining asynchronous kinds behind one callback
						m := MeterProvider().Meter("z")
						a, _ := m.Int64ObservableCounter("ioc")
						b, _ := m.Int64ObservableUpDownCounter("ioud")
						c, _ := m.Float64ObservableUpDownCounter("foud")
						d, _ := m.Float64ObservableGauge("fog")
						runs := &atomic.Int32{}
						_, _ = m.RegisterCallback(func(_ context.Context, ob metric.Observer) error {
							runs.Add(1)
							ob.ObserveInt64(a, 1)
							ob.ObserveInt64(b, 2)
							ob.ObserveFloat64(c, 3)
							ob.ObserveFloat64(d, 4)
							return nil
						}, a, b, c, d)
						o.cbs = append(o.cbs, cb{"all-async", false, runs})
					case "InstallP":
						SetTextMapPropagator(prop)
						pinstalledAt.Store(int64(x.Step()) + 1)
					case "Inject":
						pr := TextMapPropagator()
						must := pinstalledAt.Load() != 0
						before := prop.injects.Load()
						pr.Inject(ctx, propagation.MapCarrier{})
						if must && prop.injects.Load() != before+1 && len(sc.threads) == 2 {
							o.propLost = true
						}
						o.props = append(o.props, pr)
					case "Span":
						tr := TracerProvider().Tracer("t")
						must := tinstalledAt.Load() != 0
						_, sp := tr.Start(ctx, fmt.Sprintf("s%d", val))
						sp.End()
						o.spans = append(o.spans, func() { _, sp := tr.Start(ctx, fmt.Sprintf("late%d", val)); sp.End() })
						o.sMust = append(o.sMust, must)
					}
				}
			})
		}
		wg.Wait()
		if n := preLost.Load(); n != 0 && strings.HasPrefix(sc.name, "G13-") {
			x.Fail("C16|span-after-install-not-forwarded|second SetTracerProvider returned while the first was still connecting tracers", "%d span(s) started on tracers handed out before any installation, after a SetTracerProvider call had returned, did not reach an SDK exactly once", n)
		} else if n != 0 {
			x.Fail("C16|measurement-after-install-not-forwarded-exactly-once|second SetMeterProvider returned while the first was still connecting instruments", "%d measurement(s) on an instrument created before any installation, made after a SetMeterProvider call had returned, did not reach the SDK exactly once", n)
		}
		// ---- after the join: everything handed out earlier must now be connected
		minstalled, tinstalled := installedAt.Load() != 0, tinstalledAt.Load() != 0
		late := 1000
		for ti := range outs {
			for _, in := range outs[ti].insts {
				late++
				in.add(late)
				if !minstalled {
					continue
				}
				got := 0
				for _, v := range sdk.values[in.name] {
					if v == late {
						got++
					}
				}
				if got != 1 {
					x.Fail("C16|measurement-after-install-not-forwarded-exactly-once|"+in.name, "instrument %q obtained from the global API: a measurement made after SetMeterProvider returned reached the SDK %d times", in.name, got)
				}
				pre := 0
				for _, v := range sdk.values[in.name] {
					if v == in.preVal {
						pre++
					}
				}
				if pre > 1 || (in.mustIn && pre != 1) {
					x.Fail("C16|measurement-lost-or-duplicated|"+in.name, "instrument %q: measurement %d (made after installation returned: %v) reached the SDK %d times", in.name, in.preVal, in.mustIn, pre)
				}
			}
			for i, f := range outs[ti].spans {
				before := len(sdk.spans)
				f()
				if tinstalled && len(sdk.spans) != before+1 {
					x.Fail("C16|span-after-install-not-forwarded", "tracer obtained from the global API: a span started after SetTracerProvider returned reached the SDK %d times", len(sdk.spans)-before)
				}
				_ = i
			}
		}
		for ti := range outs {
			for _, f := range outs[ti].after {
				f()
			}
		}
		for ti := range outs {
			if outs[ti].propLost {
				x.Fail("C16|inject-after-install-not-forwarded", "an Inject made after SetTextMapPropagator had returned did not reach the installed propagator")
			}
			for _, pr := range outs[ti].props {
				before := prop.injects.Load()
				pr.Inject(ctx, propagation.MapCarrier{})
				if pinstalledAt.Load() != 0 && prop.injects.Load() != before+1 {
					x.Fail("C16|propagator-not-connected", "a propagator obtained from the global API does not forward to the installed one (%d calls for one Inject)", prop.injects.Load()-before)
				}
			}
		}
		if minstalled {
			wantLive := 0
			for ti := range outs {
				for _, c := range outs[ti].cbs {
					if !c.unregistered {
						wantLive++
					}
				}
			}
			if sdk.foreignInsts > 0 {
				x.Fail("C16|callback-registered-with-instruments-the-SDK-does-not-know", "RegisterCallback of the SDK received %d observable(s) that are nil or still the global API's placeholders: a real SDK refuses such a registration and the callback is lost", sdk.foreignInsts)
			}
			if len(sdk.live) != wantLive {
				x.Fail("C16|callback-registration-count", "%d callback(s) registered through the global API and not unregistered, the SDK holds %d live registration(s) (RegisterCallback %d, Unregister %d)", wantLive, len(sdk.live), sdk.regs, sdk.unregs)
			}
			// one collection: live callbacks run once, unregistered ones never again
			var before []int32
			for ti := range outs {
				for _, c := range outs[ti].cbs {
					before = append(before, c.runs.Load())
				}
			}
			_, seen := sdk.collect()
			k := 0
			for ti := range outs {
				for _, c := range outs[ti].cbs {
					d := int(c.runs.Load() - before[k])
					k++
					if c.unregistered && d != 0 {
						x.Fail("C16|unregistered-callback-still-runs", "callback for %q was unregistered but ran %d time(s) in a later collection", c.name, d)
					}
					if !c.unregistered && d != 1 {
						x.Fail("C16|callback-not-run-exactly-once", "callback for %q ran %d times in one collection after installation", c.name, d)
					}
				}
			}
			for _, s := range seen {
				// observations must arrive at the SDK's own instrument types, not the global wrappers
				if !strings.Contains(s, "global.c16") {
					x.Fail("C16|observation-not-unwrapped", "the SDK observer received %s instead of its own instrument", s)
				}
			}
		}
		var names []string
		for n, c := range sdk.created {
			names = append(names, fmt.Sprintf("%s:%d", n, c))
		}
		sort.Strings(names)
		nvals := 0
		for _, v := range sdk.values {
			nvals += len(v)
		}
		*res = fmt.Sprintf("created=%v values=%d regs=%d unregs=%d live=%d spans=%d", names, nvals, sdk.regs, sdk.unregs, len(sdk.live), len(sdk.spans))
	}
}

type c16Job struct {
	sc c16Scn
	p  int
}

func (j c16Job) name() string { return fmt.Sprintf("%s/P%d", j.sc.name, j.p) }

func c16Jobs(thorough, race bool) []c16Job {
	scs := []c16Scn{
		{"G1-install-ctr-cbU", [][]string{{"InstallM"}, {"Ctr", "CbU"}}},
		{"G2-install-cb-hist", [][]string{{"InstallM"}, {"Cb"}, {"Hist"}}},
		{"G3-install-tracer", [][]string{{"InstallT"}, {"Span"}, {"Span"}}},
		{"G4-install-cb2U-updown", [][]string{{"InstallM"}, {"Cb2U"}, {"UpDown", "Ctr"}}},
		{"G5-both-installs", [][]string{{"InstallM", "InstallT"}, {"Ctr", "Span"}, {"CbU"}}},
		{"G6-prereg-then-race", [][]string{{"Cb", "InstallM"}, {"CbU"}}},
		{"G7-all-other-kinds", [][]string{{"InstallM"}, {"AllSync"}, {"AllAsync"}}},
		{"G8-propagator", [][]string{{"InstallP"}, {"Inject", "Inject"}}},
		{"G9-self-set-then-install", [][]string{{"Span", "Ctr", "Inject", "SelfT", "SelfM", "SelfP", "InstallT", "InstallM", "InstallP"}, {"Span", "Ctr", "Inject"}}},
		{"G10-self-set-racing-install", [][]string{{"SelfT", "SelfM"}, {"InstallT", "InstallM"}, {"Span", "Ctr"}}},
		{"G12-two-readers-collect", [][]string{{"CbY", "InstallM", "Collect"}, {"Collect"}}},
		{"G13-two-installations-racing-tracers-handed-out-before", [][]string{{"InstallT"}, {"Install2Span"}}},
		{"G14-two-installations-racing-instrument-created-before", [][]string{{"InstallM"}, {"Install2Ctr"}}},
		{"G15-collection-holding-the-SDK-lock-runs-a-callback-that-asks-for-a-meter-while-an-installation-registers-callbacks", [][]string{{"CbInner", "CbOnY", "InstallM"}, {"Collect", "Collect"}}},
		{"G11-sdk-refuses-instruments", [][]string{{"BadSync", "Ctr", "BadAsync", "InstallM"}, {"BadSync", "Ctr"}, {"BadAsync", "Cb"}}},
	}
	p := 3
	if thorough {
		p = 6
	}
	if race {
		p--
	}
	var js []c16Job
	for _, sc := range scs {
		q := p
		if !thorough && strings.HasPrefix(sc.name, "G11-") && q > 2 {
			q = 2 // eight operations on three threads: P<=3 is the thorough tier's (the release points of the TryLock'd registration mutex doubled it)
		}
		js = append(js, c16Job{sc, q})
	}
	return js
}

func c16Run(t *testing.T, unit string, race bool) {
	thorough := enum.Start("C16", "probe").Thorough()
	all := c16Jobs(thorough, race)
	var names []string
	for _, j := range all {
		names = append(names, j.name())
	}
	enum.Jobs(names, func(job string) {
		r := enum.Start("C16", unit)
		defer r.Finish()
		for _, j := range all {
			if j.name() != job {
				continue
			}
			r.Bound("drivers", len(all))
			r.Bound("max_preemptions", j.p)
			r.Bound("race_build", race)
			var res string
			st := sched.Explore(r, sched.Config{Name: job, MaxP: j.p, MaxE: 0, MaxSteps: 4000, Body: c16Body(j.sc, &res),
				Outcome: func(*sched.Exec) string { return res }})
			if race {
				r.Count("race_build_executions", st.Execs)
			}
			t.Logf("%s: execs=%d states=%d steps=%d pruned=%d deadlocks=%d outcomes=%d complete=%v keys=%v", job, st.Execs, st.States, st.Steps, st.Pruned, st.Deadlocks, len(st.Outcomes), st.Complete, r.Keys())
		}
	})
}

func TestVerifC16(t *testing.T)     { c16Run(t, "global", false) }
func TestVerifC16Race(t *testing.T) { c16Run(t, "global-race", sched.RaceEnabled) }
