package baggage_test

// C11 — baggage survives a header round trip, enforces the W3C limits, is immutable.
//
// Sections (each split into jobs):
//   ctor1/ctor2  constructor -> String -> Parse and Inject -> Extract over enumerated members
//   bytes        every byte string up to a length over a 14-symbol alphabet through Parse
//   members      every list of up to n list-member strings (duplicates, whitespace, properties)
//   pct          percent-escape closure (all 1- and 2-byte escapes, structured 3/4-byte ones)
//   limits       180/181 members, 8192/8193 bytes, 4096/4097 bytes per member, Parse and New
//   immut        every SetMember/DeleteMember sequence up to a depth, all earlier values,
//                copies and contexts re-read after every step

import (
	"context"
	"fmt"
	"net/http"
	"runtime/debug"
	"sort"
	"strings"
	"testing"
	"unicode/utf8"

	"go.opentelemetry.io/otel/baggage"
	"go.opentelemetry.io/otel/propagation"
	"verif/mc/enum"
)

const (
	limMembers     = 180
	limTotalBytes  = 8192
	limMemberBytes = 4096
)

type c11 struct {
	r    *enum.R
	prop propagation.Baggage
	tick int
	done bool
}

// expired polls the wall-clock budget every 1024 cases (sticky once it has run out).
func (c *c11) expired() bool {
	c.tick++
	if !c.done && c.tick&1023 == 0 {
		c.done = c.r.Expired()
	}
	return c.done
}

// guard turns a panic of the code under test into a violation keyed by the stage.
func (c *c11) guard(stage *string, cas func() any) func() {
	return func() {
		if p := recover(); p != nil {
			c.r.FailHere("panic|"+*stage, cas(), "panic in %s: %v", *stage, p)
		}
	}
}

// ---------------------------------------------------------------------------
// constructor side

var (
	keyAlpha = []string{"a", "A1", "!#$%&'*+-.^_`|~"}
	valAlpha = []string{"a", " ", ",", ";", "=", "%", "\"", "\\", "é", "😀", "+", "\t", "\x00", "�"}
	prAlpha  = []rprop{
		{"p", "", false},
		{"!#$%&'*+-.^_`|~", "", false},
		{"p", "", true},
		{"p", "v", true},
		{"p", " ", true},
		{"p", ";", true},
		{"p", "%", true},
		{"q", "=,", true},
		{"q", "é", true},
		{"q", "😀\\\"", true},
	}
)

type sizes struct {
	n, maxMember, total int
	accepted            bool
}

// ctorCase: members -> NewMemberRaw -> New -> String -> Parse, and Inject -> Extract.
// Every key in ms is an RFC 7230 token, every value valid UTF-8 (the stated domain).
// accessorsAgree reports what snap saw of Members() / Member(key) / Len() disagreeing in this case.
func (c *c11) accessorsAgree(desc func() any) {
	if len(c11AccessorMismatch) > 0 {
		c.r.FailHere("accessors|Member / Len disagree with Members", desc(), "%s", strings.Join(c11AccessorMismatch, "; "))
		c11AccessorMismatch = nil
	}
}

func (c *c11) ctorCase(ms []rmem, label string) (sz sizes) {
	r := c.r
	r.Eval()
	stage := "NewMemberRaw"
	desc := func() any {
		d := map[string]any{"members": descMembers(ms)}
		if label != "" {
			d["what"] = label
		}
		return d
	}
	defer c.guard(&stage, desc)()
	defer c.accessorsAgree(desc)

	mem := make([]baggage.Member, len(ms))
	for i, m := range ms {
		var err error
		if mem[i], err = mkMember(m); err != nil {
			r.Outcome("member-reject|" + errClass(err))
			r.Count("ctor_rejected", 1)
			raw := len(m.k) + len(m.v) + 1
			for _, p := range m.props {
				raw += len(p.k) + len(p.v) + 2
			}
			if 3*raw <= limMemberBytes { // every byte serialises to at most three
				r.FailHere("ctor-rejects|member constructor: "+errClass(err), desc(), "member constructor rejects %s (token key, valid UTF-8): %v", descMember(m), err)
			}
			return
		}
	}

	// sizes as the real serialiser measures them, member by member
	stage = "Member.String"
	last := map[string]int{}
	for i, m := range ms {
		last[m.k] = i
	}
	dup := len(last) < len(ms)
	sz.n = len(last)
	for i, m := range ms {
		if last[m.k] != i {
			continue
		}
		n := len(mem[i].String())
		if n > sz.maxMember {
			sz.maxMember = n
		}
		sz.total += n
	}
	if sz.n > 1 {
		sz.total += sz.n - 1
	}
	within := sz.n <= limMembers && sz.maxMember <= limMemberBytes && sz.total <= limTotalBytes

	stage = "New"
	bag, err := baggage.New(mem...)
	if err != nil {
		r.Outcome(fmt.Sprintf("new-reject|%s|within=%v", errClass(err), within))
		r.Count("ctor_rejected", 1)
		if within && !dup {
			r.FailHere("ctor-rejects|New within the limits: "+errClass(err), desc(), "New rejects %d members, largest %d bytes, %d bytes in total: %v", sz.n, sz.maxMember, sz.total, err)
		}
		return
	}
	sz.accepted = true
	stage = "Members"
	got := snap(bag)
	stage = "Baggage.String"
	header := bag.String()

	// the constructor enforces the limits
	over := ""
	gotMax := 0
	for _, m := range bag.Members() {
		if n := len(m.String()); n > gotMax {
			gotMax = n
		}
	}
	switch {
	case len(got) > limMembers:
		over = "more than 180 members"
	case gotMax > limMemberBytes:
		over = "a member over 4096 bytes"
	case len(header) > limTotalBytes:
		over = "more than 8192 bytes in total"
	}
	if over != "" {
		r.Outcome("new-accepts-over-limit|" + over)
		r.FailHere("limit-new|New accepts "+over, desc(), "New accepted %d members, largest member %d bytes, header %d bytes", len(got), gotMax, len(header))
		return
	}

	// what was constructed is what was given (for duplicate keys: one of the given members)
	if len(got) != len(last) {
		r.FailHere("ctor-content|member set", desc(), "constructed baggage has %d members, %d distinct keys were given: %s", len(got), len(last), canonAll(got, true))
	} else {
		for _, g := range got {
			ok := false
			for _, m := range ms {
				if m.k == g.k && m.canon(false) == g.canon(false) {
					ok = true
				}
			}
			if !ok {
				r.FailHere("ctor-content|member differs from the arguments", desc(), "constructed member %s was not among the arguments", g.canon(true))
				break
			}
		}
	}

	segs := strings.Split(header, ",")
	sort.Strings(segs)
	r.Outcome("ok|" + strings.Join(segs, ","))

	// header -> Parse gives the same members, values and properties
	stage = "Parse"
	back, perr := baggage.Parse(header)
	if perr != nil {
		r.FailHere("roundtrip|Parse rejects the serialised baggage: "+errClass(perr), desc(), "New accepted, header %s, Parse: %v", abbr(header), perr)
	} else if a := diff(got, snap(back)); a != "" {
		r.FailHere("roundtrip|"+a+" differs after String and Parse", desc(), "header %s parses to %s, constructed %s", abbr(header), canonAll(snap(back), true), canonAll(got, true))
	}

	// Inject followed by Extract is the identity
	stage = "Inject/Extract"
	car := propagation.MapCarrier{}
	c.prop.Inject(baggage.ContextWithBaggage(context.Background(), bag), car)
	out := baggage.FromContext(c.prop.Extract(context.Background(), car))
	if a := diff(got, snap(out)); a != "" {
		r.FailHere("inject-extract|"+a+" differs", desc(), "carrier %s, extracted %s, injected %s", abbr(car.Get("baggage")), canonAll(snap(out), true), canonAll(got, true))
	}
	// ... also when the receiving context already carries another baggage (middleware, a second
	// hop): what comes out is what was injected, not a mixture (an empty header leaves the context
	// as it is, so this is judged for non-empty baggage only)
	if bag.Len() > 0 {
		stage = "Inject/Extract into a context that already carries baggage"
		prior, err := baggage.Parse("zz-prior=1;p=q," + c11PriorKey + "=prior-value")
		if err != nil {
			panic(err)
		}
		out2 := baggage.FromContext(c.prop.Extract(baggage.ContextWithBaggage(context.Background(), prior), car))
		if a := diff(got, snap(out2)); a != "" {
			r.FailHere("inject-extract|into a context that already carries baggage|"+a+" differs", desc(), "carrier %s extracted into a context holding %s gives %s, injected %s", abbr(car.Get("baggage")), prior.String(), canonAll(snap(out2), true), canonAll(got, true))
		}
	}
	// ... and when the CARRIER was used before (a proxy forwarding incoming headers, a re-sent
	// request): what the last Inject wrote is what comes out, for both carrier types
	if bag.Len() > 0 {
		stage = "Inject into a carrier that already holds a baggage header"
		earlier, err := baggage.Parse("zz-earlier=1;p=q," + c11PriorKey + "=earlier-value")
		if err != nil {
			panic(err)
		}
		for _, mk := range []struct {
			name string
			car  propagation.TextMapCarrier
		}{{"MapCarrier", propagation.MapCarrier{}}, {"HeaderCarrier", propagation.HeaderCarrier(http.Header{})}} {
			c.prop.Inject(baggage.ContextWithBaggage(context.Background(), earlier), mk.car)
			c.prop.Inject(baggage.ContextWithBaggage(context.Background(), bag), mk.car)
			out3 := baggage.FromContext(c.prop.Extract(context.Background(), mk.car))
			if a := diff(got, snap(out3)); a != "" {
				r.FailHere("inject-extract|second Inject into one carrier|"+a+" differs", desc(), "%s that held %s, after Inject: %s, extracted %s, injected %s", mk.name, earlier.String(), abbr(mk.car.Get("baggage")), canonAll(snap(out3), true), canonAll(got, true))
			}
		}
	}
	return
}

// c11PriorKey: a key the receiving context's own baggage shares with many enumerated ones.
const c11PriorKey = "a"

// propLists: every property list of exactly n symbols of prAlpha.
func propLists(n int, f func(ps []rprop) bool) bool {
	return words(len(prAlpha), n, -1, func(idx []int) bool {
		ps := make([]rprop, len(idx))
		for i, j := range idx {
			ps[i] = prAlpha[j]
		}
		return f(ps)
	})
}

func valueOf(idx []int) string {
	var sb strings.Builder
	for _, i := range idx {
		sb.WriteString(valAlpha[i])
	}
	return sb.String()
}

// ctor1: one member; all keys x all values (first symbol fixed by the job) x all property lists.
func (c *c11) ctor1(job string, first int) {
	r := c.r
	maxVal := enum.Pick(r, 3, 4)
	r.Bound("ctor1_keys", len(keyAlpha))
	r.Bound("ctor1_value_alphabet", len(valAlpha))
	r.Bound("ctor1_max_value_len", maxVal)
	r.Bound("ctor1_property_alphabet", len(prAlpha))
	r.Bound("ctor1_max_properties", 2)
	if first == 0 {
		// the empty baggage and the empty value
		r.Section(job + "/empty")
		if r.Want() {
			c.ctorCase(nil, "")
		}
		for pl := 0; pl <= 2; pl++ {
			for _, k := range keyAlpha {
				propLists(pl, func(ps []rprop) bool {
					if r.Want() {
						c.ctorCase([]rmem{{k: k, v: "", props: ps}}, "")
					}
					return true
				})
			}
		}
		c.sweep(job)
	}
	r.Section(job)
	stop := false
	for L := 1; L <= maxVal && !stop; L++ {
		for pl := 0; pl <= 2 && !stop; pl++ {
			for _, k := range keyAlpha {
				words(len(valAlpha), L, first, func(idx []int) bool {
					v := valueOf(idx)
					return propLists(pl, func(ps []rprop) bool {
						if c.expired() {
							stop = true
							return false
						}
						if !r.Want() {
							return true
						}
						m := rmem{k: k, v: v, props: ps}
						c.ctorCase([]rmem{m}, "")
						r.Sample(func() any { return descMember(m) })
						return true
					})
				})
			}
		}
	}
}

// sweep: every ASCII byte and a set of boundary code points, alone and next to 'a', as
// member value and as property value; every token character in member and property keys.
func (c *c11) sweep(job string) {
	r := c.r
	r.Section(job + "/sweep")
	var chars []string
	for b := 0; b < 128; b++ {
		chars = append(chars, string(rune(b)))
	}
	for _, cp := range []rune{0x80, 0x85, 0xA0, 0xFF, 0x7FF, 0x800, 0x2028, 0xD7FF, 0xE000, 0xFEFF, 0xFFFD, 0xFFFF, 0x10000, 0x10FFFF} {
		chars = append(chars, string(cp))
	}
	r.Bound("sweep_characters", len(chars))
	for _, ch := range chars {
		for _, v := range []string{ch, "a" + ch, ch + "a", ch + ch, "%" + ch, "%2" + ch} {
			if r.Want() {
				c.ctorCase([]rmem{{k: "a", v: v}}, "")
			}
			if r.Want() {
				c.ctorCase([]rmem{{k: "a", v: "", props: []rprop{{"p", v, true}}}}, "")
			}
		}
	}
	for b := 0; b < 128; b++ {
		if !isTchar(byte(b)) {
			continue
		}
		ch := string(rune(b))
		for _, k := range []string{ch, "a" + ch, ch + "a"} {
			if r.Want() {
				c.ctorCase([]rmem{{k: k, v: "v"}}, "")
			}
			if r.Want() {
				c.ctorCase([]rmem{{k: "a", v: "v", props: []rprop{{k, "", false}}}}, "")
			}
			if r.Want() {
				c.ctorCase([]rmem{{k: "a", v: "v", props: []rprop{{k, "w", true}}}}, "")
			}
		}
	}
}

// ctor2: two members (all 9 key pairs, duplicates included).
func (c *c11) ctor2(job string, kp int) {
	r := c.r
	maxVal := enum.Pick(r, 1, 2)
	prs := [][]rprop{nil, {prAlpha[0]}, {prAlpha[6]}, {prAlpha[9]}, {prAlpha[2], prAlpha[5]}}
	if !r.Thorough() {
		prs = prs[:4]
	}
	r.Bound("ctor2_key_pairs", len(keyAlpha)*len(keyAlpha))
	r.Bound("ctor2_max_value_len", maxVal)
	r.Bound("ctor2_property_lists", len(prs))
	r.Section(job)
	var vals []string
	for L := 0; L <= maxVal; L++ {
		words(len(valAlpha), L, -1, func(idx []int) bool { vals = append(vals, valueOf(idx)); return true })
	}
	k1, k2 := keyAlpha[kp/len(keyAlpha)], keyAlpha[kp%len(keyAlpha)]
	for _, v1 := range vals {
		for _, p1 := range prs {
			for _, v2 := range vals {
				for _, p2 := range prs {
					if c.expired() {
						return
					}
					if !r.Want() {
						continue
					}
					ms := []rmem{{k: k1, v: v1, props: p1}, {k: k2, v: v2, props: p2}}
					c.ctorCase(ms, "")
					r.Sample(func() any { return descMembers(ms) })
				}
			}
		}
	}
}

// ---------------------------------------------------------------------------
// parser side

const (
	expNone = iota
	expAccept
	expReject
)

// parseCase runs one header through Parse and evaluates the oracles of the statement.
func (c *c11) parseCase(s string, expect int, label, detail string) {
	r := c.r
	r.Eval()
	stage := "Parse"
	desc := func() any {
		d := map[string]any{"header": abbr(s), "bytes": len(s)}
		if label != "" {
			d["what"] = strings.TrimSpace(label + " " + detail)
		}
		return d
	}
	defer c.guard(&stage, desc)()
	defer c.accessorsAgree(desc)

	b, err := baggage.Parse(s)
	// the same bytes through the propagator, into a context that already carries baggage: a header
	// that does not parse (or is absent / empty) leaves that baggage in place, one that parses replaces it
	if s != "" {
		prior, perr := baggage.Parse("zz-prior=1;p=q")
		if perr != nil {
			panic(perr)
		}
		for _, car := range []propagation.TextMapCarrier{propagation.MapCarrier{"baggage": s}, propagation.HeaderCarrier(http.Header{"Baggage": []string{s}})} {
			out := baggage.FromContext(c.prop.Extract(baggage.ContextWithBaggage(context.Background(), prior), car))
			want := snap(prior)
			if err == nil && b.Len() > 0 {
				want = snap(b)
			}
			if a := diff(want, snap(out)); a != "" && !(err == nil && b.Len() == 0) {
				r.FailHere("extract-of-arbitrary-header|"+a+" differs", desc(), "Extract of header %s into a context holding %s gives %s; Parse says err=%v, %s", abbr(s), prior.String(), canonAll(snap(out), true), err, canonAll(want, true))
			}
			if now := snap(baggage.FromContext(baggage.ContextWithBaggage(context.Background(), prior))); diff(snap(prior), now) != "" {
				r.FailHere("extract-alters-the-baggage-of-the-parent-context", desc(), "the baggage the parent context held changed")
			}
		}
	}
	if err != nil {
		r.Outcome("reject|" + errClass(err))
		if expect == expAccept {
			r.FailHere("limit-parse|Parse rejects "+label+": "+errClass(err), desc(), "Parse rejects a header at the limit (%s): %v", label, err)
		}
		return
	}
	r.Count("parse_accepted", 1)
	stage = "Members"
	got := snap(b)
	r.Outcome("ok|" + canonAll(got, true))

	// limits
	segs, keys := headerKeys(s)
	over := ""
	switch {
	case len(got) > limMembers:
		over = "more than 180 members"
	case len(s) > limTotalBytes:
		over = "more than 8192 bytes in total"
	default:
		for _, sg := range segs {
			if len(trimOWS(sg)) > limMemberBytes {
				over = "a member over 4096 bytes"
			}
		}
	}
	if over != "" {
		r.FailHere("limit-parse|Parse accepts "+over, desc(), "Parse accepted %d bytes, %d members", len(s), len(got))
		return
	}
	if expect == expReject {
		r.FailHere("limit-parse|Parse accepts "+label, desc(), "Parse accepted a header over the limit (%s)", label)
		return
	}

	// valid UTF-8 values
	for _, m := range got {
		if !utf8.ValidString(m.v) {
			r.FailHere("parse-utf8|member value", desc(), "member %q has value %q", m.k, m.v)
		}
		for _, p := range m.props {
			if !utf8.ValidString(p.v) {
				r.FailHere("parse-utf8|property value", desc(), "property %q of member %q has value %q", p.k, m.k, p.v)
			}
		}
	}

	// duplicate keys resolve to the last one
	if s != "" && len(segs) > 1 {
		last := map[string]int{}
		for i, k := range keys {
			last[k] = i
		}
		ks := make([]string, 0, len(last))
		for k := range last {
			ks = append(ks, k)
		}
		sort.Strings(ks)
		gk := make([]string, len(got))
		for i, m := range got {
			gk[i] = m.k
		}
		if strings.Join(ks, ",") != strings.Join(gk, ",") {
			r.FailHere("parse-dup|member keys differ from the header's keys", desc(), "header keys %q, parsed keys %q", ks, gk)
		} else if len(last) < len(segs) {
			stage = "Parse(single member)"
			for _, m := range got {
				one, err1 := baggage.Parse(segs[last[m.k]])
				if err1 != nil {
					r.Count("single_member_reparse_rejected", 1)
					continue
				}
				if w := snap(one); len(w) != 1 || w[0].canon(true) != m.canon(true) {
					r.FailHere("parse-dup|last duplicate does not win", desc(), "key %q: parsed %s, the last list-member with this key alone parses to %s", m.k, m.canon(true), canonAll(w, true))
					break
				}
			}
		}
	}

	// stable under re-serialising and re-parsing
	stage = "Baggage.String"
	h := b.String()
	stage = "Parse(String())"
	b2, err2 := baggage.Parse(h)
	if err2 != nil {
		class := "re-parse fails: " + errClass(err2)
		if hasReplacementChar(got) && (len(h) > limTotalBytes || strings.Contains(err2.Error(), "too large")) {
			class = "U+FFFD substitution grows the header past a size limit"
		}
		r.FailHere("reparse|"+class, desc(), "Parse succeeded, String() gives %s (%d bytes), Parse of that: %v", abbr(h), len(h), err2)
		return
	}
	got2 := snap(b2)
	if a := diff(got, got2); a != "" {
		class := a + " differs"
		if hasEmptyKeyProp(got) {
			class = "empty property segment yields an empty-key property"
		}
		r.FailHere("reparse|"+class, desc(), "parsed %s; String() gives %s which parses to %s", canonAll(got, true), abbr(h), canonAll(got2, true))
	}
}

var byteAlpha = []byte{'a', '=', ';', ',', '%', '2', 'F', 'G', ' ', '\t', 0xc3, 0xa9, 0xff, '"'}

func (c *c11) bytesJob(job string, first int) {
	r := c.r
	maxLen := enum.Pick(r, 6, 7)
	r.Bound("bytes_alphabet", len(byteAlpha))
	r.Bound("bytes_max_len", maxLen)
	r.Section(job)
	if first == 0 && r.Want() {
		c.parseCase("", expNone, "", "")
	}
	buf := make([]byte, 0, maxLen)
	for L := 1; L <= maxLen; L++ {
		ok := words(len(byteAlpha), L, first, func(idx []int) bool {
			if c.expired() {
				return false
			}
			if !r.Want() {
				return true
			}
			buf = buf[:0]
			for _, i := range idx {
				buf = append(buf, byteAlpha[i])
			}
			s := string(buf)
			c.parseCase(s, expNone, "", "")
			r.Sample(func() any { return fmt.Sprintf("%q", s) })
			return true
		})
		if !ok {
			return
		}
	}
}

var memberAlpha = []string{
	"a=1", "a=2", "a=", "b=1", "a=%2C", "a=1;p", "a=2;p=x", "b=2;p;q=%3B", " a = 1 ", "a\t=\t2\t;\tp\t=\tx\t",
	"a=1;", "a=1;;p", "b=%FF", "a", "", "=1",
}

func (c *c11) membersJob(job string, first int) {
	r := c.r
	maxN := enum.Pick(r, 4, 5)
	r.Bound("members_alphabet", len(memberAlpha))
	r.Bound("members_max_list_len", maxN)
	r.Section(job)
	for n := 1; n <= maxN; n++ {
		ok := words(len(memberAlpha), n, first, func(idx []int) bool {
			if c.expired() {
				return false
			}
			if !r.Want() {
				return true
			}
			parts := make([]string, len(idx))
			for i, j := range idx {
				parts[i] = memberAlpha[j]
			}
			s := strings.Join(parts, ",")
			c.parseCase(s, expNone, "", "")
			r.Sample(func() any { return fmt.Sprintf("%q", s) })
			return true
		})
		if !ok {
			return
		}
	}
}

var pctContexts = []string{"a=%s", "a=a%s", "a=%sa", "a=a%sa", "a=;p=%s", "a=1;p=a%sa;q"}

// pctJob: percent-escape closure in one context.
func (c *c11) pctJob(job string, ctx int) {
	r := c.r
	r.Section(job)
	form := pctContexts[ctx]
	edge := []int{0x00, 0x7f, 0x80, 0x8f, 0x90, 0x9f, 0xa0, 0xbf, 0xc0, 0xff}
	lead4 := []int{0xe0, 0xed, 0xef, 0xf0, 0xf1, 0xf4, 0xf5, 0xf8, 0xff}
	r.Bound("pct_contexts", len(pctContexts))
	r.Bound("pct_escape_words", "all 256 single (upper and lower hex), all 65536 pairs, 256x10x10 triples, 9x10x10x10 quadruples")
	run := func(esc string) {
		if !r.Want() {
			return
		}
		s := fmt.Sprintf(form, esc)
		c.parseCase(s, expNone, "", "")
		r.Sample(func() any { return fmt.Sprintf("%q", s) })
	}
	for x := 0; x < 256; x++ {
		run(fmt.Sprintf("%%%02X", x))
		run(fmt.Sprintf("%%%02x", x))
	}
	for x := 0; x < 256; x++ {
		if r.Expired() {
			return
		}
		for y := 0; y < 256; y++ {
			run(fmt.Sprintf("%%%02X%%%02X", x, y))
		}
	}
	for x := 0; x < 256; x++ {
		for _, y := range edge {
			for _, z := range edge {
				run(fmt.Sprintf("%%%02X%%%02X%%%02X", x, y, z))
			}
		}
	}
	for _, x := range lead4 {
		for _, y := range edge {
			for _, z := range edge {
				for _, w := range edge {
					run(fmt.Sprintf("%%%02X%%%02X%%%02X%%%02X", x, y, z, w))
				}
			}
		}
	}
}

// ---------------------------------------------------------------------------
// limits

// layout distributes L bytes over n comma-separated members (L includes the commas).
func layout(L, n int) []int {
	sz := make([]int, n)
	body := L - (n - 1)
	for i := range sz {
		sz[i] = body / n
	}
	sz[n-1] += body % n
	return sz
}

func mustLen(s string, n int) string {
	if len(s) != n {
		panic(fmt.Sprintf("harness: constructed %d bytes, wanted %d", len(s), n))
	}
	return s
}

func (c *c11) limitsParse(job string) {
	r := c.r
	r.Section(job + "/parse-members")
	// A header over a limit must be rejected; one within the limits must be accepted unless it
	// holds escapes of invalid UTF-8: those values grow when they are serialised again, so a
	// parser may turn them down to stay re-parseable (acceptance not judged).
	acc := func(ok bool, content ...string) int {
		if !ok {
			return expReject
		}
		for _, s := range content {
			if strings.Contains(s, "%FF") {
				return expNone
			}
		}
		return expAccept
	}
	for _, form := range []string{"k%03d=%d", "k%03d=;p=%d"} {
		for _, n := range []int{1, 2, 179, 180, 181, 182, 360} {
			if !r.Want() {
				continue
			}
			parts := make([]string, n)
			for i := range parts {
				parts[i] = fmt.Sprintf(form, i, i)
			}
			c.parseCase(strings.Join(parts, ","), acc(n <= limMembers), fmt.Sprintf("%d members", n), "")
		}
	}
	// more list-members than the limit, but not more distinct keys: acceptance is not judged
	for _, at := range []int{0, 90, 180} {
		if !r.Want() {
			continue
		}
		parts := make([]string, 181)
		for i := range parts {
			parts[i] = fmt.Sprintf("k%03d=%d", i, i)
		}
		parts[at] = fmt.Sprintf("k%03d=dup", (at+1)%181)
		c.parseCase(strings.Join(parts, ","), expNone, "181 list-members, 180 distinct keys", "")
	}
	if r.Want() {
		c.parseCase(strings.TrimSuffix(strings.Repeat("a=1,", 361), ","), expNone, "361 list-members, one key", "")
	}

	// escapes that decode to invalid UTF-8 become U+FFFD, which takes nine bytes when it is
	// serialised again: the smallest headers whose re-serialisation crosses a limit
	r.Section(job + "/parse-growth")
	ff := func(n int) string { return strings.Repeat("%FF", n) }
	for _, h := range []string{
		"a=" + ff(454), "a=" + ff(455),
		"a=" + ff(303) + ",b=" + ff(303) + ",c=" + ff(303), "a=" + ff(304) + ",b=" + ff(304) + ",c=" + ff(303),
		"a=;p=" + ff(454), "a=;p=" + ff(455),
	} {
		if r.Want() {
			c.parseCase(h, expNone, "values that grow when re-serialised", "")
		}
	}

	units := []string{"a", "%20", "%C3%A9", "%FF"}
	r.Section(job + "/parse-total")
	for _, L := range []int{8191, 8192, 8193} {
		for _, n := range []int{2, 3, 128} {
			for _, u := range units {
				if !r.Want() {
					continue
				}
				var parts []string
				for i, sz := range layout(L, n) {
					k := fmt.Sprintf("k%03d=", i)
					parts = append(parts, mustLen(k+fill(u, sz-len(k)), sz))
				}
				s := mustLen(strings.Join(parts, ","), L)
				c.parseCase(s, acc(L <= limTotalBytes, u), fmt.Sprintf("%d bytes in total", L), fmt.Sprintf("(%d members, filler %s)", n, u))
			}
		}
	}

	r.Section(job + "/parse-member")
	for _, M := range []int{4095, 4096, 4097} {
		var ms []string
		var where []string
		for _, u := range units {
			ms = append(ms, "a="+fill(u, M-2), "a=;p="+fill(u, M-5), "a=1"+fill(";p="+u, M-3))
			where = append(where, "value of "+u, "property value of "+u, "many properties with "+u)
		}
		ms = append(ms, fill("a", M-1)+"=", "a=;"+fill("a", M-3))
		where = append(where, "key", "property key")
		for i, m := range ms {
			mustLen(m, M)
			for _, form := range []string{"%s", "b=1,%s", "%s,b=1"} {
				if !r.Want() {
					continue
				}
				c.parseCase(fmt.Sprintf(form, m), acc(M <= limMemberBytes, m), fmt.Sprintf("a member of %d bytes", M), "("+where[i]+")")
			}
		}
	}
}

// fillEnc returns a value whose serialised form takes exactly n bytes when every unit
// takes enc bytes ('a' takes one).
func fillEnc(unit string, enc, n int) string {
	if n <= 0 {
		return ""
	}
	k := n / enc
	return strings.Repeat(unit, k) + strings.Repeat("a", n-k*enc)
}

func (c *c11) limitsNew(job string) {
	r := c.r
	r.Section(job + "/new-members")
	hit := func(sz sizes, what string, want int, got int) {
		if got != want {
			r.Note("boundary case %q measured %d instead of %d (serialiser sizes differ from the harness' arithmetic)", what, got, want)
		}
		r.Outcome(fmt.Sprintf("new|%s|accepted=%v", what, sz.accepted))
	}
	for _, withProp := range []bool{false, true} {
		for _, n := range []int{1, 2, 179, 180, 181, 182, 360} {
			if !r.Want() {
				continue
			}
			ms := make([]rmem, n)
			for i := range ms {
				ms[i] = rmem{k: fmt.Sprintf("k%03d", i), v: fmt.Sprint(i)}
				if withProp {
					ms[i].props = []rprop{{"p", "", false}}
				}
			}
			what := fmt.Sprintf("%d members", n)
			sz := c.ctorCase(ms, what)
			hit(sz, what, n, sz.n)
		}
	}
	for _, at := range []int{0, 90, 180} {
		if !r.Want() {
			continue
		}
		ms := make([]rmem, 181)
		for i := range ms {
			ms[i] = rmem{k: fmt.Sprintf("k%03d", i), v: fmt.Sprint(i)}
		}
		ms[at] = rmem{k: fmt.Sprintf("k%03d", (at+1)%181), v: "dup"}
		c.ctorCase(ms, "181 arguments, 180 distinct keys")
	}

	type unit struct {
		s   string
		enc int
	}
	units := []unit{{"a", 1}, {" ", 3}, {"%", 3}, {"é", 6}, {"😀", 12}}
	r.Section(job + "/new-total")
	for _, L := range []int{8191, 8192, 8193} {
		for _, n := range []int{2, 3, 128} {
			for _, u := range units {
				if !r.Want() {
					continue
				}
				var ms []rmem
				for i, sz := range layout(L, n) {
					k := fmt.Sprintf("k%03d", i)
					ms = append(ms, rmem{k: k, v: fillEnc(u.s, u.enc, sz-len(k)-1)})
				}
				what := fmt.Sprintf("%d bytes in total (%d members, filler %q)", L, n, u.s)
				sz := c.ctorCase(ms, what)
				hit(sz, what, L, sz.total)
			}
		}
	}

	r.Section(job + "/new-member")
	for _, M := range []int{4095, 4096, 4097} {
		var ms []rmem
		var where []string
		for _, u := range units {
			ms = append(ms,
				rmem{k: "a", v: fillEnc(u.s, u.enc, M-2)},
				rmem{k: "a", v: "", props: []rprop{{"p", fillEnc(u.s, u.enc, M-5), true}}})
			where = append(where, fmt.Sprintf("value of %q", u.s), fmt.Sprintf("property value of %q", u.s))
			// many properties p=<unit>: each takes 3+enc bytes with its delimiter
			per := 3 + u.enc
			k := (M - 3) / per
			props := make([]rprop, k)
			for i := range props {
				props[i] = rprop{"p", u.s, true}
			}
			ms = append(ms, rmem{k: "a", v: fill("a", M-2-k*per), props: props})
			where = append(where, fmt.Sprintf("many properties with %q", u.s))
		}
		ms = append(ms, rmem{k: fill("a", M-1), v: ""}, rmem{k: "a", v: "", props: []rprop{{fill("a", M-3), "", false}}})
		where = append(where, "key", "property key")
		for i, m := range ms {
			for _, around := range []int{0, 1, 2} {
				if !r.Want() {
					continue
				}
				list := []rmem{m}
				switch around {
				case 1:
					list = []rmem{{k: "b", v: "1"}, m}
				case 2:
					list = []rmem{m, {k: "b", v: "1"}}
				}
				what := fmt.Sprintf("a member of %d bytes (%s)", M, where[i])
				sz := c.ctorCase(list, what)
				hit(sz, what, M, sz.maxMember)
			}
		}
	}
}

// ---------------------------------------------------------------------------
// immutability

type editOp struct {
	del  bool
	k, v string
	prop int // 0: no properties, 1: p=x;q, 2: r=y (a different, shorter list: shared storage shows)
}

func editOps() []editOp {
	var ops []editOp
	for _, k := range []string{"a", "b", "c"} {
		for _, v := range []string{"1", "2"} {
			for p := 0; p < 3; p++ {
				ops = append(ops, editOp{k: k, v: v, prop: p})
			}
		}
		ops = append(ops, editOp{del: true, k: k})
	}
	return ops
}

func (o editOp) String() string {
	if o.del {
		return "Delete(" + o.k + ")"
	}
	switch o.prop {
	case 1:
		return "Set(" + o.k + "=" + o.v + ";p=x;q)"
	case 2:
		return "Set(" + o.k + "=" + o.v + ";r=y)"
	}
	return "Set(" + o.k + "=" + o.v + ")"
}

func (o editOp) member() rmem {
	m := rmem{k: o.k, v: o.v}
	switch o.prop {
	case 1:
		m.props = []rprop{{"p", "x", true}, {"q", "", false}}
	case 2:
		m.props = []rprop{{"r", "y", true}}
	}
	return m
}

type held struct {
	b, cp baggage.Baggage
	ctx   context.Context
	want  string
	how   string
}

const nStarts = 4

func startBaggage(i int) (baggage.Baggage, map[string]rmem, string) {
	mk := func(ms ...rmem) (baggage.Baggage, map[string]rmem) {
		mem := make([]baggage.Member, len(ms))
		model := map[string]rmem{}
		for j, m := range ms {
			var err error
			if mem[j], err = mkMember(m); err != nil {
				panic(err)
			}
			model[m.k] = m
		}
		b, err := baggage.New(mem...)
		if err != nil {
			panic(err)
		}
		return b, model
	}
	switch i {
	case 0:
		return baggage.Baggage{}, map[string]rmem{}, "zero value"
	case 1:
		b, m := mk(rmem{k: "a", v: "1", props: []rprop{{"p", "x", true}, {"q", "", false}}}, rmem{k: "b", v: "2"})
		return b, m, "New(a=1;p=x;q, b=2)"
	case 2:
		b, err := baggage.Parse("a=1;p=x;q,c=2")
		if err != nil {
			panic(err)
		}
		return b, map[string]rmem{"a": {k: "a", v: "1", props: []rprop{{"p", "x", true}, {"q", "", false}}}, "c": {k: "c", v: "2"}}, "Parse(a=1;p=x;q,c=2)"
	default:
		b, m := mk(rmem{k: "c", v: "1"})
		return baggage.FromContext(baggage.ContextWithBaggage(context.Background(), b)), m, "FromContext(ContextWithBaggage(New(c=1)))"
	}
}

func modelCanon(m map[string]rmem, ordered bool) string {
	ks := make([]string, 0, len(m))
	for k := range m {
		ks = append(ks, k)
	}
	sort.Strings(ks)
	ms := make([]rmem, len(ks))
	for i, k := range ks {
		ms[i] = m[k]
	}
	return canonAll(ms, ordered)
}

// scribble overwrites everything the accessors of b hand out.
func scribble(b baggage.Baggage) {
	ms := b.Members()
	for i := range ms {
		ps := ms[i].Properties()
		for j := range ps {
			ps[j] = baggage.Property{}
		}
		ms[i] = baggage.Member{}
	}
	for _, k := range []string{"a", "b", "c"} {
		ps := b.Member(k).Properties()
		for j := range ps {
			ps[j] = baggage.Property{}
		}
	}
}

// immutCase executes one edit sequence on a fresh start value. via=1 takes the receiver of
// every edit out of the context that holds it instead of using the value itself.
func (c *c11) immutCase(ops []editOp, start, via int, seq []int) {
	r := c.r
	stage := "start value"
	var trace []string
	desc := func() any {
		return map[string]any{"start": trace[0], "edits": trace[1:], "receiver_taken_from": []string{"value", "context"}[via]}
	}
	trace = append(trace, "")
	defer c.guard(&stage, desc)()

	b0, model, name := startBaggage(start)
	trace[0] = name
	var hs []held
	chain := context.Background()
	hold := func(b baggage.Baggage, how string) {
		chain = baggage.ContextWithBaggage(chain, b)
		hs = append(hs, held{b: b, cp: b, ctx: chain, want: canonAll(snap(b), true), how: how})
	}
	if got := canonAll(snap(b0), false); got != modelCanon(model, false) {
		r.FailHere("edit|start value differs from the model", desc(), "start %s reads %s, model %s", name, got, modelCanon(model, false))
		return
	}
	hold(b0, name)

	recheck := func(after string, kind string) bool {
		for i, h := range hs {
			views := []struct {
				name string
				b    baggage.Baggage
			}{{"value", h.b}, {"copy of the value", h.cp}, {"value held in a context", baggage.FromContext(h.ctx)}}
			for _, v := range views {
				if got := canonAll(snap(v.b), true); got != h.want {
					who := "an earlier value"
					if i == len(hs)-2 && kind != "scribble" {
						who = "the receiver"
					} else if i == len(hs)-1 {
						who = "the result"
					}
					r.FailHere("immutable|"+kind+" alters "+who+" ("+v.name+")", desc(), "after %s: %s #%d (%s) was %s, now reads %s", after, v.name, i, h.how, h.want, got)
					return false
				}
			}
		}
		return true
	}

	for step, oi := range seq {
		o := ops[oi]
		trace = append(trace, o.String())
		recv := hs[len(hs)-1].b
		if via == 1 {
			recv = baggage.FromContext(hs[len(hs)-1].ctx)
		}
		next := map[string]rmem{}
		for k, m := range model {
			next[k] = m
		}
		var nb baggage.Baggage
		kind := "SetMember"
		r.Eval()
		if o.del {
			kind = "DeleteMember"
			stage = kind
			nb = recv.DeleteMember(o.k)
			delete(next, o.k)
		} else {
			stage = kind
			mem, err := mkMember(o.member())
			if err != nil {
				panic(err)
			}
			nb, err = recv.SetMember(mem)
			if err != nil {
				r.FailHere("edit|SetMember rejects a valid member", desc(), "SetMember: %v", err)
				return
			}
			next[o.k] = o.member()
		}
		model = next
		stage = "re-reading after " + kind
		hold(nb, o.String())
		if got := canonAll(snap(nb), false); got != modelCanon(model, false) {
			r.FailHere("edit|result of "+kind+" differs from the model", desc(), "result reads %s, model %s", got, modelCanon(model, false))
			return
		}
		if nb.Len() != len(model) {
			r.FailHere("edit|Len of the result of "+kind, desc(), "Len() = %d, model has %d members", nb.Len(), len(model))
			return
		}
		// every earlier value, copy and context is re-read after the last edit; the shorter
		// sequences (enumerated before this one) did so after each of the earlier edits
		if step == len(seq)-1 && !recheck(o.String(), kind) {
			return
		}
	}
	stage = "overwriting returned slices"
	for _, h := range hs {
		scribble(h.b)
		scribble(baggage.FromContext(h.ctx))
	}
	if !recheck("overwriting the slices returned by Members/Properties", "scribble") {
		return
	}
	r.Transition()
	r.State(fmt.Sprintf("%s", modelCanon(model, true)))
	r.Outcome(hs[len(hs)-1].want)
}

func (c *c11) immutJob(job string, first int) {
	r := c.r
	ops := editOps()
	// every start value x receiver source up to depth; one level deeper from the zero value
	depth := enum.Pick(r, 3, 4)
	r.Bound("immut_ops", len(ops))
	r.Bound("immut_max_depth_all_starts", depth)
	r.Bound("immut_max_depth_zero_value_start", depth+1)
	r.Bound("immut_start_values", nStarts)
	r.Bound("immut_receiver_sources", 2)
	r.Section(job)
	for L := 1; L <= depth+1; L++ {
		for start := 0; start < nStarts; start++ {
			for via := 0; via < 2; via++ {
				if L > depth && (start != 0 || via != 0) {
					continue
				}
				ok := words(len(ops), L, first, func(idx []int) bool {
					if c.expired() {
						return false
					}
					if !r.Want() {
						return true
					}
					c.immutCase(ops, start, via, idx)
					r.Sample(func() any {
						var s []string
						for _, i := range idx {
							s = append(s, ops[i].String())
						}
						return map[string]any{"start": start, "via": via, "edits": s}
					})
					return true
				})
				if !ok {
					return
				}
			}
		}
	}
}

// ---------------------------------------------------------------------------

// ---------------------------------------------------------------------------
// encctor: the constructors that take a PERCENT-ENCODED value, NewMember and NewKeyValueProperty,
// over every string of <= maxTok tokens. Reference: a value is well formed when every character is
// a W3C baggage-octet, every '%' starts a %XX escape and the decoded bytes are valid UTF-8. A well
// formed value is accepted; whatever is accepted holds exactly the decoded value (valid UTF-8),
// equals what the Raw constructor makes of the decoded value, and survives New -> String -> Parse
// and Inject -> Extract.

var encTokens = []string{"a", "%", "2", "5", "C", "%2C", "%25", "%3B", "%20", "%C3%A9", "%c3%a9", "%FF", "%zz", "é", " ", ",", ";", "=", "+", "\"", "\\", "%C3"}

func encRefDecode(s string) (dec string, wellFormed bool) {
	var b []byte
	ok := true
	for i := 0; i < len(s); i++ {
		ch := s[i]
		octet := ch == 0x21 || (ch >= 0x23 && ch <= 0x2b) || (ch >= 0x2d && ch <= 0x3a) || (ch >= 0x3c && ch <= 0x5b) || (ch >= 0x5d && ch <= 0x7e)
		if !octet {
			ok = false
		}
		if ch == '%' {
			hex := func(c byte) int {
				switch {
				case c >= '0' && c <= '9':
					return int(c - '0')
				case c >= 'a' && c <= 'f':
					return int(c-'a') + 10
				case c >= 'A' && c <= 'F':
					return int(c-'A') + 10
				}
				return -1
			}
			if i+2 >= len(s) || hex(s[i+1]) < 0 || hex(s[i+2]) < 0 {
				return "", false
			}
			b = append(b, byte(hex(s[i+1])<<4|hex(s[i+2])))
			i += 2
			continue
		}
		b = append(b, ch)
	}
	return string(b), ok && utf8.Valid(b)
}

func (c *c11) encCtorJob(job string, first int) {
	r := c.r
	r.Section(job)
	maxTok := enum.Pick(r, 4, 5)
	r.Bound("encctor_tokens", encTokens)
	r.Bound("encctor_max_tokens", maxTok)
	prop := propagation.Baggage{}
	one := func(enc string) {
		r.Eval()
		stage := "NewMember"
		desc := func() any { return map[string]any{"percent_encoded_value": fmt.Sprintf("%q", enc)} }
		r.Sample(desc)
		defer c.guard(&stage, desc)()
		want, wf := encRefDecode(enc)
		m, err := baggage.NewMember("k", enc)
		stage = "NewKeyValueProperty"
		pr, perr := baggage.NewKeyValueProperty("p", enc)
		if (err == nil) != (perr == nil) {
			r.FailHere("encctor|member and property constructors disagree", desc(), "NewMember: %v, NewKeyValueProperty: %v", err, perr)
		}
		if err != nil {
			if wf {
				r.FailHere("ctor-rejects|NewMember: well-formed percent-encoded value", desc(), "NewMember(\"k\", %q) = %v; the value is well formed and decodes to %q", enc, err, want)
			}
			r.Outcome("reject")
			return
		}
		if !utf8.ValidString(m.Value()) {
			r.FailHere("encctor|accepted value is not valid UTF-8", desc(), "NewMember(\"k\", %q) holds %q", enc, m.Value())
			return
		}
		if want != m.Value() {
			r.FailHere("encctor|value is not the decoded argument", desc(), "NewMember(\"k\", %q) holds %q, decoding gives %q", enc, m.Value(), want)
		}
		if perr == nil {
			if v, ok := pr.Value(); !ok || v != m.Value() {
				r.FailHere("encctor|property value is not the decoded argument", desc(), "NewKeyValueProperty(\"p\", %q) holds (%q, %v), the member holds %q", enc, v, ok, m.Value())
			}
		}
		stage = "NewMemberRaw"
		raw, rerr := baggage.NewMemberRaw("k", m.Value())
		if rerr != nil || raw.String() != m.String() {
			r.FailHere("encctor|differs from the Raw constructor on the decoded value", desc(), "NewMember(%q).String() = %q, NewMemberRaw(%q): %q err=%v", enc, m.String(), m.Value(), raw.String(), rerr)
		}
		stage = "New"
		mp, err := baggage.NewMember("k", enc, pr)
		if err != nil {
			r.FailHere("encctor|member with an accepted property rejected", desc(), "NewMember with the property: %v", err)
			return
		}
		bag, err := baggage.New(mp)
		if err != nil {
			r.FailHere("ctor-rejects|New: one small member", desc(), "New: %v", err)
			return
		}
		stage = "Parse"
		back, err := baggage.Parse(bag.String())
		check := func(what string, b baggage.Baggage) {
			g := b.Member("k")
			ps := g.Properties()
			pv, pok := "", false
			if len(ps) == 1 {
				pv, pok = ps[0].Value()
			}
			if b.Len() != 1 || g.Value() != m.Value() || len(ps) != 1 || !pok || pv != m.Value() {
				r.FailHere("roundtrip|"+what+"|member built from a percent-encoded value", desc(), "header %q: got %d members, value %q, properties %v; sent value and property value %q", bag.String(), b.Len(), g.Value(), ps, m.Value())
			}
		}
		if err != nil {
			r.FailHere("roundtrip|Parse rejects what String wrote", desc(), "Parse(%q): %v", bag.String(), err)
			return
		}
		check("String -> Parse", back)
		stage = "Inject/Extract"
		car := propagation.HeaderCarrier(http.Header{})
		prop.Inject(baggage.ContextWithBaggage(context.Background(), bag), car)
		check("Inject -> Extract", baggage.FromContext(prop.Extract(context.Background(), car)))
		r.Outcome("ok|" + m.Value())
	}
	var rec func(prefix string, n int)
	rec = func(prefix string, n int) {
		if r.Expired() {
			return
		}
		if r.Want() {
			one(prefix)
		}
		if n == maxTok {
			return
		}
		for _, t := range encTokens {
			rec(prefix+t, n+1)
		}
	}
	if first < 0 {
		one("")
		return
	}
	rec(encTokens[first], 1)
}

func TestVerifC11(t *testing.T) {
	var jobs []string
	for i := range valAlpha {
		jobs = append(jobs, fmt.Sprintf("ctor1/v%02d", i))
	}
	for i := 0; i < len(keyAlpha)*len(keyAlpha); i++ {
		jobs = append(jobs, fmt.Sprintf("ctor2/k%d", i))
	}
	for i := range byteAlpha {
		jobs = append(jobs, fmt.Sprintf("bytes/s%02d", i))
	}
	jobs = append(jobs, "members")
	for i := range pctContexts {
		jobs = append(jobs, fmt.Sprintf("pct/c%d", i))
	}
	jobs = append(jobs, "limits/parse", "limits/new", "encctor/empty")
	for i := range encTokens {
		jobs = append(jobs, fmt.Sprintf("encctor/t%02d", i))
	}
	for i := range editOps() {
		jobs = append(jobs, fmt.Sprintf("immut/op%02d", i))
	}
	debug.SetGCPercent(1000) // millions of short-lived strings: keep the collector out of the way
	enum.Jobs(jobs, func(job string) {
		r := enum.Start("C11", "baggage")
		defer r.Finish()
		c := &c11{r: r}
		r.Bound("limit_members", limMembers)
		r.Bound("limit_total_bytes", limTotalBytes)
		r.Bound("limit_member_bytes", limMemberBytes)
		var n int
		switch {
		case strings.HasPrefix(job, "ctor1/"):
			fmt.Sscanf(job, "ctor1/v%d", &n)
			c.ctor1(job, n)
		case strings.HasPrefix(job, "ctor2/"):
			fmt.Sscanf(job, "ctor2/k%d", &n)
			c.ctor2(job, n)
		case strings.HasPrefix(job, "bytes/"):
			fmt.Sscanf(job, "bytes/s%d", &n)
			c.bytesJob(job, n)
		case job == "members":
			c.membersJob(job, -1)
		case strings.HasPrefix(job, "pct/"):
			fmt.Sscanf(job, "pct/c%d", &n)
			c.pctJob(job, n)
		case job == "encctor/empty":
			c.encCtorJob(job, -1)
		case strings.HasPrefix(job, "encctor/t"):
			fmt.Sscanf(job, "encctor/t%d", &n)
			c.encCtorJob(job, n)
		case job == "limits/parse":
			c.limitsParse(job)
		case job == "limits/new":
			c.limitsNew(job)
		case strings.HasPrefix(job, "immut/"):
			fmt.Sscanf(job, "immut/op%d", &n)
			c.immutJob(job, n)
		}
	})
}
