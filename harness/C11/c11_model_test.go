package baggage_test

// C11 — reference side of the check: a plain description of members and properties
// (what the property statement talks about), a reader that turns a real Baggage into
// that description through the public accessors only, and the byte-level statements
// used as oracles (header segmentation for "last duplicate wins", the RFC 7230 token
// alphabet for "valid keys"). Nothing here looks at how the package escapes or scans.

import (
	"fmt"
	"sort"
	"strconv"
	"strings"

	"go.opentelemetry.io/otel/baggage"
)

// rprop / rmem: the reference description of a property and of a list-member.
type rprop struct {
	k, v string
	has  bool // key=value (true) or key only (false)
}

type rmem struct {
	k, v  string
	props []rprop
}

// ---------------------------------------------------------------------------
// reading a real Baggage back (public accessors only)

func snapProps(ps []baggage.Property) []rprop {
	if len(ps) == 0 {
		return nil
	}
	out := make([]rprop, len(ps))
	for i, p := range ps {
		v, has := p.Value()
		out[i] = rprop{k: p.Key(), v: v, has: has}
	}
	return out
}

// snap returns the members of b sorted by key (Members() order is documented as not
// significant), each with its value and its property list in the order returned.
func snap(b baggage.Baggage) []rmem {
	ms := b.Members()
	out := make([]rmem, len(ms))
	for i, m := range ms {
		out[i] = rmem{k: m.Key(), v: m.Value(), props: snapProps(m.Properties())}
		// the keyed accessor agrees with the list
		if km := b.Member(m.Key()); km.Key() != m.Key() || km.Value() != m.Value() || canonAll([]rmem{{k: km.Key(), v: km.Value(), props: snapProps(km.Properties())}}, true) != canonAll([]rmem{out[i]}, true) {
			c11AccessorMismatch = append(c11AccessorMismatch, "Member("+strconv.Quote(m.Key())+") differs from the entry of Members()")
		}
	}
	if b.Len() != len(ms) {
		c11AccessorMismatch = append(c11AccessorMismatch, "Len() = "+strconv.Itoa(b.Len())+", Members() lists "+strconv.Itoa(len(ms)))
	}
	if am := b.Member("c11-absent-key"); am.Key() != "" || am.Value() != "" || len(am.Properties()) != 0 {
		c11AccessorMismatch = append(c11AccessorMismatch, "Member(<absent key>) is not the zero Member")
	}
	sort.SliceStable(out, func(i, j int) bool { return out[i].k < out[j].k })
	return out
}

// c11AccessorMismatch collects disagreements between Members(), Member(key) and Len() seen by snap;
// the case functions report and clear it.
var c11AccessorMismatch []string

func appendProp(b []byte, p rprop) []byte {
	b = strconv.AppendQuote(b, p.k)
	if p.has {
		b = append(b, '=')
		b = strconv.AppendQuote(b, p.v)
	}
	return b
}

// canon writes a member as text. With ordered=false the property list is compared as
// a multiset (the property statement does not give property order a meaning).
func (m rmem) canon(ordered bool) string {
	b := make([]byte, 0, 32+len(m.k)+len(m.v))
	b = strconv.AppendQuote(b, m.k)
	b = append(b, '=')
	b = strconv.AppendQuote(b, m.v)
	b = append(b, '[')
	if ordered || len(m.props) < 2 {
		for i, p := range m.props {
			if i > 0 {
				b = append(b, ';')
			}
			b = appendProp(b, p)
		}
	} else {
		ps := make([]string, len(m.props))
		for i, p := range m.props {
			ps[i] = string(appendProp(nil, p))
		}
		sort.Strings(ps)
		b = append(b, strings.Join(ps, ";")...)
	}
	b = append(b, ']')
	return string(b)
}

func canonAll(ms []rmem, ordered bool) string {
	var sb strings.Builder
	for _, m := range ms {
		sb.WriteString(m.canon(ordered))
		sb.WriteByte(',')
	}
	return sb.String()
}

// diff names the first aspect in which two member lists (both sorted by key) differ:
// "" when they hold the same members, values and property multisets.
func diff(want, got []rmem) string {
	if len(want) != len(got) {
		return "member set"
	}
	for i := range want {
		if want[i].k != got[i].k {
			return "member set"
		}
	}
	for i := range want {
		if want[i].v != got[i].v {
			return "member value"
		}
	}
	for i := range want {
		if want[i].canon(false) != got[i].canon(false) {
			if len(want[i].props) != len(got[i].props) {
				return "number of properties"
			}
			return "property"
		}
	}
	return ""
}

func hasEmptyKeyProp(ms []rmem) bool {
	for _, m := range ms {
		for _, p := range m.props {
			if p.k == "" {
				return true
			}
		}
	}
	return false
}

func hasReplacementChar(ms []rmem) bool {
	for _, m := range ms {
		if strings.ContainsRune(m.v, '�') {
			return true
		}
		for _, p := range m.props {
			if strings.ContainsRune(p.v, '�') {
				return true
			}
		}
	}
	return false
}

// ---------------------------------------------------------------------------
// building real values from the reference description (public constructors only)

func mkProp(p rprop) (baggage.Property, error) {
	if p.has {
		return baggage.NewKeyValuePropertyRaw(p.k, p.v)
	}
	return baggage.NewKeyProperty(p.k)
}

func mkMember(m rmem) (baggage.Member, error) {
	var ps []baggage.Property
	for _, p := range m.props {
		rp, err := mkProp(p)
		if err != nil {
			return baggage.Member{}, err
		}
		ps = append(ps, rp)
	}
	mem, err := baggage.NewMemberRaw(m.k, m.v, ps...)
	// the constructor must have taken its own copy of the property list
	for i := range ps {
		ps[i] = baggage.Property{}
	}
	return mem, err
}

// ---------------------------------------------------------------------------
// byte-level statements

// isTchar: RFC 7230 section 3.2.6 token character — the "valid keys" of the W3C header.
func isTchar(c byte) bool {
	switch {
	case c >= '0' && c <= '9', c >= 'a' && c <= 'z', c >= 'A' && c <= 'Z':
		return true
	}
	return strings.IndexByte("!#$%&'*+-.^_`|~", c) >= 0
}

func isToken(s string) bool {
	if s == "" {
		return false
	}
	for i := 0; i < len(s); i++ {
		if !isTchar(s[i]) {
			return false
		}
	}
	return true
}

func trimOWS(s string) string { return strings.Trim(s, " \t") }

// headerKeys splits a header into its list-members (at every comma: a comma cannot
// occur inside a member) and returns, per member, the key bytes: what precedes the
// first '=' of the part before the first ';', optional whitespace removed.
func headerKeys(h string) (segs, keys []string) {
	segs = strings.Split(h, ",")
	keys = make([]string, len(segs))
	for i, s := range segs {
		kv, _, _ := strings.Cut(s, ";")
		k, _, _ := strings.Cut(kv, "=")
		keys[i] = trimOWS(k)
	}
	return
}

func errClass(err error) string {
	s := err.Error()
	if i := strings.Index(s, ":"); i >= 0 {
		s = s[:i]
	}
	return s
}

// ---------------------------------------------------------------------------
// describing cases

func abbr(s string) string {
	if len(s) <= 80 {
		return fmt.Sprintf("%q", s)
	}
	return fmt.Sprintf("%q...(%d bytes)...%q", s[:24], len(s), s[len(s)-12:])
}

func descMember(m rmem) string {
	s := abbr(m.k) + "=" + abbr(m.v)
	for _, p := range m.props {
		s += " ;" + abbr(p.k)
		if p.has {
			s += "=" + abbr(p.v)
		}
	}
	return s
}

func descMembers(ms []rmem) []string {
	out := make([]string, len(ms))
	for i, m := range ms {
		out[i] = descMember(m)
	}
	if len(out) > 6 {
		out = append(append(out[:3:3], fmt.Sprintf("... %d members in all ...", len(ms))), out[len(out)-2:]...)
	}
	return out
}

// fill returns exactly n bytes: unit repeated as often as it fits, padded with 'a'.
func fill(unit string, n int) string {
	if n <= 0 {
		return ""
	}
	k := n / len(unit)
	return strings.Repeat(unit, k) + strings.Repeat("a", n-k*len(unit))
}

// words enumerates, in lexicographic order, every index word of length L over n
// symbols whose first symbol is first (any first symbol when first < 0).
func words(n, L, first int, f func(idx []int) bool) bool {
	idx := make([]int, L)
	if L == 0 {
		return f(idx)
	}
	lo := 0
	if first >= 0 {
		idx[0] = first
		lo = 1
	}
	for {
		if !f(idx) {
			return false
		}
		i := L - 1
		for ; i >= lo; i-- {
			idx[i]++
			if idx[i] < n {
				break
			}
			idx[i] = 0
		}
		if i < lo {
			return true
		}
	}
}
