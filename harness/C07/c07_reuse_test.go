package metric_test

// C07 — destination reuse. The SDK writes every collection into the ResourceMetrics the caller
// hands in and reuses whatever slices it finds there; the position of a metric inside the scope
// shifts when an earlier-created instrument starts reporting later. Every ordered pair of
// explicit-bucket histograms over a set of boundary lists (and an exponential pair), both
// temporalities, int64 and float64, every 3-step history of "record into first / second / both",
// all collected into ONE reused ResourceMetrics: after every collection each data point must have
// one more bucket than boundaries, bucket counts that sum to its count, and the counts of a map model.

import (
	"context"
	"fmt"
	"sort"
	"testing"

	"go.opentelemetry.io/otel/attribute"
	sdk "go.opentelemetry.io/otel/sdk/metric"
	"go.opentelemetry.io/otel/sdk/metric/metricdata"
	"verif/mc/enum"
)

func reuseBucket(bounds []float64, v float64) int { return sort.SearchFloat64s(bounds, v) } // (lower, upper]

func TestVerifC07Reuse(t *testing.T) {
	lists := [][]float64{{}, {0}, {0, 5, 10}, {1, 2, 3, 4, 5, 6, 7, 8}}
	var jobs []string
	for _, temp := range []string{"cumulative", "delta"} {
		for _, num := range []string{"int64", "float64"} {
			jobs = append(jobs, "reuse/"+temp+"/"+num)
		}
	}
	enum.Jobs(jobs, func(job string) {
		r := enum.Start("C07", "reuse")
		defer r.Finish()
		r.Section(job)
		var temp, num string
		fmt.Sscanf(job, "reuse/%s", &temp)
		parts := [3]string{}
		n := 0
		for _, p := range []byte(job) {
			if p == '/' {
				n++
				continue
			}
			parts[n] += string(p)
		}
		temp, num = parts[1], parts[2]
		r.Bound("reuse_boundary_lists", len(lists))
		r.Bound("reuse_history_len", 3)
		ctx := context.Background()
		vals := []float64{1, 7}
		steps := []string{"first", "second", "both"}
		for ai, A := range lists {
			for bi, B := range lists {
				for h := 0; h < 27; h++ { // all 3-step histories over {first, second, both}
					if !r.Want() {
						continue
					}
					hist := []int{h % 3, (h / 3) % 3, (h / 9) % 3}
					cas := map[string]any{"first_created_bounds": fmt.Sprint(A), "second_created_bounds": fmt.Sprint(B), "temporality": temp, "number": num,
						"history": []string{steps[hist[0]], steps[hist[1]], steps[hist[2]]}}
					func() {
						defer func() {
							if p := recover(); p != nil {
								r.FailHere("panic|reuse", cas, "panic: %v", p)
							}
						}()
						sel := func(sdk.InstrumentKind) metricdata.Temporality {
							if temp == "delta" {
								return metricdata.DeltaTemporality
							}
							return metricdata.CumulativeTemporality
						}
						rd := sdk.NewManualReader(sdk.WithTemporalitySelector(sel))
						mp := sdk.NewMeterProvider(sdk.WithReader(rd),
							sdk.WithView(sdk.NewView(sdk.Instrument{Name: "first"}, sdk.Stream{Aggregation: sdk.AggregationExplicitBucketHistogram{Boundaries: A}})),
							sdk.WithView(sdk.NewView(sdk.Instrument{Name: "second"}, sdk.Stream{Aggregation: sdk.AggregationExplicitBucketHistogram{Boundaries: B}})))
						m := mp.Meter("m")
						var recF, recS func(v float64)
						if num == "int64" {
							f, _ := m.Int64Histogram("first")
							s, _ := m.Int64Histogram("second")
							recF = func(v float64) { f.Record(ctx, int64(v)) }
							recS = func(v float64) { s.Record(ctx, int64(v)) }
						} else {
							f, _ := m.Float64Histogram("first")
							s, _ := m.Float64Histogram("second")
							recF = func(v float64) { f.Record(ctx, v) }
							recS = func(v float64) { s.Record(ctx, v) }
						}
						model := map[string][]uint64{"first": make([]uint64, len(A)+1), "second": make([]uint64, len(B)+1)}
						bounds := map[string][]float64{"first": A, "second": B}
						var rm metricdata.ResourceMetrics // ONE destination for every collection
						for si, what := range hist {
							if temp == "delta" {
								model = map[string][]uint64{"first": make([]uint64, len(A)+1), "second": make([]uint64, len(B)+1)}
							}
							v := vals[si%2]
							if what == 0 || what == 2 {
								recF(v)
								model["first"][reuseBucket(A, v)]++
							}
							if what == 1 || what == 2 {
								recS(v)
								model["second"][reuseBucket(B, v)]++
							}
							r.Eval()
							if err := rd.Collect(ctx, &rm); err != nil {
								r.FailHere("collect-error|reuse", cas, "Collect: %v", err)
								return
							}
							for _, sm := range rm.ScopeMetrics {
								for _, met := range sm.Metrics {
									var counts []uint64
									var bnds []float64
									var count uint64
									var attrs attribute.Set
									np := 0
									switch d := met.Data.(type) {
									case metricdata.Histogram[int64]:
										np = len(d.DataPoints)
										if np > 0 {
											counts, bnds, count, attrs = d.DataPoints[0].BucketCounts, d.DataPoints[0].Bounds, d.DataPoints[0].Count, d.DataPoints[0].Attributes
										}
									case metricdata.Histogram[float64]:
										np = len(d.DataPoints)
										if np > 0 {
											counts, bnds, count, attrs = d.DataPoints[0].BucketCounts, d.DataPoints[0].Bounds, d.DataPoints[0].Count, d.DataPoints[0].Attributes
										}
									default:
										r.FailHere("data-type|reuse", cas, "metric %s reported as %T", met.Name, met.Data)
										continue
									}
									_ = attrs
									if np == 0 {
										continue
									}
									if np != 1 {
										r.FailHere("explicit-point-count|destination reused", cas, "metric %s: %d data points for one attribute set (step %d)", met.Name, np, si+1)
									}
									if len(counts) != len(bnds)+1 || fmt.Sprint(bnds) != fmt.Sprint(bounds[met.Name]) {
										r.FailHere("explicit-bucket-count|destination reused", cas, "metric %s: %d buckets for boundaries %v (configured %v) at step %d", met.Name, len(counts), bnds, bounds[met.Name], si+1)
										continue
									}
									var sum uint64
									for _, c := range counts {
										sum += c
									}
									if sum != count {
										r.FailHere("explicit-count-conservation|destination reused", cas, "metric %s: bucket counts %v sum to %d, count %d (step %d)", met.Name, counts, sum, count, si+1)
									}
									if fmt.Sprint(counts) != fmt.Sprint(model[met.Name]) {
										r.FailHere("explicit-bucket|destination reused", cas, "metric %s: bucket counts %v, model %v (step %d)", met.Name, counts, model[met.Name], si+1)
									}
									r.Outcome(fmt.Sprint(met.Name, counts))
								}
							}
						}
						_ = mp.Shutdown(ctx)
					}()
					r.Sample(func() any { return cas })
					_, _ = ai, bi
				}
			}
		}
	})
}
