package metric_test

// C07 (unit "expofunc") — exponential-histogram configurations that reach the SDK through a
// hand-written View function (NewView validates its Stream, a function is used as it is). For
// every (MaxSize, MaxScale) of a grid that straddles the valid range and every measurement
// sequence <= 2 over a small alphabet: no panic in instrument creation, Record or Collect, and any
// exponential point that is reported has -10 <= scale <= min(20, MaxScale), at most MaxSize buckets
// per sign and count = zero + positive + negative. (A configuration NewView would reject may be
// refused or served by another aggregation; it must not yield an out-of-range point.)

import (
	"context"
	"fmt"
	"testing"

	sdk "go.opentelemetry.io/otel/sdk/metric"
	"go.opentelemetry.io/otel/sdk/metric/metricdata"
	"verif/mc/enum"
)

func TestVerifC07ExpoFunc(t *testing.T) {
	enum.Jobs([]string{"expofunc"}, func(job string) {
		r := enum.Start("C07", "expofunc")
		defer r.Finish()
		r.Section(job)
		sizes := []int32{-1, 0, 1, 2, 160}
		scales := []int32{-12, -11, -10, 0, 20, 21, 22}
		vals := []float64{0, 1, 1.5, -3, 1e-300, 3e9}
		r.Bound("expofunc_max_sizes", sizes)
		r.Bound("expofunc_max_scales", scales)
		ctx := context.Background()
		for _, size := range sizes {
			for _, scale := range scales {
				for a := -1; a < len(vals); a++ {
					for b := -1; b < len(vals); b++ {
						if (a < 0 && b >= 0) || !r.Want() {
							continue
						}
						var seq []float64
						if a >= 0 {
							seq = append(seq, vals[a])
						}
						if b >= 0 {
							seq = append(seq, vals[b])
						}
						cas := map[string]any{"MaxSize": size, "MaxScale": scale, "measurements": fmt.Sprint(seq), "route": "View function"}
						r.Eval()
						func() {
							defer func() {
								if p := recover(); p != nil {
									r.FailHere(fmt.Sprintf("panic|View-function exponential histogram|MaxScale %s", c07efClass(scale)), cas, "panic: %v", p)
								}
							}()
							rd := sdk.NewManualReader()
							mp := sdk.NewMeterProvider(sdk.WithReader(rd), sdk.WithView(func(i sdk.Instrument) (sdk.Stream, bool) {
								return sdk.Stream{Name: i.Name, Aggregation: sdk.AggregationBase2ExponentialHistogram{MaxSize: size, MaxScale: scale}}, true
							}))
							defer func() { _ = mp.Shutdown(ctx) }()
							h, err := mp.Meter("m").Float64Histogram("h")
							if h == nil {
								r.FailHere("expofunc|nil instrument", cas, "Float64Histogram returned nil (err %v)", err)
								return
							}
							for _, v := range seq {
								h.Record(ctx, v)
							}
							var rm metricdata.ResourceMetrics
							_ = rd.Collect(ctx, &rm)
							out := fmt.Sprintf("err=%v", err != nil)
							for _, sm := range rm.ScopeMetrics {
								for _, m := range sm.Metrics {
									d, ok := m.Data.(metricdata.ExponentialHistogram[float64])
									if !ok {
										out += fmt.Sprintf(" %T", m.Data)
										continue
									}
									for _, dp := range d.DataPoints {
										hi := int32(20)
										if scale < hi {
											hi = scale
										}
										if dp.Scale < -10 || dp.Scale > hi {
											r.FailHere(fmt.Sprintf("expo-scale-out-of-range|View function|MaxScale %s", c07efClass(scale)), cas, "scale %d reported, allowed -10..%d", dp.Scale, hi)
										}
										if size >= 0 && (len(dp.PositiveBucket.Counts) > int(size) || len(dp.NegativeBucket.Counts) > int(size)) {
											r.FailHere("expo-too-many-buckets|View function", cas, "%d / %d buckets, MaxSize %d", len(dp.PositiveBucket.Counts), len(dp.NegativeBucket.Counts), size)
										}
										var n uint64
										for _, c := range dp.PositiveBucket.Counts {
											n += c
										}
										for _, c := range dp.NegativeBucket.Counts {
											n += c
										}
										if n+dp.ZeroCount != dp.Count {
											r.FailHere("expo-count-conservation|View function", cas, "count %d, zero %d + buckets %d", dp.Count, dp.ZeroCount, n)
										}
										out += fmt.Sprintf(" scale=%d count=%d", dp.Scale, dp.Count)
									}
								}
							}
							r.Outcome(fmt.Sprintf("%d/%d %s", size, scale, out))
							r.Sample(func() any { cas["observed"] = out; return cas })
						}()
					}
				}
			}
		}
	})
}

func c07efClass(scale int32) string {
	switch {
	case scale > 20:
		return "above 20"
	case scale < -10:
		return "below -10"
	}
	return "in range"
}
