package metric_test

// C07 (unit "nosum") — the optional fields of a histogram point. A histogram aggregation on an
// instrument kind whose sum is meaningless (up-down counter, gauge: `noSum`) and a view with
// NoMinMax leave Sum / Min / Max out of the point. "Left out" has to mean the zero value, whatever
// occupied the reused data-point slot before: another stream whose position shifted, or what the
// consumer left there (the consumer scribbles on everything it was handed, harness/common). Explicit
// and exponential histograms, both temporalities, every 3-step history over {record into the plain
// histogram, into the noSum stream, into the NoMinMax stream, into all}, ONE reused ResourceMetrics.

import (
	"context"
	"fmt"
	"testing"

	"go.opentelemetry.io/otel/metric"
	sdk "go.opentelemetry.io/otel/sdk/metric"
	"go.opentelemetry.io/otel/sdk/metric/metricdata"
	"verif/mc/enum"
)

type c07nsPoint struct {
	count        uint64
	sum          int64
	hasMin, hasM bool
}

func c07nsRead(a metricdata.Aggregation) (p c07nsPoint, n int, ok bool) {
	switch d := a.(type) {
	case metricdata.Histogram[int64]:
		for _, dp := range d.DataPoints {
			_, p.hasMin = dp.Min.Value()
			_, p.hasM = dp.Max.Value()
			p.count, p.sum = dp.Count, dp.Sum
		}
		return p, len(d.DataPoints), true
	case metricdata.ExponentialHistogram[int64]:
		for _, dp := range d.DataPoints {
			_, p.hasMin = dp.Min.Value()
			_, p.hasM = dp.Max.Value()
			p.count, p.sum = dp.Count, dp.Sum
		}
		return p, len(d.DataPoints), true
	}
	return p, 0, false
}

func TestVerifC07NoSum(t *testing.T) {
	var jobs []string
	for _, agg := range []string{"explicit", "exponential"} {
		for _, temp := range []string{"cumulative", "delta"} {
			jobs = append(jobs, "nosum/"+agg+"/"+temp)
		}
	}
	enum.Jobs(jobs, func(job string) {
		r := enum.Start("C07", "nosum")
		defer r.Finish()
		r.Section(job)
		var agg, temp string
		fmt.Sscanf(job, "nosum/%s", &agg)
		for i, c := range job[6:] {
			if c == '/' {
				agg, temp = job[6:6+i], job[6+i+1:]
			}
		}
		ctx := context.Background()
		steps := []string{"plain", "nosum", "nominmax", "all"}
		r.Bound("nosum_history_len", 3)
		for h := 0; h < 64; h++ {
			if !r.Want() {
				continue
			}
			hist := []int{h % 4, (h / 4) % 4, (h / 16) % 4}
			cas := map[string]any{"aggregation": agg, "temporality": temp, "history": []string{steps[hist[0]], steps[hist[1]], steps[hist[2]]}}
			r.Sample(func() any { return cas })
			func() {
				defer func() {
					if p := recover(); p != nil {
						r.FailHere("panic|nosum", cas, "panic: %v", p)
					}
				}()
				mk := func(noMinMax bool) sdk.Aggregation {
					if agg == "explicit" {
						return sdk.AggregationExplicitBucketHistogram{Boundaries: []float64{1, 10}, NoMinMax: noMinMax}
					}
					return sdk.AggregationBase2ExponentialHistogram{MaxSize: 160, MaxScale: 20, NoMinMax: noMinMax}
				}
				sel := func(sdk.InstrumentKind) metricdata.Temporality {
					if temp == "delta" {
						return metricdata.DeltaTemporality
					}
					return metricdata.CumulativeTemporality
				}
				rd := sdk.NewManualReader(sdk.WithTemporalitySelector(sel))
				mp := sdk.NewMeterProvider(sdk.WithReader(rd),
					sdk.WithView(sdk.NewView(sdk.Instrument{Name: "a-plain"}, sdk.Stream{Aggregation: mk(false)})),
					sdk.WithView(sdk.NewView(sdk.Instrument{Name: "b-nosum"}, sdk.Stream{Aggregation: mk(false)})),
					sdk.WithView(sdk.NewView(sdk.Instrument{Name: "c-nominmax"}, sdk.Stream{Aggregation: mk(true)})))
				defer func() { _ = mp.Shutdown(ctx) }()
				m := mp.Meter("m")
				plain, _ := m.Int64Histogram("a-plain")
				nosum, _ := m.Int64UpDownCounter("b-nosum")
				nomm, _ := m.Int64Histogram("c-nominmax")
				var rm metricdata.ResourceMetrics // ONE destination
				want := map[string]*c07nsPoint{"a-plain": {}, "b-nosum": {}, "c-nominmax": {}}
				for si, what := range hist {
					if temp == "delta" {
						want = map[string]*c07nsPoint{"a-plain": {}, "b-nosum": {}, "c-nominmax": {}}
					}
					v := int64(100 + 7*si)
					if what == 0 || what == 3 {
						plain.Record(ctx, v)
						want["a-plain"].count++
						want["a-plain"].sum += v
					}
					if what == 1 || what == 3 {
						nosum.Add(ctx, v, metric.WithAttributes())
						want["b-nosum"].count++
					}
					if what == 2 || what == 3 {
						nomm.Record(ctx, v)
						want["c-nominmax"].count++
						want["c-nominmax"].sum += v
					}
					r.Eval()
					if err := rd.Collect(ctx, &rm); err != nil {
						r.FailHere("collect-error|nosum", cas, "Collect: %v", err)
						return
					}
					for _, sm := range rm.ScopeMetrics {
						for _, met := range sm.Metrics {
							p, n, ok := c07nsRead(met.Data)
							if !ok {
								r.FailHere("data-type|nosum", cas, "metric %s reported as %T", met.Name, met.Data)
								continue
							}
							if n == 0 {
								continue
							}
							w := want[met.Name]
							if w == nil || p.count != w.count {
								r.FailHere("count|destination reused|"+met.Name, cas, "metric %s: count %d at step %d", met.Name, p.count, si+1)
								continue
							}
							if p.sum != w.sum {
								r.FailHere("optional-field-not-zero|Sum|"+met.Name+"|"+agg, cas, "metric %s at step %d: Sum %d, expected %d (a stream without a sum reports 0, not what was in the reused slot)", met.Name, si+1, p.sum, w.sum)
							}
							wantMM := met.Name != "c-nominmax"
							if p.hasMin != wantMM || p.hasM != wantMM {
								r.FailHere("optional-field-not-zero|Min/Max|"+met.Name+"|"+agg, cas, "metric %s at step %d: Min defined=%v Max defined=%v, expected %v", met.Name, si+1, p.hasMin, p.hasM, wantMM)
							}
							r.Outcome(fmt.Sprint(met.Name, p))
						}
					}
					vScribble(&rm)
				}
			}()
		}
	})
}
