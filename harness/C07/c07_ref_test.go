package metric_test

// C07 — reference arithmetic. Everything here is exact: measurement values are held as
// math/big numbers, bucket indices come from the binary exponent (scale <= 0), from certified
// interval arithmetic on repeated squaring (scale > 0) and are verified, for scale <= 8, against
// the literal inequality of the property  base^i < |v| <= base^(i+1)  evaluated with integers
// (v^(2^scale) against 2^i). No float64 logarithm, power or rounding is used to decide anything.

import (
	"fmt"
	"math"
	"math/big"
)

// val is one symbol of a measurement alphabet.
type val struct {
	name  string
	isInt bool
	f     float64    // the measurement handed to a Float64Histogram
	i     int64      // the measurement handed to an Int64Histogram
	x     *big.Float // its exact value
	xr    *big.Float // exact value of float64(i) for integers (what a float64 conversion keeps); == x for floats
	sign  int        // -1, 0 (both zeros), +1
	idx   map[int32]int64
	idxR  map[int32]int64
}

func fval(name string, f float64) *val {
	if math.IsNaN(f) || math.IsInf(f, 0) {
		panic("C07 harness: only finite measurements are in scope")
	}
	x := new(big.Float).SetFloat64(f) // prec 53: exact
	v := &val{f: f, x: x, xr: x, sign: x.Sign(), idx: map[int32]int64{}, idxR: map[int32]int64{}}
	v.name = fmt.Sprintf("%s (%v = %x)", name, f, f)
	if name == "" {
		v.name = fmt.Sprintf("%v = %x", f, f)
	}
	return v
}

func ival(name string, i int64) *val {
	x := new(big.Float).SetInt64(i) // prec 64: exact
	xr := new(big.Float).SetFloat64(float64(i))
	v := &val{isInt: true, i: i, x: x, xr: xr, sign: x.Sign(), idx: map[int32]int64{}, idxR: map[int32]int64{}}
	v.name = fmt.Sprintf("%d", i)
	if name != "" {
		v.name = fmt.Sprintf("%s (%d)", name, i)
	}
	return v
}

// inexact reports whether the integer is not representable as a float64.
func (v *val) inexact() bool { return v.x.Cmp(v.xr) != 0 }

// index returns the reference bucket index of |v| at the given scale (v non-zero).
func (v *val) index(scale int32) int64 {
	if i, ok := v.idx[scale]; ok {
		return i
	}
	i := refIndex(new(big.Float).Abs(v.x), int(scale))
	v.idx[scale] = i
	return i
}

// indexRounded is index for the float64 rounding of an integer measurement.
func (v *val) indexRounded(scale int32) int64 {
	if i, ok := v.idxR[scale]; ok {
		return i
	}
	i := refIndex(new(big.Float).Abs(v.xr), int(scale))
	v.idxR[scale] = i
	return i
}

var (
	bigHalf = big.NewFloat(0.5)
	bigTwo  = big.NewFloat(2)
)

func floorDiv(a, d int64) int64 {
	q := a / d
	if a%d != 0 && (a < 0) != (d < 0) {
		q--
	}
	return q
}

// refIndex returns the unique i with base^i < x <= base^(i+1), base = 2^(2^-scale), for a
// finite x > 0. Supported scales: -40..24.
func refIndex(x *big.Float, scale int) int64 {
	if x.Sign() <= 0 || x.IsInf() {
		panic("C07 harness: refIndex needs a finite positive value")
	}
	if scale < -40 || scale > 24 {
		panic("C07 harness: refIndex scale out of supported range")
	}
	mant := new(big.Float)
	exp := x.MantExp(mant) // x = mant * 2^exp, mant in [0.5, 1)
	pow2 := mant.Cmp(bigHalf) == 0
	e := int64(exp) - 1 // x = f * 2^e, f in [1, 2)
	var i int64
	switch {
	case scale <= 0:
		q := int64(1) << uint(-scale) // bucket i covers binary exponents (i*q, (i+1)*q]
		if pow2 {
			// x = 2^e:  i*q < e <= (i+1)*q
			i = floorDiv(e-1, q)
		} else {
			// 2^e < x < 2^(e+1):  i*q <= e  and  e+1 <= (i+1)*q
			i = floorDiv(e, q)
		}
	case pow2:
		// x = 2^e is the upper bound of bucket e*2^scale - 1
		i = e<<uint(scale) - 1
	default:
		f := new(big.Float).SetMantExp(mant, 1) // in (1, 2)
		i = e<<uint(scale) + fracIndex(f, scale)
	}
	if scale <= 8 {
		if !verifyIndex(x, scale, i) {
			panic(fmt.Sprintf("C07 harness: reference index %d of %s at scale %d fails the literal bucket inequality", i, x.Text('p', 0), scale))
		}
	}
	return i
}

// fracIndex returns floor(2^s * log2 f) for 1 < f < 2 (f rational, so log2 f is irrational and
// never hits a bucket boundary): the first s bits of log2 f by repeated squaring, carried out on
// an enclosing interval [lo, hi] with outward rounding. A bit is accepted only when the whole
// interval lies on one side of 2; otherwise the precision is doubled.
func fracIndex(f *big.Float, s int) int64 {
	for prec := uint(256); prec <= 1<<15; prec *= 2 {
		lo := new(big.Float).SetPrec(prec).SetMode(big.ToNegativeInf).Set(f)
		hi := new(big.Float).SetPrec(prec).SetMode(big.ToPositiveInf).Set(f)
		var idx int64
		ok := true
		for j := 0; j < s && ok; j++ {
			lo.Mul(lo, lo)
			hi.Mul(hi, hi)
			idx <<= 1
			switch {
			case lo.Cmp(bigTwo) >= 0:
				idx |= 1
				lo.SetMantExp(lo, -1)
				hi.SetMantExp(hi, -1)
			case hi.Cmp(bigTwo) < 0:
			default:
				ok = false
			}
		}
		if ok {
			return idx
		}
	}
	panic("C07 harness: fracIndex undecided at 32768 bits")
}

// intParts returns m, e with x = m * 2^e, m a positive integer.
func intParts(x *big.Float) (*big.Int, int64) {
	mant := new(big.Float)
	exp := x.MantExp(mant)
	p := int(x.MinPrec())
	m, acc := new(big.Float).SetMantExp(mant, p).Int(nil)
	if acc != big.Exact {
		panic("C07 harness: intParts inexact")
	}
	return m, int64(exp) - int64(p)
}

// cmpPow2 compares the positive integer m with 2^a (a may be negative).
func cmpPow2(m *big.Int, a int64) int {
	if a < 0 {
		return 1
	}
	return m.Cmp(new(big.Int).Lsh(big.NewInt(1), uint(a)))
}

// verifyIndex evaluates base^i < x <= base^(i+1) literally with integers (scale <= 8).
func verifyIndex(x *big.Float, scale int, i int64) bool {
	m, e := intParts(x)
	if scale > 0 {
		// raise to the 2^scale-th power: 2^i < m^(2^scale) * 2^(e*2^scale) <= 2^(i+1)
		n := new(big.Int).Lsh(big.NewInt(1), uint(scale))
		mm := new(big.Int).Exp(m, n, nil)
		ee := e << uint(scale)
		return cmpPow2(mm, i-ee) > 0 && cmpPow2(mm, i+1-ee) <= 0
	}
	q := int64(1) << uint(-scale)
	return cmpPow2(m, i*q-e) > 0 && cmpPow2(m, (i+1)*q-e) <= 0
}

// boundaryNeighbours returns the two adjacent float64 values enclosing the bucket boundary
// 2^(k/2^s) * 2^e (lo <= boundary <= hi; for an exactly representable boundary lo is the boundary).
// This only generates inputs; which bucket each neighbour belongs to is decided by refIndex.
func boundaryNeighbours(k int64, s int, e int) (lo, hi float64, ok bool) {
	r := new(big.Float).SetPrec(1024).SetInt64(2)
	for j := 0; j < s; j++ {
		r.Sqrt(r)
	}
	b := new(big.Float).SetPrec(1024).SetInt64(1)
	sq := new(big.Float).SetPrec(1024).Set(r)
	for kk := k; kk > 0; kk >>= 1 {
		if kk&1 == 1 {
			b.Mul(b, sq)
		}
		sq.Mul(sq, sq)
	}
	b.SetMantExp(b, e)
	f, acc := b.Float64()
	if f == 0 || math.IsInf(f, 0) {
		return 0, 0, false
	}
	if acc == big.Above { // f > b
		lo, hi = math.Nextafter(f, 0), f
	} else {
		lo, hi = f, math.Nextafter(f, math.Inf(1))
	}
	if lo == 0 || math.IsInf(hi, 0) {
		return 0, 0, false
	}
	return lo, hi, true
}

// runningSumF returns the exact sum of the float64 measurements and whether every partial sum
// (in recording order) is itself a float64, i.e. whether a float64 accumulator is exact.
func runningSumF(seq []*val) (sum float64, exact bool) {
	acc := new(big.Float).SetPrec(2400) // holds any sum of < 2^200 float64 values exactly
	exact = true
	for _, v := range seq {
		acc.Add(acc, v.x)
		if acc.Acc() != big.Exact {
			panic("C07 harness: 2400-bit accumulator rounded")
		}
		f, a := acc.Float64()
		if a != big.Exact || math.IsInf(f, 0) {
			exact = false
		}
		sum = f
	}
	return sum, exact
}

// exactSumI returns the exact sum of the int64 measurements and whether it fits an int64.
func exactSumI(seq []*val) (int64, bool) {
	t := new(big.Int)
	for _, v := range seq {
		t.Add(t, big.NewInt(v.i))
	}
	return t.Int64(), t.IsInt64()
}
