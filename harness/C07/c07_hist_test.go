package metric_test

// C07 — histogram data points are internally consistent and bucket every value correctly.
//
// Bounded-exhaustive enumeration of measurement sequences (breadth-first over the tree of
// histories: all sequences of length 1, then 2, ...; a node is the data point reached by a
// history, an edge is one measurement) on the REAL SDK — MeterProvider + ManualReader + View with
// AggregationExplicitBucketHistogram / AggregationBase2ExponentialHistogram, Float64Histogram /
// Int64Histogram Record, cumulative Collect after every measurement — compared with the exact
// reference of c07_ref_test.go. Every history gets a fresh data point (its own attribute set in a
// provider that lives for one batch of histories; live objects are never cloned).

import (
	"context"
	"encoding/binary"
	"fmt"
	"math"
	"math/big"
	"sort"
	"strings"
	"testing"
	"time"

	"github.com/go-logr/logr"
	"go.opentelemetry.io/otel"
	"go.opentelemetry.io/otel/attribute"
	"go.opentelemetry.io/otel/metric"
	sdk "go.opentelemetry.io/otel/sdk/metric"
	"go.opentelemetry.io/otel/sdk/metric/exemplar"
	"go.opentelemetry.io/otel/sdk/metric/metricdata"
	"verif/mc/enum"
)

// ---------------------------------------------------------------------------- configurations

type config struct {
	isInt    bool
	expo     bool
	maxSize  int32
	maxScale int32
	bounds   []float64
	nilB     bool
	viaFunc  bool // the view is a hand-written function: the SDK does not validate what it returns
}

func (c *config) String() string {
	num := "float64"
	if c.isInt {
		num = "int64"
	}
	if c.expo {
		return fmt.Sprintf("%s Base2ExponentialHistogram{MaxSize:%d, MaxScale:%d}", num, c.maxSize, c.maxScale)
	}
	if c.viaFunc {
		return fmt.Sprintf("%s ExplicitBucketHistogram{Boundaries:%s} returned by a hand-written View function", num, boundsString(c.bounds))
	}
	return fmt.Sprintf("%s ExplicitBucketHistogram{Boundaries:%s}", num, boundsString(c.bounds))
}

// tag is a short unique name of the configuration (prefix of state keys).
func (c *config) tag() string {
	if c.expo {
		return fmt.Sprintf("E%v/%d/%d|", c.isInt, c.maxSize, c.maxScale)
	}
	return fmt.Sprintf("H%v%v/%s|", c.isInt, c.viaFunc, boundsString(c.bounds))
}

func boundsString(b []float64) string {
	var s []string
	for _, x := range b {
		s = append(s, fmt.Sprintf("%v", x))
	}
	return "[" + strings.Join(s, " ") + "]"
}

func (c *config) aggregation() sdk.Aggregation {
	if c.expo {
		return sdk.AggregationBase2ExponentialHistogram{MaxSize: c.maxSize, MaxScale: c.maxScale}
	}
	if c.nilB {
		return sdk.AggregationExplicitBucketHistogram{}
	}
	return sdk.AggregationExplicitBucketHistogram{Boundaries: append([]float64{}, c.bounds...)}
}

// strictlyIncreasing: the boundary list is one the SDK documents as valid.
func strictlyIncreasing(b []float64) bool {
	for i := 1; i < len(b); i++ {
		if !(b[i-1] < b[i]) {
			return false
		}
	}
	return true
}

// ---------------------------------------------------------------------------- alphabets

const (
	p53 = int64(1) << 53
)

func up(f float64) float64   { return math.Nextafter(f, math.Inf(1)) }
func down(f float64) float64 { return math.Nextafter(f, math.Inf(-1)) }

func expoFloatAlphabet(maxScale int32) []*val {
	sub := math.SmallestNonzeroFloat64 // 2^-1074
	norm := 0x1p-1022
	al := []*val{
		fval("1", 1), fval("2", 2), fval("0", 0), fval("-1", -1), fval("3", 3), fval("0.5", 0.5), fval("4", 4),
		fval("-0", math.Copysign(0, -1)), fval("1.5", 1.5), fval("8", 8), fval("0.25", 0.25), fval("-2", -2), fval("-3", -3),
		fval("1-ulp", down(1)), fval("1+ulp", up(1)), fval("4-ulp", down(4)), fval("4+ulp", up(4)),
		fval("2^-1074", sub), fval("-2^-1074", -sub), fval("2^-1022", norm), fval("-2^-1022", -norm),
		fval("1e-300", 1e-300), fval("1e300", 1e300), fval("MaxFloat64", math.MaxFloat64), fval("-MaxFloat64", -math.MaxFloat64),
	}
	// the two float64 neighbours of one irrational / of one power-of-two bucket boundary of the configured scale
	s := int(maxScale)
	switch {
	case s > 0 && s <= 20:
		lo, hi, ok := boundaryNeighbours(1, s, 0)
		if !ok {
			panic("C07 harness: no neighbours")
		}
		al = append(al, fval(fmt.Sprintf("below 2^(1/2^%d)", s), lo), fval(fmt.Sprintf("above 2^(1/2^%d)", s), hi))
	case s == 0:
		al = append(al, fval("0.5-ulp", down(0.5)), fval("0.5+ulp", up(0.5)))
	case s == -1:
		al = append(al, fval("0.25-ulp", down(0.25)), fval("0.25+ulp", up(0.25)))
	case s <= -10:
		b := 0x1p-1024
		al = append(al, fval("2^-1024", b), fval("2^-1024-2^-1074", down(b)), fval("2^-1024+2^-1074", up(b)))
	}
	return al
}

func expoFloatDeepAlphabet() []*val {
	return []*val{fval("1", 1), fval("2", 2), fval("-1", -1), fval("3", 3), fval("0.5", 0.5), fval("4", 4), fval("1.5", 1.5), fval("8", 8), fval("-3", -3), fval("1e300", 1e300)}
}

func expoIntAlphabet() []*val {
	return []*val{
		ival("", 1), ival("", 2), ival("", 0), ival("", -1), ival("", 3), ival("", 4), ival("", 5), ival("", 8), ival("", -2), ival("", 1000),
		ival("2^53-1", p53-1), ival("2^53", p53), ival("2^53+1", p53+1), ival("2^53+2", p53+2), ival("-(2^53+1)", -(p53 + 1)),
		ival("MaxInt64", math.MaxInt64), ival("MaxInt64-1", math.MaxInt64-1), ival("MinInt64", math.MinInt64), ival("MinInt64+1", math.MinInt64+1),
	}
}

func expoIntDeepAlphabet() []*val {
	return []*val{ival("", 1), ival("", 2), ival("", -1), ival("", 3), ival("", 4), ival("", 5), ival("", 8), ival("", 16), ival("", -3), ival("2^40", 1<<40)}
}

func explicitFloatAlphabet() []*val {
	sub := math.SmallestNonzeroFloat64
	return []*val{
		fval("1", 1), fval("0", 0), fval("-1", -1), fval("5", 5), fval("10", 10), fval("0.5", 0.5), fval("11", 11), fval("-5", -5),
		fval("-0", math.Copysign(0, -1)), fval("2^-1074", sub), fval("-2^-1074", -sub),
		fval("1-ulp", down(1)), fval("1+ulp", up(1)), fval("5-ulp", down(5)), fval("5+ulp", up(5)), fval("10+ulp", up(10)),
		fval("-1-ulp", down(-1)), fval("-1+ulp", up(-1)),
		fval("2^53-1", 0x1p53-1), fval("2^53", 0x1p53), fval("2^53+2", 0x1p53+2),
		fval("1e300", 1e300), fval("MaxFloat64", math.MaxFloat64), fval("-MaxFloat64", -math.MaxFloat64),
	}
}

func explicitIntAlphabet() []*val {
	return []*val{
		ival("", 1), ival("", 0), ival("", -1), ival("", 5), ival("", 10), ival("", 6), ival("", 11), ival("", -2), ival("", 2),
		ival("2^53-1", p53-1), ival("2^53", p53), ival("2^53+1", p53+1), ival("2^53+2", p53+2), ival("2^53+3", p53+3),
		ival("-2^53", -p53), ival("-(2^53+1)", -(p53 + 1)), ival("-(2^53+3)", -(p53 + 3)),
		ival("MaxInt64", math.MaxInt64), ival("MinInt64", math.MinInt64),
	}
}

func boundaryLists() [][]float64 {
	sub := math.SmallestNonzeroFloat64
	return [][]float64{
		nil,
		{0},
		{0, 5, 10},
		{-1, 1},
		{1, 1},     // not strictly increasing
		{10, 5, 0}, // not sorted
		{0x1p53},
		{-(0x1p53 + 4), -0x1p53, 0x1p53, 0x1p53 + 2},
		{-math.MaxFloat64, -sub, math.Copysign(0, -1), sub, down(1), 1, up(1), math.MaxFloat64},
		{math.Inf(-1), 0, math.Inf(1)},
	}
}

// ---------------------------------------------------------------------------- observed data

// point is one collected data point, independent of the number type.
type point struct {
	expo         bool
	count        uint64
	sumF         float64
	sumI         int64
	minOK, maxOK bool
	minF, maxF   float64
	minI, maxI   int64
	bounds       []float64
	bcounts      []uint64
	scale        int32
	zero         uint64
	posOff       int32
	negOff       int32
	pos, neg     []uint64
}

func (p *point) setNums(sum any, min, max any, minOK, maxOK bool) {
	p.minOK, p.maxOK = minOK, maxOK
	switch s := sum.(type) {
	case float64:
		p.sumF, p.minF, p.maxF = s, min.(float64), max.(float64)
	case int64:
		p.sumI, p.minI, p.maxI = s, min.(int64), max.(int64)
	}
}

func (p *point) String(isInt bool) string {
	num := func(f float64, i int64) string {
		if isInt {
			return fmt.Sprint(i)
		}
		return fmt.Sprintf("%v", f)
	}
	ext := func(ok bool, f float64, i int64) string {
		if !ok {
			return "undefined"
		}
		return num(f, i)
	}
	head := fmt.Sprintf("Count:%d Sum:%s Min:%s Max:%s", p.count, num(p.sumF, p.sumI), ext(p.minOK, p.minF, p.minI), ext(p.maxOK, p.maxF, p.maxI))
	if !p.expo {
		return fmt.Sprintf("Histogram{%s Bounds:%s BucketCounts:%v}", head, boundsString(p.bounds), p.bcounts)
	}
	return fmt.Sprintf("ExponentialHistogram{%s Scale:%d ZeroCount:%d Positive{Offset:%d Counts:%v} Negative{Offset:%d Counts:%v}}",
		head, p.scale, p.zero, p.posOff, p.pos, p.negOff, p.neg)
}

// clone detaches the point from the collection buffers, which the next Collect reuses.
func (p *point) clone() point {
	q := *p
	q.bounds = append([]float64(nil), p.bounds...)
	q.bcounts = append([]uint64(nil), p.bcounts...)
	q.pos = append([]uint64(nil), p.pos...)
	q.neg = append([]uint64(nil), p.neg...)
	return q
}

// key is the canonical state key of the data point (binary, compact).
func (p *point) key(buf []byte, isInt bool) []byte {
	buf = buf[:0]
	u := func(x uint64) { buf = binary.AppendUvarint(buf, x) }
	s := func(x int64) { buf = binary.AppendVarint(buf, x) }
	u(p.count)
	if isInt {
		s(p.sumI)
		s(p.minI)
		s(p.maxI)
	} else {
		u(math.Float64bits(p.sumF + 0)) // +0: fold -0 into +0
		u(math.Float64bits(p.minF + 0))
		u(math.Float64bits(p.maxF + 0))
	}
	if !p.expo {
		buf = append(buf, 'H')
		u(uint64(len(p.bcounts)))
		for _, c := range p.bcounts {
			u(c)
		}
		return buf
	}
	buf = append(buf, 'E')
	s(int64(p.scale))
	u(p.zero)
	for _, side := range []struct {
		off int32
		c   []uint64
	}{{p.posOff, p.pos}, {p.negOff, p.neg}} {
		u(uint64(len(side.c)))
		if len(side.c) > 0 {
			s(int64(side.off))
		}
		for _, c := range side.c {
			u(c)
		}
	}
	return buf
}

func attrID(set attribute.Set) (int, bool) {
	v, ok := set.Value("i")
	if !ok {
		return 0, false
	}
	return int(v.AsInt64()), true
}

// extract converts the collected aggregation into points; emit gets the history id.
func extract[N int64 | float64](agg metricdata.Aggregation, emit func(id int, ok bool, p *point)) string {
	var p point
	switch d := agg.(type) {
	case metricdata.Histogram[N]:
		for i := range d.DataPoints {
			dp := &d.DataPoints[i]
			p = point{count: dp.Count, bounds: dp.Bounds, bcounts: dp.BucketCounts}
			mi, miOK := dp.Min.Value()
			ma, maOK := dp.Max.Value()
			p.setNums(any(dp.Sum), any(mi), any(ma), miOK, maOK)
			id, ok := attrID(dp.Attributes)
			emit(id, ok, &p)
		}
	case metricdata.ExponentialHistogram[N]:
		for i := range d.DataPoints {
			dp := &d.DataPoints[i]
			p = point{expo: true, count: dp.Count, scale: dp.Scale, zero: dp.ZeroCount,
				posOff: dp.PositiveBucket.Offset, pos: dp.PositiveBucket.Counts,
				negOff: dp.NegativeBucket.Offset, neg: dp.NegativeBucket.Counts}
			mi, miOK := dp.Min.Value()
			ma, maOK := dp.Max.Value()
			p.setNums(any(dp.Sum), any(mi), any(ma), miOK, maOK)
			id, ok := attrID(dp.Attributes)
			emit(id, ok, &p)
		}
	default:
		return fmt.Sprintf("%T", agg)
	}
	return ""
}

// ---------------------------------------------------------------------------- oracles

type failure struct {
	key string
	msg string
}

type checker struct {
	r        *enum.R
	seen     map[string]bool // finding keys already confirmed on a solo run
	handled  int64           // errors passed to otel.Handle
	keybuf   []byte
	attrOpts []metric.MeasurementOption
	// cache of exact boundaries for the last reported Bounds slice
	lastBounds []float64
	lastExact  []*big.Float
	jobName    string
}

const batchSize = 512

func newChecker(r *enum.R, job string) *checker {
	c := &checker{r: r, seen: map[string]bool{}, jobName: job}
	for i := 0; i < batchSize; i++ {
		c.attrOpts = append(c.attrOpts, metric.WithAttributeSet(attribute.NewSet(attribute.Int("i", i))))
	}
	otel.SetLogger(logr.Discard())
	otel.SetErrorHandler(otel.ErrorHandlerFunc(func(error) { c.handled++ }))
	return c
}

func (c *checker) exactBounds(b []float64) []*big.Float {
	same := len(b) == len(c.lastBounds) && c.lastExact != nil
	for i := 0; same && i < len(b); i++ {
		same = math.Float64bits(b[i]) == math.Float64bits(c.lastBounds[i])
	}
	if same {
		return c.lastExact
	}
	c.lastBounds = append([]float64{}, b...)
	c.lastExact = make([]*big.Float, len(b))
	for i, x := range b {
		c.lastExact[i] = new(big.Float).SetFloat64(x) // panics on NaN: boundary lists here are NaN-free
	}
	return c.lastExact
}

func numClass(isInt bool) string {
	if isInt {
		return "int64"
	}
	return "float64"
}

// judge evaluates every clause of the property on the data point collected after the last
// measurement of seq. prevScale is the scale collected after the previous measurement.
func (c *checker) judge(cfg *config, seq []*val, prevScale *int32, p *point) []failure {
	var fails []failure
	n := uint64(len(seq))
	kind := "explicit"
	fits := true
	if p.expo {
		kind = "exponential"
		fits = fitsAtMinScale(cfg, seq)
	}
	fail := func(key, format string, a ...any) {
		if !fits && foldWhenUnrepresentable(key) {
			// No data point can satisfy the property for these measurements (more than MaxSize
			// buckets of one sign are needed even at scale -10): whatever the SDK does with the
			// measurement that does not fit (keep it in count/sum/min/max, drop it, ...) is one
			// finding, not one per clause.
			key = unrepresentableKey
		}
		for _, f := range fails {
			if f.key == key {
				return
			}
		}
		fails = append(fails, failure{key, fmt.Sprintf(format, a...)})
	}
	if p.count != n {
		fail("count|"+kind, "Count is %d after %d measurements", p.count, n)
	}

	// ---- sum / min / max (both histogram kinds)
	if !p.minOK || !p.maxOK {
		fail("min-max-undefined|"+kind, "Min defined=%v Max defined=%v", p.minOK, p.maxOK)
	} else {
		lo, hi := seq[0], seq[0]
		for _, v := range seq[1:] {
			if v.x.Cmp(lo.x) < 0 {
				lo = v
			}
			if v.x.Cmp(hi.x) > 0 {
				hi = v
			}
		}
		if cfg.isInt {
			if p.minI != lo.i {
				fail("min|"+kind+" int64", "Min is %d, smallest measurement is %d", p.minI, lo.i)
			}
			if p.maxI != hi.i {
				fail("max|"+kind+" int64", "Max is %d, largest measurement is %d", p.maxI, hi.i)
			}
		} else {
			if p.minF != lo.f { // numeric comparison: -0 == +0
				fail("min|"+kind+" float64", "Min is %v, smallest measurement is %v", p.minF, lo.f)
			}
			if p.maxF != hi.f {
				fail("max|"+kind+" float64", "Max is %v, largest measurement is %v", p.maxF, hi.f)
			}
		}
	}
	if cfg.isInt {
		if want, fits := exactSumI(seq); fits {
			if p.sumI != want {
				fail("sum|"+kind+" int64", "Sum is %d, exact sum is %d", p.sumI, want)
			}
		} else {
			c.r.Count("sum_not_judged_exact_sum_not_representable", 1)
		}
	} else {
		if want, exact := runningSumF(seq); exact {
			if p.sumF != want {
				fail("sum|"+kind+" float64", "Sum is %v (%x), exact sum is %v (%x)", p.sumF, p.sumF, want, want)
			}
		} else {
			c.r.Count("sum_not_judged_exact_sum_not_representable", 1)
		}
	}

	if !p.expo {
		c.judgeExplicit(cfg, seq, p, fail)
	} else {
		c.judgeExpo(cfg, seq, prevScale, p, fail)
	}
	return fails
}

const unrepresentableKey = "expo-measurement-not-representable|values need more than MaxSize buckets at scale -10"

func foldWhenUnrepresentable(key string) bool {
	for _, p := range []string{"count|", "sum|", "min|", "max|", "expo-zero-count", "expo-placement|"} {
		if strings.HasPrefix(key, p) {
			return true
		}
	}
	return false
}

// fitsAtMinScale: does the property admit a data point for these measurements at all? At the
// smallest allowed scale (-10) the values of one sign may already need more than MaxSize buckets.
func fitsAtMinScale(cfg *config, seq []*val) bool {
	if !cfg.expo {
		return true
	}
	for _, sign := range []int{1, -1} {
		first := true
		var lo, hi int64
		for _, v := range seq {
			if v.sign != sign {
				continue
			}
			i := v.index(-10)
			if first || i < lo {
				lo = i
			}
			if first || i > hi {
				hi = i
			}
			first = false
		}
		if !first && hi-lo+1 > int64(cfg.maxSize) {
			return false
		}
	}
	return true
}

func (c *checker) judgeExplicit(cfg *config, seq []*val, p *point, fail func(string, string, ...any)) {
	if !cfg.expo && strictlyIncreasing(cfg.bounds) {
		same := len(p.bounds) == len(cfg.bounds)
		for i := 0; same && i < len(cfg.bounds); i++ {
			same = p.bounds[i] == cfg.bounds[i]
		}
		if !same {
			fail("explicit-bounds|valid boundary list not used", "data point Bounds %s, configured %s", boundsString(p.bounds), boundsString(cfg.bounds))
		}
	}
	if len(p.bcounts) != len(p.bounds)+1 {
		fail("explicit-bucket-number", "%d bucket counts for %d boundaries", len(p.bcounts), len(p.bounds))
		return
	}
	var total uint64
	for _, x := range p.bcounts {
		total += x
	}
	if total != p.count {
		fail("explicit-bucket-sum", "bucket counts sum to %d, Count is %d", total, p.count)
	}
	if !sort.Float64sAreSorted(p.bounds) {
		fail("explicit-bounds|reported boundaries not ascending", "Bounds %s", boundsString(p.bounds))
		return
	}
	eb := c.exactBounds(p.bounds)
	bucketOf := func(x *big.Float) int { // number of boundaries strictly below x: x in (b[k-1], b[k]]
		k := 0
		for k < len(eb) && eb[k].Cmp(x) < 0 {
			k++
		}
		return k
	}
	want := make([]uint64, len(p.bcounts))
	wantR := make([]uint64, len(p.bcounts))
	for _, v := range seq {
		want[bucketOf(v.x)]++
		wantR[bucketOf(v.xr)]++
	}
	if eqU(want, p.bcounts) {
		return
	}
	if cfg.isInt && eqU(wantR, p.bcounts) {
		fail("explicit-bucket|int64 beyond 2^53 bucketed by its float64 rounding", "BucketCounts %v for Bounds %s, exact (lower, upper] bucketing gives %v", p.bcounts, boundsString(p.bounds), want)
		return
	}
	class := "value between boundaries"
	for _, v := range seq {
		k := bucketOf(v.x)
		if p.bcounts[k] < want[k] && k < len(eb) && eb[k].Cmp(v.x) == 0 {
			class = "value equal to a boundary" // some under-counted bucket holds a value that sits on its upper boundary
			break
		}
	}
	fail("explicit-bucket|"+class, "BucketCounts %v for Bounds %s, exact (lower, upper] bucketing gives %v", p.bcounts, boundsString(p.bounds), want)
}

func eqU(a, b []uint64) bool {
	if len(a) != len(b) {
		return false
	}
	for i := range a {
		if a[i] != b[i] {
			return false
		}
	}
	return true
}

type ic struct {
	idx int64
	n   uint64
}

func histOf(idx []int64) []ic {
	sort.Slice(idx, func(i, j int) bool { return idx[i] < idx[j] })
	var h []ic
	for _, i := range idx {
		if len(h) > 0 && h[len(h)-1].idx == i {
			h[len(h)-1].n++
		} else {
			h = append(h, ic{i, 1})
		}
	}
	return h
}

func histOfCounts(off int32, counts []uint64) (h []ic, total uint64) {
	for j, n := range counts {
		if n != 0 {
			h = append(h, ic{int64(off) + int64(j), n})
			total += n
		}
	}
	return
}

func eqH(a, b []ic) bool {
	if len(a) != len(b) {
		return false
	}
	for i := range a {
		if a[i] != b[i] {
			return false
		}
	}
	return true
}

func (c *checker) judgeExpo(cfg *config, seq []*val, prevScale *int32, p *point, fail func(string, string, ...any)) {
	var sumPos, sumNeg uint64
	for _, x := range p.pos {
		sumPos += x
	}
	for _, x := range p.neg {
		sumNeg += x
	}
	fits := fitsAtMinScale(cfg, seq)
	fitClass := "values fit MaxSize buckets at an allowed scale"
	if !fits {
		fitClass = "values need more than MaxSize buckets at scale -10"
	}
	if p.count != p.zero+sumPos+sumNeg {
		fail("expo-count-conservation|"+fitClass, "Count %d != ZeroCount %d + positive %d + negative %d", p.count, p.zero, sumPos, sumNeg)
	}
	if cfg.expo {
		if len(p.pos) > int(cfg.maxSize) {
			fail("expo-too-many-buckets|positive", "%d positive buckets, MaxSize %d", len(p.pos), cfg.maxSize)
		}
		if len(p.neg) > int(cfg.maxSize) {
			fail("expo-too-many-buckets|negative", "%d negative buckets, MaxSize %d", len(p.neg), cfg.maxSize)
		}
		if p.scale > cfg.maxScale {
			fail("expo-scale-above-configured-max", "Scale %d, configured MaxScale %d", p.scale, cfg.maxScale)
		}
	}
	if p.scale < -10 {
		class := "after rescaling"
		if cfg.expo && cfg.maxScale < -10 {
			class = "configured MaxScale below -10 accepted"
		}
		fail("expo-scale-below-min|"+class, "Scale %d is below -10 (configured MaxScale %d)", p.scale, cfg.maxScale)
	}
	if prevScale != nil && p.scale > *prevScale {
		fail("expo-scale-increased", "Scale went from %d to %d", *prevScale, p.scale)
	}
	var zeros uint64
	for _, v := range seq {
		if v.sign == 0 {
			zeros++
		}
	}
	if p.zero != zeros {
		fail("expo-zero-count", "ZeroCount %d, %d zero measurements", p.zero, zeros)
	}
	if p.scale < -40 || p.scale > 24 {
		fail("expo-scale-out-of-range", "Scale %d: bucket placement not judged", p.scale)
		return
	}
	for _, side := range []struct {
		sign   int
		name   string
		off    int32
		counts []uint64
	}{{1, "positive", p.posOff, p.pos}, {-1, "negative", p.negOff, p.neg}} {
		var idx, idxR []int64
		for _, v := range seq {
			if v.sign == side.sign {
				idx = append(idx, v.index(p.scale))
				if cfg.isInt {
					idxR = append(idxR, v.indexRounded(p.scale))
				}
			}
		}
		want := histOf(idx)
		got, total := histOfCounts(side.off, side.counts)
		if eqH(want, got) {
			continue
		}
		describe := func(h []ic) string {
			var s []string
			for _, e := range h {
				s = append(s, fmt.Sprintf("%d:%d", e.idx, e.n))
			}
			return "{" + strings.Join(s, " ") + "}"
		}
		msg := fmt.Sprintf("%s buckets at scale %d hold index:count %s, the reference (base^i < |v| <= base^(i+1), base = 2^(2^-scale)) gives %s", side.name, p.scale, describe(got), describe(want))
		if cfg.isInt && eqH(histOf(idxR), got) {
			fail("expo-placement|int64 beyond 2^53 bucketed by its float64 rounding", "%s", msg)
			continue
		}
		if !cfg.isInt && p.scale > 0 && total == uint64(len(idx)) && c.explainedByBoundaryNeighbours(seq, side.sign, p.scale, got) {
			fail("expo-placement|measurement within 1 ulp of an irrational bucket boundary counted in the adjacent bucket", "%s", msg)
			continue
		}
		what := "value-misplaced"
		if total < uint64(len(idx)) {
			what = "value-not-bucketed"
		} else if total > uint64(len(idx)) {
			what = "phantom-count"
		}
		class := "scale<=0"
		if p.scale > 0 {
			class = "scale>0"
		}
		fail("expo-placement|"+what+"|"+class, "%s", msg)
	}
}

// explainedByBoundaryNeighbours reports whether the observed buckets are the reference buckets
// with one or more measurements moved across an irrational bucket boundary 2^(k/2^scale)
// (k not a multiple of 2^scale) that lies between the measurement and the next float64.
// It only narrows the finding key of an already established mismatch.
func (c *checker) explainedByBoundaryNeighbours(seq []*val, sign int, scale int32, got []ic) bool {
	type cand struct {
		i, alt int64
		has    bool
	}
	var cs []cand
	nAlt := 0
	mask := int64(1)<<uint(scale) - 1
	for _, v := range seq {
		if v.sign != sign {
			continue
		}
		cd := cand{i: v.index(scale)}
		a := math.Abs(v.f)
		for _, nb := range []float64{up(a), down(a)} {
			if nb == 0 || math.IsInf(nb, 0) {
				continue
			}
			j := refIndex(new(big.Float).SetFloat64(nb), int(scale))
			b := cd.i
			if j > b {
				b = j
			}
			if j != cd.i && b&mask != 0 { // boundary base^b between v and nb, irrational
				cd.alt, cd.has = j, true
			}
		}
		if cd.has {
			nAlt++
		}
		cs = append(cs, cd)
	}
	if nAlt == 0 || nAlt > 12 {
		return false
	}
	for m := 1; m < 1<<uint(nAlt); m++ {
		idx := make([]int64, 0, len(cs))
		bit := 0
		for _, cd := range cs {
			i := cd.i
			if cd.has {
				if m&(1<<uint(bit)) != 0 {
					i = cd.alt
				}
				bit++
			}
			idx = append(idx, i)
		}
		if eqH(histOf(idx), got) {
			return true
		}
	}
	return false
}

// ---------------------------------------------------------------------------- driving the SDK

type leaf struct {
	seq []uint8
	pos enum.Pos
}

type instrument struct {
	rd     *sdk.ManualReader
	record func(ctx context.Context, v *val, opt metric.MeasurementOption)
}

type noExemplars struct{}

func (noExemplars) Offer(context.Context, time.Time, exemplar.Value, []attribute.KeyValue) {}
func (noExemplars) Collect(dest *[]exemplar.Exemplar)                                      { *dest = (*dest)[:0] }

func newInstrument(cfg *config) (ins *instrument, err error) {
	defer func() {
		if p := recover(); p != nil {
			err = fmt.Errorf("panic: %v", p)
		}
	}()
	rd := sdk.NewManualReader()
	stream := sdk.Stream{Aggregation: cfg.aggregation(),
		// exemplars are off and not part of the property: a no-op reservoir keeps the default
		// one (which seeds a math/rand source per attribute set) out of the inner loop
		ExemplarReservoirProviderSelector: func(sdk.Aggregation) exemplar.ReservoirProvider {
			return func(attribute.Set) exemplar.Reservoir { return noExemplars{} }
		}}
	view := sdk.NewView(sdk.Instrument{Name: "h"}, stream)
	if cfg.viaFunc {
		view = func(in sdk.Instrument) (sdk.Stream, bool) {
			st := stream
			st.Name, st.Description, st.Unit = in.Name, in.Description, in.Unit
			return st, in.Name == "h"
		}
	}
	mp := sdk.NewMeterProvider(sdk.WithReader(rd), sdk.WithExemplarFilter(exemplar.AlwaysOffFilter), sdk.WithView(view))
	m := mp.Meter("c07")
	ins = &instrument{rd: rd}
	if cfg.isInt {
		h, err := m.Int64Histogram("h")
		if err != nil {
			return nil, err
		}
		ins.record = func(ctx context.Context, v *val, opt metric.MeasurementOption) { h.Record(ctx, v.i, opt) }
	} else {
		h, err := m.Float64Histogram("h")
		if err != nil {
			return nil, err
		}
		ins.record = func(ctx context.Context, v *val, opt metric.MeasurementOption) { h.Record(ctx, v.f, opt) }
	}
	return ins, nil
}

func caseDesc(cfg *config, al []*val, seq []uint8) map[string]any {
	var ms []string
	for _, s := range seq {
		ms = append(ms, al[s].name)
	}
	return map[string]any{"instrument_and_view": cfg.String(), "measurements_in_order": ms, "collect": "cumulative, after every measurement"}
}

type verdict struct {
	fails []failure
	p     point
	have  bool
}

// evaluate runs the histories of one batch on one fresh provider (history k records under
// attribute i=k) with a collection after every step and judges the data point collected after
// the last measurement of each history.
func (c *checker) evaluate(cfg *config, al []*val, leaves []leaf, each func(k int, v *verdict)) {
	ctx := context.Background()
	verdicts := make([]verdict, len(leaves))
	failAll := func(key, format string, a ...any) {
		for k := range verdicts {
			verdicts[k].fails = append(verdicts[k].fails, failure{key, fmt.Sprintf(format, a...)})
		}
	}
	finish := func() {
		for k := range verdicts {
			each(k, &verdicts[k])
		}
	}
	ins, err := newInstrument(cfg)
	if err != nil {
		failAll("setup|provider or instrument creation failed", "%v", err)
		finish()
		return
	}
	maxLen := 0
	for _, l := range leaves {
		if len(l.seq) > maxLen {
			maxLen = len(l.seq)
		}
	}
	prev := make([]int32, len(leaves))
	havePrev := make([]bool, len(leaves))
	dead := make([]bool, len(leaves))
	var rm metricdata.ResourceMetrics
	for step := 0; step < maxLen; step++ {
		for k, l := range leaves {
			if step >= len(l.seq) || dead[k] {
				continue
			}
			func() {
				defer func() {
					if p := recover(); p != nil {
						dead[k] = true
						verdicts[k].fails = append(verdicts[k].fails, failure{"panic|Record", fmt.Sprintf("Record panicked at measurement %d: %v", step+1, p)})
					}
				}()
				ins.record(ctx, al[l.seq[step]], c.attrOpts[k])
			}()
		}
		var cerr error
		func() {
			defer func() {
				if p := recover(); p != nil {
					cerr = fmt.Errorf("panic: %v", p)
				}
			}()
			cerr = ins.rd.Collect(ctx, &rm)
		}()
		if cerr != nil {
			failAll("collect-failed", "Collect after measurement %d: %v", step+1, cerr)
			finish()
			return
		}
		if len(rm.ScopeMetrics) != 1 || len(rm.ScopeMetrics[0].Metrics) != 1 {
			failAll("unexpected-data|metric streams", "Collect returned %d scopes", len(rm.ScopeMetrics))
			finish()
			return
		}
		seen := make([]bool, len(leaves))
		emit := func(id int, ok bool, p *point) {
			if !ok || id < 0 || id >= len(leaves) {
				failAll("unexpected-data|foreign data point", "data point with attribute id %d ok=%v", id, ok)
				return
			}
			if seen[id] {
				verdicts[id].fails = append(verdicts[id].fails, failure{"unexpected-data|duplicate data point", "two data points for one attribute set"})
				return
			}
			seen[id] = true
			l := leaves[id]
			if dead[id] {
				return // Record panicked earlier in this history: reported as such, nothing else to judge
			}
			switch {
			case step == len(l.seq)-1:
				seq := make([]*val, len(l.seq))
				for j, s := range l.seq {
					seq[j] = al[s]
				}
				var ps *int32
				if havePrev[id] {
					ps = &prev[id]
				}
				v := &verdicts[id]
				v.fails = append(v.fails, c.judge(cfg, seq, ps, p)...)
				v.p = p.clone()
				v.have = true
			case step < len(l.seq)-1:
				if p.expo {
					prev[id], havePrev[id] = p.scale, true
				}
			}
		}
		var bad string
		if cfg.isInt {
			bad = extract[int64](rm.ScopeMetrics[0].Metrics[0].Data, emit)
		} else {
			bad = extract[float64](rm.ScopeMetrics[0].Metrics[0].Data, emit)
		}
		if bad != "" {
			failAll("unexpected-data|aggregation type", "Collect returned %s", bad)
			finish()
			return
		}
		for k, l := range leaves {
			if step < len(l.seq) && !seen[k] && !dead[k] {
				verdicts[k].fails = append(verdicts[k].fails, failure{"unexpected-data|data point missing", fmt.Sprintf("no data point after measurement %d", step+1)})
				dead[k] = true
			}
		}
		// the collected data now belongs to the consumer: overwrite every slice it can reach, then
		// collect alternately into the same (scribbled) and into a fresh ResourceMetrics
		vScribble(&rm)
		if step%2 == 1 {
			rm = metricdata.ResourceMetrics{}
		}
	}
	finish()
}

// runBatch evaluates a batch, reports into the enum reporter and confirms the first failure of
// every key on a solo run (a provider holding only that history).
func (c *checker) runBatch(cfg *config, al []*val, leaves []leaf) {
	if len(leaves) == 0 {
		return
	}
	r := c.r
	c.evaluate(cfg, al, leaves, func(k int, v *verdict) {
		l := leaves[k]
		r.Eval()
		r.Transition()
		if v.have {
			c.keybuf = v.p.key(c.keybuf, cfg.isInt)
			if r.State(cfg.tag() + string(c.keybuf)) {
				r.Outcome(cfg.String() + "|" + string(c.keybuf))
			}
			r.Sample(func() any {
				d := caseDesc(cfg, al, l.seq)
				d["data_point"] = v.p.String(cfg.isInt)
				return d
			})
		}
		for _, f := range v.fails {
			msg := f.msg
			if v.have {
				msg += "; data point: " + v.p.String(cfg.isInt)
			}
			if !c.seen[f.key] {
				c.seen[f.key] = true
				confirmed := false
				c.evaluate(cfg, al, []leaf{l}, func(_ int, sv *verdict) {
					for _, sf := range sv.fails {
						if sf.key == f.key {
							confirmed = true
						}
					}
				})
				if !confirmed {
					r.Fail("batch-divergence|"+f.key, caseDesc(cfg, al, l.seq), l.pos, "failure seen with %d attribute sets in one provider but not alone: %s", len(leaves), msg)
					continue
				}
			}
			r.Fail(f.key, caseDesc(cfg, al, l.seq), l.pos, "%s", msg)
		}
	})
}

// enumerate runs every sequence over al of length 1..maxLen, shortest first, lexicographic within
// a length (alphabets are ordered simplest first).
func (c *checker) enumerate(section string, cfg *config, al []*val, maxLen int) {
	r := c.r
	r.Section(section)
	batch := make([]leaf, 0, batchSize)
	flush := func() {
		c.runBatch(cfg, al, batch)
		batch = batch[:0]
	}
	for L := 1; L <= maxLen; L++ {
		idx := make([]uint8, L)
		for {
			if r.Want() {
				batch = append(batch, leaf{seq: append([]uint8{}, idx...), pos: r.Here()})
				if len(batch) == batchSize {
					flush()
					if r.Expired() {
						return
					}
				}
			}
			j := L - 1
			for j >= 0 {
				idx[j]++
				if int(idx[j]) < len(al) {
					break
				}
				idx[j] = 0
				j--
			}
			if j < 0 {
				break
			}
		}
		flush() // keep batches length-homogeneous
		if r.Expired() {
			return
		}
	}
}

// list runs an explicit list of sequences.
func (c *checker) list(section string, cfg *config, al []*val, seqs [][]uint16) {
	// alphabets of the sweep exceed 256 symbols: map each batch onto a local alphabet
	r := c.r
	r.Section(section)
	var batch []leaf
	var local []*val
	flush := func() {
		c.runBatch(cfg, local, batch)
		batch, local = batch[:0], local[:0]
	}
	for _, s := range seqs {
		if !r.Want() {
			continue
		}
		if len(local)+len(s) > 250 || len(batch) == batchSize {
			flush()
			if r.Expired() {
				return
			}
		}
		l := leaf{pos: r.Here()}
		for _, a := range s {
			l.seq = append(l.seq, uint8(len(local)))
			local = append(local, al[a])
		}
		batch = append(batch, l)
	}
	flush()
}

// ---------------------------------------------------------------------------- jobs

type jobSpec struct {
	name string
	run  func(c *checker)
}

var (
	expoSizes  = []int32{1, 2, 3, 4, 160}
	expoScales = []int32{0, 1, -1, 3, -10, 8, 20, -11, 21} // valid ones first: the first job that finds a key supplies its example
)

func selfCheck(al []*val) {
	// the interval method must agree with the literal inequality wherever the latter is affordable
	for _, v := range al {
		if v.sign == 0 {
			continue
		}
		for s := int32(-11); s <= 8; s++ {
			v.index(s) // refIndex verifies itself for scale <= 8 and panics on disagreement
		}
	}
}

func jobs(tierThorough bool) []jobSpec {
	pick := func(q, t int) int {
		if tierThorough {
			return t
		}
		return q
	}
	fullLen, deepLen := pick(3, 4), pick(4, 6)
	var js []jobSpec
	bounds := func(c *checker) {
		r := c.r
		r.Bound("max_len_full_alphabet", fullLen)
		r.Bound("max_len_deep_alphabet", deepLen)
		r.Bound("alphabet_expo_float64", len(expoFloatAlphabet(3)))
		r.Bound("alphabet_expo_float64_deep", len(expoFloatDeepAlphabet()))
		r.Bound("alphabet_expo_int64", len(expoIntAlphabet()))
		r.Bound("alphabet_expo_int64_deep", len(expoIntDeepAlphabet()))
		r.Bound("alphabet_explicit_float64", len(explicitFloatAlphabet()))
		r.Bound("alphabet_explicit_int64", len(explicitIntAlphabet()))
		r.Bound("boundary_lists", len(boundaryLists()))
		r.Bound("expo_max_sizes", fmt.Sprint(append([]int32{0}, expoSizes...)))
		r.Bound("expo_max_scales", fmt.Sprint(expoScales))
		r.Bound("sweep_scales", "1..20")
		r.Bound("sweep_all_boundaries_up_to_scale", pick(6, 10))
		r.Bound("collect", "cumulative, after every measurement")
	}
	// exponential, float64: one job per (MaxSize, MaxScale)
	addExpoF := func(size, scale int32) {
		cfg := &config{expo: true, maxSize: size, maxScale: scale}
		js = append(js, jobSpec{fmt.Sprintf("expo-f64/size=%03d/scale=%+03d", size, scale), func(c *checker) {
			bounds(c)
			al := expoFloatAlphabet(scale)
			selfCheck(al)
			rejected := size <= 0 || scale > 20
			n := fullLen
			if rejected && n > 2 {
				n = 2 // the default explicit-bucket histogram answers; it has its own jobs
			}
			c.enumerate("full", cfg, al, n)
			if !rejected {
				deep := expoFloatDeepAlphabet()
				selfCheck(deep)
				c.enumerate("deep", cfg, deep, deepLen)
			}
		}})
	}
	addExpoF(0, 0)
	for _, size := range expoSizes {
		for _, scale := range expoScales {
			addExpoF(size, scale)
		}
	}
	// exponential, int64: one job per MaxSize
	for _, size := range []int32{1, 2, 4, 160} {
		size := size
		js = append(js, jobSpec{fmt.Sprintf("expo-i64/size=%03d", size), func(c *checker) {
			bounds(c)
			al, deep := expoIntAlphabet(), expoIntDeepAlphabet()
			selfCheck(al)
			selfCheck(deep)
			for _, scale := range []int32{-10, 0, 3, 20} {
				cfg := &config{isInt: true, expo: true, maxSize: size, maxScale: scale}
				c.enumerate(fmt.Sprintf("scale=%+03d/full", scale), cfg, al, fullLen)
				c.enumerate(fmt.Sprintf("scale=%+03d/deep", scale), cfg, deep, deepLen)
			}
		}})
	}
	// explicit buckets: one job per boundary list and number type
	for bi, b := range boundaryLists() {
		for _, isInt := range []bool{false, true} {
			cfg := &config{isInt: isInt, bounds: b, nilB: b == nil}
			js = append(js, jobSpec{fmt.Sprintf("explicit-%s/bounds=%02d", map[bool]string{false: "f64", true: "i64"}[isInt], bi), func(c *checker) {
				bounds(c)
				al := explicitFloatAlphabet()
				if cfg.isInt {
					al = explicitIntAlphabet()
				}
				c.enumerate("full", cfg, al, fullLen)
			}})
		}
	}
	// the same through a hand-written View function, whose Stream the SDK uses as it is: lists with
	// repeated and unsorted boundaries reach the aggregator (it sorts them); every value is still
	// counted in the first bucket whose upper bound is >= the value
	for bi, b := range [][]float64{{1, 1}, {10, 5, 0}, {1, 5, 5, 10}, {0, 0, 0, 5, 5, 5, 10, 10}, {5, 1, 5, 10, 1, 11, 5}} {
		for _, isInt := range []bool{false, true} {
			cfg := &config{isInt: isInt, bounds: b, viaFunc: true}
			js = append(js, jobSpec{fmt.Sprintf("explicit-%s/view-func-bounds=%02d", map[bool]string{false: "f64", true: "i64"}[isInt], bi), func(c *checker) {
				bounds(c)
				al := explicitFloatAlphabet()
				if cfg.isInt {
					al = explicitIntAlphabet()
				}
				c.enumerate("full", cfg, al, pick(2, 3))
			}})
		}
	}
	// boundary sweep: both float64 neighbours of bucket boundaries 2^(k/2^s) * 2^e for every scale 1..20
	for g := 0; g < 4; g++ {
		g := g
		js = append(js, jobSpec{fmt.Sprintf("sweep/scales=%02d-%02d", 5*g+1, 5*g+5), func(c *checker) {
			bounds(c)
			for s := 5*g + 1; s <= 5*g+5; s++ {
				c.sweep(s, pick(6, 10))
			}
		}})
	}
	return js
}

// sweep: MaxSize 160, MaxScale s; single measurements at both neighbours of many boundaries
// (also negated for k = 1), and the two orders of each neighbour pair.
func (c *checker) sweep(s int, allUpTo int) {
	cfg := &config{expo: true, maxSize: 160, maxScale: int32(s)}
	top := int64(1) << uint(s)
	kset := map[int64]bool{}
	if s <= allUpTo {
		for k := int64(1); k < top; k++ {
			kset[k] = true
		}
	} else {
		for _, k := range []int64{1, 2, 3, top/2 - 1, top / 2, top/2 + 1, top - 3, top - 2, top - 1} {
			kset[k] = true
		}
		for j := 1; j < s; j++ {
			kset[int64(1)<<uint(j)] = true
			kset[top-int64(1)<<uint(j)] = true
		}
	}
	var ks []int64
	for k := range kset {
		if k >= 1 && k < top {
			ks = append(ks, k)
		}
	}
	sort.Slice(ks, func(i, j int) bool { return ks[i] < ks[j] })
	var al []*val
	var seqs [][]uint16
	for _, e := range []int{0, 1, -1, 52, 53, -1022, -1023, -1060, -1074, 1023} {
		var singles, pairs [][]uint16
		for _, k := range ks {
			lo, hi, ok := boundaryNeighbours(k, s, e)
			if !ok {
				continue
			}
			a := uint16(len(al))
			al = append(al, fval(fmt.Sprintf("below 2^(%d/2^%d)*2^%d", k, s, e), lo), fval(fmt.Sprintf("above 2^(%d/2^%d)*2^%d", k, s, e), hi))
			singles = append(singles, []uint16{a}, []uint16{a + 1})
			pairs = append(pairs, []uint16{a, a + 1}, []uint16{a + 1, a})
			// second ring: two float64 steps away from the boundary
			if lo2, hi2 := down(lo), up(hi); lo2 > 0 && !math.IsInf(hi2, 0) {
				b := uint16(len(al))
				al = append(al, fval(fmt.Sprintf("2nd below 2^(%d/2^%d)*2^%d", k, s, e), lo2), fval(fmt.Sprintf("2nd above 2^(%d/2^%d)*2^%d", k, s, e), hi2))
				singles = append(singles, []uint16{b}, []uint16{b + 1})
			}
			if k == 1 {
				b := uint16(len(al))
				al = append(al, fval(fmt.Sprintf("-(below 2^(%d/2^%d)*2^%d)", k, s, e), -lo), fval(fmt.Sprintf("-(above 2^(%d/2^%d)*2^%d)", k, s, e), -hi))
				singles = append(singles, []uint16{b}, []uint16{b + 1})
			}
			if len(al) > 60000 {
				panic("C07 harness: sweep alphabet too large")
			}
		}
		seqs = append(seqs, singles...)
		seqs = append(seqs, pairs...)
		c.list(fmt.Sprintf("sweep scale=%d e=%d", s, e), cfg, al, seqs)
		al, seqs = al[:0], seqs[:0]
	}
}

func TestVerifC07(t *testing.T) {
	thorough := enum.Start("C07", "hist").Thorough() // throw-away reporter: only to learn the tier
	js := jobs(thorough)
	var names []string
	for _, j := range js {
		names = append(names, j.name)
	}
	enum.Jobs(names, func(job string) {
		r := enum.Start("C07", "hist")
		defer r.Finish()
		c := newChecker(r, job)
		for _, j := range js {
			if j.name == job {
				j.run(c)
			}
		}
		r.Count("errors_passed_to_otel_handle", c.handled)
	})
}
