package metric_test

// Shared unit "abandon" (C08 and C12): collections whose context ends WHILE the collection runs.
//
// A delta and a cumulative ManualReader read three synchronous instruments (counter over three
// attribute sets, up-down counter, histogram) and -- in the "async" families -- three observable
// ones (counter, up-down counter, gauge; one callback each). Histories are all words up to a
// length over {R = record on every synchronous instrument, N = normal collection by both readers,
// D_k = collection by both readers with a context that ends at the k-th time anybody asks it
// (Err / Done), k = 1..K}. The SDK asks after every callback; a change that asks in other places
// dies there. What a collection leaves in the caller's ResourceMetrics counts as reported, whatever
// error it returns; a collection that returns an error and leaves nothing did not happen as far as
// the readers' state is concerned:
//   * synchronous sums / histogram counts: what the delta reader reported so far adds up to what
//     the cumulative reader reports, and both to what was recorded before the collection (C08:
//     delta vs cumulative; C12: totals are conserved, also under a cardinality limit);
//   * asynchronous instruments: a cycle reports what THAT cycle's callbacks observed (cumulative:
//     the observed value, delta: the observed value minus the one reported by the preceding
//     reported cycle), the gauge the value observed in the cycle.
// The reference model is a handful of integers.

import (
	"context"
	"fmt"
	"os"
	"sort"
	"strings"
	"sync"
	"testing"
	"time"

	"go.opentelemetry.io/otel/attribute"
	"go.opentelemetry.io/otel/metric"
	sdk "go.opentelemetry.io/otel/sdk/metric"
	"go.opentelemetry.io/otel/sdk/metric/metricdata"
	"verif/mc/enum"
)

// vDyingCtx ends (context.Canceled) at the k-th question.
type vDyingCtx struct {
	mu    sync.Mutex
	asked int
	k     int
	done  chan struct{}
	dead  bool
}

func vNewDying(k int) *vDyingCtx { return &vDyingCtx{k: k, done: make(chan struct{})} }

func (c *vDyingCtx) tick() {
	c.mu.Lock()
	defer c.mu.Unlock()
	c.asked++
	if !c.dead && c.asked >= c.k {
		c.dead = true
		close(c.done)
	}
}
func (c *vDyingCtx) Deadline() (time.Time, bool) { return time.Time{}, false }
func (c *vDyingCtx) Done() <-chan struct{}       { c.tick(); return c.done }
func (c *vDyingCtx) Err() error {
	c.tick()
	c.mu.Lock()
	defer c.mu.Unlock()
	if c.dead {
		return context.Canceled
	}
	return nil
}
func (c *vDyingCtx) Value(any) any { return nil }

type vAbReader struct {
	rd    *sdk.ManualReader
	delta bool
	// model
	syncReported map[string]int64 // stream|set -> sum of the deltas reported so far (delta reader)
	asyncPrev    map[string]int64 // observable sums: value reported by the preceding reported cycle
	carry        map[string]int64 // observable sums: what callbacks observed in abandoned collections since then
}

type vAbExec struct {
	r        *enum.R
	pid      string
	limit    int
	async    bool
	word     []int
	cycle    int64 // number of collections started (callbacks observe a function of it)
	recorded map[string]int64
	failed   bool
}

func (x *vAbExec) desc() map[string]any {
	var w []string
	for _, e := range x.word {
		switch {
		case e == 0:
			w = append(w, "R")
		case e == 1:
			w = append(w, "N")
		default:
			w = append(w, fmt.Sprintf("D%d", e-1))
		}
	}
	return map[string]any{"history": strings.Join(w, " "), "cardinality_limit": x.limit, "observable_instruments": x.async}
}

func (x *vAbExec) fail(key, format string, a ...any) {
	x.failed = true
	x.r.FailHere(key, x.desc(), format, a...)
}

// sums extracts stream|set -> value (sums, gauges: value; histograms: count).
func vAbSums(rm *metricdata.ResourceMetrics) map[string]int64 {
	out := map[string]int64{}
	set := func(s attribute.Set) string {
		if v, ok := s.Value("otel.metric.overflow"); ok && v.AsBool() {
			return "overflow"
		}
		v, _ := s.Value("k")
		return v.Emit()
	}
	for _, sm := range rm.ScopeMetrics {
		for _, m := range sm.Metrics {
			switch d := m.Data.(type) {
			case metricdata.Sum[int64]:
				for _, p := range d.DataPoints {
					out[m.Name+"|"+set(p.Attributes)] += p.Value
				}
			case metricdata.Gauge[int64]:
				for _, p := range d.DataPoints {
					out[m.Name+"|"+set(p.Attributes)] += p.Value
				}
			case metricdata.Histogram[int64]:
				for _, p := range d.DataPoints {
					out[m.Name+"|"+set(p.Attributes)] += int64(p.Count)
					var b uint64
					for _, c := range p.BucketCounts {
						b += c
					}
					if b != p.Count {
						out[m.Name+"|BROKEN"] = 1
					}
				}
			}
		}
	}
	return out
}

func vAbShow(m map[string]int64) string {
	var ks []string
	for k := range m {
		ks = append(ks, k)
	}
	sort.Strings(ks)
	var b strings.Builder
	for _, k := range ks {
		fmt.Fprintf(&b, "%s=%d ", k, m[k])
	}
	return b.String()
}

func (x *vAbExec) run() string {
	ctx := context.Background()
	if x.limit > 0 {
		os.Setenv("OTEL_GO_X_CARDINALITY_LIMIT", fmt.Sprint(x.limit))
		defer os.Unsetenv("OTEL_GO_X_CARDINALITY_LIMIT")
	}
	readers := []*vAbReader{
		{rd: sdk.NewManualReader(sdk.WithTemporalitySelector(func(sdk.InstrumentKind) metricdata.Temporality { return metricdata.DeltaTemporality })), delta: true},
		{rd: sdk.NewManualReader(sdk.WithTemporalitySelector(func(sdk.InstrumentKind) metricdata.Temporality { return metricdata.CumulativeTemporality }))},
	}
	mp := sdk.NewMeterProvider(sdk.WithReader(readers[0].rd), sdk.WithReader(readers[1].rd))
	defer func() { _ = mp.Shutdown(ctx) }()
	m := mp.Meter("abandon")
	ctr, _ := m.Int64Counter("ctr")
	ud, _ := m.Int64UpDownCounter("ud")
	hist, _ := m.Int64Histogram("hist")
	x.recorded = map[string]int64{}
	for _, rr := range readers {
		rr.syncReported, rr.asyncPrev, rr.carry = map[string]int64{}, map[string]int64{}, map[string]int64{}
	}
	// callbacks observe a value that identifies the collection they run in (both readers run their
	// own copy of each callback; the collection counter is bumped once per reader collection)
	var curObs int64
	ran := map[string]int64{} // what the callbacks of the collection in progress observed
	if x.async {
		_, _ = m.Int64ObservableCounter("octr", metric.WithInt64Callback(func(_ context.Context, o metric.Int64Observer) error {
			o.Observe(curObs, metric.WithAttributes(attribute.String("k", "a")))
			ran["octr|a"] += curObs
			return nil
		}))
		_, _ = m.Int64ObservableUpDownCounter("oud", metric.WithInt64Callback(func(_ context.Context, o metric.Int64Observer) error {
			o.Observe(1000-curObs, metric.WithAttributes(attribute.String("k", "a")))
			ran["oud|a"] += 1000 - curObs
			return nil
		}))
		_, _ = m.Int64ObservableGauge("og", metric.WithInt64Callback(func(_ context.Context, o metric.Int64Observer) error {
			o.Observe(7+curObs, metric.WithAttributes(attribute.String("k", "a")))
			return nil
		}))
	}
	var out strings.Builder
	step := int64(0)
	for _, e := range x.word {
		if e == 0 { // record
			step++
			for i, s := range []string{"a", "b", "c"} {
				v := step * int64(1+i)
				ctr.Add(ctx, v, metric.WithAttributes(attribute.String("k", s)))
				x.recorded["ctr"] += v
			}
			ud.Add(ctx, -step, metric.WithAttributes(attribute.String("k", "a")))
			x.recorded["ud"] += -step
			hist.Record(ctx, step, metric.WithAttributes(attribute.String("k", "a")))
			x.recorded["hist"]++
			continue
		}
		for _, rr := range readers {
			x.cycle++
			curObs = 10 * x.cycle
			var cctx context.Context = ctx
			if e >= 2 {
				cctx = vNewDying(e - 1)
			}
			var rm metricdata.ResourceMetrics
			var err error
			clear(ran)
			func() {
				defer func() {
					if p := recover(); p != nil {
						err = fmt.Errorf("panic: %v", p)
						x.fail("abandon|panic in Collect", "%v", p)
					}
				}()
				err = rr.rd.Collect(cctx, &rm)
			}()
			got := vAbSums(&rm)
			which := "cumulative"
			if rr.delta {
				which = "delta"
			}
			fmt.Fprintf(&out, "%s:err=%v:%s;", which, err != nil, vAbShow(got))
			if err != nil && len(got) == 0 {
				for k, v := range ran {
					rr.carry[k] += v
				}
				continue // nothing was handed out: this collection did not happen
			}
			if got["hist|BROKEN"] != 0 {
				x.fail("abandon|histogram buckets do not add up to the count", "%s reader: %s", which, vAbShow(got))
			}
			// synchronous streams: totals over all attribute sets (the limit may fold sets into overflow)
			for _, name := range []string{"ctr", "ud", "hist"} {
				var tot int64
				n := 0
				for k, v := range got {
					if strings.HasPrefix(k, name+"|") {
						tot += v
						n++
					}
				}
				if x.limit > 0 && n > x.limit {
					x.fail("abandon|cardinality limit exceeded|"+name, "%s reader reports %d attribute sets, limit %d: %s", which, n, x.limit, vAbShow(got))
				}
				if rr.delta {
					rr.syncReported[name] += tot
					tot = rr.syncReported[name]
				}
				if tot != x.recorded[name] {
					kind := "the deltas reported so far add up to"
					if !rr.delta {
						kind = "the cumulative reader reports"
					}
					x.fail("abandon|synchronous total|"+name+"|"+which+" reader|"+vAbClass(x.word), "%s %d, recorded so far: %d (this collection: err=%v, %s)", kind, tot, x.recorded[name], err, vAbShow(got))
				}
			}
			if x.async {
				want := map[string]int64{"octr|a": curObs, "oud|a": 1000 - curObs, "og|a": 7 + curObs}
				for _, name := range []string{"octr|a", "oud|a"} {
					w := want[name]
					if rr.delta {
						w -= rr.asyncPrev[name]
					}
					g, ok := got[name]
					if !ok || g != w {
						cls := vAbClass(x.word)
						if c := rr.carry[name]; ok && c != 0 && g == w+c {
							// the signature of the recorded defect: observations made by the callbacks of an
							// abandoned collection stay in the aggregator and are added to the next cycle's
							cls = "carries the observations of collections abandoned during their callbacks"
						}
						x.fail("abandon|observable sum|"+which+" reader|"+cls, "%s: reported %d (present=%v), this cycle's callback observed %d, the preceding reported cycle %d: expected %d (callbacks of abandoned collections in between observed %d)", name, g, ok, want[name], rr.asyncPrev[name], w, rr.carry[name])
					}
					rr.asyncPrev[name] = want[name]
					if rr.delta && ok {
						// what a later delta is relative to is what the SDK believes it reported
						rr.asyncPrev[name] = g + (want[name] - w)
					}
					rr.carry[name] = 0
				}
				if g, ok := got["og|a"]; !ok || g != want["og|a"] {
					x.fail("abandon|observable gauge|"+which+" reader|"+vAbClass(x.word), "og: reported %d (present=%v), this cycle's callback observed %d", g, ok, want["og|a"])
				}
			}
		}
	}
	return out.String()
}

// vAbClass: the class of a history for finding keys: whether a collection was cut short before this
// point at all.
func vAbClass(w []int) string {
	for _, e := range w {
		if e >= 2 {
			return "after a collection whose context ended while it ran"
		}
	}
	return "no collection was cut short"
}

func vAbandonRun(t *testing.T, pid string) {
	type fam struct {
		name  string
		limit int
		async bool
	}
	fams := []fam{{"sync/unlimited", 0, false}, {"sync/limit=2", 2, false}, {"async/unlimited", 0, true}, {"async/limit=2", 2, true}}
	if pid == "C12" {
		fams = fams[:2] // C12's clauses are about the measurements of synchronous instruments under limits
	}
	var jobs []string
	for _, f := range fams {
		jobs = append(jobs, f.name)
	}
	enum.Jobs(jobs, func(job string) {
		r := enum.Start(pid, "abandon")
		defer r.Finish()
		maxLen := enum.Pick(r, 4, 5)
		K := enum.Pick(r, 8, 12)
		r.Bound("abandon_max_history", maxLen)
		r.Bound("abandon_context_ends_at_question", K)
		r.Section(job)
		for _, f := range fams {
			if f.name != job {
				continue
			}
			for L := 1; L <= maxLen; L++ {
				w := make([]int, L)
				var rec func(i, dying int)
				rec = func(i, dying int) {
					if r.Expired() {
						return
					}
					if i == L {
						if w[L-1] == 0 || !r.Want() {
							return // a history that ends with a record shows nothing new
						}
						x := &vAbExec{r: r, pid: pid, limit: f.limit, async: f.async, word: append([]int{}, w...)}
						r.Eval()
						r.Transition()
						o := x.run()
						if r.State(job + "|" + o) {
							r.Outcome(job + "|" + o)
						}
						r.Sample(func() any { d := x.desc(); d["observed"] = o; return d })
						return
					}
					for e := 0; e < 2+K; e++ {
						d := dying
						if e >= 2 {
							if d >= 1 && !(r.Thorough() && d < 2) {
								continue // quick: at most one collection cut short per history (thorough: two)
							}
							d++
						}
						w[i] = e
						rec(i+1, d)
					}
				}
				rec(0, 0)
			}
		}
	})
}
