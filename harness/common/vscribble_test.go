package metric_test

// Shared by the sdk/metric harnesses (C07, C08, C12): what a consumer may legally do with the data a
// collection handed it. The ResourceMetrics and every slice reachable from it belong to the caller
// once Collect has returned; a later collection -- into the same or into a fresh ResourceMetrics --
// must not depend on their content. vScribble overwrites all of it in place with recognisable
// garbage, so any state the SDK shares with an earlier result (a cached Bounds slice, bucket
// counts copied only up to the old length, a data-point slice kept for the next cycle) shows up
// as a wrong value in the next collection.

import (
	"go.opentelemetry.io/otel/sdk/metric/metricdata"
)

const vGarbage = 1000003

func vScribble(rm *metricdata.ResourceMetrics) {
	for i := range rm.ScopeMetrics {
		for j := range rm.ScopeMetrics[i].Metrics {
			vScribbleAgg(rm.ScopeMetrics[i].Metrics[j].Data)
			rm.ScopeMetrics[i].Metrics[j].Name += "~"
		}
	}
}

func vScribbleAgg(a metricdata.Aggregation) {
	switch d := a.(type) {
	case metricdata.Sum[int64]:
		vScribbleDP(d.DataPoints)
	case metricdata.Sum[float64]:
		vScribbleDP(d.DataPoints)
	case metricdata.Gauge[int64]:
		vScribbleDP(d.DataPoints)
	case metricdata.Gauge[float64]:
		vScribbleDP(d.DataPoints)
	case metricdata.Histogram[int64]:
		vScribbleH(d.DataPoints)
	case metricdata.Histogram[float64]:
		vScribbleH(d.DataPoints)
	case metricdata.ExponentialHistogram[int64]:
		vScribbleE(d.DataPoints)
	case metricdata.ExponentialHistogram[float64]:
		vScribbleE(d.DataPoints)
	}
}

func vScribbleDP[N int64 | float64](dps []metricdata.DataPoint[N]) {
	for k := range dps {
		dps[k].Value += vGarbage
		dps[k].Exemplars = nil
	}
}

func vScribbleH[N int64 | float64](dps []metricdata.HistogramDataPoint[N]) {
	for k := range dps {
		p := &dps[k]
		p.Count += vGarbage
		p.Sum += vGarbage
		for i := range p.Bounds {
			p.Bounds[i] = p.Bounds[i]/1024 - vGarbage
		}
		for i := range p.BucketCounts {
			p.BucketCounts[i] += vGarbage
		}
		// also what lies beyond the length, inside the capacity
		for i, b := range p.BucketCounts[len(p.BucketCounts):cap(p.BucketCounts)] {
			_ = b
			p.BucketCounts[:cap(p.BucketCounts)][len(p.BucketCounts)+i] = vGarbage
		}
		p.Exemplars = nil
	}
}

func vScribbleE[N int64 | float64](dps []metricdata.ExponentialHistogramDataPoint[N]) {
	for k := range dps {
		p := &dps[k]
		p.Count += vGarbage
		p.Sum += vGarbage
		p.ZeroCount += vGarbage
		p.Scale += 3
		for _, b := range []*metricdata.ExponentialBucket{&p.PositiveBucket, &p.NegativeBucket} {
			b.Offset += 17
			full := b.Counts[:cap(b.Counts)]
			for i := range full {
				full[i] += vGarbage
			}
		}
		p.Exemplars = nil
	}
}
