package trace

// C10 — a span ends exactly once and the tracing API is safe under concurrent use. Real
// recording spans from a real TracerProvider (instrumented sdk/trace) under the controlled
// scheduler; the same drivers run a second time in a -race build in which the scheduler's own
// hand-offs are hidden from the race detector, so that every explored schedule is race-checked
// against the program's own synchronisation only.
//
// Harness discipline for the race build: threads communicate with the oracle only through real
// sync/atomic values or through variables read after the join (WaitGroup = happens-before).

import (
	"context"
	"errors"
	"fmt"
	"sort"
	"strings"
	"sync/atomic"
	"testing"

	"verif/mc/enum"
	"verif/mc/sched"
	"verif/mc/vsync"

	"go.opentelemetry.io/otel/attribute"
	"go.opentelemetry.io/otel/codes"
	"go.opentelemetry.io/otel/trace"
)

func c10Render(s ReadOnlySpan) string {
	var b strings.Builder
	attrs := func(kvs []attribute.KeyValue) string {
		var x []string
		for _, kv := range kvs {
			x = append(x, string(kv.Key)+"="+kv.Value.Emit())
		}
		sort.Strings(x)
		return strings.Join(x, ",")
	}
	fmt.Fprintf(&b, "name=%s attrs=[%s] status=%v/%s children=%d end=%d", s.Name(), attrs(s.Attributes()), s.Status().Code, s.Status().Description, s.ChildSpanCount(), s.EndTime().UnixNano())
	for _, e := range s.Events() {
		fmt.Fprintf(&b, " event(%s:[%s])", e.Name, attrs(e.Attributes))
	}
	for _, l := range s.Links() {
		fmt.Fprintf(&b, " link(%s:[%s])", l.SpanContext.SpanID(), attrs(l.Attributes))
	}
	fmt.Fprintf(&b, " dropped=%d/%d/%d", s.DroppedAttributes(), s.DroppedEvents(), s.DroppedLinks())
	return b.String()
}

type c10Proc struct {
	yield bool         // OnEnd takes time: other threads may run while the span's End walks its processor list
	ends  atomic.Int32 // OnEnd calls for the span under test
	snap  atomic.Pointer[ReadOnlySpan]
	copy  atomic.Pointer[string]
	other atomic.Int32 // OnEnd calls for other spans (children)
	start atomic.Int32
	// reenter, when set, is called from OnEnd of the span under test: a processor whose export path
	// is itself instrumented starts and ends a span on the same provider from inside OnEnd
	reenter func()
}

func (p *c10Proc) OnStart(context.Context, ReadWriteSpan) { p.start.Add(1) }
func (p *c10Proc) OnEnd(s ReadOnlySpan) {
	if p.yield {
		sched.Yield("processor OnEnd", p)
	}
	if s.Name() == "child" || s.Name() == "dropped" {
		p.other.Add(1)
		return
	}
	p.ends.Add(1)
	c := c10Render(s)
	p.snap.Store(&s)
	p.copy.Store(&c)
	if p.reenter != nil {
		p.reenter()
	}
}
func (p *c10Proc) Shutdown(context.Context) error {
	if p.yield {
		sched.Yield("processor Shutdown", p)
	}
	return nil
}
func (p *c10Proc) ForceFlush(context.Context) error { return nil }

// c10ReuseSampler hands out, for every span, attributes from one slice it keeps (spare capacity
// included), the way a sampler that avoids allocations does.
type c10ReuseSampler struct{ buf []attribute.KeyValue }

func (s *c10ReuseSampler) ShouldSample(p SamplingParameters) SamplingResult {
	s.buf = append(s.buf[:0], attribute.String("sampler", p.Name))
	return SamplingResult{Decision: RecordAndSample, Attributes: s.buf, Tracestate: trace.SpanContextFromContext(p.ParentContext).TraceState()}
}
func (*c10ReuseSampler) Description() string { return "c10ReuseSampler" }

// c10DropNamed drops spans named "dropped", samples everything else.
type c10DropNamed struct{}

func (c10DropNamed) ShouldSample(p SamplingParameters) SamplingResult {
	d := RecordAndSample
	if p.Name == "dropped" {
		d = Drop
	}
	return SamplingResult{Decision: d, Tracestate: trace.SpanContextFromContext(p.ParentContext).TraceState()}
}
func (c10DropNamed) Description() string { return "c10DropNamed" }

// c10SlowErr is a panic value whose Error takes time (a scheduling point).
type c10SlowErr struct{ rs *recordingSpan }

func (e c10SlowErr) Error() string { sched.Yield("panic value Error()", e.rs); return "slow boom" }

type c10Scn struct {
	name    string
	threads [][]string
	atLimit bool   // event / link / attribute count limits of 1, already reached before the threads start
	extra   string // "" | "3procs" (p1,p2,p3 registered, OnEnd yields) | "dropSampler" (children named "dropped" are not recorded)
}

// ops: End, EndTS (End with explicit timestamp), Attr (SetAttributes k=1,l=2), Event, Status, Name,
// Link, Error (RecordError), IsRec, Child (start+end a child), ChildStart, Tracer (provider.Tracer+Start+End),
// Register (provider.RegisterSpanProcessor of a second processor)
func c10Body(sc c10Scn, tracing bool, res *string) func(x *sched.Exec) {
	return func(x *sched.Exec) {
		p1 := &c10Proc{}
		p2 := &c10Proc{}
		opts := []TracerProviderOption{WithSpanProcessor(p1), WithSampler(AlwaysSample())}
		if sc.atLimit {
			// queues at capacity: a late mutation evicts in place instead of appending
			opts = append(opts, WithRawSpanLimits(SpanLimits{AttributeValueLengthLimit: -1, AttributeCountLimit: 1, EventCountLimit: 1, LinkCountLimit: 1,
				AttributePerEventCountLimit: -1, AttributePerLinkCountLimit: -1}))
		}
		p3 := &c10Proc{}
		if sc.extra == "3procs" {
			p1.yield, p2.yield, p3.yield = true, true, true
			opts = append(opts, WithSpanProcessor(p2), WithSpanProcessor(p3))
		}
		if sc.extra == "dropSampler" {
			opts[1] = WithSampler(c10DropNamed{})
		}
		reuse := &c10ReuseSampler{buf: make([]attribute.KeyValue, 0, 8)}
		if sc.extra == "reuseSampler" {
			opts[1] = WithSampler(reuse)
		}
		if sc.extra == "regRace" {
			p1.yield = true
		}
		if sc.extra == "reentrant" {
			opts = append(opts, WithSpanProcessor(p2))
		}
		tp := NewTracerProvider(opts...)
		tr := tp.Tracer("t")
		if sc.extra == "reentrant" {
			p1.reenter = func() {
				_, c := tr.Start(context.Background(), "child")
				c.End()
			}
		}
		var tracers [3]trace.Tracer
		ctx, sp := tr.Start(context.Background(), "s")
		rs := sp.(*recordingSpan)
		var selfRecording atomic.Int32
		if sc.extra == "reentrant-self" {
			// the processor kept the span from OnStart and touches it again while it is being delivered
			p1.reenter = func() {
				if sp.IsRecording() {
					selfRecording.Add(1)
				}
				sp.End()
				sp.SetName("renamed-from-OnEnd")
				_, c := tr.Start(ctx, "child")
				c.End()
			}
		}
		if sc.atLimit {
			sp.AddEvent("e0")
			sp.AddLink(trace.Link{SpanContext: trace.NewSpanContext(trace.SpanContextConfig{TraceID: trace.TraceID{8}, SpanID: trace.SpanID{8}})})
			sp.SetAttributes(attribute.Int("z", 0))
		}
		if tracing {
			// what newSpan installs when Go execution tracing is enabled
			rs.executionTracerTaskEnd = func() { sched.Yield("runtime/trace task end", rs) }
		}
		var dupAttrs atomic.Int32
		var firstEndReturned, endCalls atomic.Int64 // scheduler steps (0 = not yet)
		var childStartedBeforeEndCall, childStartCalledBeforeEndReturn atomic.Int32
		var firstEndCalled atomic.Int64
		type out struct {
			endTimes  []int64
			recAfter  []bool // IsRecording results observed after an End had returned
			recBefore int
		}
		outs := make([]out, len(sc.threads))
		var wg vsync.WaitGroup
		wg.Add(len(sc.threads))
		for ti, ops := range sc.threads {
			sched.Go(func() {
				defer wg.Done()
				o := &outs[ti]
				for _, op := range ops {
					switch op {
					case "End", "EndTS":
						firstEndCalled.CompareAndSwap(0, int64(x.Step())+1)
						endCalls.Add(1)
						if op == "EndTS" {
							sp.End(trace.WithTimestamp(rs.startTime.Add(12345)))
						} else {
							sp.End()
						}
						firstEndReturned.CompareAndSwap(0, int64(x.Step())+1)
						o.endTimes = append(o.endTimes, rs.EndTime().UnixNano())
						if sp.IsRecording() {
							o.recAfter = append(o.recAfter, true)
						}
					case "Attr":
						sp.SetAttributes(attribute.Int("k", 1), attribute.Int("l", 2))
					case "Event":
						sp.AddEvent("e", trace.WithAttributes(attribute.Int("ea", 1), attribute.Int("eb", 2)))
					case "Status":
						sp.SetStatus(codes.Error, "d")
					case "Name":
						sp.SetName("n2")
					case "Link":
						sp.AddLink(trace.Link{SpanContext: trace.NewSpanContext(trace.SpanContextConfig{TraceID: trace.TraceID{9}, SpanID: trace.SpanID{9}}), Attributes: []attribute.KeyValue{attribute.Int("la", 1), attribute.Int("lb", 2)}})
					case "Error":
						sp.RecordError(errors.New("boom"))
					case "IsRec":
						ended := firstEndReturned.Load() != 0
						r := sp.IsRecording()
						if ended && r {
							o.recAfter = append(o.recAfter, true)
						}
						if r {
							o.recBefore++
						}
					case "Child", "ChildStart":
						endReturnedBefore := firstEndReturned.Load() != 0
						if !endReturnedBefore {
							childStartCalledBeforeEndReturn.Add(1)
						}
						_, c := tr.Start(ctx, "child")
						if firstEndCalled.Load() == 0 {
							childStartedBeforeEndCall.Add(1)
						}
						if op == "Child" {
							c.End()
						}
					case "TracerA0", "TracerA1", "TracerB": // provider.Tracer from several threads: one instance per scope
						i := map[string]int{"TracerA0": 0, "TracerA1": 1, "TracerB": 2}[op]
						name := "a"
						if op == "TracerB" {
							name = "b"
						}
						tracers[i] = tp.Tracer(name)
						_, c := tracers[i].Start(context.Background(), "child")
						c.End()
					case "NewRoot": // a span started under this span's context WITH WithNewRoot is nobody's child
						_, c := tr.Start(ctx, "child", trace.WithNewRoot())
						if psc := c.(ReadOnlySpan).Parent(); psc.IsValid() {
							x.Fail("C10|new-root-has-a-parent", "a span started with WithNewRoot reports the parent %s", psc.SpanID())
						}
						c.End()
					case "Unreg1":
						tp.UnregisterSpanProcessor(p1)
					case "Getters": // what a processor that kept the ReadWriteSpan from OnStart may read at any time
						_ = rs.Name()
						_ = rs.StartTime()
						_ = rs.EndTime()
						_ = len(rs.Attributes()) // the call is the subject; what it returns is the span's own storage while the span lives
						_ = rs.Links()
						_ = rs.Events()
						_ = rs.Status()
						_ = rs.SpanKind()
						_ = rs.Parent()
						_ = rs.SpanContext()
						_ = rs.Resource()
						_ = rs.InstrumentationScope()
						_ = rs.DroppedAttributes() + rs.DroppedEvents() + rs.DroppedLinks() + rs.ChildSpanCount()
					case "AttrBad": // one attribute that is kept and one that is dropped (no key): the drop is part of the same mutation
						sp.SetAttributes(attribute.Int("m", 7), attribute.KeyValue{Key: "", Value: attribute.IntValue(9)})
					case "AttrDup": // the same keys again: the getter still lists each key once
						sp.SetAttributes(attribute.Int("k", 3), attribute.Int("k", 4), attribute.Int("l", 5))
					case "Unreg2":
						tp.UnregisterSpanProcessor(p2)
					case "ShutdownTP":
						_ = tp.Shutdown(context.Background())
					case "ChildDropped": // a child the sampler drops still is a child
						endReturnedBefore := firstEndReturned.Load() != 0
						if !endReturnedBefore {
							childStartCalledBeforeEndReturn.Add(1)
						}
						_, c := tr.Start(ctx, "dropped")
						if firstEndCalled.Load() == 0 {
							childStartedBeforeEndCall.Add(1)
						}
						c.End()
					case "PanicEnd": // defer span.End(); panic(v) — End records the panic (recover works only when
						// End itself is the deferred call); v.Error() takes time
						func() {
							defer func() { _ = recover() }() // End re-panics after recording
							defer func() {
								firstEndReturned.CompareAndSwap(0, int64(x.Step())+1)
								o.endTimes = append(o.endTimes, rs.EndTime().UnixNano())
							}()
							defer sp.End()
							firstEndCalled.CompareAndSwap(0, int64(x.Step())+1)
							endCalls.Add(1)
							panic(c10SlowErr{rs})
						}()
					case "Tracer":
						_, c := tp.Tracer("other").Start(context.Background(), "child")
						c.End()
					case "Register":
						tp.RegisterSpanProcessor(p2)
					case "Register3":
						tp.RegisterSpanProcessor(p3)
					case "Span2Same": // an unrelated span that is given attributes with the keys the span under test uses
						_, c := tr.Start(context.Background(), "child")
						c.SetAttributes(attribute.Int("k", 7), attribute.Int("z", 5), attribute.Int("l", 8))
						_ = c.(ReadOnlySpan).Attributes()
						c.End()
					case "Span2": // an unrelated span of the same tracer: started, given attributes, ended
						_, c := tr.Start(context.Background(), "child")
						c.SetAttributes(attribute.Int("q", 9), attribute.Int("r", 8), attribute.Int("t", 7))
						c.End()
					}
				}
			})
		}
		wg.Wait()
		// ---- oracle (root thread, after the join)
		if sc.extra == "regRace" {
			// every Register / Unregister has returned: the span, ended now, reaches exactly p2 and p3
			sp.End()
			for i, p := range []*c10Proc{p2, p3} {
				if n := p.ends.Load(); n != 1 {
					x.Fail("C10|span-delivered-not-exactly-once|processor registered concurrently with another Register/Unregister", "RegisterSpanProcessor(p%d) had returned before the span ended; it received the span %d times", i+2, n)
				}
			}
			if n := p1.ends.Load(); n != 0 {
				x.Fail("C10|span-delivered-not-exactly-once|unregistered processor", "UnregisterSpanProcessor(p1) had returned before the span ended; p1 received it %d times", n)
			}
			*res = fmt.Sprintf("p1=%d p2=%d p3=%d", p1.ends.Load(), p2.ends.Load(), p3.ends.Load())
			return
		}
		if sc.extra == "3procs" {
			for i, p := range []*c10Proc{p2, p3} {
				if n := p.ends.Load(); n != 1 {
					x.Fail("C10|span-delivered-not-exactly-once|processor registered throughout", "processor p%d stayed registered during End (only p1 was unregistered) and received the span %d times", i+2, n)
				}
			}
			if n := p1.ends.Load(); n > 1 {
				x.Fail("C10|span-delivered-not-exactly-once", "p1 received the span %d times", n)
			}
			*res = fmt.Sprintf("p1=%d p2=%d p3=%d", p1.ends.Load(), p2.ends.Load(), p3.ends.Load())
			return
		}
		if sc.name[0] == 'T' {
			seen := map[attribute.Key]bool{}
			for _, a := range rs.Attributes() {
				if seen[a.Key] {
					dupAttrs.Add(1)
				}
				seen[a.Key] = true
			}
		}
		if n := dupAttrs.Load(); n != 0 {
			x.Fail("C10|getter-lists-a-key-twice", "ReadWriteSpan.Attributes() listed a key more than once (%d duplicates seen by a concurrent reader)", n)
		}
		if tracers[0] != nil && tracers[1] != nil && tracers[0] != tracers[1] {
			x.Fail("C10|two-tracers-for-one-scope", "two concurrent TracerProvider.Tracer(\"a\") calls returned different tracers")
		}
		if selfRecording.Load() != 0 {
			x.Fail("C10|recording-inside-OnEnd", "IsRecording reported true for the span that is being delivered to OnEnd")
		}
		tpShutdown := false
		for _, t := range sc.threads {
			for _, op := range t {
				tpShutdown = tpShutdown || op == "ShutdownTP"
			}
		}
		// a provider Shutdown that overtakes the End has already let go of the processor: at most once then
		if n := p1.ends.Load(); n != 1 && !(tpShutdown && n == 0) {
			x.Fail("C10|span-delivered-not-exactly-once", "span delivered to its processor %d times (End called %d times)", n, endCalls.Load())
		}
		if n := p2.ends.Load(); n > 1 {
			x.Fail("C10|span-delivered-not-exactly-once", "span delivered to the late-registered processor %d times", n)
		}
		var ets []int64
		for _, o := range outs {
			ets = append(ets, o.endTimes...)
			if len(o.recAfter) > 0 {
				x.Fail("C10|recording-after-end-returned", "IsRecording reported true after an End call had returned")
			}
		}
		snapP, copyP := p1.snap.Load(), p1.copy.Load()
		if snapP != nil {
			snap := *snapP
			for _, et := range ets {
				if et != snap.EndTime().UnixNano() {
					x.Fail("C10|more-than-one-end-time", "End callers observed end time %d, the exported snapshot carries %d (all observed: %v)", et, snap.EndTime().UnixNano(), ets)
				}
			}
			now := c10Render(snap)
			if now != *copyP {
				x.Fail("C10|snapshot-changed-after-export", "exported snapshot changed after delivery:\n at OnEnd: %s\n now:      %s", *copyP, now)
			}
			// all-or-nothing mutations
			r := *copyP
			has := func(s string) bool { return strings.Contains(r, s) }
			if sc.atLimit && !has("attrs=[z=0]") {
				x.Fail("C10|attribute-limit|the attribute set before the limit was reached is not what the snapshot holds", "limit 1, z=0 was set first and later SetAttributes calls used other keys: %s", r)
			}
			if has("k=1") != has("l=2") {
				x.Fail("C10|torn-mutation|SetAttributes", "SetAttributes(k,l) only partly present in the snapshot: %s", r)
			}
			if sc.name[0] == 'X' && has("m=7") != has(" dropped=1/") {
				x.Fail("C10|torn-mutation|SetAttributes|kept attribute without the drop count of the same call", "SetAttributes(m=7, <attribute without key>) only partly present in the snapshot: %s", r)
			}
			if sc.name[0] == 'I' && !has(" dropped=0/") && !has(" dropped=2/") {
				x.Fail("C10|torn-mutation|SetAttributes|drop count of an over-limit call only partly present", "limit 1 reached, SetAttributes(k,l) drops both or came too late: %s", r)
			}
			if has("event(e:") && !has("event(e:[ea=1,eb=2])") {
				x.Fail("C10|torn-mutation|AddEvent", "event present without all its attributes: %s", r)
			}
			if has("link(0900000000000000:") && !has("link(0900000000000000:[la=1,lb=2])") {
				x.Fail("C10|torn-mutation|AddLink", "link present without all its attributes: %s", r)
			}
			if has("status=Error/") && !has("status=Error/d ") {
				x.Fail("C10|torn-mutation|SetStatus", "status code without its description: %s", r)
			}
			// child count: children started before End was called <= count <= children whose Start was called before End returned
			lo, hi := int(childStartedBeforeEndCall.Load()), int(childStartCalledBeforeEndReturn.Load())
			if c := snap.ChildSpanCount(); c < lo || c > hi {
				x.Fail("C10|child-count", "exported ChildSpanCount %d outside [%d children started before End was called, %d started before End returned]", c, lo, hi)
			}
			i := strings.Index(r, " end=")
			j := i + 5
			for j < len(r) && r[j] != ' ' {
				j++
			}
			*res = r[:i] + r[j:] // outcome without the (virtual) end time
		} else {
			*res = "no-snapshot"
		}
	}
}

type c10Job struct {
	sc      c10Scn
	tracing bool
	p       int
}

func (j c10Job) name() string {
	t := "notrace"
	if j.tracing {
		t = "exectrace"
	}
	return fmt.Sprintf("%s/%s/P%d", j.sc.name, t, j.p)
}

func c10Jobs(thorough, race bool) []c10Job {
	scs := []c10Scn{
		{"A-end-end-attr", [][]string{{"End"}, {"End"}, {"Attr"}}, false, ""},
		{"B-end-event-status", [][]string{{"End"}, {"Event"}, {"Status"}}, false, ""},
		{"C-end-name-link", [][]string{{"EndTS"}, {"Name"}, {"Link"}}, false, ""},
		{"D-end-error-isrec", [][]string{{"End"}, {"Error"}, {"IsRec", "IsRec"}}, false, ""},
		{"E-end-children", [][]string{{"End"}, {"Child"}, {"ChildStart"}}, false, ""},
		{"F-end-end-isrec", [][]string{{"End", "IsRec"}, {"EndTS"}}, false, ""},
		{"G-provider", [][]string{{"Tracer"}, {"Register"}, {"End"}}, false, ""},
		{"H-atlimit-end-error-event", [][]string{{"End"}, {"Error"}, {"Event"}}, true, ""},
		{"I-atlimit-end-link-attr", [][]string{{"End"}, {"Link"}, {"Attr"}}, true, ""},
		{"J-4threads-end-end-attr-event", [][]string{{"End"}, {"EndTS"}, {"Attr"}, {"Event"}}, false, ""},
		{"K-end-status-name-error", [][]string{{"End"}, {"Status", "Name"}, {"Error", "IsRec"}}, false, ""},
		{"L-3procs-end-unregister", [][]string{{"End"}, {"Unreg1"}}, false, "3procs"},
		{"M-panicking-end-vs-end", [][]string{{"PanicEnd"}, {"EndTS"}}, false, ""},
		{"N-dropped-children", [][]string{{"End"}, {"ChildDropped"}, {"Child"}}, false, "dropSampler"},
		{"O-registers-racing-unregister", [][]string{{"Unreg1"}, {"Register"}, {"Register3"}}, false, "regRace"},
		{"P-sampler-reusing-its-attribute-slice", [][]string{{"Attr", "End"}, {"Span2"}}, false, "reuseSampler"},
		{"Q-atlimit-attr-vs-attributes-of-another-span", [][]string{{"Attr", "End"}, {"Span2Same"}}, true, ""},
		{"U-children-and-a-new-root-started-under-the-span", [][]string{{"Child", "NewRoot"}, {"NewRoot", "End"}}, false, ""},
		{"V-tracer-lookups-from-three-threads", [][]string{{"TracerA0", "End"}, {"TracerA1"}, {"TracerB"}}, false, ""},
		{"X-end-vs-a-call-that-keeps-one-attribute-and-drops-one", [][]string{{"End"}, {"AttrBad"}}, false, ""},
		{"W-onend-touches-the-span-it-is-given", [][]string{{"End"}, {"IsRec", "Attr"}}, false, "reentrant-self"},
		{"T-getters-of-the-live-span-vs-mutators", [][]string{{"Attr", "AttrDup"}, {"Getters", "Getters"}, {"Event", "EndTS"}}, false, ""},
		{"R-onend-ends-a-span-itself-vs-unregister-of-another-processor", [][]string{{"End"}, {"Unreg2"}}, false, "reentrant"},
		{"S-onend-ends-a-span-itself-vs-provider-shutdown", [][]string{{"End", "IsRec"}, {"ShutdownTP"}}, false, "reentrant"},
	}
	p := 3
	if thorough {
		p = 6
	}
	if race {
		p-- // the race build is ~6x slower
	}
	var js []c10Job
	for _, sc := range scs {
		js = append(js, c10Job{sc, false, p}, c10Job{sc, true, p})
	}
	return js
}

func c10Run(t *testing.T, unit string, race bool) {
	thorough := enum.Start("C10", "probe").Thorough()
	all := c10Jobs(thorough, race)
	var names []string
	for _, j := range all {
		names = append(names, j.name())
	}
	enum.Jobs(names, func(job string) {
		r := enum.Start("C10", unit)
		defer r.Finish()
		for _, j := range all {
			if j.name() != job {
				continue
			}
			r.Bound("scenarios x {exec tracing off,on}", len(all))
			r.Bound("max_preemptions", j.p)
			r.Bound("race_build", race)
			var res string
			st := sched.Explore(r, sched.Config{Name: job, MaxP: j.p, MaxE: 0, MaxSteps: 3000, Body: c10Body(j.sc, j.tracing, &res),
				Outcome: func(*sched.Exec) string { return res }})
			if race {
				r.Count("race_build_executions", st.Execs)
			}
			t.Logf("%s: execs=%d states=%d steps=%d pruned=%d deadlocks=%d outcomes=%d complete=%v keys=%v", job, st.Execs, st.States, st.Steps, st.Pruned, st.Deadlocks, len(st.Outcomes), st.Complete, r.Keys())
		}
	})
}

func TestVerifC10(t *testing.T)     { c10Run(t, "span", false) }
func TestVerifC10Race(t *testing.T) { c10Run(t, "span-race", sched.RaceEnabled) }
