package log

// C06 — log batch processor: each record once, in order, one export at a time. The real
// BatchProcessor (instrumented copy: queue, ring, poll goroutine, buffer/chunk/timeout exporters,
// export goroutine) runs under the controlled scheduler.

import (
	"context"
	"errors"
	"fmt"
	"sort"
	"strings"
	"testing"

	"github.com/go-logr/logr"

	"verif/mc/enum"
	"verif/mc/sched"
	"verif/mc/vctx"
	"verif/mc/vsync"

	"go.opentelemetry.io/otel"
	"go.opentelemetry.io/otel/log"
)

// dropped-record accounting: the processor reports drops only through its logger.
var c06Logged *uint64

type c06Sink struct{}

func (c06Sink) Init(logr.RuntimeInfo)  {}
func (c06Sink) Enabled(level int) bool { return true }
func (c06Sink) Info(level int, msg string, kv ...any) {
	if msg == "dropped log records" && c06Logged != nil {
		for i := 0; i+1 < len(kv); i += 2 {
			if kv[i] == "dropped" {
				if d, ok := kv[i+1].(uint64); ok {
					*c06Logged += d
				}
			}
		}
	}
}
func (c06Sink) Error(err error, msg string, kv ...any) {}
func (c06Sink) WithValues(kv ...any) logr.LogSink      { return c06Sink{} }
func (c06Sink) WithName(name string) logr.LogSink      { return c06Sink{} }

type c06Exp struct {
	x        *sched.Exec
	max      int
	faults   bool
	inflight int
	batches  [][]string
	seen     map[string]int
	returned map[string]bool // the Export call that carried the record has returned
	lastSeq  map[byte]int
	sd, ff   int
	closedOK bool
	// closedRepeat: a Shutdown returned nil after an EARLIER Shutdown had been cut short by its context
	// (that call gives up on the poll goroutine, which may still be exporting: recorded finding)
	closedRepeat bool
	failed       int // exports that answered with an error (injected fault)
}

const c06Attrs = 7 // > 5 so that the record's `back` slice is used

func c06Record(id string) Record {
	r := Record{attributeCountLimit: 128, attributeValueLengthLimit: -1} // the provider's defaults
	r.SetBody(log.StringValue(id))
	for i := 0; i < c06Attrs; i++ {
		r.AddAttributes(log.String(fmt.Sprintf("k%d", i), id))
	}
	return r
}

func (e *c06Exp) Export(ctx context.Context, rs []Record) error {
	x := e.x
	e.inflight++
	if e.inflight > 1 {
		x.Fail("C06|export-reentered", "Export entered while another Export call is still running")
	}
	if len(rs) > e.max {
		x.Fail("C06|batch-too-large", "export of %d records exceeds the maximum batch size %d", len(rs), e.max)
	}
	if e.closedOK {
		x.Fail("C06|export-after-shutdown", "Export called after Shutdown had returned nil")
	} else if e.closedRepeat {
		x.Fail("C06|export-after-shutdown|after a repeated Shutdown that returned nil while an earlier Shutdown, cut short by its context, had not completed", "Export called after the second Shutdown had returned nil (the first one, cut short by its context, had left the poll goroutine running)")
	}
	// (an Export after the exporter's own Shutdown can happen when the processor's Shutdown was cut
	// short by its context: not part of C06's statement, which speaks about Shutdown calls that returned)
	var ids []string
	for _, r := range rs {
		id := r.Body().AsString()
		ids = append(ids, id)
		ok := len(id) >= 2 && id != "mutated" && r.AttributesLen() == c06Attrs
		r.WalkAttributes(func(kv log.KeyValue) bool {
			if kv.Value.AsString() != id {
				ok = false
			}
			return true
		})
		if !ok {
			x.Fail("C06|exported-record-changed", "exported record %q does not hold the content it had when emitted (later changes to the caller's record leaked in)", id)
			continue
		}
		e.seen[id]++
		if e.seen[id] > 1 {
			x.Fail("C06|record-exported-twice", "record %s passed to the exporter %d times", id, e.seen[id])
		}
		var seq int
		fmt.Sscanf(id[1:], "%d", &seq)
		if seq <= e.lastSeq[id[0]] {
			x.Fail("C06|emission-order", "record %s exported after record %c%d of the same goroutine", id, id[0], e.lastSeq[id[0]])
		}
		e.lastSeq[id[0]] = seq
	}
	e.batches = append(e.batches, ids)
	sched.Yield("export-in-flight", e)
	var err error
	if e.faults {
		switch sched.Choose(3, "export-answer") {
		case 1:
			err = errors.New("export failed")
		case 2:
			sched.ChR(ctx.Done()).Recv()
			err = ctx.Err()
		}
	}
	// the slice belongs to this call until it returns: what it holds now is what it held on entry
	for i := range rs {
		if i >= len(ids) || rs[i].Body().AsString() != ids[i] {
			x.Fail("C06|export-batch-changed-during-export", "the slice handed to Export changed while the call was running: on entry %v, position %d differs now", ids, i)
			break
		}
	}
	e.inflight--
	for _, id := range ids {
		e.returned[id] = true
	}
	if err != nil {
		e.failed++
	}
	return err
}

func (e *c06Exp) Shutdown(context.Context) error {
	e.sd++
	if e.sd > 1 {
		e.x.Fail("C06|exporter-shutdown-twice", "exporter Shutdown called %d times", e.sd)
	}
	return nil
}
func (e *c06Exp) ForceFlush(context.Context) error { e.ff++; return nil }

type c06Cfg struct {
	q, b, buf int
	faults    bool
}

func (c c06Cfg) String() string {
	s := fmt.Sprintf("q%db%dbuf%d", c.q, c.b, c.buf)
	if c.faults {
		s += "-faults"
	}
	return s
}

// ops: "M:<id>" emit record (id = goroutine letter + sequence number), "F", "Fc", "S", "Sc"
type c06Scn struct {
	name    string
	threads [][]string
	tail    []string
}

func c06Body(cfg c06Cfg, sc c06Scn, res *string) func(x *sched.Exec) {
	return func(x *sched.Exec) {
		var logged uint64
		c06Logged = &logged
		e := &c06Exp{x: x, max: cfg.b, faults: cfg.faults, seen: map[string]int{}, returned: map[string]bool{}, lastSeq: map[byte]int{}}
		bp := NewBatchProcessor(e, WithMaxQueueSize(cfg.q), WithExportMaxBatchSize(cfg.b), WithExportBufferSize(cfg.buf))
		emittedAt := map[string]int{}
		// harness clock: one tick per recorded event. Threads run one at a time, so the order of the
		// ticks is the real order of "End/Emit returned" and "ForceFlush/Shutdown called" -- within one
		// thread as well (the scheduler's step counter does not move between two harness statements)
		clk := 0
		tick := func() int { clk++; return clk }
		firstShutdownAt, shutdownCalls := -1, 0
		shutdownFailedBefore := false
		var results []string
		checkFlush := func(what string, calledAt int, err error) {
			results = append(results, fmt.Sprintf("%s=%v", what, err != nil))
			if err != nil {
				return
			}
			var missing []string
			for id, at := range emittedAt {
				// a record whose Emit had not returned before the first Shutdown call is telemetry
				// "after shutdown": the processor may legitimately ignore it
				if firstShutdownAt >= 0 && at >= firstShutdownAt {
					continue
				}
				// "passed to the exporter when the call returns": the Export call carrying it is over (an
				// Export still in progress when ForceFlush / Shutdown returns has flushed nothing yet)
				if at < calledAt && (e.seen[id] == 0 || !e.returned[id]) {
					missing = append(missing, id)
				}
			}
			if what == "Shutdown" && shutdownCalls > 1 {
				if shutdownFailedBefore {
					what = "repeated Shutdown while an earlier Shutdown had not completed"
				} else {
					what = "Shutdown overlapping a Shutdown that is still in progress"
				}
			}
			if what == "ForceFlush" && firstShutdownAt >= 0 {
				what = "ForceFlush overlapping or following a Shutdown call"
			}
			sort.Strings(missing)
			dropped := int(logged + bp.q.dropped.Peek())
			if len(missing) > dropped {
				class := "|no export had failed"
				if e.failed > 0 {
					class = "|after an earlier export returned an error"
				}
				x.Fail("C06|flush-returned-nil-record-not-exported|"+what+class, "%s returned nil but record(s) %v, emitted before it was called, were neither exported nor overwritten by queue overflow (dropped=%d, batches=%v)", what, missing, dropped, e.batches)
			}
		}
		runOp := func(op string) {
			switch {
			case strings.HasPrefix(op, "M:"):
				id := op[2:]
				r := c06Record(id)
				ectx := context.Background()
				if strings.HasSuffix(id, "2") {
					// every second record of an emitter is emitted with a context that has already ended (a
					// request-scoped context after the request): the record counts like any other
					c, cancel := context.WithCancel(ectx)
					cancel()
					ectx = c
				}
				_ = bp.OnEmit(ectx, &r)
				emittedAt[id] = tick()
				// the caller keeps using its record
				r.SetBody(log.StringValue("mutated"))
				r.AddAttributes(log.String("k6", "mutated"), log.String("k0", "mutated"))
			case op == "F":
				at := tick()
				checkFlush("ForceFlush", at, bp.ForceFlush(context.Background()))
			case op == "Fc":
				ctx, cancel := vctx.WithCancel(context.Background())
				sched.Go(cancel)
				at := tick()
				checkFlush("ForceFlush", at, bp.ForceFlush(ctx))
			case op == "S":
				at := tick()
				if firstShutdownAt < 0 {
					firstShutdownAt = at
				}
				shutdownCalls++
				err := bp.Shutdown(context.Background())
				checkFlush("Shutdown", at, err)
				if err == nil {
					if shutdownFailedBefore {
						e.closedRepeat = true
					} else {
						e.closedOK = true
					}
				}
				if err != nil {
					shutdownFailedBefore = true
				}
				if err == nil {
					if e.sd != 1 {
						x.Fail("C06|exporter-not-shut-down", "processor Shutdown returned nil, exporter Shutdown called %d times", e.sd)
					}
				}
			case op == "Sc":
				ctx, cancel := vctx.WithCancel(context.Background())
				sched.Go(cancel)
				at := tick()
				if firstShutdownAt < 0 {
					firstShutdownAt = at
				}
				shutdownCalls++
				err := bp.Shutdown(ctx)
				checkFlush("Shutdown", at, err)
				if err == nil {
					if shutdownFailedBefore {
						e.closedRepeat = true
					} else {
						e.closedOK = true
					}
				}
				if err != nil {
					shutdownFailedBefore = true
				}
			}
		}
		var wg vsync.WaitGroup
		wg.Add(len(sc.threads))
		for _, ops := range sc.threads {
			sched.Go(func() {
				defer wg.Done()
				for _, op := range ops {
					runOp(op)
				}
			})
		}
		wg.Wait()
		for _, op := range sc.tail {
			runOp(op)
		}
		// let the processor's own goroutines (poll loop, export goroutine) run until they have nothing
		// left: an Export that follows a Shutdown which returned nil is caught by the exporter's monitor
		for k := 0; k < 8; k++ {
			sched.SpinYield()
		}
		// the ring overwrites its oldest record only when it is full: with no more records than it
		// holds, nothing can have been dropped
		emits := 0
		for _, ops := range append(append([][]string{}, sc.threads...), sc.tail) {
			for _, op := range ops {
				if strings.HasPrefix(op, "M:") {
					emits++
				}
			}
		}
		if d := int(logged + bp.q.dropped.Peek()); emits <= cfg.q && d > 0 {
			x.Fail("C06|dropped-although-the-queue-had-room", "%d record(s) counted as dropped; the scenario emits %d records into a queue of %d", d, emits, cfg.q)
		}
		sort.Strings(results)
		*res = fmt.Sprintf("%v drop=%d sd=%d %v", e.batches, logged+bp.q.dropped.Peek(), e.sd, results)
	}
}

type c06Job struct {
	sc   c06Scn
	cfg  c06Cfg
	p, e int
}

func (j c06Job) name() string { return fmt.Sprintf("%s/%s/P%dE%d", j.sc.name, j.cfg, j.p, j.e) }

func c06Jobs(thorough bool) []c06Job {
	L1 := c06Scn{"L1", [][]string{{"M:a1", "M:a2"}, {"F"}}, []string{"S"}}
	L2 := c06Scn{"L2", [][]string{{"M:a1", "M:a2", "M:a3"}, {"M:b1"}}, []string{"F", "S"}}
	L3 := c06Scn{"L3", [][]string{{"M:a1", "M:a2"}, {"S"}}, nil}
	L4 := c06Scn{"L4", [][]string{{"F"}, {"S"}, {"M:a1"}}, nil}
	L5 := c06Scn{"L5", [][]string{{"M:a1", "M:a2", "Fc"}}, []string{"S"}}
	L6 := c06Scn{"L6", [][]string{{"M:a1", "F", "M:a2"}, {"M:b1", "M:b2"}}, []string{"S"}}
	L7 := c06Scn{"L7", [][]string{{"M:a1", "M:a2"}, {"Sc"}}, []string{"S"}}
	L8 := c06Scn{"L8", [][]string{{"M:a1", "M:a2", "M:a3", "F"}}, []string{"S"}} // sequential: chunked flush with faults
	L9 := c06Scn{"L9", [][]string{{"M:a1", "M:a2", "M:a3", "M:a4"}, {"F"}}, []string{"S"}}
	// a ForceFlush cut short by its context while an earlier batch is still in flight, then more
	// records and a second ForceFlush: buffers handed to the export goroutine must not be reused
	L10 := c06Scn{"L10", [][]string{{"M:a1", "M:a2", "M:a3", "Fc", "M:a4", "F"}}, []string{"S"}}
	// two emitters that each flush their own record: a ForceFlush may not ride on another one that
	// started (and emptied the queue) before this caller's record was emitted
	L11 := c06Scn{"L11", [][]string{{"M:a1", "F"}, {"M:b1", "F"}}, []string{"S"}}
	// one record, moved to the export buffer by the poll goroutine (batch size 1), and a ForceFlush
	// from another thread that finds queue and buffer empty while the record is on its way to Export
	L12 := c06Scn{"L12", [][]string{{"M:a1"}, {"F"}}, []string{"S"}}
	// two Shutdown calls at once ("Shutdown from many goroutines"): each one that returns nil has the
	// records emitted before it was called exported
	L13 := c06Scn{"L13", [][]string{{"M:a1", "M:a2"}, {"S"}, {"S"}}, nil}
	q2b1, q2b2, q1b1 := c06Cfg{2, 1, 1, false}, c06Cfg{2, 2, 1, false}, c06Cfg{1, 1, 1, false}
	q3b2, q4b2 := c06Cfg{3, 2, 1, false}, c06Cfg{4, 2, 2, false}
	q3b2f, q2b1f := c06Cfg{3, 2, 1, true}, c06Cfg{2, 1, 1, true}
	q4b2buf1 := c06Cfg{4, 2, 1, false}
	if !thorough {
		return []c06Job{
			{L1, q2b2, 1, 1}, {L1, q1b1, 1, 0}, {L1, q2b1, 1, 0},
			{L3, q2b1, 1, 1}, {L3, q2b2, 1, 1}, {L3, q1b1, 1, 1}, {L3, q3b2f, 1, 1},
			{L2, q2b2, 1, 0}, {L2, q1b1, 0, 1},
			{L8, q3b2f, 0, 2}, {L8, q2b1f, 0, 2}, {L5, q2b2, 1, 1},
			{L1, q3b2f, 0, 1}, {L4, q2b2, 1, 0}, {L10, q4b2buf1, 1, 0},
			{L11, q2b1, 1, 0}, {L11, q2b2, 1, 0},
			{L7, q2b1, 1, 0}, {L7, q2b1f, 0, 1},
			{L13, q2b2, 1, 0}, {L13, q2b1, 1, 0},
			{L12, q2b1, 2, 0}, {L12, q1b1, 1, 1}, // a Shutdown cut short, then another: where two recorded findings show
		}
	}
	var js []c06Job
	for _, sc := range []c06Scn{L1, L2, L3, L4, L5, L6, L7, L9} {
		for _, c := range []c06Cfg{q2b1, q2b2, q1b1, q3b2, q4b2} {
			p, e := 2, 1
			if sc.name == "L2" || sc.name == "L6" || sc.name == "L9" {
				p, e = 1, 1 // four records / two emitters: measured > 40 CPU-minutes at (2,1); (2,0) is added below
				js = append(js, c06Job{sc, c, 2, 0})
			}
			js = append(js, c06Job{sc, c, p, e})
		}
		for _, c := range []c06Cfg{q3b2f, q2b1f} {
			js = append(js, c06Job{sc, c, 1, 1})
		}
	}
	js = append(js, c06Job{L13, q2b2, 2, 1}, c06Job{L13, q2b1, 2, 0}, c06Job{L13, q1b1, 2, 1})
	js = append(js, c06Job{L12, q2b1, 3, 0}, c06Job{L12, q1b1, 2, 1}, c06Job{L12, q2b2, 2, 1})
	js = append(js, c06Job{L11, q2b1, 2, 0}, c06Job{L11, q2b2, 2, 0}, c06Job{L11, q2b1, 1, 1})
	js = append(js, c06Job{L8, q3b2f, 1, 2}, c06Job{L8, q2b1f, 1, 2}, c06Job{L10, q4b2buf1, 2, 1}, c06Job{L10, q2b1, 2, 0}, c06Job{L10, q3b2, 1, 1})
	return js
}

func TestVerifC06(t *testing.T) {
	otel.SetLogger(logr.New(c06Sink{}))
	ctxErr = func(ctx context.Context) error { sched.SpinYield(); return ctx.Err() }
	thorough := enum.Start("C06", "probe").Thorough()
	all := c06Jobs(thorough)
	var jobs []string
	for _, j := range all {
		jobs = append(jobs, j.name())
	}
	enum.Jobs(jobs, func(job string) {
		r := enum.Start("C06", "logbatch")
		defer r.Finish()
		for _, j := range all {
			if j.name() != job {
				continue
			}
			r.Bound("jobs(scenario/config/bounds)", len(all))
			r.Bound("max_preemptions", j.p)
			r.Bound("max_env_deviations", j.e)
			var res string
			st := sched.Explore(r, sched.Config{Name: job, MaxP: j.p, MaxE: j.e, MaxSteps: 6000, Body: c06Body(j.cfg, j.sc, &res),
				Outcome: func(*sched.Exec) string { return res }, DeadlockOK: true})
			t.Logf("%s: execs=%d states=%d steps=%d pruned=%d deadlocks=%d horizon=%d outcomes=%d complete=%v keys=%v", job, st.Execs, st.States, st.Steps, st.Pruned, st.Deadlocks, st.Horizon, len(st.Outcomes), st.Complete, r.Keys())
		}
	})
}
