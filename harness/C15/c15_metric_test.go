package metric

// C15 (metrics part) — MeterProvider lifecycle. Every operation sequence up to a depth over
// Meter()+Counter+Add / Add on an instrument created earlier / Collect / ForceFlush / Shutdown
// (background and cancelled context) / direct reader Shutdown, with a ManualReader or a
// PeriodicReader around a recording exporter, on the real MeterProvider under the controlled scheduler.

import (
	"context"
	"encoding/json"
	"errors"
	"fmt"
	"strings"
	"testing"

	"verif/mc/enum"
	"verif/mc/sched"
	"verif/mc/vctx"
	"verif/mc/vsync"

	"go.opentelemetry.io/otel/sdk/metric/metricdata"
)

type c15mExp struct {
	exports, shuts, flushes, afterSD int
	total                            int64
}

func (e *c15mExp) Temporality(InstrumentKind) metricdata.Temporality {
	return metricdata.CumulativeTemporality
}
func (e *c15mExp) Aggregation(k InstrumentKind) Aggregation { return DefaultAggregationSelector(k) }
func (e *c15mExp) Export(_ context.Context, rm *metricdata.ResourceMetrics) error {
	e.exports++
	if e.shuts > 0 {
		e.afterSD++
	}
	e.total = c15mTotal(rm)
	return nil
}
func (e *c15mExp) ForceFlush(context.Context) error { e.flushes++; return nil }
func (e *c15mExp) Shutdown(context.Context) error   { e.shuts++; return nil }

func c15mTotal(rm *metricdata.ResourceMetrics) int64 {
	var s int64
	for _, sm := range rm.ScopeMetrics {
		for _, m := range sm.Metrics {
			if d, ok := m.Data.(metricdata.Sum[int64]); ok {
				for _, dp := range d.DataPoints {
					s += dp.Value
				}
			}
		}
	}
	return s
}

var c15mOps = []string{"AddNew", "AddOld", "Collect", "Flush", "Shutdown", "ShutdownC", "ReaderShutdown"}
var c15mVariants = []string{"manual", "periodic(E)", "periodic(E)+periodic(E2)"}

func c15mSeq(variant string, ops []string) func(x *sched.Exec) {
	return func(x *sched.Exec) {
		ctx := context.Background()
		exp := &c15mExp{}
		var rd Reader
		var collect func(*metricdata.ResourceMetrics) error
		if variant == "manual" {
			mr := NewManualReader()
			rd, collect = mr, func(rm *metricdata.ResourceMetrics) error { return mr.Collect(ctx, rm) }
		} else {
			pr := NewPeriodicReader(exp)
			rd, collect = pr, func(rm *metricdata.ResourceMetrics) error { return pr.Collect(ctx, rm) }
		}
		popts := []Option{WithReader(rd)}
		// second reader of the two-reader variant: only the provider's Shutdown reaches it
		exp2 := &c15mExp{}
		var pr2 *PeriodicReader
		if variant == "periodic(E)+periodic(E2)" {
			pr2 = NewPeriodicReader(exp2)
			popts = append(popts, WithReader(pr2))
		}
		provShut := false // the provider is shut down: a provider Shutdown returned nil, or a repeated one said "already shut down"
		provTried := false
		mp := NewMeterProvider(popts...)
		oldC, _ := mp.Meter("old").Int64Counter("c")
		var added int64     // measurements made while the provider was certainly live
		shutOK := false     // some provider/reader Shutdown returned nil
		shutTried := false  // some Shutdown was called
		readerShut := false // the reader is shut down (by any path that returned nil)
		where := func(i int) string { return fmt.Sprintf("after %v", ops[:i+1]) }
		for i, op := range ops {
			e0 := exp.exports
			switch op {
			case "AddNew":
				c, err := mp.Meter("new").Int64Counter("c2")
				if err != nil || c == nil {
					x.Fail("C15|instrument-creation-error|metrics", "Int64Counter returned %v (%s)", err, where(i))
					break
				}
				c.Add(ctx, 1)
				if !shutTried {
					added++
				}
				if provShut {
					// "providers hand out no-op ... meters": a no-op meter accepts any instrument name
					// without complaint, a live one validates it
					if _, e2 := mp.Meter("after-shutdown").Int64Counter("1 not a valid name"); e2 != nil {
						x.Fail("C15|meter-after-shutdown-is-not-a-no-op|metrics", "a meter handed out after MeterProvider.Shutdown had returned nil still validates instruments: %v (%s)", e2, where(i))
					}
				}
			case "AddOld":
				oldC.Add(ctx, 1)
				if !shutTried {
					added++
				}
			case "Collect":
				var rm metricdata.ResourceMetrics
				err := collect(&rm)
				switch {
				case readerShut:
					if !errors.Is(err, ErrReaderShutdown) {
						x.Fail("C15|collect-after-shutdown|metrics", "Collect after the reader was shut down returned %v, documented: ErrReaderShutdown (%s)", err, where(i))
					}
				case !shutTried:
					if err != nil {
						x.Fail("C15|collect-error|metrics", "Collect on a live provider returned %v (%s)", err, where(i))
					} else if got := c15mTotal(&rm); got != added {
						x.Fail("C15|collect-wrong-total|metrics", "Collect reports a total of %d, %d measurements were made (%s)", got, added, where(i))
					}
				}
			case "Flush":
				err := mp.ForceFlush(ctx)
				// time is abstract under the scheduler: the flush's own (virtual) timeout may fire
				if err != nil && !(shutTried && errors.Is(err, ErrReaderShutdown)) && !errors.Is(err, context.DeadlineExceeded) {
					x.Fail("C15|forceflush-error|metrics", "ForceFlush returned %v (%s)", err, where(i))
				}
			case "Shutdown", "ShutdownC", "ReaderShutdown":
				c := ctx
				if op == "ShutdownC" {
					cc, cancel := vctx.WithCancel(ctx)
					cancel()
					c = cc
				}
				var err error
				if op == "ReaderShutdown" {
					err = rd.Shutdown(c)
				} else {
					err = mp.Shutdown(c)
				}
				if op != "ReaderShutdown" {
					if err == nil || (errors.Is(err, ErrReaderShutdown) && provTried) {
						provShut = true
					}
					provTried = true
				}
				if err == nil {
					shutOK, readerShut = true, true
				} else if errors.Is(err, ErrReaderShutdown) && shutTried {
					// "already shut down": the reader itself claims the earlier Shutdown did the job, so
					// from here on it must behave as shut down (exporter shut down once, Collect refuses)
					shutOK, readerShut = true, true
				}
				if err == nil {
				} else if !errors.Is(err, ErrReaderShutdown) && op != "ShutdownC" {
					x.Fail("C15|shutdown-error|metrics", "%s returned %v (%s)", op, err, where(i))
				} else if errors.Is(err, ErrReaderShutdown) && !shutTried {
					x.Fail("C15|shutdown-error|metrics", "first %s returned ErrReaderShutdown (%s)", op, where(i))
				}
				shutTried = true
			}
			if exp.shuts > 1 {
				x.Fail("C15|shut-down-more-than-once|metrics", "exporter Shutdown called %d times (%s)", exp.shuts, where(i))
			}
			if shutOK && variant != "manual" && exp.shuts != 1 {
				x.Fail("C15|registered-processor-not-shut-down-after-successful-Shutdown|metrics", "a Shutdown returned nil; the periodic reader's exporter was shut down %d times (%s)", exp.shuts, where(i))
			}
			if exp.afterSD > 0 || exp2.afterSD > 0 {
				x.Fail("C15|export-after-exporter-shutdown|metrics", "periodic reader exported after shutting its exporter down (%s)", where(i))
			}
			if pr2 != nil {
				if exp2.shuts > 1 {
					x.Fail("C15|shut-down-more-than-once|metrics", "the second reader's exporter Shutdown was called %d times (%s)", exp2.shuts, where(i))
				}
				if provShut {
					if exp2.shuts != 1 {
						x.Fail("C15|registered-processor-not-shut-down-after-successful-Shutdown|metrics|second reader", "the provider is shut down; the second periodic reader's exporter was shut down %d times (%s)", exp2.shuts, where(i))
					}
					var rm metricdata.ResourceMetrics
					if err := pr2.Collect(ctx, &rm); !errors.Is(err, ErrReaderShutdown) {
						x.Fail("C15|collect-after-shutdown|metrics|second reader", "the provider is shut down; Collect on its second reader returned %v, documented: ErrReaderShutdown (%s)", err, where(i))
					}
				}
			}
			if readerShut && exp.exports != e0 && !strings.HasPrefix(op, "Shutdown") && op != "ReaderShutdown" {
				x.Fail("C15|telemetry-after-shutdown|metrics", "%s after Shutdown had returned nil caused an export (%s)", op, where(i))
			}
		}
		_ = mp.Shutdown(ctx)
	}
}

type c15mReplay struct {
	Variant string   `json:"variant"`
	Ops     []string `json:"ops"`
}

func c15mRun(r *enum.R, variant string, ops []string) {
	r.Eval()
	x := sched.Run(nil, 6000, false, c15mSeq(variant, ops))
	cas := map[string]any{"reader": variant, "ops": append([]string{}, ops...)}
	rp := c15mReplay{variant, append([]string{}, ops...)}
	switch {
	case strings.HasPrefix(x.Status, "deadlock"):
		y := sched.Run(nil, 6000, true, c15mSeq(variant, ops))
		r.Fail("deadlock|sequence|metrics|"+variant+"|"+strings.Join(ops, ","), cas, rp, "operation sequence blocks forever: %v blocked=%v", ops, y.Blocked)
	case x.Status == "horizon":
		r.Cap("step horizon in a sequence")
	case x.Status != "":
		r.Fail("panic|metrics|"+variant, cas, rp, "%s\n%s", x.Status, x.Stack)
	}
	for _, f := range x.Violations {
		r.Fail(f.Key, cas, rp, "%s", f.Msg)
	}
	r.Outcome(fmt.Sprintf("%s %v %s %d", variant, ops, x.Status, len(x.Violations)))
}

func c15mConc(threads [][]string, res *string) func(x *sched.Exec) {
	return func(x *sched.Exec) {
		ctx := context.Background()
		exp := &c15mExp{}
		pr := NewPeriodicReader(exp)
		mp := NewMeterProvider(WithReader(pr))
		c, _ := mp.Meter("m").Int64Counter("c")
		nilSD := make([]int, len(threads))
		var wg vsync.WaitGroup
		wg.Add(len(threads))
		for ti, ops := range threads {
			sched.Go(func() {
				defer wg.Done()
				for _, op := range ops {
					switch op {
					case "Shutdown":
						if mp.Shutdown(ctx) == nil {
							nilSD[ti]++
						}
					case "Flush":
						_ = mp.ForceFlush(ctx)
					case "Add":
						c.Add(ctx, 1)
					case "Collect":
						var rm metricdata.ResourceMetrics
						_ = pr.Collect(ctx, &rm)
					}
				}
			})
		}
		wg.Wait()
		n := 0
		for _, k := range nilSD {
			n += k
		}
		if exp.shuts > 1 {
			x.Fail("C15|shut-down-more-than-once|metrics|concurrent", "exporter Shutdown called %d times", exp.shuts)
		}
		if n > 1 {
			x.Fail("C15|two-shutdowns-succeeded|metrics|concurrent", "%d concurrent MeterProvider.Shutdown calls returned nil (documented: later calls return an error)", n)
		}
		if n > 0 && exp.shuts != 1 {
			x.Fail("C15|registered-processor-not-shut-down-after-successful-Shutdown|metrics|concurrent", "a Shutdown returned nil; exporter shut down %d times", exp.shuts)
		}
		if exp.afterSD > 0 {
			x.Fail("C15|export-after-exporter-shutdown|metrics|concurrent", "periodic reader exported after shutting its exporter down")
		}
		*res = fmt.Sprintf("shuts=%d exports=%d nilSD=%d", exp.shuts, exp.exports, n)
		_ = mp.Shutdown(ctx)
	}
}

func TestVerifC15Metric(t *testing.T) {
	probe := enum.Start("C15", "probe")
	depth := 4
	if probe.Thorough() {
		depth = 6
	}
	var jobs []string
	for _, v := range c15mVariants {
		for _, f := range c15mOps {
			jobs = append(jobs, "seq/"+v+"/first="+f)
		}
	}
	type conc struct {
		name    string
		threads [][]string
		p, e    int
	}
	concs := []conc{
		{"Z1-shutdown-shutdown-add", [][]string{{"Shutdown"}, {"Shutdown"}, {"Add"}}, 2, 0},
		{"Z2-shutdown-flush-add", [][]string{{"Shutdown"}, {"Flush"}, {"Add"}}, 1, 1},
		{"Z3-shutdown-collect", [][]string{{"Shutdown"}, {"Collect"}, {"Add"}}, 2, 0},
	}
	for _, c := range concs {
		jobs = append(jobs, "conc/"+c.name)
	}
	enum.Jobs(jobs, func(job string) {
		r := enum.Start("C15", "metric")
		defer r.Finish()
		r.Bound("metric_sequence_depth", depth)
		r.Bound("metric_ops", c15mOps)
		r.Bound("metric_readers", c15mVariants)
		if strings.HasPrefix(job, "conc/") {
			for _, c := range concs {
				if "conc/"+c.name != job {
					continue
				}
				var res string
				st := sched.Explore(r, sched.Config{Name: job, MaxP: c.p, MaxE: c.e, MaxSteps: 6000, Body: c15mConc(c.threads, &res), Outcome: func(*sched.Exec) string { return res }})
				t.Logf("%s: execs=%d deadlocks=%d outcomes=%d keys=%v", job, st.Execs, st.Deadlocks, len(st.Outcomes), r.Keys())
			}
			return
		}
		parts := strings.Split(job, "/")
		variant, first := parts[1], strings.TrimPrefix(parts[2], "first=")
		if r.Replaying() {
			var rp c15mReplay
			if d := r.ReplayData(); d != nil && json.Unmarshal(d, &rp) == nil && len(rp.Ops) > 0 {
				if rp.Variant == variant && rp.Ops[0] == first {
					c15mRun(r, rp.Variant, rp.Ops)
				}
				return
			}
		}
		for L := 1; L <= depth; L++ {
			ops := make([]string, L)
			ops[0] = first
			var rec func(i int)
			rec = func(i int) {
				if r.Expired() {
					return
				}
				if i == L {
					c15mRun(r, variant, ops)
					r.Sample(func() any { return map[string]any{"reader": variant, "ops": append([]string{}, ops...)} })
					return
				}
				for _, op := range c15mOps {
					ops[i] = op
					rec(i + 1)
				}
			}
			rec(1)
		}
	})
}
