package trace

// C15 (tracing part) — provider lifecycle: exact processor membership, single shutdown, safe
// afterwards. Every operation sequence up to a depth over Register / Unregister (incl. a processor
// that was never registered) / spans on old and new tracers / ForceFlush / Shutdown (background and
// already-cancelled context), with a recording processor or a stock processor (simple / batch,
// around an exporter or nil) in the first slot, is executed on the real TracerProvider under the
// controlled scheduler (default schedule: deterministic; goroutines the SDK spawns are scheduler
// threads, so a panic inside them is caught and attributed) and compared with a membership model.
// A second job family explores interleavings (P<=2) of concurrent Shutdown / Unregister / End.

import (
	"context"
	"encoding/json"
	"fmt"
	"strings"
	"testing"
	"time"

	"verif/mc/enum"
	"verif/mc/sched"
	"verif/mc/vctx"
	"verif/mc/vsync"
)

type c15Log struct{ ev []string }

type c15Proc struct {
	id                           string
	l                            *c15Log
	starts, ends, shuts, flushes int
	yield                        bool // a scheduling point inside every call (a processor that synchronises)
}

func (p *c15Proc) OnStart(_ context.Context, s ReadWriteSpan) {
	p.starts++
	p.l.ev = append(p.l.ev, p.id+".OnStart")
}
func (p *c15Proc) OnEnd(ReadOnlySpan) {
	if p.yield {
		sched.Yield("processor OnEnd", p)
	}
	p.ends++
	p.l.ev = append(p.l.ev, p.id+".OnEnd")
}
func (p *c15Proc) Shutdown(context.Context) error {
	if p.yield {
		sched.Yield("processor Shutdown", p)
	}
	p.shuts++
	p.l.ev = append(p.l.ev, p.id+".Shutdown")
	return nil
}
func (p *c15Proc) ForceFlush(context.Context) error {
	p.flushes++
	p.l.ev = append(p.l.ev, p.id+".ForceFlush")
	return nil
}

type c15Exp struct {
	slow     bool // ExportSpans has a scheduling point: the export takes time
	l        *c15Log
	exported int
	shuts    int
	afterSD  int
	names    map[string]int // name of every exported span (the sequences give every span its own name)
}

func (e *c15Exp) ExportSpans(_ context.Context, s []ReadOnlySpan) error {
	e.exported += len(s)
	if e.names == nil {
		e.names = map[string]int{}
	}
	for _, sp := range s {
		e.names[sp.Name()]++
	}
	if e.shuts > 0 {
		e.afterSD += len(s)
	}
	e.l.ev = append(e.l.ev, fmt.Sprintf("E.Export(%d)", len(s)))
	if e.slow {
		// the export takes time: other threads (and deadlines) may come in while it is in flight
		sched.Yield("export-in-flight", e)
	}
	return nil
}
func (e *c15Exp) Shutdown(context.Context) error {
	e.shuts++
	e.l.ev = append(e.l.ev, "E.Shutdown")
	return nil
}

// SpanOld: tracer obtained before everything else; SpanNew: tp.Tracer("new") now; SpanReget:
// tp.Tracer("old") asked for again now (a scope the provider has handed out before)
var c15Ops = []string{"Reg1", "Reg2", "Unreg1", "Unreg2", "UnregNever", "SpanOld", "SpanNew", "SpanReget", "Flush", "Shutdown", "ShutdownC"}
var c15Variants = []string{"rec", "simple(E)", "simple(nil)", "batch(E)", "batch(nil)"}

// c15Seq runs one operation sequence; failures are reported through x.Fail.
func c15Seq(variant string, ops []string) func(x *sched.Exec) {
	return func(x *sched.Exec) {
		l := &c15Log{}
		exp := &c15Exp{l: l}
		rec1 := &c15Proc{id: "p1", l: l}
		p2 := &c15Proc{id: "p2", l: l}
		never := &c15Proc{id: "never", l: l}
		var p1 SpanProcessor = rec1
		switch variant {
		case "simple(E)":
			p1 = NewSimpleSpanProcessor(exp)
		case "simple(nil)":
			p1 = NewSimpleSpanProcessor(nil)
		case "batch(E)":
			p1 = NewBatchSpanProcessor(exp)
		case "batch(nil)":
			p1 = NewBatchSpanProcessor(nil)
		}
		tp := NewTracerProvider(WithSampler(AlwaysSample()))
		old := tp.Tracer("old")
		// model
		var members []string
		regCalled := map[string]bool{} // RegisterSpanProcessor was called for it (whatever the provider did with it)
		reg := map[string]bool{}       // ever registered
		unreg := map[string]bool{}     // unregistered (must have been shut down exactly once)
		shutOK := false                // a provider Shutdown returned nil
		shutTried := false             // a provider Shutdown was called (whatever it returned)
		shutFailed := false            // a provider Shutdown returned an error (cut short by its context)
		var lateSpans []string         // spans started and ended after a Shutdown had returned nil: never exported, however late
		totalSpans := 0
		spansWhileP1 := 0 // spans ended while the stock processor p1 was a member and the provider live
		procOf := func(id string) SpanProcessor {
			if id == "p1" {
				return p1
			}
			return p2
		}
		where := func(i int) string { return fmt.Sprintf("after %v", ops[:i+1]) }
		for i, op := range ops {
			before := len(l.ev)
			s1, s2 := rec1.shuts, p2.shuts
			switch op {
			case "Reg1", "Reg2":
				id := "p" + op[3:]
				if regCalled[id] {
					continue // "registered once": re-registration is outside the property
				}
				regCalled[id] = true
				tp.RegisterSpanProcessor(procOf(id))
				if !shutTried {
					reg[id] = true
					members = append(members, id)
				}
			case "Unreg1", "Unreg2", "UnregNever":
				id := "p" + op[5:]
				var sp SpanProcessor = never
				if op != "UnregNever" {
					sp = procOf(id)
				}
				isMember := false
				for _, m := range members {
					if op != "UnregNever" && m == id {
						isMember = true
					}
				}
				tp.UnregisterSpanProcessor(sp)
				if shutTried {
					break
				}
				if isMember {
					var nm []string
					for _, m := range members {
						if m != id {
							nm = append(nm, m)
						}
					}
					members = nm
					unreg[id] = true
				} else {
					// a batch processor's timer-driven export of spans ended earlier may land at any
					// time, this operation included: it is not an effect of the call
					var caused []string
					for _, e := range l.ev[before:] {
						if !strings.HasPrefix(e, "E.Export") {
							caused = append(caused, e)
						}
					}
					if len(caused) != 0 {
						x.Fail("C15|unregister-of-non-member-has-effects", "UnregisterSpanProcessor of a processor that is not registered caused %v (%s)", caused, where(i))
					}
				}
			case "SpanOld", "SpanNew", "SpanReget":
				tr := old
				if op == "SpanNew" {
					tr = tp.Tracer("new")
				} else if op == "SpanReget" {
					tr = tp.Tracer("old")
				}
				spanName := fmt.Sprintf("span of op %d", i)
				_, sp := tr.Start(context.Background(), spanName)
				if shutOK && op != "SpanOld" && sp.IsRecording() {
					x.Fail("C15|tracer-handed-out-after-shutdown-is-not-a-no-op", "%s: a tracer obtained from the provider after Shutdown had returned nil starts recording spans (%s)", op, where(i))
				}
				sp.End()
				totalSpans++
				got := l.ev[before:]
				var recGot []string
				for _, e := range got {
					if !strings.HasPrefix(e, "E.") {
						recGot = append(recGot, e)
					}
				}
				if shutOK {
					// judged on this very span: a batch processor whose Shutdown was cut short earlier may
					// still be exporting older spans in the background while this one is started and ended
					if len(recGot) != 0 || exp.names[spanName] != 0 {
						x.Fail("C15|telemetry-after-shutdown", "a span started and ended after Shutdown had returned nil still reached %v (%s)", got, where(i))
					}
					lateSpans = append(lateSpans, spanName)
					break
				}
				if shutTried {
					break // after a Shutdown that returned an error the state is unspecified until one succeeds
				}
				var want []string
				for _, m := range members {
					if m == "p2" || variant == "rec" {
						want = append(want, m+".OnStart")
					}
				}
				for _, m := range members {
					if m == "p2" || variant == "rec" {
						want = append(want, m+".OnEnd")
					}
				}
				if fmt.Sprint(recGot) != fmt.Sprint(want) {
					x.Fail("C15|span-not-delivered-to-exactly-the-registered-processors", "registered (in order): %v; the span reached %v, expected %v (%s)", members, recGot, want, where(i))
				}
				for _, m := range members {
					if m == "p1" && variant != "rec" {
						spansWhileP1++
						if variant == "simple(E)" && fmt.Sprint(got) == fmt.Sprint(recGot) {
							x.Fail("C15|simple-processor-did-not-export", "simple span processor is registered but the ended span was not exported (%s)", where(i))
						}
					}
				}
			case "Flush":
				if err := tp.ForceFlush(context.Background()); err != nil && !shutTried {
					x.Fail("C15|forceflush-error", "ForceFlush returned %v (%s)", err, where(i))
				}
			case "Shutdown", "ShutdownC":
				ctx := context.Background()
				if op == "ShutdownC" {
					c, cancel := vctx.WithCancel(ctx)
					cancel()
					ctx = c
				}
				err := tp.Shutdown(ctx)
				shutTried = true
				if err != nil {
					shutFailed = true
				}
				if err == nil {
					shutOK = true
				} else if op == "Shutdown" {
					x.Fail("C15|shutdown-error", "Shutdown(background) returned %v (%s)", err, where(i))
				}
			}
			// invariants after every operation
			if rec1.shuts > 1 || p2.shuts > 1 || exp.shuts > 1 {
				x.Fail("C15|shut-down-more-than-once", "shutdown counts p1=%d p2=%d exporter=%d (%s)", rec1.shuts, p2.shuts, exp.shuts, where(i))
			}
			if never.starts+never.ends+never.shuts+never.flushes > 0 {
				x.Fail("C15|never-registered-processor-called", "a processor that was never registered was called (%s)", where(i))
			}
			for id := range unreg {
				n := p2.shuts
				if id == "p1" {
					n = rec1.shuts
					if variant == "simple(E)" || variant == "batch(E)" {
						n = exp.shuts
					} else if variant != "rec" {
						n = 1
					}
				}
				if n != 1 {
					x.Fail("C15|unregistered-processor-not-shut-down-once", "%s was unregistered; its Shutdown ran %d times (%s)", id, n, where(i))
				}
			}
			if shutOK {
				for _, id := range []string{"p1", "p2"} {
					if !reg[id] {
						continue
					}
					n := p2.shuts
					if id == "p1" {
						n = rec1.shuts
						if variant == "simple(E)" || variant == "batch(E)" {
							n = exp.shuts
						} else if variant != "rec" {
							n = 1
						}
					}
					if n != 1 {
						class := ""
						if shutFailed {
							// the processors were asked to shut down by the earlier call; the ones that shut
							// down asynchronously (batch, simple around an exporter) may still be at it
							class = "|after an earlier Shutdown was cut short by its context"
						}
						x.Fail("C15|registered-processor-not-shut-down-after-successful-Shutdown"+class, "provider Shutdown returned nil; %s (registered earlier) was shut down %d times (%s)", id, n, where(i))
					}
				}
				// spans ended while the batch processor was certainly registered must all have been
				// exported; spans ended while the state was unspecified (after a failed Shutdown) may be
				if variant == "batch(E)" && reg["p1"] && !shutFailed && (exp.exported < spansWhileP1 || exp.exported > totalSpans) {
					x.Fail("C15|batch-processor-lost-spans-at-shutdown", "provider Shutdown returned nil; batch processor exported %d span(s), %d ended while it was registered, %d ended in total (%s)", exp.exported, spansWhileP1, totalSpans, where(i))
				}
			}
			if exp.afterSD > 0 {
				x.Fail("C15|export-after-exporter-shutdown", "exporter received spans after its Shutdown (%s)", where(i))
			}
			for _, n := range lateSpans {
				if exp.names[n] != 0 {
					x.Fail("C15|telemetry-after-shutdown", "%q, started and ended after Shutdown had returned nil, was exported later (%s)", n, where(i))
				}
			}
			_, _ = s1, s2
		}
		// what the batch processor's worker still does once the caller is done: let it run until it
		// has nothing left, then look again
		if len(ops) > 0 {
			for k := 0; k < 8; k++ {
				sched.SpinYield()
			}
			when := fmt.Sprintf("after %v, once the background goroutines have come to rest", ops)
			if exp.afterSD > 0 {
				x.Fail("C15|export-after-exporter-shutdown", "exporter received spans after its Shutdown (%s)", when)
			}
			for _, n := range lateSpans {
				if exp.names[n] != 0 {
					x.Fail("C15|telemetry-after-shutdown", "%q, started and ended after Shutdown had returned nil, was exported later (%s)", n, when)
				}
			}
			if rec1.shuts > 1 || p2.shuts > 1 || exp.shuts > 1 {
				x.Fail("C15|shut-down-more-than-once", "shutdown counts p1=%d p2=%d exporter=%d (%s)", rec1.shuts, p2.shuts, exp.shuts, when)
			}
		}
		// leave no goroutines behind
		_ = tp.Shutdown(context.Background())
		if p, ok := p1.(*batchSpanProcessor); ok {
			_ = p.Shutdown(context.Background())
		}
	}
}

type c15Replay struct {
	Variant string   `json:"variant"`
	Ops     []string `json:"ops"`
	Name    string   `json:"name"`
}

func c15RunSeq(r *enum.R, variant string, ops []string) {
	r.Eval()
	x := sched.Run(nil, 4000, false, c15Seq(variant, ops))
	cas := map[string]any{"processor_in_slot_1": variant, "ops": append([]string{}, ops...)}
	rp := c15Replay{Variant: variant, Ops: append([]string{}, ops...)}
	switch {
	case strings.HasPrefix(x.Status, "deadlock"):
		y := sched.Run(nil, 4000, true, c15Seq(variant, ops))
		r.Fail("deadlock|sequence|"+variant+"|"+strings.Join(ops, ","), cas, rp, "operation sequence blocks forever: %v blocked=%v", ops, y.Blocked)
	case x.Status == "horizon":
		r.Cap("step horizon in a sequence")
	case x.Status != "":
		r.Fail("panic|"+variant+"|"+c15PanicWhere(x.Stack), cas, rp, "%s\n%s", x.Status, x.Stack)
	}
	for _, f := range x.Violations {
		r.Fail(f.Key, cas, rp, "%s", f.Msg)
	}
	if r.Replaying() && len(x.Violations) > 0 {
		y := sched.Run(nil, 4000, true, c15Seq(variant, ops))
		fmt.Println("trace of the replayed sequence:\n  " + strings.Join(y.Trace, "\n  "))
	}
	r.Outcome(fmt.Sprintf("%s %v %s %d", variant, ops, x.Status, len(x.Violations)))
}

func c15PanicWhere(stack string) string {
	for _, l := range strings.Split(stack, "\n") {
		l = strings.TrimSpace(l)
		if strings.HasPrefix(l, "go.opentelemetry.io/otel/sdk/") && !strings.Contains(l, "c15") {
			if i := strings.LastIndex(l, "("); i > 0 {
				l = l[:i]
			}
			return l[strings.LastIndex(l, "/")+1:]
		}
	}
	return "?"
}

// ---- interleavings

type c15Conc struct {
	p, e    int
	name    string
	variant string
	threads [][]string // ops: Shutdown, ShutdownC, Unreg1, Reg2, Span, End(pre-started span)
	blockQ1 bool       // batch processor in blocking mode with queue 1
}

func c15ConcBody(sc c15Conc, res *string) func(x *sched.Exec) {
	return func(x *sched.Exec) {
		l := &c15Log{}
		exp := &c15Exp{l: l}
		rec1 := &c15Proc{id: "p1", l: l}
		p2 := &c15Proc{id: "p2", l: l}
		var p1 SpanProcessor = rec1
		switch sc.variant {
		case "simple(E)":
			p1 = NewSimpleSpanProcessor(exp)
		case "batch(Eslow)":
			exp.slow = true
			p1 = NewBatchSpanProcessor(exp)
		case "batch(E)":
			if sc.blockQ1 {
				p1 = NewBatchSpanProcessor(exp, WithMaxQueueSize(1), WithMaxExportBatchSize(1), WithBlocking())
			} else {
				p1 = NewBatchSpanProcessor(exp)
			}
		}
		tp := NewTracerProvider(WithSampler(AlwaysSample()), WithSpanProcessor(p1))
		// variant rec3: two more processors that stay registered throughout; every ended span must
		// reach each of them exactly once whatever happens to p1 meanwhile
		p3 := &c15Proc{id: "p3", l: l, yield: true}
		if sc.variant == "rec3" {
			rec1.yield, p2.yield = true, true
			tp.RegisterSpanProcessor(p2)
			tp.RegisterSpanProcessor(p3)
		}
		if sc.variant == "recY" { // recording processors with a scheduling point in every call; p2, p3 registered by ops
			rec1.yield, p2.yield = true, true
		}
		tr := tp.Tracer("t")
		var pre []interface{ End() }
		for _, ops := range sc.threads {
			for _, op := range ops {
				if op == "End" {
					_, sp := tr.Start(context.Background(), "pre")
					pre = append(pre, endFn(func() { sp.End() }))
				}
			}
		}
		pi := 0
		var nilShutdowns int
		cutShort := false // a Shutdown with an ended context returned an error
		type out struct{ nilSD int }
		outs := make([]out, len(sc.threads))
		var wg vsync.WaitGroup
		wg.Add(len(sc.threads))
		for ti, ops := range sc.threads {
			var mine []interface{ End() }
			for _, op := range ops {
				if op == "End" {
					mine = append(mine, pre[pi])
					pi++
				}
			}
			sched.Go(func() {
				defer wg.Done()
				k := 0
				for _, op := range ops {
					switch op {
					case "Shutdown":
						if tp.Shutdown(context.Background()) == nil {
							outs[ti].nilSD++
						}
					case "ShutdownC":
						c, cancel := vctx.WithCancel(context.Background())
						cancel()
						if tp.Shutdown(c) != nil {
							cutShort = true
						}
					case "ShutdownD": // a deadline that may expire at any moment of the call (virtual time)
						c, cancel := vctx.WithTimeout(context.Background(), time.Second)
						if tp.Shutdown(c) != nil {
							cutShort = true
						} else {
							outs[ti].nilSD++
						}
						cancel()
					case "Unreg1":
						tp.UnregisterSpanProcessor(p1)
					case "Reg2":
						tp.RegisterSpanProcessor(p2)
					case "Reg3":
						tp.RegisterSpanProcessor(p3)
					case "Flush":
						_ = tp.ForceFlush(context.Background())
					case "Span":
						_, sp := tp.Tracer("n").Start(context.Background(), "s")
						sp.End()
					case "End":
						mine[k].End()
						k++
					}
				}
			})
		}
		wg.Wait()
		for _, o := range outs {
			nilShutdowns += o.nilSD
		}
		if sc.variant == "batch(Eslow)" {
			// what the processor's own goroutines still do after a Shutdown that ran out of time: let them finish
			for k := 0; k < 8; k++ {
				sched.SpinYield()
			}
		}
		n1 := rec1.shuts
		if sc.variant != "rec" && sc.variant != "rec3" && sc.variant != "recY" {
			n1 = exp.shuts
		}
		if cutShort && sc.variant == "batch(Eslow)" && nilShutdowns == 0 && n1 > 1 {
			x.Fail("C15|shut-down-more-than-once|exporter, by a Shutdown whose deadline expired during the drain", "exporter shut down %d times (events %v)", n1, l.ev)
		}
		if sc.variant == "recY" {
			// membership after the join: every Register / Unregister has returned, so one more span
			// reaches exactly the processors registered and not unregistered, and the provider's
			// Shutdown shuts exactly those down (an unregistered one was shut down by Unregister)
			has := func(op string) bool {
				for _, ops := range sc.threads {
					for _, o := range ops {
						if o == op {
							return true
						}
					}
				}
				return false
			}
			procs := []*c15Proc{rec1, p2, p3}
			member := []bool{!has("Unreg1"), has("Reg2"), has("Reg3")}
			before := []int{rec1.ends, p2.ends, p3.ends}
			_, sp := tp.Tracer("after").Start(context.Background(), "after the join")
			sp.End()
			for i, pr := range procs {
				want := 0
				if member[i] {
					want = 1
				}
				if pr.ends-before[i] != want {
					x.Fail("C15|span-not-delivered-to-exactly-the-registered-processors|concurrent", "after Register/Unregister calls returned (registered: p1=%v p2=%v p3=%v) a span ended: %s.OnEnd ran %d times", member[0], member[1], member[2], pr.id, pr.ends-before[i])
				}
			}
			_ = tp.Shutdown(context.Background())
			for i, pr := range procs {
				want := 0
				if member[i] || (i == 0 && has("Unreg1")) {
					want = 1
				}
				if pr.shuts != want {
					x.Fail("C15|registered-processor-not-shut-down-exactly-once|concurrent", "registered: p1=%v p2=%v p3=%v, then provider Shutdown: %s was shut down %d times", member[0], member[1], member[2], pr.id, pr.shuts)
				}
			}
		}
		if sc.variant == "rec3" {
			ended := 0
			for _, ops := range sc.threads {
				for _, op := range ops {
					if op == "End" || op == "Span" {
						ended++
					}
				}
			}
			if p2.ends != ended || p3.ends != ended || rec1.ends > ended {
				x.Fail("C15|registered-processor-missed-or-repeated-a-span|concurrent", "%d spans ended while p2 and p3 stayed registered and p1 was being unregistered: OnEnd calls p1=%d p2=%d p3=%d", ended, rec1.ends, p2.ends, p3.ends)
			}
		}
		if n1 > 1 || p2.shuts > 1 {
			x.Fail("C15|shut-down-more-than-once|concurrent", "shutdown counts p1=%d p2=%d", n1, p2.shuts)
		}
		if nilShutdowns > 0 && n1 != 1 {
			class := "|concurrent"
			if cutShort {
				// same situation, same key as in the sequences: the processors were asked to shut down
				// by the call that ran out of time and may still be at it
				class = "|after an earlier Shutdown was cut short by its context"
			}
			x.Fail("C15|registered-processor-not-shut-down-after-successful-Shutdown"+class, "a provider Shutdown returned nil; p1 was shut down %d times", n1)
		}
		if exp.afterSD > 0 {
			x.Fail("C15|export-after-exporter-shutdown|concurrent", "exporter received %d span(s) after its Shutdown", exp.afterSD)
		}
		*res = fmt.Sprintf("p1=%d p2=%d exported=%d nilSD=%d", n1, p2.shuts, exp.exported, nilShutdowns)
		_ = tp.Shutdown(context.Background())
		if p, ok := p1.(*batchSpanProcessor); ok {
			_ = p.Shutdown(context.Background())
		}
	}
}

type endFn func()

func (f endFn) End() { f() }

func c15ConcJobs(thorough bool) []c15Conc {
	js := []c15Conc{
		{2, 0, "X1-shutdown-shutdown-unreg", "rec", [][]string{{"Shutdown"}, {"Shutdown"}, {"Unreg1"}}, false},
		{2, 0, "X2-shutdown-span", "simple(E)", [][]string{{"Shutdown"}, {"Span"}, {"End"}}, false},
		{2, 0, "X3-register-end", "rec", [][]string{{"Reg2"}, {"End"}, {"Shutdown"}}, false},
		{2, 0, "X4-blocking-batch-end-end-shutdown", "batch(E)", [][]string{{"End"}, {"End"}, {"Shutdown"}}, true},
		{1, 1, "X5-batch-shutdown-unreg", "batch(E)", [][]string{{"Shutdown"}, {"Unreg1"}, {"End"}}, false},
		{2, 0, "X8-unreg-first-of-three-during-end", "rec3", [][]string{{"Unreg1"}, {"End"}, {"Span"}}, false},
		{1, 1, "X11-batch-flush-shutdown", "batch(E)", [][]string{{"End", "Flush"}, {"Shutdown"}}, false},    // no call blocks forever
		{1, 1, "X13-slow-export-shutdown-deadline", "batch(Eslow)", [][]string{{"End", "ShutdownD"}}, false}, // the deadline ends inside the drain's export
		{2, 0, "X9-register-during-unregister", "recY", [][]string{{"Unreg1"}, {"Reg2"}}, false},
		{2, 0, "X10-two-registers-during-unregister", "recY", [][]string{{"Unreg1"}, {"Reg2"}, {"Reg3"}}, false},
	}
	if thorough {
		js = append(js,
			c15Conc{2, 1, "X4-blocking-batch-end-end-shutdown", "batch(E)", [][]string{{"End"}, {"End"}, {"Shutdown"}}, true},
			c15Conc{2, 1, "X5-batch-shutdown-unreg", "batch(E)", [][]string{{"Shutdown"}, {"Unreg1"}, {"End"}}, false},
			c15Conc{1, 1, "X6-shutdownC-shutdown-end", "batch(E)", [][]string{{"ShutdownC"}, {"Shutdown"}, {"End"}}, false},
			c15Conc{2, 0, "X6-shutdownC-shutdown-end", "batch(E)", [][]string{{"ShutdownC"}, {"Shutdown"}, {"End"}}, false}, // (2,1) does not finish within the budget
			c15Conc{2, 0, "X7-blocking-batch-3ends-shutdown", "batch(E)", [][]string{{"End", "End"}, {"End"}, {"Shutdown"}}, true},
			c15Conc{2, 1, "X11-batch-flush-shutdown-end", "batch(E)", [][]string{{"Flush"}, {"Shutdown"}, {"End"}}, false},
			c15Conc{1, 1, "X12-batch-flush-unreg", "batch(E)", [][]string{{"Flush"}, {"Unreg1"}}, false},
			c15Conc{3, 0, "X1-shutdown-shutdown-unreg", "rec", [][]string{{"Shutdown"}, {"Shutdown"}, {"Unreg1"}}, false},
		)
	}
	return js
}

func TestVerifC15Trace(t *testing.T) {
	probe := enum.Start("C15", "probe")
	thorough := probe.Thorough()
	depth := 4
	if thorough {
		depth = 5
	}
	var jobs []string
	for _, v := range c15Variants {
		for _, first := range c15Ops {
			jobs = append(jobs, "seq/"+v+"/first="+first)
		}
	}
	concs := c15ConcJobs(thorough)
	for _, c := range concs {
		jobs = append(jobs, fmt.Sprintf("conc/%s/P%dE%d", c.name, c.p, c.e))
	}
	enum.Jobs(jobs, func(job string) {
		r := enum.Start("C15", "trace")
		defer r.Finish()
		r.Bound("sequence_depth", depth)
		r.Bound("ops", c15Ops)
		r.Bound("slot1_processors", c15Variants)
		if strings.HasPrefix(job, "conc/") {
			for _, c := range concs {
				if fmt.Sprintf("conc/%s/P%dE%d", c.name, c.p, c.e) != job {
					continue
				}
				r.Bound("conc_max_preemptions", c.p)
				r.Bound("conc_max_env_deviations", c.e)
				var res string
				st := sched.Explore(r, sched.Config{Name: job, MaxP: c.p, MaxE: c.e, MaxSteps: 4000, Body: c15ConcBody(c, &res), Outcome: func(*sched.Exec) string { return res }})
				t.Logf("%s: execs=%d deadlocks=%d outcomes=%d keys=%v", job, st.Execs, st.Deadlocks, len(st.Outcomes), r.Keys())
			}
			return
		}
		parts := strings.Split(job, "/")
		variant, first := parts[1], strings.TrimPrefix(parts[2], "first=")
		if r.Replaying() {
			var rp c15Replay
			if d := r.ReplayData(); d != nil && json.Unmarshal(d, &rp) == nil && len(rp.Ops) > 0 {
				if rp.Variant == variant && rp.Ops[0] == first {
					c15RunSeq(r, rp.Variant, rp.Ops)
				}
				return
			}
		}
		// all sequences starting with `first`, shortest first
		for L := 1; L <= depth; L++ {
			ops := make([]string, L)
			ops[0] = first
			var rec func(i int)
			rec = func(i int) {
				if r.Expired() {
					return
				}
				if i == L {
					c15RunSeq(r, variant, ops)
					r.Sample(func() any { return map[string]any{"slot1": variant, "ops": append([]string{}, ops...)} })
					return
				}
				for _, op := range c15Ops {
					ops[i] = op
					rec(i + 1)
				}
			}
			rec(1)
		}
	})
}
