package log

// C15 (logs part) — LoggerProvider lifecycle. Every operation sequence up to a depth over
// Logger()+Emit / Emit on a logger obtained earlier / ForceFlush / Shutdown (background and
// cancelled context), with a recording processor, a simple or a batch processor around a
// recording exporter or nil, executed on the real LoggerProvider under the controlled scheduler.

import (
	"context"
	"encoding/json"
	"fmt"
	"strings"
	"testing"

	"verif/mc/enum"
	"verif/mc/sched"
	"verif/mc/vctx"
	"verif/mc/vsync"

	"go.opentelemetry.io/otel/log"
)

type c15lExp struct {
	exported, shuts, flushes, afterSD int
	bodies                            map[string]int // body of every exported record (bodies are unique per Emit)
	honourCtx                         bool           // Shutdown / ForceFlush report an ended context (after doing their work)
	provDown                          *bool          // (concurrent drivers) a provider Shutdown has returned nil
	afterProvDown                     int            // Export calls that started after that
	slow                              bool           // Export has a scheduling point: the export takes time
	inflight                          int            // Export calls that have not returned
	shutDuringExport                  int            // Shutdown calls that arrived while an Export was running
}

func (e *c15lExp) Export(_ context.Context, rs []Record) error {
	if e.provDown != nil && *e.provDown {
		e.afterProvDown++
	}
	e.exported += len(rs)
	if e.bodies == nil {
		e.bodies = map[string]int{}
	}
	for i := range rs {
		e.bodies[rs[i].Body().AsString()]++
	}
	if e.shuts > 0 {
		e.afterSD += len(rs)
	}
	if e.slow {
		e.inflight++
		sched.Yield("export-in-flight", e)
		e.inflight--
	}
	return nil
}
func (e *c15lExp) Shutdown(ctx context.Context) error {
	e.shuts++
	if e.inflight > 0 {
		e.shutDuringExport++
	}
	if e.honourCtx {
		return ctx.Err()
	}
	return nil
}
func (e *c15lExp) ForceFlush(ctx context.Context) error {
	e.flushes++
	if e.honourCtx {
		return ctx.Err()
	}
	return nil
}

type c15lProc struct {
	emits, shuts, flushes, afterSD int
}

func (p *c15lProc) OnEmit(context.Context, *Record) error {
	p.emits++
	if p.shuts > 0 {
		p.afterSD++
	}
	return nil
}
func (p *c15lProc) Shutdown(context.Context) error   { p.shuts++; return nil }
func (p *c15lProc) ForceFlush(context.Context) error { p.flushes++; return nil }

// EmitOld: logger obtained before everything else; EmitNew: lp.Logger("new") now; EmitReget:
// lp.Logger("old") asked for again now (a scope the provider has handed out before)
var c15lOps = []string{"EmitNew", "EmitOld", "EmitReget", "Flush", "Shutdown", "ShutdownC"}
var c15lVariants = []string{"rec", "simple(E)", "simple(nil)", "batch(E)", "batch(nil)", "simple(Ectx)"} // Ectx: an exporter that reports an ended context

func c15lSeq(variant string, ops []string) func(x *sched.Exec) {
	return func(x *sched.Exec) {
		exp := &c15lExp{}
		rec := &c15lProc{}
		var proc Processor = rec
		switch variant {
		case "simple(E)":
			proc = NewSimpleProcessor(exp)
		case "simple(Ectx)":
			exp.honourCtx = true
			proc = NewSimpleProcessor(exp)
		case "simple(nil)":
			proc = NewSimpleProcessor(nil)
		case "batch(E)":
			proc = NewBatchProcessor(exp)
		case "batch(nil)":
			proc = NewBatchProcessor(nil)
		}
		lp := NewLoggerProvider(WithProcessor(proc))
		old := lp.Logger("old")
		shutOK, shutTried, shutFailed := false, false, false
		var lateBodies []string // records emitted after a Shutdown had returned nil: never exported, however late
		emittedLive := 0
		where := func(i int) string { return fmt.Sprintf("after %v", ops[:i+1]) }
		shuts := func() int {
			switch variant {
			case "rec":
				return rec.shuts
			case "simple(E)", "batch(E)", "simple(Ectx)":
				return exp.shuts
			}
			return -1 // not observable
		}
		// effects that may land at any time after the call that caused them
		async := func(when string) {
			for _, b := range lateBodies {
				if exp.bodies[b] != 0 {
					x.Fail("C15|telemetry-after-shutdown|logs", "the record %q, emitted after LoggerProvider.Shutdown had returned nil, was exported later (%s)", b, when)
				}
			}
			if exp.afterSD > 0 {
				class := ""
				if shutFailed {
					// the provider's Shutdown ran out of time: the batch processor shut the exporter down while
					// an export was still queued in its buffer
					class = "|after a Shutdown that was cut short by its context"
					if !strings.HasPrefix(variant, "batch") {
						class = "|" + variant + class
					}
				}
				x.Fail("C15|export-after-exporter-shutdown|logs"+class, "exporter received records after its Shutdown (%s)", when)
			}
			if rec.afterSD > 0 {
				x.Fail("C15|processor-called-after-its-shutdown|logs", "processor OnEmit called after its Shutdown (%s)", when)
			}
		}
		for i, op := range ops {
			e0, x0 := rec.emits, exp.exported
			switch op {
			case "EmitNew", "EmitOld", "EmitReget":
				l := old
				if op == "EmitNew" {
					l = lp.Logger("new")
				} else if op == "EmitReget" {
					l = lp.Logger("old")
				}
				if shutOK && op != "EmitOld" && l.Enabled(context.Background(), log.EnabledParameters{}) {
					x.Fail("C15|logger-handed-out-after-shutdown-is-not-a-no-op|logs", "%s: a logger obtained from the provider after Shutdown had returned nil reports Enabled (%s)", op, where(i))
				}
				var r log.Record
				body := fmt.Sprintf("record emitted by op %d", i)
				r.SetBody(log.StringValue(body))
				l.Emit(context.Background(), r)
				if shutOK {
					// judged on this very record: a batch processor whose Shutdown was cut short earlier
					// may still be exporting older records in the background while this Emit runs
					if rec.emits != e0 || exp.bodies[body] != 0 {
						x.Fail("C15|telemetry-after-shutdown|logs", "a record emitted (%s) after LoggerProvider.Shutdown had returned nil still reached the processor / exporter (%s)", op, where(i))
					}
					lateBodies = append(lateBodies, body)
				} else if !shutTried {
					emittedLive++
					if variant == "rec" && rec.emits != e0+1 {
						x.Fail("C15|record-not-delivered-to-the-registered-processor", "processor OnEmit called %d times for one Emit (%s)", rec.emits-e0, where(i))
					}
					if (variant == "simple(E)" || variant == "simple(Ectx)") && exp.exported != x0+1 {
						x.Fail("C15|simple-processor-did-not-export|logs", "simple processor exported %d records for one Emit (%s)", exp.exported-x0, where(i))
					}
				}
			case "Flush":
				if err := lp.ForceFlush(context.Background()); err != nil && !shutTried {
					x.Fail("C15|forceflush-error|logs", "ForceFlush returned %v (%s)", err, where(i))
				}
				if variant == "batch(E)" && !shutTried && exp.exported != emittedLive {
					x.Fail("C15|batch-processor-lost-records-at-flush", "ForceFlush returned; batch processor exported %d of %d records (%s)", exp.exported, emittedLive, where(i))
				}
			case "Shutdown", "ShutdownC":
				ctx := context.Background()
				if op == "ShutdownC" {
					c, cancel := vctx.WithCancel(ctx)
					cancel()
					ctx = c
				}
				err := lp.Shutdown(ctx)
				shutTried = true
				if err != nil {
					shutFailed = true
				}
				if err == nil {
					shutOK = true
				} else if op == "Shutdown" {
					x.Fail("C15|shutdown-error|logs", "Shutdown(background) returned %v (%s)", err, where(i))
				}
			}
			if n := shuts(); n > 1 {
				x.Fail("C15|shut-down-more-than-once|logs", "processor/exporter shut down %d times (%s)", n, where(i))
			}
			if shutOK {
				if n := shuts(); n == 0 {
					x.Fail("C15|registered-processor-not-shut-down-after-successful-Shutdown|logs", "LoggerProvider.Shutdown returned nil; the processor/exporter was shut down %d times (%s)", n, where(i))
				}
				// (delivery at shutdown is C06's subject; judged here only when no Shutdown was cut short)
				if variant == "batch(E)" && !shutFailed && exp.exported < emittedLive {
					x.Fail("C15|batch-processor-lost-records-at-shutdown", "Shutdown returned nil; batch processor exported %d of %d records emitted before (%s)", exp.exported, emittedLive, where(i))
				}
			}
			async(where(i))
		}
		// what the background goroutines (batch poll loop, export goroutine) still do once the caller
		// is done: let them run until they have nothing left, then look again
		if len(ops) > 0 {
			for k := 0; k < 8; k++ {
				sched.SpinYield()
			}
			async(fmt.Sprintf("after %v, once the background goroutines have come to rest", ops))
		}
		_ = lp.Shutdown(context.Background())
	}
}

type c15lReplay struct {
	Variant string   `json:"variant"`
	Ops     []string `json:"ops"`
}

func c15lRun(r *enum.R, variant string, ops []string) {
	r.Eval()
	x := sched.Run(nil, 6000, false, c15lSeq(variant, ops))
	cas := map[string]any{"processor": variant, "ops": append([]string{}, ops...)}
	rp := c15lReplay{variant, append([]string{}, ops...)}
	switch {
	case strings.HasPrefix(x.Status, "deadlock"):
		y := sched.Run(nil, 6000, true, c15lSeq(variant, ops))
		r.Fail("deadlock|sequence|logs|"+variant+"|"+strings.Join(ops, ","), cas, rp, "operation sequence blocks forever: %v blocked=%v", ops, y.Blocked)
	case x.Status == "horizon":
		r.Cap("step horizon in a sequence")
	case x.Status != "":
		r.Fail("panic|logs|"+variant, cas, rp, "%s\n%s", x.Status, x.Stack)
	}
	for _, f := range x.Violations {
		r.Fail(f.Key, cas, rp, "%s", f.Msg)
	}
	if r.Replaying() && len(x.Violations) > 0 {
		y := sched.Run(nil, 6000, true, c15lSeq(variant, ops))
		fmt.Println("trace of the replayed sequence:\n  " + strings.Join(y.Trace, "\n  "))
	}
	r.Outcome(fmt.Sprintf("%s %v %s %d", variant, ops, x.Status, len(x.Violations)))
}

func c15lConc(variant string, threads [][]string, res *string) func(x *sched.Exec) {
	return func(x *sched.Exec) {
		exp := &c15lExp{}
		rec := &c15lProc{}
		var proc Processor = rec
		switch variant {
		case "simple(E)":
			proc = NewSimpleProcessor(exp)
		case "batch(E)":
			proc = NewBatchProcessor(exp, WithMaxQueueSize(2), WithExportMaxBatchSize(1))
		case "batch(Eslow)":
			exp.slow = true
			proc = NewBatchProcessor(exp, WithMaxQueueSize(2), WithExportMaxBatchSize(1))
		}
		provDown := false
		exp.provDown = &provDown
		lp := NewLoggerProvider(WithProcessor(proc))
		old := lp.Logger("old")
		nilSD := make([]int, len(threads))
		var wg vsync.WaitGroup
		wg.Add(len(threads))
		for ti, ops := range threads {
			sched.Go(func() {
				defer wg.Done()
				for _, op := range ops {
					switch op {
					case "Shutdown":
						if lp.Shutdown(context.Background()) == nil {
							nilSD[ti]++
							provDown = true
							if exp.inflight > 0 {
								x.Fail("C15|export-still-running-when-Shutdown-returned|logs|concurrent", "LoggerProvider.Shutdown returned nil while %d Export call(s) had not returned", exp.inflight)
							}
						}
					case "Flush":
						_ = lp.ForceFlush(context.Background())
					case "Emit":
						var r log.Record
						old.Emit(context.Background(), r)
					case "EmitNew":
						var r log.Record
						lp.Logger("n").Emit(context.Background(), r)
					}
				}
			})
		}
		wg.Wait()
		n := rec.shuts
		if variant != "rec" {
			n = exp.shuts
		}
		if n > 1 {
			x.Fail("C15|shut-down-more-than-once|logs|concurrent", "processor/exporter shut down %d times", n)
		}
		anyNil := 0
		for _, k := range nilSD {
			anyNil += k
		}
		if anyNil > 0 && n != 1 {
			x.Fail("C15|not-shut-down-after-successful-Shutdown|logs|concurrent", "a LoggerProvider.Shutdown returned nil, the %s was shut down %d times", map[bool]string{true: "processor", false: "exporter"}[variant == "rec"], n)
		}
		if exp.shutDuringExport > 0 {
			x.Fail("C15|exporter-shut-down-during-an-export|logs|concurrent", "the exporter's Shutdown was called while an Export call was running (%d times)", exp.shutDuringExport)
		}
		if exp.afterProvDown > 0 {
			x.Fail("C15|export-after-Shutdown-returned|logs|concurrent", "%d Export call(s) started after a LoggerProvider.Shutdown had returned nil", exp.afterProvDown)
		}
		*res = fmt.Sprintf("shuts=%d exported=%d emits=%d", n, exp.exported, rec.emits)
		_ = lp.Shutdown(context.Background())
	}
}

func TestVerifC15Log(t *testing.T) {
	ctxErr = func(ctx context.Context) error { sched.SpinYield(); return ctx.Err() }
	probe := enum.Start("C15", "probe")
	depth := 5
	if probe.Thorough() {
		depth = 7
	}
	var jobs []string
	for _, v := range c15lVariants {
		jobs = append(jobs, "seq/"+v)
	}
	type conc struct {
		name, variant string
		threads       [][]string
		p, e          int
	}
	concs := []conc{
		{"Y1-shutdown-shutdown-emit", "rec", [][]string{{"Shutdown"}, {"Shutdown"}, {"Emit"}}, 2, 0},
		{"Y2-shutdown-flush-emit", "batch(E)", [][]string{{"Shutdown"}, {"Flush"}, {"Emit"}}, 1, 0},
		{"Y3-shutdown-emitnew", "simple(E)", [][]string{{"Shutdown"}, {"EmitNew"}, {"Emit"}}, 2, 0},
		{"Y4-slow-export-emit-shutdown", "batch(Eslow)", [][]string{{"Emit", "Shutdown"}}, 2, 0}, // the export goroutine holds a batch while Shutdown runs
	}
	for _, c := range concs {
		jobs = append(jobs, "conc/"+c.name)
	}
	enum.Jobs(jobs, func(job string) {
		r := enum.Start("C15", "log")
		defer r.Finish()
		r.Bound("log_sequence_depth", depth)
		r.Bound("log_ops", c15lOps)
		r.Bound("log_processors", c15lVariants)
		if strings.HasPrefix(job, "conc/") {
			for _, c := range concs {
				if "conc/"+c.name != job {
					continue
				}
				var res string
				st := sched.Explore(r, sched.Config{Name: job, MaxP: c.p, MaxE: c.e, MaxSteps: 6000, Body: c15lConc(c.variant, c.threads, &res), Outcome: func(*sched.Exec) string { return res }})
				t.Logf("%s: execs=%d deadlocks=%d outcomes=%d keys=%v", job, st.Execs, st.Deadlocks, len(st.Outcomes), r.Keys())
			}
			return
		}
		variant := strings.TrimPrefix(job, "seq/")
		if r.Replaying() {
			var rp c15lReplay
			if d := r.ReplayData(); d != nil && json.Unmarshal(d, &rp) == nil && len(rp.Ops) > 0 {
				if rp.Variant == variant {
					c15lRun(r, rp.Variant, rp.Ops)
				}
				return
			}
		}
		for L := 1; L <= depth; L++ {
			ops := make([]string, L)
			var rec func(i int)
			rec = func(i int) {
				if r.Expired() {
					return
				}
				if i == L {
					c15lRun(r, variant, ops)
					r.Sample(func() any { return map[string]any{"processor": variant, "ops": append([]string{}, ops...)} })
					return
				}
				for _, op := range c15lOps {
					ops[i] = op
					rec(i + 1)
				}
			}
			rec(0)
		}
	})
}
