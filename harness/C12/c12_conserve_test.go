package metric_test

// C12 — cardinality limits and attribute filters conserve every measurement.
//
// Bounded-exhaustive enumeration of arrival sequences (measurements over a small attribute
// universe interleaved with collections) for every instrument kind x temporality x limit x
// view configuration, each executed on the real SDK (fresh MeterProvider + ManualReader per
// sequence, limit through OTEL_GO_X_CARDINALITY_LIMIT) and compared, collection by collection,
// with the reference model of c12_model_test.go.

import (
	"context"
	"fmt"
	"os"
	"sort"
	"strings"
	"testing"

	"go.opentelemetry.io/otel/attribute"
	"go.opentelemetry.io/otel/metric"
	"go.opentelemetry.io/otel/sdk/instrumentation"
	sdk "go.opentelemetry.io/otel/sdk/metric"
	"go.opentelemetry.io/otel/sdk/metric/exemplar"
	"go.opentelemetry.io/otel/sdk/metric/metricdata"
	"go.opentelemetry.io/otel/sdk/resource"
	"verif/mc/enum"
)

const (
	instName = "m1"
	limitEnv = "OTEL_GO_X_CARDINALITY_LIMIT"
)

// ---------------------------------------------------------------------------
// instrument kinds

type kindT int

const (
	kCounter kindT = iota
	kUpDown
	kHistogram
	kExpoHistogram // histogram instrument whose reader default aggregation is base-2 exponential
	kGauge
	kObsCounter
	kObsUpDown
	kObsGauge
)

type kindInfo struct {
	name   string
	async  bool
	signed bool // negative measurements are legal (alternating signs are used)
	defSem semT
	sdk    sdk.InstrumentKind
}

var kinds = []kindInfo{
	{"counter", false, false, semSum, sdk.InstrumentKindCounter},
	{"updowncounter", false, true, semSum, sdk.InstrumentKindUpDownCounter},
	{"histogram", false, false, semHist, sdk.InstrumentKindHistogram},
	{"expohistogram", false, false, semExpo, sdk.InstrumentKindHistogram},
	{"gauge", false, true, semLast, sdk.InstrumentKindGauge},
	{"observablecounter", true, false, semPreSum, sdk.InstrumentKindObservableCounter},
	{"observableupdowncounter", true, true, semPreSum, sdk.InstrumentKindObservableUpDownCounter},
	{"observablegauge", true, true, semPreLast, sdk.InstrumentKindObservableGauge},
}

var expoAgg = sdk.AggregationBase2ExponentialHistogram{MaxSize: 160, MaxScale: 20}
var explicitAgg = sdk.AggregationExplicitBucketHistogram{Boundaries: []float64{0, 5, 10}}

// value of the i-th measurement of a sequence: distinct powers of two, so that every subset of
// the measurements has its own sum (a lost, duplicated or misfiled measurement always shows);
// alternating signs for the kinds that may go down.
func valueOf(i int, signed bool) int64 {
	v := int64(1) << uint(i)
	if signed && i%2 == 1 {
		return -v
	}
	return v
}

// ---------------------------------------------------------------------------
// views

type viewT struct {
	tag       string
	class     string
	crit      int // how the criteria select the instrument: 0 exact name, 1 "*", 2 "m?", 3 by kind
	rename    string
	desc      string
	hasFilter bool
	filter    []string
	agg       int // 0 unchanged, 1 drop, 2 re-aggregate (sum kinds -> explicit histogram, histogram kinds -> sum), 3 re-aggregate (-> exponential histogram; the exponential kind -> explicit histogram)
}

func viewAlphabet() []*viewT {
	return []*viewT{
		{tag: "plain", class: "plain"},
		{tag: "filter{}", class: "filter", crit: 1, hasFilter: true, filter: nil},
		{tag: "filter{k1}", class: "filter", hasFilter: true, filter: []string{"k1"}},
		{tag: "filter{k2}", class: "filter", crit: 2, hasFilter: true, filter: []string{"k2"}},
		{tag: "filter{k1,k2}", class: "filter", crit: 3, hasFilter: true, filter: []string{"k1", "k2"}},
		{tag: "filter{k1=a}", class: "filter-by-value", hasFilter: true, filter: []string{"k1=a"}},
		{tag: "filter{k1,k2=x}", class: "filter-by-value", crit: 1, hasFilter: true, filter: []string{"k1", "k2=x"}},
		{tag: "drop", class: "drop", agg: 1},
		{tag: "rename(y)", class: "rename", rename: "y"},
		{tag: "rename(M1)", class: "rename", rename: "M1"}, // differs from the instrument name only in letter case: same stream identity
		{tag: "rename(y)+filter{k1}", class: "rename+filter", crit: 3, rename: "y", hasFilter: true, filter: []string{"k1"}},
		{tag: "reaggregate", class: "reaggregate", crit: 1, agg: 2},
		{tag: "reaggregate+rename(z)", class: "reaggregate+rename", rename: "z", agg: 2},
		{tag: "describe(d)", class: "describe", crit: 2, desc: "d"},
		{tag: "reaggregate-expo+filter{k2}", class: "reaggregate+filter", agg: 3, hasFilter: true, filter: []string{"k2"}},
	}
}

func (v *viewT) identity() (name, desc string) {
	name = instName
	if v.rename != "" {
		name = v.rename
	}
	return name, v.desc
}

// def is the stream the view asks for (nil: drop).
func (v *viewT) def(k kindT) *streamDef {
	if v.agg == 1 {
		return nil
	}
	d := &streamDef{sem: kinds[k].defSem, hasFilter: v.hasFilter, filter: v.filter}
	d.name, d.desc = v.identity()
	switch v.agg {
	case 2:
		if k == kHistogram || k == kExpoHistogram {
			d.sem = semSum
		} else {
			d.sem, d.noSum = semHist, kinds[k].signed
		}
	case 3:
		if k == kExpoHistogram {
			d.sem = semHist
		} else {
			d.sem, d.noSum = semExpo, kinds[k].signed
		}
	}
	return d
}

func (v *viewT) build(k kindT) sdk.View {
	var crit sdk.Instrument
	switch v.crit {
	case 0:
		crit = sdk.Instrument{Name: instName}
	case 1:
		crit = sdk.Instrument{Name: "*"}
	case 2:
		crit = sdk.Instrument{Name: "m?"}
	case 3:
		crit = sdk.Instrument{Kind: kinds[k].sdk}
	}
	return sdk.NewView(crit, v.mask(k))
}

// mask is the stream mask of the view (what it changes), for an instrument of kind k.
func (v *viewT) mask(k kindT) sdk.Stream {
	mask := sdk.Stream{Name: v.rename, Description: v.desc}
	if v.hasFilter {
		byValue := false
		keys := make([]attribute.Key, len(v.filter))
		for i, f := range v.filter {
			keys[i] = attribute.Key(f)
			byValue = byValue || strings.Contains(f, "=")
		}
		mask.AttributeFilter = attribute.NewAllowKeysFilter(keys...)
		if byValue {
			allowed := append([]string{}, v.filter...)
			mask.AttributeFilter = func(kv attribute.KeyValue) bool {
				for _, f := range allowed {
					if string(kv.Key) == f || string(kv.Key)+"="+kv.Value.Emit() == f {
						return true
					}
				}
				return false
			}
		}
	}
	switch v.agg {
	case 1:
		mask.Aggregation = sdk.AggregationDrop{}
	case 2:
		if k == kHistogram || k == kExpoHistogram {
			mask.Aggregation = sdk.AggregationSum{}
		} else {
			mask.Aggregation = explicitAgg
		}
	case 3:
		if k == kExpoHistogram {
			mask.Aggregation = explicitAgg
		} else {
			mask.Aggregation = expoAgg
		}
	}
	return mask
}

// ---------------------------------------------------------------------------
// configuration of one run

type limitT struct {
	env string // "" = variable unset
	n   int    // effective limit, 0 = unlimited
}

func (l limitT) String() string {
	if l.env == "" {
		return "unset"
	}
	return l.env
}

type groupDef struct {
	name, desc string
	defs       []*streamDef // one: exactly this stream; two: conflicting definitions of one stream identity
}

type runCfg struct {
	kind    kindT
	delta   bool
	limit   limitT
	float   bool
	obsPath int // observable instruments: 0 callback given at creation, 1 Meter.RegisterCallback
	views   []*viewT
	decoy   bool // additionally register a view that matches no instrument (and would drop it)
	rdrop   bool // the reader's aggregation selector answers Drop for every kind: only views with their own aggregation report
	groups  []groupDef
	class   string
}

func (c *runCfg) temp() string {
	if c.delta {
		return "delta"
	}
	return "cumulative"
}

func (c *runCfg) resolve() {
	k := c.kind
	c.groups = nil
	switch len(c.views) {
	case 0:
		c.class = "no-view"
		if c.rdrop {
			c.class = "no-view/reader-default-drop"
			return
		}
		c.groups = []groupDef{{instName, "", []*streamDef{{name: instName, sem: kinds[k].defSem}}}}
		return
	case 1:
		c.class = "view:" + c.views[0].class
	case 2:
		a, b := c.views[0], c.views[1]
		an, ad := a.identity()
		bn, bd := b.identity()
		da, db := c.def(a), c.def(b)
		switch {
		case da == nil && db == nil:
			c.class = "pair:both-drop"
		case !strings.EqualFold(an, bn) || ad != bd: // instrument / stream names are case-insensitive
			c.class = "pair:distinct-identities"
		case da == nil:
			c.class = "pair:same-identity/drop-listed-first"
		case db == nil:
			c.class = "pair:same-identity/drop-listed-second"
		case da.sameConfig(db):
			c.class = "pair:same-identity/same-definition"
		default:
			c.class = "pair:same-identity/conflicting-definitions"
		}
	}
	if c.rdrop {
		c.class += "/reader-default-drop"
	}
	for _, v := range c.views {
		d := c.def(v)
		if d == nil {
			continue
		}
		placed := false
		for gi := range c.groups {
			g := &c.groups[gi]
			if strings.EqualFold(g.name, d.name) && g.desc == d.desc { // first-seen spelling is kept
				placed = true
				dup := false
				for _, e := range g.defs {
					if e.sameConfig(d) {
						dup = true // the same stream asked for twice: reported once
					}
				}
				if !dup {
					g.defs = append(g.defs, d)
				}
			}
		}
		if !placed {
			c.groups = append(c.groups, groupDef{d.name, d.desc, []*streamDef{d}})
		}
	}
}

// def: the stream view v asks for under this configuration (nil: nothing is reported for it).
func (c *runCfg) def(v *viewT) *streamDef {
	if c.rdrop && v.agg == 0 {
		return nil // the view inherits the reader's default aggregation, which is Drop
	}
	return v.def(c.kind)
}

func (c *runCfg) viewTags() []string {
	t := []string{}
	for _, v := range c.views {
		t = append(t, v.tag)
	}
	return t
}

func (c *runCfg) tag() string {
	num := "int64"
	if c.float {
		num = "float64"
	}
	s := fmt.Sprintf("%s/%s/L=%s/%s", kinds[c.kind].name, c.temp(), c.limit, num)
	if kinds[c.kind].async && c.obsPath == 1 {
		s += "/RegisterCallback"
	}
	if c.rdrop {
		s += "/reader-default-drop"
	}
	if len(c.views) > 0 {
		s += "/" + strings.Join(c.viewTags(), "+")
	}
	return s
}

// ---------------------------------------------------------------------------
// the real SDK

type obsT struct {
	sym int
	v   int64
}

type realRun struct {
	reader  *sdk.ManualReader
	measure func(sym int, v int64)
	pending []obsT
	rm      metricdata.ResourceMetrics
}

type harness struct {
	r    *enum.R
	u    []*symbolT
	sets []attribute.Set
	opts []metric.MeasurementOption
	res  *resource.Resource
	ctx  context.Context
}

func newHarness(r *enum.R, u []*symbolT) *harness {
	h := &harness{r: r, u: u, res: resource.Empty(), ctx: context.Background()}
	for _, s := range u {
		var kvs []attribute.KeyValue
		for _, kv := range s.kvs {
			switch kv.typ {
			case "BOOL":
				kvs = append(kvs, attribute.Bool(kv.k, kv.v == "true"))
			default:
				kvs = append(kvs, attribute.String(kv.k, kv.v))
			}
		}
		set := attribute.NewSet(kvs...)
		h.sets = append(h.sets, set)
		h.opts = append(h.opts, metric.WithAttributeSet(set))
	}
	return h
}

func (h *harness) newReal(c *runCfg) (rr *realRun, err error) {
	defer func() {
		if p := recover(); p != nil {
			err = fmt.Errorf("panic: %v", p)
		}
	}()
	if c.limit.env == "" {
		os.Unsetenv(limitEnv)
	} else {
		os.Setenv(limitEnv, c.limit.env)
	}
	temp := metricdata.CumulativeTemporality
	if c.delta {
		temp = metricdata.DeltaTemporality
	}
	ropts := []sdk.ManualReaderOption{sdk.WithTemporalitySelector(func(sdk.InstrumentKind) metricdata.Temporality { return temp })}
	if c.rdrop {
		ropts = append(ropts, sdk.WithAggregationSelector(func(sdk.InstrumentKind) sdk.Aggregation { return sdk.AggregationDrop{} }))
	} else if c.kind == kExpoHistogram {
		ropts = append(ropts, sdk.WithAggregationSelector(func(k sdk.InstrumentKind) sdk.Aggregation {
			if k == sdk.InstrumentKindHistogram {
				return expoAgg
			}
			return sdk.DefaultAggregationSelector(k)
		}))
	}
	rr = &realRun{reader: sdk.NewManualReader(ropts...)}
	popts := []sdk.Option{sdk.WithReader(rr.reader), sdk.WithResource(h.res), sdk.WithExemplarFilter(exemplar.AlwaysOffFilter)}
	var views []sdk.View
	if c.decoy {
		// views that must not select the instrument: another name, and wildcard names whose other
		// criteria (scope, unit, kind, description) do not fit; each would drop or scrub it
		otherKind := sdk.InstrumentKindCounter
		if kinds[c.kind].sdk == otherKind {
			otherKind = sdk.InstrumentKindGauge
		}
		// (a view that matched would add a stream with its own description to every collection -- a
		// wildcard view may not rename; a Drop view would go unnoticed next to the real view's stream)
		views = append(views,
			sdk.NewView(sdk.Instrument{Name: "other"}, sdk.Stream{Aggregation: sdk.AggregationDrop{}}),
			sdk.NewView(sdk.Instrument{Name: "other"}, sdk.Stream{Name: "decoy-name"}),
			sdk.NewView(sdk.Instrument{Name: "*", Scope: instrumentation.Scope{Name: "another-scope"}}, sdk.Stream{Description: "decoy-scope-name"}),
			sdk.NewView(sdk.Instrument{Name: "m?", Scope: instrumentation.Scope{Name: "c12", Version: "v-other"}}, sdk.Stream{Description: "decoy-scope-version", AttributeFilter: attribute.NewAllowKeysFilter()}),
			sdk.NewView(sdk.Instrument{Name: "**", Unit: "never"}, sdk.Stream{Description: "decoy-unit"}),
			sdk.NewView(sdk.Instrument{Name: "*", Kind: otherKind}, sdk.Stream{Description: "decoy-kind"}),
			sdk.NewView(sdk.Instrument{Name: "*", Description: "never"}, sdk.Stream{Description: "decoy-description"}),
		)
	}
	for _, v := range c.views {
		views = append(views, v.build(c.kind))
	}
	if len(views) > 0 {
		popts = append(popts, sdk.WithView(views...))
	}
	mp := sdk.NewMeterProvider(popts...)
	m := mp.Meter("c12")
	ctx := h.ctx
	if !c.float {
		obs := func(_ context.Context, o metric.Int64Observer) error {
			for _, p := range rr.pending {
				o.Observe(p.v, h.opts[p.sym])
			}
			return nil
		}
		var cbs []metric.Int64Callback
		if c.obsPath == 0 {
			cbs = append(cbs, obs)
		}
		var oi metric.Int64Observable
		switch c.kind {
		case kCounter:
			i, e := m.Int64Counter(instName)
			err, rr.measure = e, func(s int, v int64) { i.Add(ctx, v, h.opts[s]) }
		case kUpDown:
			i, e := m.Int64UpDownCounter(instName)
			err, rr.measure = e, func(s int, v int64) { i.Add(ctx, v, h.opts[s]) }
		case kHistogram, kExpoHistogram:
			i, e := m.Int64Histogram(instName)
			err, rr.measure = e, func(s int, v int64) { i.Record(ctx, v, h.opts[s]) }
		case kGauge:
			i, e := m.Int64Gauge(instName)
			err, rr.measure = e, func(s int, v int64) { i.Record(ctx, v, h.opts[s]) }
		case kObsCounter:
			var o []metric.Int64ObservableCounterOption
			for _, cb := range cbs {
				o = append(o, metric.WithInt64Callback(cb))
			}
			oi, err = m.Int64ObservableCounter(instName, o...)
		case kObsUpDown:
			var o []metric.Int64ObservableUpDownCounterOption
			for _, cb := range cbs {
				o = append(o, metric.WithInt64Callback(cb))
			}
			oi, err = m.Int64ObservableUpDownCounter(instName, o...)
		case kObsGauge:
			var o []metric.Int64ObservableGaugeOption
			for _, cb := range cbs {
				o = append(o, metric.WithInt64Callback(cb))
			}
			oi, err = m.Int64ObservableGauge(instName, o...)
		}
		if err != nil {
			return nil, err
		}
		if kinds[c.kind].async {
			rr.measure = func(s int, v int64) { rr.pending = append(rr.pending, obsT{s, v}) }
			if c.obsPath == 1 {
				_, err = m.RegisterCallback(func(_ context.Context, o metric.Observer) error {
					for _, p := range rr.pending {
						o.ObserveInt64(oi, p.v, h.opts[p.sym])
					}
					return nil
				}, oi)
			}
		}
		return rr, err
	}
	obs := func(_ context.Context, o metric.Float64Observer) error {
		for _, p := range rr.pending {
			o.Observe(float64(p.v), h.opts[p.sym])
		}
		return nil
	}
	var cbs []metric.Float64Callback
	if c.obsPath == 0 {
		cbs = append(cbs, obs)
	}
	var oi metric.Float64Observable
	switch c.kind {
	case kCounter:
		i, e := m.Float64Counter(instName)
		err, rr.measure = e, func(s int, v int64) { i.Add(ctx, float64(v), h.opts[s]) }
	case kUpDown:
		i, e := m.Float64UpDownCounter(instName)
		err, rr.measure = e, func(s int, v int64) { i.Add(ctx, float64(v), h.opts[s]) }
	case kHistogram, kExpoHistogram:
		i, e := m.Float64Histogram(instName)
		err, rr.measure = e, func(s int, v int64) { i.Record(ctx, float64(v), h.opts[s]) }
	case kGauge:
		i, e := m.Float64Gauge(instName)
		err, rr.measure = e, func(s int, v int64) { i.Record(ctx, float64(v), h.opts[s]) }
	case kObsCounter:
		var o []metric.Float64ObservableCounterOption
		for _, cb := range cbs {
			o = append(o, metric.WithFloat64Callback(cb))
		}
		oi, err = m.Float64ObservableCounter(instName, o...)
	case kObsUpDown:
		var o []metric.Float64ObservableUpDownCounterOption
		for _, cb := range cbs {
			o = append(o, metric.WithFloat64Callback(cb))
		}
		oi, err = m.Float64ObservableUpDownCounter(instName, o...)
	case kObsGauge:
		var o []metric.Float64ObservableGaugeOption
		for _, cb := range cbs {
			o = append(o, metric.WithFloat64Callback(cb))
		}
		oi, err = m.Float64ObservableGauge(instName, o...)
	}
	if err != nil {
		return nil, err
	}
	if kinds[c.kind].async {
		rr.measure = func(s int, v int64) { rr.pending = append(rr.pending, obsT{s, v}) }
		if c.obsPath == 1 {
			_, err = m.RegisterCallback(func(_ context.Context, o metric.Observer) error {
				for _, p := range rr.pending {
					o.ObserveFloat64(oi, float64(p.v), h.opts[p.sym])
				}
				return nil
			}, oi)
		}
	}
	return rr, err
}

// what the SDK reported for one metric of one collection
type realPoint struct {
	value   int64
	count   int64
	sum     int64
	buckets int64
}

type metricOut struct {
	name, desc, form string
	scope            scopeT // filled in by the jobs with several instruments (c12_multi_test.go)
	unit             string
	points           map[string]realPoint
	n                int
	dups             []string
	inexact          []string
}

func realSetKey(s attribute.Set) string {
	var b strings.Builder
	it := s.Iter()
	first := true
	for it.Next() {
		kv := it.Attribute()
		if !first {
			b.WriteByte(';')
		}
		first = false
		b.WriteString(string(kv.Key))
		b.WriteByte(':')
		b.WriteString(kv.Value.Type().String())
		b.WriteByte('=')
		b.WriteString(kv.Value.Emit())
	}
	return b.String()
}

func (mo *metricOut) add(set attribute.Set, p realPoint, exact bool) {
	k := realSetKey(set)
	mo.n++
	if _, ok := mo.points[k]; ok {
		mo.dups = append(mo.dups, k)
	}
	if !exact {
		mo.inexact = append(mo.inexact, k)
	}
	mo.points[k] = p
}

func toInt[N int64 | float64](v N) (int64, bool) {
	i := int64(v)
	return i, N(i) == v
}

func sumU(c []uint64) (t int64) {
	for _, x := range c {
		t += int64(x)
	}
	return t
}

func extractNum[N int64 | float64](d metricdata.Aggregation, mo *metricOut) bool {
	switch a := d.(type) {
	case metricdata.Sum[N]:
		mo.form = "sum"
		for _, dp := range a.DataPoints {
			v, ok := toInt(dp.Value)
			mo.add(dp.Attributes, realPoint{value: v}, ok)
		}
	case metricdata.Gauge[N]:
		mo.form = "gauge"
		for _, dp := range a.DataPoints {
			v, ok := toInt(dp.Value)
			mo.add(dp.Attributes, realPoint{value: v}, ok)
		}
	case metricdata.Histogram[N]:
		mo.form = "histogram"
		for _, dp := range a.DataPoints {
			v, ok := toInt(dp.Sum)
			mo.add(dp.Attributes, realPoint{count: int64(dp.Count), sum: v, buckets: sumU(dp.BucketCounts)}, ok)
		}
	case metricdata.ExponentialHistogram[N]:
		mo.form = "exponential-histogram"
		for _, dp := range a.DataPoints {
			v, ok := toInt(dp.Sum)
			b := int64(dp.ZeroCount) + sumU(dp.PositiveBucket.Counts) + sumU(dp.NegativeBucket.Counts)
			mo.add(dp.Attributes, realPoint{count: int64(dp.Count), sum: v, buckets: b}, ok)
		}
	default:
		return false
	}
	return true
}

func (h *harness) collect(rr *realRun) (out []*metricOut, err error) {
	defer func() {
		if p := recover(); p != nil {
			err = fmt.Errorf("panic: %v", p)
		}
	}()
	rr.rm = metricdata.ResourceMetrics{}
	if e := rr.reader.Collect(h.ctx, &rr.rm); e != nil {
		return nil, e
	}
	for _, sm := range rr.rm.ScopeMetrics {
		for _, m := range sm.Metrics {
			mo := &metricOut{name: m.Name, desc: m.Description, points: map[string]realPoint{}}
			if !extractNum[int64](m.Data, mo) && !extractNum[float64](m.Data, mo) {
				mo.form = fmt.Sprintf("%T", m.Data)
			} else if mo.n == 0 {
				continue // a metric without data points reports nothing: not judged
			}
			out = append(out, mo)
		}
	}
	sort.SliceStable(out, func(i, j int) bool {
		if out[i].name != out[j].name {
			return out[i].name < out[j].name
		}
		if out[i].desc != out[j].desc {
			return out[i].desc < out[j].desc
		}
		return out[i].String(false) < out[j].String(false)
	})
	vScribble(&rr.rm) // the consumer's copy: nothing the SDK keeps may depend on it
	return out, nil
}

func (mo *metricOut) String(noSum bool) string {
	ks := make([]string, 0, len(mo.points))
	for k := range mo.points {
		ks = append(ks, k)
	}
	sort.Strings(ks)
	var b strings.Builder
	b.WriteString(mo.form)
	b.WriteString("{")
	for _, k := range ks {
		p := mo.points[k]
		switch mo.form {
		case "sum", "gauge":
			fmt.Fprintf(&b, "[%s]=%d ", k, p.value)
		default:
			if noSum {
				fmt.Fprintf(&b, "[%s]=count %d ", k, p.count)
			} else {
				fmt.Fprintf(&b, "[%s]=count %d sum %d ", k, p.count, p.sum)
			}
		}
	}
	b.WriteString("}")
	if len(mo.dups) > 0 {
		fmt.Fprintf(&b, " duplicate points for %v", mo.dups)
	}
	return b.String()
}

// ---------------------------------------------------------------------------
// oracles

// compareOne judges one reported metric against one expected stream. It returns the name of
// the first violated clause ("" if none) and a message.
func compareOne(mo *metricOut, ms *mStream, exp map[string]expPoint) (string, string) {
	d := ms.def
	form := d.sem.form()
	if mo.form != form {
		return "aggregation-form", fmt.Sprintf("stream is reported as %s, the configuration asks for %s", mo.form, form)
	}
	if len(mo.dups) > 0 {
		return "duplicate-point", fmt.Sprintf("attribute set(s) %v appear in more than one data point of one collection", mo.dups)
	}
	if len(mo.inexact) > 0 {
		return "conservation", fmt.Sprintf("non-integral value reported for %v although every measurement is a small integer", mo.inexact)
	}
	if ms.limit > 0 && mo.n > ms.limit {
		return "cardinality", fmt.Sprintf("%d data points in one collection with cardinality limit %d", mo.n, ms.limit)
	}
	// totals first: a measurement lost or counted twice, wherever it was filed
	var rv, rc, rs, ev, ec, es int64
	for _, p := range mo.points {
		rv, rc, rs = rv+p.value, rc+p.count, rs+p.sum
	}
	for _, p := range exp {
		ev, ec, es = ev+p.value, ec+p.count, es+p.sum
	}
	switch form {
	case "sum":
		if rv != ev {
			what := "total of the measurements"
			if d.sem == semPreSum && ms.delta {
				what = "total of the observed values minus what the same sets reported in the preceding collection"
			}
			return "conservation", fmt.Sprintf("total over all reported points is %d, %s is %d", rv, what, ev)
		}
	case "histogram", "exponential-histogram":
		if rc != ec {
			return "conservation", fmt.Sprintf("total count over all reported points is %d, number of measurements is %d", rc, ec)
		}
		if !d.noSum && rs != es {
			return "conservation", fmt.Sprintf("total sum over all reported points is %d, total of the measurements is %d", rs, es)
		}
	}
	// which sets are reported
	var missing, extra []string
	for k := range exp {
		if _, ok := mo.points[k]; !ok {
			missing = append(missing, k)
		}
	}
	for k := range mo.points {
		if _, ok := exp[k]; !ok {
			extra = append(extra, k)
		}
	}
	if len(missing)+len(extra) > 0 {
		sort.Strings(missing)
		sort.Strings(extra)
		return "identity", fmt.Sprintf("reported attribute sets differ: not reported %q, unexpectedly reported %q", missing, extra)
	}
	// what is filed under each set
	ks := make([]string, 0, len(exp))
	for k := range exp {
		ks = append(ks, k)
	}
	sort.Strings(ks)
	for _, k := range ks {
		e, p := exp[k], mo.points[k]
		switch form {
		case "sum", "gauge":
			if p.value != e.value {
				return "attribution", fmt.Sprintf("set [%s] reports %d, the measurements filed under it give %d", k, p.value, e.value)
			}
		default:
			if p.count != e.count || (!d.noSum && p.sum != e.sum) {
				return "attribution", fmt.Sprintf("set [%s] reports count %d sum %d, the measurements filed under it give count %d sum %d", k, p.count, p.sum, e.count, e.sum)
			}
			if p.buckets != p.count {
				return "bucket-conservation", fmt.Sprintf("set [%s]: bucket counts add up to %d, count is %d", k, p.buckets, p.count)
			}
		}
	}
	return "", ""
}

type failure struct {
	oracle, sem, msg, stream, expected, actual string
}

// judge compares one collection with the model's expectation for every stream group.
func (c *runCfg) judge(out []*metricOut, model [][]*mStream) []failure {
	var fails []failure
	used := make([]bool, len(out))
	for gi, g := range c.groups {
		alts := model[gi]
		exps := make([]map[string]expPoint, len(alts))
		for i, ms := range alts {
			exps[i] = ms.collect()
		}
		var got []*metricOut
		for i, mo := range out {
			if mo.name == g.name && mo.desc == g.desc {
				got = append(got, mo)
				used[i] = true
			}
		}
		stream := fmt.Sprintf("%q", g.name)
		if g.desc != "" {
			stream += fmt.Sprintf(" (description %q)", g.desc)
		}
		expText := func() string {
			var t []string
			for i, ms := range alts {
				t = append(t, expString(ms.def.sem.form(), ms.def.noSum, exps[i]))
			}
			return strings.Join(t, "  or  ")
		}
		gotText := func() string {
			var t []string
			for _, mo := range got {
				t = append(t, mo.String(alts[0].def.noSum))
			}
			if len(t) == 0 {
				return "not reported"
			}
			return strings.Join(t, "  and  ")
		}
		add := func(oracle string, sem semT, msg string) {
			fails = append(fails, failure{oracle, sem.String(), msg, stream, expText(), gotText()})
		}
		if len(alts) == 1 {
			ms, exp := alts[0], exps[0]
			switch {
			case len(exp) == 0 && len(got) == 0:
			case len(exp) == 0:
				add("phantom-stream", ms.def.sem, "a stream is reported although no measurement belongs to the collected epoch")
			case len(got) == 0:
				add("stream-missing", ms.def.sem, "no metric is reported for a stream that received measurements")
			case len(got) > 1:
				add("stream-duplicated", ms.def.sem, fmt.Sprintf("%d metrics with the same identity in one collection", len(got)))
			default:
				if o, msg := compareOne(got[0], ms, exp); o != "" {
					add(o, ms.def.sem, msg)
				}
			}
			continue
		}
		// two conflicting definitions of one stream identity: either of them, or both, may be reported
		ok := func(mo *metricOut, i int) bool {
			if len(exps[i]) == 0 {
				return false
			}
			o, _ := compareOne(mo, alts[i], exps[i])
			return o == ""
		}
		switch len(got) {
		case 0:
			if len(exps[0]) != 0 && len(exps[1]) != 0 {
				add("stream-missing", alts[0].def.sem, "no metric is reported for a stream identity that two views ask for")
			}
		case 1:
			if !ok(got[0], 0) && !ok(got[0], 1) {
				o, msg := "phantom-stream", "a stream is reported although no measurement belongs to the collected epoch"
				if len(exps[0]) != 0 {
					o, msg = compareOne(got[0], alts[0], exps[0])
				}
				add(o, alts[0].def.sem, "(matches neither of the two definitions; against the first:) "+msg)
			}
		case 2:
			if !(ok(got[0], 0) && ok(got[1], 1)) && !(ok(got[0], 1) && ok(got[1], 0)) {
				add("stream-duplicated", alts[0].def.sem, "two metrics with one identity that are not the two requested definitions")
			}
		default:
			add("stream-duplicated", alts[0].def.sem, fmt.Sprintf("%d metrics with the same identity in one collection", len(got)))
		}
	}
	for i, mo := range out {
		if !used[i] {
			fails = append(fails, failure{"unexpected-stream", mo.form, "a metric is reported that no view and no default stream accounts for",
				fmt.Sprintf("%q (description %q)", mo.name, mo.desc), "not reported", mo.String(false)})
		}
	}
	return fails
}

// ---------------------------------------------------------------------------
// sequences

const evCollect = int8(-1)

// forSeqs enumerates every event sequence of total length 1..maxLen that ends with a
// collection, over the alphabet {measurement with symbol 0..k-1, collect}, with at most
// maxCollects collections; shortest first, lexicographic inside one length.
func forSeqs(k, maxLen, maxCollects int, f func(seq []int8) bool) {
	for n := 1; n <= maxLen; n++ {
		seq := make([]int8, n)
		seq[n-1] = evCollect
		var rec func(pos, collects int) bool
		rec = func(pos, collects int) bool {
			if pos == n-1 {
				return f(seq)
			}
			for s := 0; s < k; s++ {
				seq[pos] = int8(s)
				if !rec(pos+1, collects) {
					return false
				}
			}
			if collects+1 < maxCollects {
				seq[pos] = evCollect
				if !rec(pos+1, collects+1) {
					return false
				}
			}
			return true
		}
		if !rec(0, 0) {
			return
		}
	}
}

// an observable instrument's callback observing one attribute set twice in a cycle is an API
// misuse with unspecified result: such sequences are not part of the space.
func repeatsWithinCycle(seq []int8) bool {
	var seen uint32
	for _, e := range seq {
		if e == evCollect {
			seen = 0
			continue
		}
		if seen&(1<<uint(e)) != 0 {
			return true
		}
		seen |= 1 << uint(e)
	}
	return false
}

func (h *harness) seqText(c *runCfg, seq []int8) string {
	var b strings.Builder
	i := 0
	for _, e := range seq {
		if b.Len() > 0 {
			b.WriteByte(' ')
		}
		if e == evCollect {
			b.WriteString("collect")
			continue
		}
		fmt.Fprintf(&b, "%s=%d", h.u[e].name, valueOf(i, kinds[c.kind].signed))
		i++
	}
	return b.String()
}

func (h *harness) caseDesc(c *runCfg, seq []int8) map[string]any {
	num := "int64"
	if c.float {
		num = "float64"
	}
	d := map[string]any{
		"instrument":  kinds[c.kind].name,
		"number":      num,
		"temporality": c.temp(),
		limitEnv:      c.limit.String(),
		"views":       c.viewTags(),
		"sequence":    h.seqText(c, seq),
		"attribute_sets": func() map[string]string {
			m := map[string]string{}
			for _, e := range seq {
				if e != evCollect {
					m[h.u[e].name] = "{" + canonKVs(h.u[e].kvs) + "}"
				}
			}
			return m
		}(),
	}
	if kinds[c.kind].async {
		d["callback"] = []string{"given at instrument creation", "Meter.RegisterCallback"}[c.obsPath]
	}
	return d
}

// key builds the finding key: the violated clause, then the class of configurations. Without
// a view the class names the aggregation, its temporality and whether a limit is active: every
// aggregation has its own limiter call and its own delta / cumulative export. With one view
// the class is the kind of view (filter, rename, ...) and whether a limit is active; with two
// matching views it is the relation between the two. Views are resolved and filters applied
// before and independently of the aggregation, which is named in the message and the case.
func (c *runCfg) key(oracle, sem string) string {
	lim := "unlimited"
	if c.limit.n > 0 {
		lim = "limited"
	}
	switch len(c.views) {
	case 0:
		return fmt.Sprintf("%s|%s/%s|%s", oracle, sem, c.temp(), lim)
	case 1:
		return fmt.Sprintf("%s|%s|%s", oracle, c.class, lim)
	}
	return fmt.Sprintf("%s|%s", oracle, c.class)
}

// runCase executes one sequence on a fresh provider and judges every collection.
func (h *harness) runCase(c *runCfg, seq []int8) {
	r := h.r
	fail := func(oracle, sem, stream, expected, actual string, nth int, format string, a ...any) {
		d := h.caseDesc(c, seq)
		if nth > 0 {
			d["failing_collection"] = nth
		}
		if stream != "" {
			d["stream"], d["expected"], d["actual"] = stream, expected, actual
		}
		r.FailHere(c.key(oracle, sem), d, format, a...)
	}
	defSem := kinds[c.kind].defSem.String()
	rr, err := h.newReal(c)
	if err != nil {
		fail("setup-error", defSem, "", "", "", 0, "creating provider / instrument failed: %v", err)
		return
	}
	model := make([][]*mStream, len(c.groups))
	for gi, g := range c.groups {
		for _, d := range g.defs {
			model[gi] = append(model[gi], newMStream(d, c.limit.n, c.delta, h.u))
		}
	}
	signed := kinds[c.kind].signed
	var sk strings.Builder
	state := func() {
		sk.Reset()
		sk.WriteString(c.tag())
		for _, alts := range model {
			for _, ms := range alts {
				sk.WriteByte('|')
				ms.stateKey(&sk)
			}
		}
		r.State(sk.String())
	}
	i, nth := 0, 0
	var outcome strings.Builder
	for _, e := range seq {
		r.Transition()
		if e != evCollect {
			v := valueOf(i, signed)
			i++
			func() {
				defer func() {
					if p := recover(); p != nil {
						fail("panic|measurement", defSem, "", "", "", 0, "panic while recording: %v", p)
					}
				}()
				rr.measure(int(e), v)
			}()
			for _, alts := range model {
				for _, ms := range alts {
					ms.measure(int(e), v)
				}
			}
			state()
			continue
		}
		nth++
		r.Eval()
		out, err := h.collect(rr)
		rr.pending = rr.pending[:0]
		if err != nil {
			fail("collect-error", defSem, "", "", "", nth, "Collect failed: %v", err)
			return
		}
		for _, mo := range out {
			fmt.Fprintf(&outcome, "%s/%s:%s;", mo.name, mo.desc, mo.String(false))
		}
		outcome.WriteByte('|')
		for _, f := range c.judge(out, model) {
			fail(f.oracle, f.sem, f.stream, f.expected, f.actual, nth, "%s %s, collection %d of [%s]: %s (expected %s, reported %s)",
				c.tag(), f.stream, nth, h.seqText(c, seq), f.msg, f.expected, f.actual)
		}
		state()
	}
	r.Outcome(outcome.String())
}

// enumerate runs every sequence of the space for one configuration.
func (h *harness) enumerate(section string, c *runCfg, maxLen, maxCollects int) {
	r := h.r
	c.resolve()
	r.Section(section)
	async := kinds[c.kind].async
	forSeqs(len(h.u), maxLen, maxCollects, func(seq []int8) bool {
		if async && repeatsWithinCycle(seq) {
			return true
		}
		if r.Expired() {
			return false
		}
		if !r.Want() {
			return true
		}
		h.runCase(c, seq)
		r.Count("sequences", 1)
		r.Sample(func() any { return h.caseDesc(c, seq) })
		return true
	})
}

// ---------------------------------------------------------------------------
// jobs

func limitsFor(thorough bool) []limitT {
	// "-1" and "abc": a value that is not a positive integer means no limit (model L = 0), as the unset variable does
	l := []limitT{{"", 0}, {"1", 1}, {"2", 2}, {"3", 3}, {"4", 4}, {"-1", 0}, {"abc", 0}}
	if thorough {
		l = append(l, limitT{"5", 5}, limitT{"0", 0}, limitT{"1000", 0}, limitT{"2.5", 0})
	}
	return l
}

func TestVerifC12(t *testing.T) {
	var jobs []string
	for _, k := range kinds {
		for _, tp := range []string{"delta", "cumulative"} {
			jobs = append(jobs, "limit/"+k.name+"/"+tp)
		}
	}
	for _, k := range kinds {
		for _, tp := range []string{"delta", "cumulative"} {
			jobs = append(jobs, "view/"+k.name+"/"+tp)
		}
	}
	for _, k := range kinds {
		for _, tp := range []string{"delta", "cumulative"} {
			jobs = append(jobs, "pair/"+k.name+"/"+tp)
		}
	}
	for _, k := range kinds {
		for _, tp := range []string{"delta", "cumulative"} {
			jobs = append(jobs, "dropreader/"+k.name+"/"+tp)
		}
	}
	jobs = append(jobs, multiJobs()...)
	enum.Jobs(jobs, func(job string) {
		r := enum.Start("C12", "conserve")
		defer r.Finish()
		parts := strings.Split(job, "/")
		var kind kindT
		for i, k := range kinds {
			if k.name == parts[1] {
				kind = kindT(i)
			}
		}
		thorough := r.Thorough()
		views := viewAlphabet()
		r.Bound("instrument_kinds", len(kinds))
		r.Bound("temporalities", 2)
		switch parts[0] {
		case "criteria":
			runCriteria(r, kind, parts[2] == "delta")
		case "bystander":
			runBystander(r, kind, parts[2] == "delta")
		case "limit":
			// no views: the limiter alone, longest sequences
			h := newHarness(r, universe(false))
			maxLen, maxCollects := enum.Pick(r, 6, 7), enum.Pick(r, 2, 3)
			limits := limitsFor(thorough)
			r.Bound("limit/attribute_universe", len(h.u))
			r.Bound("limit/max_sequence_length_incl_collects", maxLen)
			r.Bound("limit/max_collects", maxCollects)
			r.Bound("limit/limits", len(limits))
			nums := enum.Pick(r, []bool{false}, []bool{false, true})
			for _, l := range limits {
				for _, fl := range nums {
					paths := []int{0}
					if kinds[kind].async && thorough {
						paths = []int{0, 1}
					}
					for _, p := range paths {
						ml := maxLen
						if fl || p == 1 {
							ml = maxLen - 1 // second number type / second registration path: one event shorter
						}
						c := &runCfg{kind: kind, delta: parts[2] == "delta", limit: l, float: fl, obsPath: p}
						h.enumerate("limit/"+c.tag(), c, ml, maxCollects)
					}
				}
			}
			if thorough {
				// the same with the empty attribute set as a seventh symbol, one event shorter
				hz := newHarness(r, universe(true))
				r.Bound("limit/attribute_universe_second_pass", len(hz.u))
				r.Bound("limit/max_sequence_length_second_pass", maxLen-1)
				for _, l := range limits {
					c := &runCfg{kind: kind, delta: parts[2] == "delta", limit: l}
					hz.enumerate("limit-with-empty-set/"+c.tag(), c, maxLen-1, maxCollects)
				}
			}
		case "view":
			// one matching view (plus a decoy view that matches nothing)
			h := newHarness(r, universe(thorough))
			maxLen, maxCollects := 5, enum.Pick(r, 2, 3)
			limits := []limitT{{"", 0}, {"2", 2}, {"3", 3}}
			if thorough {
				limits = []limitT{{"", 0}, {"1", 1}, {"2", 2}, {"3", 3}, {"4", 4}}
			}
			r.Bound("view/attribute_universe", len(h.u))
			r.Bound("view/max_sequence_length_incl_collects", maxLen)
			r.Bound("view/max_collects", maxCollects)
			r.Bound("view/limits", len(limits))
			r.Bound("view/views", len(views))
			paths := []int{0}
			if kinds[kind].async && thorough {
				paths = []int{0, 1}
			}
			for _, v := range views {
				for _, l := range limits {
					for _, p := range paths {
						c := &runCfg{kind: kind, delta: parts[2] == "delta", limit: l, views: []*viewT{v}, decoy: true, obsPath: p}
						h.enumerate("view/"+c.tag(), c, maxLen, maxCollects)
					}
				}
			}
		case "dropreader":
			// a reader whose default aggregation is Drop: no view, every single view, every ordered pair
			h := newHarness(r, universe(false))
			maxLen, maxCollects := enum.Pick(r, 3, 4), 2
			r.Bound("dropreader/max_sequence_length_incl_collects", maxLen)
			r.Bound("dropreader/configurations", 1+len(views)+len(views)*len(views))
			delta := parts[2] == "delta"
			h.enumerate("dropreader/none", &runCfg{kind: kind, delta: delta, rdrop: true}, maxLen, maxCollects)
			for _, a := range views {
				c := &runCfg{kind: kind, delta: delta, rdrop: true, views: []*viewT{a}}
				h.enumerate("dropreader/"+c.tag(), c, maxLen, maxCollects)
				for _, b := range views {
					c := &runCfg{kind: kind, delta: delta, rdrop: true, views: []*viewT{a, b}}
					h.enumerate("dropreader/"+c.tag(), c, maxLen, maxCollects)
				}
			}
		case "pair":
			// every ordered pair of matching views
			h := newHarness(r, universe(false))
			maxLen, maxCollects := enum.Pick(r, 3, 5), 2
			limits := []limitT{{"", 0}, {"2", 2}}
			r.Bound("pair/attribute_universe", len(h.u))
			r.Bound("pair/max_sequence_length_incl_collects", maxLen)
			r.Bound("pair/max_collects", maxCollects)
			r.Bound("pair/limits", len(limits))
			r.Bound("pair/ordered_view_pairs", len(views)*len(views))
			for _, a := range views {
				for _, b := range views {
					for _, l := range limits {
						c := &runCfg{kind: kind, delta: parts[2] == "delta", limit: l, views: []*viewT{a, b}}
						h.enumerate("pair/"+c.tag(), c, maxLen, maxCollects)
					}
				}
			}
		}
	})
}
