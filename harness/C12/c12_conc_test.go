package metric

// C12 (unit "conc") — the cardinality limit under concurrent first measurements. The real SDK
// (instrumented sdk/metric and internal/aggregate) runs under the controlled scheduler: with a
// limit L and L-2 attribute sets already present, recorder threads make the first measurement of
// different new sets (and a collector may collect a delta reader meanwhile); every schedule up to
// the preemption bound is executed. Oracle per collection: at most L points, at most L-1 of them
// other than the overflow set, every non-overflow point holds only measurements of its own set,
// and over all collections every measurement (distinct powers of three) is counted exactly once.

import (
	"context"
	"fmt"
	"os"
	"sort"
	"testing"

	"verif/mc/enum"
	"verif/mc/sched"
	"verif/mc/vsync"

	"go.opentelemetry.io/otel/attribute"
	api "go.opentelemetry.io/otel/metric"
	"go.opentelemetry.io/otel/sdk/metric/metricdata"
)

type c12cPoint struct {
	set      string // value of attribute k, "" for none
	overflow bool
	sum      int64
	count    int64 // histograms; -1 otherwise
}

func c12cRead(rm *metricdata.ResourceMetrics) (pts []c12cPoint, ok bool) {
	conv := func(a attribute.Set, sum int64, count int64) {
		v, _ := a.Value("k")
		_, of := a.Value("otel.metric.overflow")
		pts = append(pts, c12cPoint{v.AsString(), of, sum, count})
	}
	for _, sm := range rm.ScopeMetrics {
		for _, m := range sm.Metrics {
			ok = true
			switch d := m.Data.(type) {
			case metricdata.Sum[int64]:
				for _, dp := range d.DataPoints {
					conv(dp.Attributes, dp.Value, -1)
				}
			case metricdata.Sum[float64]:
				for _, dp := range d.DataPoints {
					conv(dp.Attributes, int64(dp.Value), -1)
				}
			case metricdata.Gauge[int64]:
				for _, dp := range d.DataPoints {
					conv(dp.Attributes, dp.Value, -2)
				}
			case metricdata.Histogram[int64]:
				for _, dp := range d.DataPoints {
					conv(dp.Attributes, dp.Sum, int64(dp.Count))
				}
			case metricdata.ExponentialHistogram[int64]:
				for _, dp := range d.DataPoints {
					conv(dp.Attributes, dp.Sum, int64(dp.Count))
				}
			}
		}
	}
	sort.Slice(pts, func(i, j int) bool { return pts[i].set < pts[j].set })
	return
}

type c12cScn struct {
	name    string
	kind    string // counter, fupdown, histogram, expo, gauge
	limit   int
	pre     []string   // sets measured before the threads start
	threads [][]string // per thread: a set name = one measurement of that set, "D" = collect the delta reader
}

func c12cBody(sc c12cScn, res *string) func(x *sched.Exec) {
	return func(x *sched.Exec) {
		ctx := context.Background()
		os.Setenv("OTEL_GO_X_CARDINALITY_LIMIT", fmt.Sprint(sc.limit))
		defer os.Unsetenv("OTEL_GO_X_CARDINALITY_LIMIT")
		delta := NewManualReader(WithTemporalitySelector(func(InstrumentKind) metricdata.Temporality { return metricdata.DeltaTemporality }))
		cum := NewManualReader()
		opts := []Option{WithReader(delta), WithReader(cum)}
		if sc.kind == "expo" {
			opts = append(opts, WithView(NewView(Instrument{Name: "*"}, Stream{Aggregation: AggregationBase2ExponentialHistogram{MaxSize: 160, MaxScale: 20}})))
		}
		mp := NewMeterProvider(opts...)
		meter := mp.Meter("m")
		at := func(a string) api.MeasurementOption { return api.WithAttributes(attribute.String("k", a)) }
		var add func(v int64, a string)
		switch sc.kind {
		case "counter":
			c, _ := meter.Int64Counter("c")
			add = func(v int64, a string) { c.Add(ctx, v, at(a)) }
		case "fupdown":
			c, _ := meter.Float64UpDownCounter("c")
			add = func(v int64, a string) { c.Add(ctx, float64(v), at(a)) }
		case "histogram", "expo":
			c, _ := meter.Int64Histogram("c")
			add = func(v int64, a string) { c.Record(ctx, v, at(a)) }
		case "gauge":
			c, _ := meter.Int64Gauge("c")
			add = func(v int64, a string) { c.Record(ctx, v, at(a)) }
		}
		val := int64(1)
		owner := map[int64]string{} // measurement value -> the set it was recorded with
		next := func(a string) int64 {
			v := val
			val *= 3
			owner[v] = a
			return v
		}
		for _, a := range sc.pre {
			add(next(a), a)
		}
		type op struct {
			v int64
			a string
		}
		var plan [][]op
		for _, ops := range sc.threads {
			var l []op
			for _, a := range ops {
				if a == "D" {
					l = append(l, op{0, "D"})
				} else {
					l = append(l, op{next(a), a})
				}
			}
			plan = append(plan, l)
		}
		var deltas, cums [][]c12cPoint
		collect := func(rd *ManualReader, into *[][]c12cPoint) {
			var rm metricdata.ResourceMetrics
			if err := rd.Collect(ctx, &rm); err != nil {
				x.Fail("C12|conc|collect-error", "Collect: %v", err)
				return
			}
			pts, _ := c12cRead(&rm)
			*into = append(*into, pts)
		}
		var wg vsync.WaitGroup
		wg.Add(len(plan))
		for _, l := range plan {
			sched.Go(func() {
				defer wg.Done()
				for _, o := range l {
					if o.a == "D" {
						collect(delta, &deltas)
					} else {
						add(o.v, o.a)
					}
				}
			})
		}
		wg.Wait()
		collect(delta, &deltas)
		collect(cum, &cums)

		judge := func(reader string, colls [][]c12cPoint, conserve bool) {
			seenVal := map[int64]int{}
			for ci, pts := range colls {
				nonOverflow := 0
				dup := map[string]bool{}
				for _, p := range pts {
					id := p.set
					if p.overflow {
						id = "<overflow>"
					} else {
						nonOverflow++
					}
					if dup[id] {
						x.Fail("C12|conc|attribute-set-reported-twice|"+sc.kind, "%s collection %d reports %s twice: %v", reader, ci, id, pts)
					}
					dup[id] = true
					if p.count == -2 { // gauge: the value is one measurement of the set (or of any set, for overflow)
						if o, ok := owner[p.sum]; !ok || (!p.overflow && o != p.set) {
							x.Fail("C12|conc|measurement-under-a-foreign-attribute-set|"+sc.kind, "%s collection %d: point %s holds %d, which was recorded with %q", reader, ci, id, p.sum, o)
						}
						continue
					}
					n := int64(0)
					for d, pw := p.sum, int64(1); d > 0; d, pw = d/3, pw*3 {
						switch d % 3 {
						case 2:
							x.Fail("C12|conc|measurement-counted-twice|"+sc.kind, "%s collection %d: point %s = %d counts a measurement twice", reader, ci, id, p.sum)
						case 1:
							n++
							seenVal[pw]++
							if o := owner[pw]; !p.overflow && o != p.set {
								x.Fail("C12|conc|measurement-under-a-foreign-attribute-set|"+sc.kind, "%s collection %d: point %s contains measurement %d, which was recorded with %q", reader, ci, id, pw, o)
							}
						}
					}
					if p.count >= 0 && p.count != n {
						x.Fail("C12|conc|histogram-count-differs-from-measurements|"+sc.kind, "%s collection %d: point %s has count %d, its sum %d is made of %d measurements", reader, ci, id, p.count, p.sum, n)
					}
				}
				// a set that keeps its identity in a collection holds ALL its measurements of that epoch:
				// none of them may sit in the overflow point of the same collection
				own := map[string]bool{}
				for _, p := range pts {
					if !p.overflow {
						own[p.set] = true
					}
				}
				for _, p := range pts {
					if !p.overflow || p.count == -2 {
						continue
					}
					for d, pw := p.sum, int64(1); d > 0; d, pw = d/3, pw*3 {
						if d%3 == 1 && own[owner[pw]] {
							x.Fail("C12|conc|measurement-in-overflow-although-its-set-keeps-identity|"+sc.kind, "%s collection %d: measurement %d of set %q is filed under the overflow set while %q has a point of its own in the same collection: %v", reader, ci, pw, owner[pw], owner[pw], pts)
						}
					}
				}
				if len(pts) > sc.limit {
					x.Fail("C12|conc|more-attribute-sets-than-the-limit|"+sc.kind, "limit %d: %s collection %d reports %d attribute sets: %v", sc.limit, reader, ci, len(pts), pts)
				}
				if nonOverflow > sc.limit-1 {
					x.Fail("C12|conc|more-distinct-sets-than-limit-minus-one|"+sc.kind, "limit %d: %s collection %d reports %d sets other than the overflow set: %v", sc.limit, reader, ci, nonOverflow, pts)
				}
			}
			if conserve {
				for v, a := range owner {
					if seenVal[v] != 1 {
						x.Fail("C12|conc|measurement-not-counted-exactly-once|"+sc.kind, "%s: measurement %d (set %q) is counted %d times over %d collection(s): %v", reader, v, a, seenVal[v], len(colls), colls)
					}
				}
			}
		}
		judge("delta reader", deltas, sc.kind != "gauge")
		judge("cumulative reader", cums, sc.kind != "gauge")
		*res = fmt.Sprint(deltas, cums)
	}
}

// c12cCreateBody: streams that a view makes identical are added together -- also when the
// instruments are created at the same moment. Two threads: one creates counter "a", the other
// counter "b" (mode "rename": a view renames both to "m") or the same counter "a" again (mode
// "same"); each records its own power of three with the same attribute set. Afterwards a delta
// and a cumulative reader must each report the stream exactly once, holding the total.
func c12cCreateBody(mode string, res *string) func(x *sched.Exec) {
	return func(x *sched.Exec) {
		ctx := context.Background()
		delta := NewManualReader(WithTemporalitySelector(func(InstrumentKind) metricdata.Temporality { return metricdata.DeltaTemporality }))
		cum := NewManualReader()
		opts := []Option{WithReader(delta), WithReader(cum)}
		second, stream := "a", "a"
		if mode == "rename" {
			second, stream = "b", "m"
			opts = append(opts, WithView(NewView(Instrument{Name: "a"}, Stream{Name: "m"}), NewView(Instrument{Name: "b"}, Stream{Name: "m"})))
		}
		mp := NewMeterProvider(opts...)
		var wg vsync.WaitGroup
		wg.Add(2)
		for i, name := range []string{"a", second} {
			v := int64(1)
			if i == 1 {
				v = 3
			}
			sched.Go(func() {
				defer wg.Done()
				c, err := mp.Meter("m").Int64Counter(name)
				if err != nil || c == nil {
					return
				}
				c.Add(ctx, v, api.WithAttributes(attribute.String("k", "x")))
			})
		}
		wg.Wait()
		var out []string
		for _, rd := range []struct {
			name string
			r    *ManualReader
		}{{"delta", delta}, {"cumulative", cum}} {
			var rm metricdata.ResourceMetrics
			if err := rd.r.Collect(ctx, &rm); err != nil {
				x.Fail("C12|conc|creation|collect-error", "Collect: %v", err)
			}
			var streams, points int
			var total int64
			for _, sm := range rm.ScopeMetrics {
				for _, m := range sm.Metrics {
					if m.Name != stream {
						x.Fail("C12|conc|creation|unexpected-stream", "the %s reader reports a stream named %q", rd.name, m.Name)
						continue
					}
					streams++
					if d, ok := m.Data.(metricdata.Sum[int64]); ok {
						for _, dp := range d.DataPoints {
							points++
							total += dp.Value
						}
					}
				}
			}
			if streams != 1 || points != 1 || total != 4 {
				x.Fail("C12|conc|creation|identical-streams-not-added-together|"+mode, "two threads created counters that resolve to the one stream %q and recorded 1 and 3 for the same attribute set: the %s reader reports %d stream(s) with %d point(s) in all, total %d (want 1 stream, 1 point, 4)", stream, rd.name, streams, points, total)
			}
			out = append(out, fmt.Sprint(streams, points, total))
		}
		*res = fmt.Sprint(out)
	}
}

// c12cManyViewsBody (K16): "multiple matching views" while ANOTHER instrument is being created at
// the same moment. Three views match counter "a" and rename it to a1, a2, a3; one thread creates
// "a" and records 1, another creates a float64 counter "f" (the other inserter of the same
// pipeline) and records 3. Whatever the two creations share (identifier counters, caches), every
// one of the three streams holds the measurement exactly once, and so does "f".
func c12cManyViewsBody(res *string) func(x *sched.Exec) {
	return func(x *sched.Exec) {
		ctx := context.Background()
		delta := NewManualReader(WithTemporalitySelector(func(InstrumentKind) metricdata.Temporality { return metricdata.DeltaTemporality }))
		mp := NewMeterProvider(WithReader(delta), WithView(
			NewView(Instrument{Name: "a"}, Stream{Name: "a1"}),
			NewView(Instrument{Name: "a"}, Stream{Name: "a2"}),
			NewView(Instrument{Name: "a"}, Stream{Name: "a3"})))
		var wg vsync.WaitGroup
		wg.Add(2)
		sched.Go(func() {
			defer wg.Done()
			if c, err := mp.Meter("m").Int64Counter("a"); err == nil && c != nil {
				c.Add(ctx, 1, api.WithAttributes(attribute.String("k", "x")))
			}
		})
		sched.Go(func() {
			defer wg.Done()
			if c, err := mp.Meter("m").Float64Counter("f"); err == nil && c != nil {
				c.Add(ctx, 3, api.WithAttributes(attribute.String("k", "x")))
			}
		})
		wg.Wait()
		var rm metricdata.ResourceMetrics
		if err := delta.Collect(ctx, &rm); err != nil {
			x.Fail("C12|conc|creation|collect-error", "Collect: %v", err)
		}
		got := map[string]float64{}
		n := map[string]int{}
		for _, sm := range rm.ScopeMetrics {
			for _, m := range sm.Metrics {
				n[m.Name]++
				switch d := m.Data.(type) {
				case metricdata.Sum[int64]:
					for _, dp := range d.DataPoints {
						got[m.Name] += float64(dp.Value)
					}
				case metricdata.Sum[float64]:
					for _, dp := range d.DataPoints {
						got[m.Name] += dp.Value
					}
				}
			}
		}
		want := map[string]float64{"a1": 1, "a2": 1, "a3": 1, "f": 3}
		for name, w := range want {
			if n[name] != 1 || got[name] != w {
				x.Fail("C12|conc|creation|a stream of several matching views lost or repeated the measurement", "three views rename counter a to a1, a2, a3 while another thread creates counter f: stream %s reported %d time(s) with total %v, want once with %v (all: %v)", name, n[name], got[name], w, got)
			}
		}
		for name := range n {
			if _, ok := want[name]; !ok {
				x.Fail("C12|conc|creation|unexpected-stream", "the reader reports a stream named %q", name)
			}
		}
		*res = fmt.Sprint(got)
	}
}

type c12cJob struct {
	sc c12cScn
	p  int
}

func (j c12cJob) name() string { return fmt.Sprintf("%s/P%d", j.sc.name, j.p) }

func c12cJobs(thorough bool) []c12cJob {
	a, b, c, d := "a", "b", "c", "d"
	scs := []c12cScn{
		{"K1-counter-L3-two-new-sets", "counter", 3, []string{a}, [][]string{{b}, {c}}},
		{"K2-counter-L3-two-new-sets-collect", "counter", 3, []string{a}, [][]string{{b}, {c}, {"D"}}},
		{"K3-histogram-L3-two-new-sets", "histogram", 3, []string{a}, [][]string{{b, a}, {c}}},
		{"K4-expo-L3-two-new-sets", "expo", 3, []string{a}, [][]string{{b}, {c, b}}},
		{"K5-gauge-L3-two-new-sets", "gauge", 3, []string{a}, [][]string{{b}, {c}}},
		{"K6-fupdown-L2-three-threads", "fupdown", 2, nil, [][]string{{a}, {b}, {c}}},
		{"K7-counter-L4-three-new-sets", "counter", 4, []string{a}, [][]string{{b}, {c}, {d}}},
		{"K8-counter-L3-same-new-set-twice", "counter", 3, []string{a}, [][]string{{b}, {b}}},
		{"K9-histogram-L3-record-vs-delta-collect", "histogram", 3, []string{a}, [][]string{{a}, {b}, {"D"}}},
		{"K10-expo-L3-record-vs-delta-collect", "expo", 3, []string{a}, [][]string{{a, b}, {"D"}}},
		{"K11-fupdown-L3-same-new-set-twice-collect", "fupdown", 3, []string{a}, [][]string{{b}, {b}, {"D"}}},
	}
	p := 3
	if thorough {
		p = 5
	}
	var js []c12cJob
	for _, sc := range scs {
		js = append(js, c12cJob{sc, p})
	}
	return js
}

// c12cCallbackBody (K14): three multi-instrument callbacks, each observing its own observable
// counter, registered in order; the first one takes time. One thread collects the delta reader while
// another unregisters the SECOND callback. The first and the third stay registered throughout: every
// collection reports both, each with this cycle's observation minus the preceding cycle's -- no
// measurement of a bystander is lost or reported twice because a neighbour left at that moment.
func c12cCallbackBody(res *string) func(x *sched.Exec) {
	return func(x *sched.Exec) {
		ctx := context.Background()
		delta := NewManualReader(WithTemporalitySelector(func(InstrumentKind) metricdata.Temporality { return metricdata.DeltaTemporality }))
		mp := NewMeterProvider(WithReader(delta))
		meter := mp.Meter("m")
		var calls [3]int64
		var regs [3]api.Registration
		for i := 0; i < 3; i++ {
			oc, err := meter.Int64ObservableCounter(fmt.Sprintf("oc%d", i+1))
			if err != nil {
				x.Fail("C12|conc|callbacks|setup", "%v", err)
				return
			}
			regs[i], err = meter.RegisterCallback(func(_ context.Context, o api.Observer) error {
				if i == 0 {
					sched.Yield("slow callback", &calls)
				}
				calls[i]++
				o.ObserveInt64(oc, 10*calls[i]*int64(i+1))
				return nil
			}, oc)
			if err != nil {
				x.Fail("C12|conc|callbacks|setup", "%v", err)
				return
			}
		}
		var prev [3]int64
		var out []string
		collect := func(label string) {
			var rm metricdata.ResourceMetrics
			before := calls
			if err := delta.Collect(ctx, &rm); err != nil {
				x.Fail("C12|conc|callbacks|collect-error", "%s: Collect: %v", label, err)
				return
			}
			got := map[string]int64{}
			for _, sm := range rm.ScopeMetrics {
				for _, m := range sm.Metrics {
					if d, ok := m.Data.(metricdata.Sum[int64]); ok {
						for _, dp := range d.DataPoints {
							got[m.Name] += dp.Value
						}
					}
				}
			}
			for _, i := range []int{0, 2} {
				name := fmt.Sprintf("oc%d", i+1)
				obs := 10 * calls[i] * int64(i+1)
				if calls[i] != before[i]+1 {
					x.Fail("C12|conc|callbacks|registered callback not run exactly once in a collection", "%s: callback %d ran %d times", label, i+1, calls[i]-before[i])
					continue
				}
				v, ok := got[name]
				if !ok || v != obs-prev[i] {
					x.Fail("C12|conc|callbacks|bystander's observation lost or repeated", "%s: %s reported %d (present=%v), observed %d now and %d in the preceding cycle (callback 2 was being unregistered meanwhile)", label, name, v, ok, obs, prev[i])
				}
				prev[i] = obs
			}
			out = append(out, fmt.Sprint(label, got))
		}
		var wg vsync.WaitGroup
		wg.Add(2)
		sched.Go(func() { defer wg.Done(); collect("concurrent collection") })
		sched.Go(func() { defer wg.Done(); _ = regs[1].Unregister() })
		wg.Wait()
		collect("second collection")
		collect("third collection")
		*res = fmt.Sprint(out)
		_ = mp.Shutdown(ctx)
	}
}

// c12cTwoCollectsBody (K15): two collections of ONE reader in flight at once (ManualReader.Collect is
// documented as safe for concurrent use; a periodic reader has the same when a ForceFlush meets an
// interval export). An observable counter observes {k=v,u=1}:2 and {k=v,u=2}:3 in every cycle and is
// read through an attribute filter that keeps k: every collection reports {k=v}=5 -- its own
// cycle's observations added together, not the other collection's as well, and not nothing.
func c12cTwoCollectsBody(res *string) func(x *sched.Exec) {
	return func(x *sched.Exec) {
		ctx := context.Background()
		cum := NewManualReader()
		mp := NewMeterProvider(WithReader(cum), WithView(NewView(Instrument{Name: "oc"}, Stream{AttributeFilter: attribute.NewAllowKeysFilter("k")})))
		meter := mp.Meter("m")
		sync1, _ := meter.Int64Counter("plain")
		sync1.Add(ctx, 1)
		_, err := meter.Int64ObservableCounter("oc", api.WithInt64Callback(func(_ context.Context, o api.Int64Observer) error {
			o.Observe(2, api.WithAttributes(attribute.String("k", "v"), attribute.Int("u", 1)))
			sched.Yield("between two observations", &cum)
			o.Observe(3, api.WithAttributes(attribute.String("k", "v"), attribute.Int("u", 2)))
			return nil
		}))
		if err != nil {
			x.Fail("C12|conc|two-collects|setup", "%v", err)
			return
		}
		outs := make([]string, 2)
		var wg vsync.WaitGroup
		wg.Add(2)
		for i := 0; i < 2; i++ {
			sched.Go(func() {
				defer wg.Done()
				var rm metricdata.ResourceMetrics
				if err := cum.Collect(ctx, &rm); err != nil {
					outs[i] = "error: " + err.Error()
					return
				}
				var total, points int64
				for _, sm := range rm.ScopeMetrics {
					for _, m := range sm.Metrics {
						if d, ok := m.Data.(metricdata.Sum[int64]); ok && m.Name == "oc" {
							for _, dp := range d.DataPoints {
								points++
								total += dp.Value
							}
						}
					}
				}
				outs[i] = fmt.Sprintf("points=%d total=%d", points, total)
			})
		}
		wg.Wait()
		for i, o := range outs {
			if o != "points=1 total=5" {
				x.Fail("C12|conc|two-collects|filtered observable sum of one cycle", "collection %d of two concurrent collections of one reader reports %s for the observable counter; its callback observed 2 and 3 under one filtered attribute set (want points=1 total=5)", i+1, o)
			}
		}
		*res = fmt.Sprint(outs)
		_ = mp.Shutdown(ctx)
	}
}

func TestVerifC12Conc(t *testing.T) {
	thorough := enum.Start("C12", "probe").Thorough()
	all := c12cJobs(thorough)
	var names []string
	for _, j := range all {
		names = append(names, j.name())
	}
	pc := 3
	if thorough {
		pc = 5
	}
	createJobs := map[string]string{
		fmt.Sprintf("K12-two-counters-renamed-to-one-stream-created-concurrently/P%d", pc): "rename",
		fmt.Sprintf("K13-same-counter-created-concurrently/P%d", pc):                       "same",
	}
	for n := range createJobs {
		names = append(names, n)
	}
	cbJob := fmt.Sprintf("K14-collect-vs-unregister-of-the-middle-callback/P%d", pc)
	names = append(names, cbJob)
	tcJob := fmt.Sprintf("K15-two-collections-of-one-reader-observable-through-a-filter/P%d", pc)
	names = append(names, tcJob)
	mvJob := fmt.Sprintf("K16-three-matching-views-while-another-instrument-is-created/P%d", pc)
	names = append(names, mvJob)
	sort.Strings(names[len(all):])
	enum.Jobs(names, func(job string) {
		r := enum.Start("C12", "conc")
		defer r.Finish()
		if job == mvJob {
			r.Bound("conc/many_views_max_preemptions", pc)
			var res string
			st := sched.Explore(r, sched.Config{Name: job, MaxP: pc, MaxE: 0, MaxSteps: 6000, Body: c12cManyViewsBody(&res),
				Outcome: func(*sched.Exec) string { return res }})
			t.Logf("%s: execs=%d states=%d outcomes=%d complete=%v keys=%v", job, st.Execs, st.States, len(st.Outcomes), st.Complete, r.Keys())
			return
		}
		if job == tcJob {
			r.Bound("conc/two_collects_max_preemptions", pc)
			var res string
			st := sched.Explore(r, sched.Config{Name: job, MaxP: pc, MaxE: 0, MaxSteps: 6000, Body: c12cTwoCollectsBody(&res),
				Outcome: func(*sched.Exec) string { return res }})
			t.Logf("%s: execs=%d states=%d outcomes=%d complete=%v keys=%v", job, st.Execs, st.States, len(st.Outcomes), st.Complete, r.Keys())
			return
		}
		if job == cbJob {
			r.Bound("conc/callbacks_max_preemptions", pc)
			var res string
			st := sched.Explore(r, sched.Config{Name: job, MaxP: pc, MaxE: 0, MaxSteps: 6000, Body: c12cCallbackBody(&res),
				Outcome: func(*sched.Exec) string { return res }})
			t.Logf("%s: execs=%d states=%d outcomes=%d complete=%v keys=%v", job, st.Execs, st.States, len(st.Outcomes), st.Complete, r.Keys())
			return
		}
		if mode, ok := createJobs[job]; ok {
			r.Bound("conc/creation_max_preemptions", pc)
			var res string
			st := sched.Explore(r, sched.Config{Name: job, MaxP: pc, MaxE: 0, MaxSteps: 6000, Body: c12cCreateBody(mode, &res),
				Outcome: func(*sched.Exec) string { return res }})
			t.Logf("%s: execs=%d states=%d outcomes=%d complete=%v keys=%v", job, st.Execs, st.States, len(st.Outcomes), st.Complete, r.Keys())
			return
		}
		for _, j := range all {
			if j.name() != job {
				continue
			}
			r.Bound("conc/drivers", len(all))
			r.Bound("conc/max_preemptions", j.p)
			var res string
			st := sched.Explore(r, sched.Config{Name: job, MaxP: j.p, MaxE: 0, MaxSteps: 6000, Body: c12cBody(j.sc, &res),
				Outcome: func(*sched.Exec) string { return res }})
			t.Logf("%s: execs=%d states=%d steps=%d pruned=%d outcomes=%d complete=%v keys=%v", job, st.Execs, st.States, st.Steps, st.Pruned, len(st.Outcomes), st.Complete, r.Keys())
		}
	})
}
