package metric_test

// C12 — reference model. Nothing in this file touches the SDK: attribute sets are lists of
// (key, type, value) strings, a stream is a map from the canonical text of a reported
// attribute set to (number of measurements, their sum, the last one).
//
// The model states the property and nothing else:
//   - a view's attribute filter keeps exactly the allowed keys of a measurement's set;
//   - with a limit L the first L-1 distinct (filtered) sets of the current epoch keep their
//     identity, every other measurement is accounted under otel.metric.overflow=true;
//   - an epoch ends at a collection when the stream is exported with delta temporality, and at
//     every collection for observable instruments (their callback restates the world each
//     cycle); it never ends for synchronous instruments exported cumulatively;
//   - a point is the sum / the count and sum / the last value of the measurements accounted
//     under its set.

import (
	"fmt"
	"sort"
	"strings"
)

type kvT struct{ k, typ, v string }

type symbolT struct {
	name string
	kvs  []kvT // sorted by key
}

const overflowKey = "otel.metric.overflow:BOOL=true"

// the attribute universe: A..E are built from the keys k1,k2 so that every allow-list over
// {k1,k2} merges some of them; O is the literal overflow set handed in by the user; Z the
// empty set.
func universe(withEmpty bool) []*symbolT {
	u := []*symbolT{
		{"A", []kvT{{"k1", "STRING", "a"}}},
		{"B", []kvT{{"k1", "STRING", "b"}}},
		{"C", []kvT{{"k1", "STRING", "a"}, {"k2", "STRING", "x"}}},
		{"D", []kvT{{"k1", "STRING", "a"}, {"k2", "STRING", "y"}}},
		{"E", []kvT{{"k2", "STRING", "x"}}},
		{"O", []kvT{{"otel.metric.overflow", "BOOL", "true"}}},
	}
	if withEmpty {
		u = append(u, &symbolT{"Z", nil})
	}
	return u
}

func canonKVs(kvs []kvT) string {
	var b strings.Builder
	for i, kv := range kvs {
		if i > 0 {
			b.WriteByte(';')
		}
		b.WriteString(kv.k)
		b.WriteByte(':')
		b.WriteString(kv.typ)
		b.WriteByte('=')
		b.WriteString(kv.v)
	}
	return b.String()
}

// semantics of an output stream
type semT int

const (
	semSum     semT = iota // sum of the measurements of the epoch
	semPreSum              // observable sum: sum of the observations of the cycle (delta: minus what the same set reported in the preceding collection)
	semLast                // last measurement of the epoch
	semPreLast             // observable gauge: last observation of the cycle
	semHist                // explicit-bucket histogram: count and sum
	semExpo                // exponential histogram: count and sum
)

var semNames = []string{"sum", "precomputed-sum", "last-value", "precomputed-last-value", "histogram", "exponential-histogram"}

func (s semT) String() string { return semNames[s] }

func (s semT) form() string {
	switch s {
	case semSum, semPreSum:
		return "sum"
	case semLast, semPreLast:
		return "gauge"
	case semHist:
		return "histogram"
	}
	return "exponential-histogram"
}

type streamDef struct {
	name, desc string
	sem        semT
	noSum      bool // histogram of an instrument that may record negative values: the sum is not reported
	hasFilter  bool
	filter     []string // allowed keys; an entry "k=v" allows key k only when its value is v (a filter may look at values)
}

func (d *streamDef) sameConfig(o *streamDef) bool {
	if d.sem != o.sem || d.noSum != o.noSum || d.hasFilter != o.hasFilter || len(d.filter) != len(o.filter) {
		return false
	}
	for i := range d.filter {
		if d.filter[i] != o.filter[i] {
			return false
		}
	}
	return true
}

func (d *streamDef) filtered(s *symbolT) string {
	if !d.hasFilter {
		return canonKVs(s.kvs)
	}
	var keep []kvT
	for _, kv := range s.kvs {
		for _, f := range d.filter {
			if kv.k == f || kv.k+"="+kv.v == f {
				keep = append(keep, kv)
			}
		}
	}
	return canonKVs(keep)
}

type cellT struct {
	n    int64
	sum  int64
	last int64
}

type expPoint struct {
	value int64 // sum and gauge forms
	count int64 // histogram forms
	sum   int64
}

type mStream struct {
	def      *streamDef
	limit    int // <= 0: unlimited
	delta    bool
	symKey   []string // filtered canonical set per symbol of the universe
	distinct []string // distinct filtered sets of the current epoch, in arrival order
	cells    map[string]*cellT
	prev     map[string]int64 // semPreSum under delta: what each set reported in the preceding collection
}

func newMStream(def *streamDef, limit int, delta bool, u []*symbolT) *mStream {
	m := &mStream{def: def, limit: limit, delta: delta, cells: map[string]*cellT{}, prev: map[string]int64{}}
	for _, s := range u {
		m.symKey = append(m.symKey, def.filtered(s))
	}
	return m
}

func (m *mStream) measure(sym int, v int64) {
	key := m.symKey[sym]
	idx := -1
	for i, d := range m.distinct {
		if d == key {
			idx = i
			break
		}
	}
	if idx < 0 {
		m.distinct = append(m.distinct, key)
		idx = len(m.distinct) - 1
	}
	if m.limit > 0 && idx >= m.limit-1 {
		key = overflowKey // not among the first L-1 distinct sets of the epoch
	}
	c := m.cells[key]
	if c == nil {
		c = &cellT{}
		m.cells[key] = c
	}
	c.n++
	c.sum += v
	c.last = v
}

func (m *mStream) epochEndsAtCollect() bool {
	return m.delta || m.def.sem == semPreSum || m.def.sem == semPreLast
}

func (m *mStream) collect() map[string]expPoint {
	out := map[string]expPoint{}
	for k, c := range m.cells {
		switch m.def.sem {
		case semSum:
			out[k] = expPoint{value: c.sum}
		case semPreSum:
			if m.delta {
				out[k] = expPoint{value: c.sum - m.prev[k]}
			} else {
				out[k] = expPoint{value: c.sum}
			}
		case semLast, semPreLast:
			out[k] = expPoint{value: c.last}
		default:
			out[k] = expPoint{count: c.n, sum: c.sum}
		}
	}
	if m.def.sem == semPreSum {
		m.prev = map[string]int64{}
		for k, c := range m.cells {
			m.prev[k] = c.sum
		}
	}
	if m.epochEndsAtCollect() {
		m.cells = map[string]*cellT{}
		m.distinct = nil
	}
	return out
}

// stateKey is the abstract state of the stream (which sets hold identity, how many
// measurements each reported set absorbed, which sets the last delta export of an observable
// sum mentioned); measurement values are left out on purpose so that equal situations reached
// by different histories coincide.
func (m *mStream) stateKey(b *strings.Builder) {
	n := len(m.distinct)
	if m.limit > 0 && n > m.limit-1 {
		n = m.limit - 1
		if n < 0 {
			n = 0
		}
	}
	b.WriteString(strings.Join(m.distinct[:n], ","))
	b.WriteByte('#')
	ks := make([]string, 0, len(m.cells))
	for k := range m.cells {
		ks = append(ks, k)
	}
	sort.Strings(ks)
	for _, k := range ks {
		fmt.Fprintf(b, "%s*%d,", k, m.cells[k].n)
	}
	if m.def.sem == semPreSum && m.delta {
		b.WriteByte('#')
		ps := make([]string, 0, len(m.prev))
		for k := range m.prev {
			ps = append(ps, k)
		}
		sort.Strings(ps)
		b.WriteString(strings.Join(ps, ","))
	}
}

func expString(form string, noSum bool, e map[string]expPoint) string {
	ks := make([]string, 0, len(e))
	for k := range e {
		ks = append(ks, k)
	}
	sort.Strings(ks)
	var b strings.Builder
	b.WriteString(form)
	b.WriteString("{")
	for _, k := range ks {
		p := e[k]
		switch form {
		case "sum", "gauge":
			fmt.Fprintf(&b, "[%s]=%d ", k, p.value)
		default:
			if noSum {
				fmt.Fprintf(&b, "[%s]=count %d ", k, p.count)
			} else {
				fmt.Fprintf(&b, "[%s]=count %d sum %d ", k, p.count, p.sum)
			}
		}
	}
	b.WriteString("}")
	return b.String()
}
