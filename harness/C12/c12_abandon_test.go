package metric_test

import "testing"

// C12 (unit "abandon"): see harness/common/vabandon_test.go.
func TestVerifC12Abandon(t *testing.T) { vAbandonRun(t, "C12") }
