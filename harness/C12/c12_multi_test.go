package metric_test

// C12 — several instruments under one provider.
//
// The jobs of c12_conserve_test.go create one instrument per provider and select it by name (or by
// a criterion that trivially fits). The jobs of this file create several instruments in several
// scopes and measure all of them in one history:
//
//   - criteria/*: a population of instruments that differ from a reference instrument in exactly one
//     respect each (scope name, scope version, schema URL, name with a common prefix / suffix, unit,
//     kind, description) and every combination of view criteria (exact and wildcard names x unit x
//     kind x description x scope name x scope version x schema URL, each unset / the reference's value
//     / another instrument's value). A view applies to exactly the instruments all of whose set
//     criteria fit; every other instrument reports its default stream, untouched.
//   - bystander/*: a target instrument with a view (and its cardinality overflow) next to instruments
//     no view selects (another name in the same meter; the same name in another meter): every arrival
//     sequence over the measurements of all of them. The bystanders report what they would report
//     alone, with their own limit accounting, in every collection.
//
// Which instrument a view selects is decided by an independent matcher (glob over names, equality
// of every set field); what each stream then reports is the reference model of c12_model_test.go,
// one model stream per instrument and requested stream.

import (
	"context"
	"fmt"
	"os"
	"sort"
	"strings"

	"go.opentelemetry.io/otel/metric"
	"go.opentelemetry.io/otel/sdk/instrumentation"
	sdk "go.opentelemetry.io/otel/sdk/metric"
	"go.opentelemetry.io/otel/sdk/metric/exemplar"
	"go.opentelemetry.io/otel/sdk/metric/metricdata"
	"verif/mc/enum"
)

// ---------------------------------------------------------------------------
// instruments and criteria

type scopeT struct{ name, version, schema string }

func (s scopeT) sdk() instrumentation.Scope {
	return instrumentation.Scope{Name: s.name, Version: s.version, SchemaURL: s.schema}
}

func (s scopeT) String() string { return fmt.Sprintf("%s@%s<%s>", s.name, s.version, s.schema) }

type instT struct {
	role             string // what the instrument stands for in the population
	scope            scopeT
	name, unit, desc string
	kind             kindT
}

func (p *instT) String() string {
	return fmt.Sprintf("%s %q (unit %q, description %q) of scope %s", kinds[p.kind].name, p.name, p.unit, p.desc, p.scope)
}

// critT: the criteria of a view; the empty string / -1 is "not set".
type critT struct {
	name, unit, desc string
	kind             int
	scope            scopeT
}

func (c critT) sdk() sdk.Instrument {
	i := sdk.Instrument{Name: c.name, Unit: c.unit, Description: c.desc, Scope: c.scope.sdk()}
	if c.kind >= 0 {
		i.Kind = kinds[c.kind].sdk
	}
	return i
}

func (c critT) empty() bool {
	return c.name == "" && c.unit == "" && c.desc == "" && c.kind < 0 && c.scope == scopeT{}
}

func (c critT) wildcard() bool { return strings.ContainsAny(c.name, "*?") }

func (c critT) String() string {
	var t []string
	add := func(k, v string) {
		if v != "" {
			t = append(t, fmt.Sprintf("%s=%q", k, v))
		}
	}
	add("Name", c.name)
	add("Unit", c.unit)
	add("Description", c.desc)
	if c.kind >= 0 {
		t = append(t, "Kind="+kinds[c.kind].name)
	}
	add("Scope.Name", c.scope.name)
	add("Scope.Version", c.scope.version)
	add("Scope.SchemaURL", c.scope.schema)
	return "{" + strings.Join(t, " ") + "}"
}

// globMatch: "*" stands for any (possibly empty) run of characters, "?" for exactly one, every
// other character for itself; the whole name has to be covered.
func globMatch(pat, s string) bool {
	if pat == "" {
		return s == ""
	}
	switch pat[0] {
	case '*':
		for i := 0; i <= len(s); i++ {
			if globMatch(pat[1:], s[i:]) {
				return true
			}
		}
		return false
	case '?':
		return s != "" && globMatch(pat[1:], s[1:])
	}
	return s != "" && s[0] == pat[0] && globMatch(pat[1:], s[1:])
}

// rejectedBy lists the set criteria that do not fit the instrument (none: the view selects it).
func (c critT) rejectedBy(p *instT) []string {
	var r []string
	if c.name != "" && !globMatch(c.name, p.name) {
		r = append(r, "name")
	}
	if c.unit != "" && c.unit != p.unit {
		r = append(r, "unit")
	}
	if c.desc != "" && c.desc != p.desc {
		r = append(r, "description")
	}
	if c.kind >= 0 && kindT(c.kind) != p.kind {
		r = append(r, "kind")
	}
	if c.scope.name != "" && c.scope.name != p.scope.name {
		r = append(r, "scope.name")
	}
	if c.scope.version != "" && c.scope.version != p.scope.version {
		r = append(r, "scope.version")
	}
	if c.scope.schema != "" && c.scope.schema != p.scope.schema {
		r = append(r, "scope.schema")
	}
	return r
}

type mviewT struct {
	crit critT
	v    *viewT
}

// void: views NewView documents as matching no instrument at all -- no criteria, or a wildcard
// name together with a new stream name ("name replacement for multiple instruments").
func (mv *mviewT) void() bool {
	return mv.crit.empty() || (mv.crit.wildcard() && mv.v.rename != "")
}

// relation of the view to an instrument: "selected", "void-view" or "rejected-by:<criteria>"; the
// path names the matcher NewView builds (exact names and wildcard names are matched by different code).
func (mv *mviewT) relation(p *instT) (string, bool) {
	if mv.void() {
		return "void-view", false
	}
	path := "exact-path"
	if mv.crit.wildcard() {
		path = "wildcard-path"
	}
	if rj := mv.crit.rejectedBy(p); len(rj) > 0 {
		return "rejected-by:" + strings.Join(rj, "+") + "(" + path + ")", false
	}
	return "selected(" + path + ")", true
}

func (mv *mviewT) String() string { return mv.crit.String() + "->" + mv.v.tag }

// ---------------------------------------------------------------------------
// configuration and expectation

type multiCfg struct {
	job      string
	insts    []*instT
	views    []*mviewT
	maskKind kindT // the kind the masks' aggregations are chosen for
	delta    bool
	limit    limitT
}

func (c *multiCfg) temp() string {
	if c.delta {
		return "delta"
	}
	return "cumulative"
}

func (c *multiCfg) tag() string {
	var t []string
	for _, mv := range c.views {
		t = append(t, mv.String())
	}
	return fmt.Sprintf("%s/%s/L=%s/%s", kinds[c.maskKind].name, c.temp(), c.limit, strings.Join(t, "+"))
}

// semFor: what a stream of instrument kind kp reports under the view's aggregation, which was
// chosen for kind mk (re-aggregation: histogram -> sum, everything else -> explicit histogram).
func semFor(v *viewT, mk, kp kindT) (semT, bool) {
	switch v.agg {
	case 2:
		if mk == kHistogram { // AggregationSum
			if kinds[kp].async {
				return semPreSum, false
			}
			return semSum, false
		}
		return semHist, kinds[kp].signed
	case 3:
		return semExpo, kinds[kp].signed
	}
	return kinds[kp].defSem, false
}

func nonEmpty(a, b string) string {
	if a != "" {
		return a
	}
	return b
}

// what is expected of one instrument
type instModel struct {
	p        *instT
	relation string // to the views, in order
	groups   []groupDef
	model    [][]*mStream
}

func (c *multiCfg) expect(p *instT, u []*symbolT) *instModel {
	im := &instModel{p: p}
	var rel []string
	matched := false
	for _, mv := range c.views {
		r, sel := mv.relation(p)
		rel = append(rel, r)
		if !sel {
			continue
		}
		matched = true
		v := mv.v
		if v.agg == 1 {
			continue // drop
		}
		d := &streamDef{name: nonEmpty(v.rename, p.name), desc: nonEmpty(v.desc, p.desc), hasFilter: v.hasFilter, filter: v.filter}
		d.sem, d.noSum = semFor(v, c.maskKind, p.kind)
		placed := false
		for gi := range im.groups {
			g := &im.groups[gi]
			if strings.EqualFold(g.name, d.name) && g.desc == d.desc {
				placed = true
				dup := false
				for _, e := range g.defs {
					if e.sameConfig(d) {
						dup = true
					}
				}
				if !dup {
					g.defs = append(g.defs, d)
				}
			}
		}
		if !placed {
			im.groups = append(im.groups, groupDef{d.name, d.desc, []*streamDef{d}})
		}
	}
	if !matched {
		// no view selects the instrument: its default stream
		im.groups = []groupDef{{p.name, p.desc, []*streamDef{{name: p.name, desc: p.desc, sem: kinds[p.kind].defSem}}}}
	}
	im.relation = strings.Join(rel, " & ")
	for _, g := range im.groups {
		var alts []*mStream
		for _, d := range g.defs {
			alts = append(alts, newMStream(d, c.limit.n, c.delta, u))
		}
		im.model = append(im.model, alts)
	}
	return im
}

// ambiguous: two definitions of one stream identity beyond what judge accepts (more than two
// alternatives), or two instruments of one scope asked to report under one name.
func ambiguous(ims []*instModel) bool {
	seen := map[string]*instModel{}
	for _, im := range ims {
		for _, g := range im.groups {
			if len(g.defs) > 2 {
				return true
			}
			k := im.p.scope.String() + "|" + strings.ToLower(g.name)
			if o := seen[k]; o != nil && o != im {
				return true
			}
			seen[k] = im
		}
	}
	return false
}

// ---------------------------------------------------------------------------
// the real SDK

type multiReal struct {
	reader  *sdk.ManualReader
	measure []func(sym int, v int64)
	pending [][]obsT
	rm      metricdata.ResourceMetrics
}

func (h *harness) newMulti(c *multiCfg) (mr *multiReal, err error) {
	defer func() {
		if p := recover(); p != nil {
			err = fmt.Errorf("panic: %v", p)
		}
	}()
	if c.limit.env == "" {
		os.Unsetenv(limitEnv)
	} else {
		os.Setenv(limitEnv, c.limit.env)
	}
	temp := metricdata.CumulativeTemporality
	if c.delta {
		temp = metricdata.DeltaTemporality
	}
	mr = &multiReal{reader: sdk.NewManualReader(sdk.WithTemporalitySelector(func(sdk.InstrumentKind) metricdata.Temporality { return temp }))}
	popts := []sdk.Option{sdk.WithReader(mr.reader), sdk.WithResource(h.res), sdk.WithExemplarFilter(exemplar.AlwaysOffFilter)}
	var views []sdk.View
	for _, mv := range c.views {
		views = append(views, sdk.NewView(mv.crit.sdk(), mv.v.mask(c.maskKind)))
	}
	if len(views) > 0 {
		popts = append(popts, sdk.WithView(views...))
	}
	mp := sdk.NewMeterProvider(popts...)
	meters := map[scopeT]metric.Meter{}
	mr.measure = make([]func(int, int64), len(c.insts))
	mr.pending = make([][]obsT, len(c.insts))
	ctx := h.ctx
	for idx, p := range c.insts {
		m := meters[p.scope]
		if m == nil {
			m = mp.Meter(p.scope.name, metric.WithInstrumentationVersion(p.scope.version), metric.WithSchemaURL(p.scope.schema))
			meters[p.scope] = m
		}
		idx := idx
		cb := metric.WithInt64Callback(func(_ context.Context, o metric.Int64Observer) error {
			for _, ob := range mr.pending[idx] {
				o.Observe(ob.v, h.opts[ob.sym])
			}
			return nil
		})
		queue := func(s int, v int64) { mr.pending[idx] = append(mr.pending[idx], obsT{s, v}) }
		un, de := metric.WithUnit(p.unit), metric.WithDescription(p.desc)
		var e error
		switch p.kind {
		case kCounter:
			var i metric.Int64Counter
			i, e = m.Int64Counter(p.name, un, de)
			mr.measure[idx] = func(s int, v int64) { i.Add(ctx, v, h.opts[s]) }
		case kUpDown:
			var i metric.Int64UpDownCounter
			i, e = m.Int64UpDownCounter(p.name, un, de)
			mr.measure[idx] = func(s int, v int64) { i.Add(ctx, v, h.opts[s]) }
		case kHistogram:
			var i metric.Int64Histogram
			i, e = m.Int64Histogram(p.name, un, de)
			mr.measure[idx] = func(s int, v int64) { i.Record(ctx, v, h.opts[s]) }
		case kGauge:
			var i metric.Int64Gauge
			i, e = m.Int64Gauge(p.name, un, de)
			mr.measure[idx] = func(s int, v int64) { i.Record(ctx, v, h.opts[s]) }
		case kObsCounter:
			_, e = m.Int64ObservableCounter(p.name, un, de, cb)
			mr.measure[idx] = queue
		case kObsUpDown:
			_, e = m.Int64ObservableUpDownCounter(p.name, un, de, cb)
			mr.measure[idx] = queue
		case kObsGauge:
			_, e = m.Int64ObservableGauge(p.name, un, de, cb)
			mr.measure[idx] = queue
		default:
			e = fmt.Errorf("kind %s is not part of the jobs with several instruments", kinds[p.kind].name)
		}
		if e != nil {
			return nil, fmt.Errorf("%s: %w", p, e)
		}
	}
	return mr, nil
}

func (h *harness) collectMulti(mr *multiReal) (out []*metricOut, err error) {
	defer func() {
		if p := recover(); p != nil {
			err = fmt.Errorf("panic: %v", p)
		}
	}()
	mr.rm = metricdata.ResourceMetrics{}
	if e := mr.reader.Collect(h.ctx, &mr.rm); e != nil {
		return nil, e
	}
	for _, sm := range mr.rm.ScopeMetrics {
		sc := scopeT{sm.Scope.Name, sm.Scope.Version, sm.Scope.SchemaURL}
		for _, m := range sm.Metrics {
			mo := &metricOut{name: m.Name, desc: m.Description, unit: m.Unit, scope: sc, points: map[string]realPoint{}}
			if !extractNum[int64](m.Data, mo) && !extractNum[float64](m.Data, mo) {
				mo.form = fmt.Sprintf("%T", m.Data)
			} else if mo.n == 0 {
				continue
			}
			out = append(out, mo)
		}
	}
	sort.SliceStable(out, func(i, j int) bool {
		a, b := out[i], out[j]
		if a.scope != b.scope {
			return a.scope.String() < b.scope.String()
		}
		if a.name != b.name {
			return a.name < b.name
		}
		if a.desc != b.desc {
			return a.desc < b.desc
		}
		return a.String(false) < b.String(false)
	})
	vScribble(&mr.rm)
	return out, nil
}

// ---------------------------------------------------------------------------
// oracles

type mfailure struct {
	failure
	im *instModel // nil: a metric no instrument accounts for
}

// judgeMulti hands every reported metric to the instrument of its scope that carries its name (or
// is asked by a view to report under that name) and judges instrument by instrument.
func judgeMulti(out []*metricOut, ims []*instModel) []mfailure {
	var fails []mfailure
	claimed := make([]bool, len(out))
	for _, im := range ims {
		var mine []*metricOut
		for i, mo := range out {
			if claimed[i] || mo.scope != im.p.scope {
				continue
			}
			own := mo.name == im.p.name
			for _, g := range im.groups {
				own = own || g.name == mo.name
			}
			if own {
				claimed[i] = true
				mine = append(mine, mo)
			}
		}
		fake := &runCfg{groups: im.groups}
		for _, f := range fake.judge(mine, im.model) {
			fails = append(fails, mfailure{f, im})
		}
		for _, mo := range mine {
			if mo.unit != im.p.unit {
				fails = append(fails, mfailure{failure{"stream-unit", mo.form, fmt.Sprintf("the stream is reported with unit %q, the instrument has unit %q and no view changes it", mo.unit, im.p.unit),
					fmt.Sprintf("%q", mo.name), im.p.unit, mo.unit}, im})
			}
		}
	}
	for i, mo := range out {
		if !claimed[i] {
			fails = append(fails, mfailure{failure{"unexpected-stream", mo.form, "a metric is reported that no instrument accounts for",
				fmt.Sprintf("%q (description %q) of scope %s", mo.name, mo.desc, mo.scope), "not reported", mo.String(false)}, nil})
		}
	}
	return fails
}

// ---------------------------------------------------------------------------
// one history

type letterT struct{ inst, sym int }

func (h *harness) multiSeqText(c *multiCfg, letters []letterT, seq []int8) string {
	var b strings.Builder
	i := 0
	for _, e := range seq {
		if b.Len() > 0 {
			b.WriteByte(' ')
		}
		if e == evCollect {
			b.WriteString("collect")
			continue
		}
		l := letters[e]
		fmt.Fprintf(&b, "%s.%s=%d", c.insts[l.inst].role, h.u[l.sym].name, valueOf(i, kinds[c.insts[l.inst].kind].signed))
		i++
	}
	return b.String()
}

func (h *harness) multiDesc(c *multiCfg, letters []letterT, seq []int8) map[string]any {
	insts := map[string]string{}
	for _, p := range c.insts {
		insts[p.role] = p.String()
	}
	var views []string
	for _, mv := range c.views {
		views = append(views, fmt.Sprintf("NewView(Instrument%s, %s)", mv.crit, mv.v.tag))
	}
	sets := map[string]string{}
	for _, s := range h.u {
		sets[s.name] = "{" + canonKVs(s.kvs) + "}"
	}
	return map[string]any{
		"instruments":    insts,
		"number":         "int64",
		"temporality":    c.temp(),
		limitEnv:         c.limit.String(),
		"views":          views,
		"sequence":       h.multiSeqText(c, letters, seq),
		"attribute_sets": sets,
	}
}

// runMulti executes one history on a fresh provider and judges every instrument in every
// collection. key builds the finding key from the violated clause and the failing instrument.
func (h *harness) runMulti(c *multiCfg, letters []letterT, seq []int8, statePerEvent bool, key func(oracle string, im *instModel) string) {
	r := h.r
	ims := make([]*instModel, len(c.insts))
	for i, p := range c.insts {
		ims[i] = c.expect(p, h.u)
	}
	if ambiguous(ims) {
		r.Count("configurations_left_out_as_ambiguous", 1)
		return
	}
	fail := func(oracle string, im *instModel, f *failure, nth int, format string, a ...any) {
		d := h.multiDesc(c, letters, seq)
		if nth > 0 {
			d["failing_collection"] = nth
		}
		if im != nil {
			d["failing_instrument"] = im.p.role + ": " + im.p.String()
			d["views_vs_instrument"] = im.relation
		}
		if f != nil {
			d["stream"], d["expected"], d["actual"] = f.stream, f.expected, f.actual
		}
		r.FailHere(key(oracle, im), d, format, a...)
	}
	mr, err := h.newMulti(c)
	if err != nil {
		fail("setup-error", nil, nil, 0, "creating provider / instruments failed: %v", err)
		return
	}
	var sk strings.Builder
	state := func() {
		sk.Reset()
		sk.WriteString(c.job)
		sk.WriteString(c.tag())
		for _, im := range ims {
			sk.WriteByte('/')
			sk.WriteString(im.relation)
			for _, alts := range im.model {
				for _, ms := range alts {
					sk.WriteByte('|')
					ms.stateKey(&sk)
				}
			}
		}
		r.State(sk.String())
	}
	i, nth := 0, 0
	var outcome strings.Builder
	for _, e := range seq {
		r.Transition()
		if e != evCollect {
			l := letters[e]
			v := valueOf(i, kinds[c.insts[l.inst].kind].signed)
			i++
			func() {
				defer func() {
					if p := recover(); p != nil {
						fail("panic|measurement", ims[l.inst], nil, 0, "panic while recording: %v", p)
					}
				}()
				mr.measure[l.inst](l.sym, v)
			}()
			for _, alts := range ims[l.inst].model {
				for _, ms := range alts {
					ms.measure(l.sym, v)
				}
			}
			if statePerEvent {
				state()
			}
			continue
		}
		nth++
		r.Eval()
		out, err := h.collectMulti(mr)
		for k := range mr.pending {
			mr.pending[k] = mr.pending[k][:0]
		}
		if err != nil {
			fail("collect-error", nil, nil, nth, "Collect failed: %v", err)
			return
		}
		for _, mo := range out {
			fmt.Fprintf(&outcome, "%s/%s/%s/%s:%s;", mo.scope, mo.name, mo.desc, mo.unit, mo.String(false))
		}
		outcome.WriteByte('|')
		for _, f := range judgeMulti(out, ims) {
			f := f
			who := "no instrument"
			if f.im != nil {
				who = f.im.p.role + " (" + f.im.relation + ")"
			}
			fail(f.oracle, f.im, &f.failure, nth, "%s, instrument %s, stream %s, collection %d of [%s]: %s (expected %s, reported %s)",
				c.tag(), who, f.stream, nth, h.multiSeqText(c, letters, seq), f.msg, f.expected, f.actual)
		}
		state()
	}
	r.Outcome(outcome.String())
}

func viewByTag(tag string) *viewT {
	for _, v := range viewAlphabet() {
		if v.tag == tag {
			return v
		}
	}
	panic("no view " + tag)
}

func multiJobs() []string {
	var jobs []string
	for _, j := range []string{"criteria", "bystander"} {
		for _, k := range kinds {
			if k.name == "expohistogram" {
				continue // a reader default, not an instrument kind of its own
			}
			for _, tp := range []string{"delta", "cumulative"} {
				jobs = append(jobs, j+"/"+k.name+"/"+tp)
			}
		}
	}
	return jobs
}

// ---------------------------------------------------------------------------
// criteria jobs

var (
	scRef      = scopeT{"c12", "v1", "https://example.test/schema/1"}
	scName     = scopeT{"c12b", "v1", "https://example.test/schema/1"}
	scVersion  = scopeT{"c12", "v2", "https://example.test/schema/1"}
	scSchema   = scopeT{"c12", "v1", "https://example.test/schema/2"}
	scBare     = scopeT{"c12", "", ""}
	scUnit     = scopeT{"c12c", "v1", "https://example.test/schema/1"}
	scKind     = scopeT{"c12d", "v1", "https://example.test/schema/1"}
	scDesc     = scopeT{"c12e", "v1", "https://example.test/schema/1"}
	otherKinds = map[kindT]kindT{kCounter: kUpDown, kUpDown: kCounter, kHistogram: kCounter, kGauge: kCounter,
		kObsCounter: kObsUpDown, kObsUpDown: kObsCounter, kObsGauge: kObsCounter}
)

// the population: the reference instrument and instruments that differ from it in one respect
// (those that differ in unit, kind or description live in scopes of their own, because one scope
// cannot hold two instruments of one name).
func criteriaPopulation(k kindT) []*instT {
	ref := instT{scope: scRef, name: "m1", unit: "By", desc: "d1", kind: k}
	mk := func(role string, f func(p *instT)) *instT {
		p := ref
		p.role = role
		f(&p)
		return &p
	}
	return []*instT{
		mk("ref", func(p *instT) {}),
		mk("other-scope-name", func(p *instT) { p.scope = scName }),
		mk("other-scope-version", func(p *instT) { p.scope = scVersion }),
		mk("other-schema-url", func(p *instT) { p.scope = scSchema }),
		mk("scope-without-version-and-schema", func(p *instT) { p.scope = scBare }),
		mk("name-with-suffix", func(p *instT) { p.name = "m1x" }),
		mk("name-with-prefix", func(p *instT) { p.name = "xm1" }),
		mk("name-other-last-char", func(p *instT) { p.name = "m2" }),
		mk("name-shorter", func(p *instT) { p.name = "m" }),
		mk("other-unit", func(p *instT) { p.scope, p.unit = scUnit, "ms" }),
		mk("other-kind", func(p *instT) { p.scope, p.kind = scKind, otherKinds[k] }),
		mk("other-description", func(p *instT) { p.scope, p.desc = scDesc, "d9" }),
	}
}

// every criteria that sets at most maxFields of the six fields next to the name, each to the
// reference's value or to the value of the instrument that differs in it.
func fieldCombos(k kindT, maxFields int) []critT {
	type setter func(c *critT, alt bool)
	pick := func(alt bool, a, b string) string {
		if alt {
			return b
		}
		return a
	}
	fields := []setter{
		func(c *critT, alt bool) { c.unit = pick(alt, "By", "ms") },
		func(c *critT, alt bool) {
			c.kind = int(k)
			if alt {
				c.kind = int(otherKinds[k])
			}
		},
		func(c *critT, alt bool) { c.desc = pick(alt, "d1", "d9") },
		func(c *critT, alt bool) { c.scope.name = pick(alt, scRef.name, scUnit.name) },
		func(c *critT, alt bool) { c.scope.version = pick(alt, scRef.version, scVersion.version) },
		func(c *critT, alt bool) { c.scope.schema = pick(alt, scRef.schema, scSchema.schema) },
	}
	var out []critT
	var rec func(i int, c critT, n int)
	rec = func(i int, c critT, n int) {
		if i == len(fields) {
			out = append(out, c)
			return
		}
		rec(i+1, c, n)
		if n < maxFields {
			for _, alt := range []bool{false, true} {
				d := c
				fields[i](&d, alt)
				rec(i+1, d, n+1)
			}
		}
	}
	rec(0, critT{kind: -1}, 0)
	return out
}

func runCriteria(r *enum.R, kind kindT, delta bool) {
	thorough := r.Thorough()
	h := newHarness(r, universe(false)[:3]) // A={k1=a} B={k1=b} C={k1=a,k2=x}
	pop := criteriaPopulation(kind)
	// the history: every instrument measures A, then C (filter{k1} merges them; with limit 2 only the
	// first set keeps its identity), a collection, every instrument measures B, a collection
	var letters []letterT
	var seq []int8
	for _, syms := range [][]int{{0, 2}, {1}} {
		for _, s := range syms {
			for i := range pop {
				letters = append(letters, letterT{i, s})
				seq = append(seq, int8(len(letters)-1))
			}
		}
		seq = append(seq, evCollect)
	}
	names := []string{"", "m1", "*", "m?", "m1*", "*1", "m*", "?m1", "m*x", "??", "m.*", "m2"}
	if thorough {
		names = append(names, "*m1", "m1?", "*m*1*", "**", "m", "?", "m1x", "m1.", "?*")
	}
	// quick: at most two of the six fields next to the name, limit 2. thorough: at most three fields
	// under limit 2 with every mask and under the other limits with the filter; all six fields for
	// three name patterns
	type planT struct {
		limit     limitT
		masks     []string
		names     []string
		maxFields int
	}
	plans := []planT{{limitT{"2", 2}, []string{"filter{k1}", "drop", "rename(y)"}, names, 2}}
	if thorough {
		plans = []planT{
			{limitT{"2", 2}, []string{"filter{k1}", "drop", "rename(y)", "reaggregate", "describe(d)", "rename(y)+filter{k1}"}, names, 3},
			{limitT{"", 0}, []string{"filter{k1}"}, names, 3},
			{limitT{"1", 1}, []string{"filter{k1}"}, names, 3},
			{limitT{"3", 3}, []string{"filter{k1}"}, names, 3},
			{limitT{"2", 2}, []string{"filter{}"}, []string{"", "m1", "m?"}, 6},
		}
	}
	r.Bound("criteria/instruments_per_provider", len(pop))
	r.Bound("criteria/name_patterns", len(names))
	r.Bound("criteria/measurements_per_history", len(letters))
	r.Bound("criteria/collections_per_history", 2)
	key := func(oracle string, im *instModel) string {
		if im == nil {
			return oracle + "|criteria"
		}
		return fmt.Sprintf("%s|criteria|%s", oracle, im.relation)
	}
	for pi, pl := range plans {
		l := pl.limit
		combos := fieldCombos(kind, pl.maxFields)
		r.Bound(fmt.Sprintf("criteria/plan%d", pi+1), fmt.Sprintf("limit %s, masks %v, %d name patterns, at most %d of 6 fields set next to the name (%d combinations)", l, pl.masks, len(pl.names), pl.maxFields, len(combos)))
		for _, mt := range pl.masks {
			v := viewByTag(mt)
			r.Section(fmt.Sprintf("criteria/%s/L=%s/%s/fields<=%d", kinds[kind].name, l, mt, pl.maxFields))
			for _, n := range pl.names {
				for ci, cr := range combos {
					cr.name = n
					if v.rename != "" && n == "" {
						continue // every selected instrument of a scope would be asked to report under one name
					}
					if v.rename != "" && cr.wildcard() && ci >= 3 {
						continue // a view NewView refuses (and logs): a few of them are enough
					}
					if r.Expired() {
						return
					}
					if !r.Want() {
						continue
					}
					c := &multiCfg{job: "criteria", insts: pop, views: []*mviewT{{cr, v}}, maskKind: kind, delta: delta, limit: l}
					h.runMulti(c, letters, seq, false, key)
					r.Count("histories", 1)
					r.Sample(func() any { return h.multiDesc(c, letters, seq) })
				}
			}
		}
	}
	// two views: every ordered pair of criteria that set one field (a name pattern or one of the
	// other fields); the first view filters, the second either asks for the identical stream or
	// for a stream of its own (another description)
	var singles []critT
	for _, n := range names[1:] {
		singles = append(singles, critT{name: n, kind: -1})
	}
	for _, cr := range fieldCombos(kind, 1)[1:] {
		singles = append(singles, cr)
	}
	r.Bound("criteria/pairs_of_single_field_criteria", len(singles)*len(singles))
	l := limitT{"2", 2}
	for _, second := range enum.Pick(r, []string{"filter{k1}", "describe(d)"}, []string{"filter{k1}", "describe(d)", "drop", "reaggregate"}) {
		va, vb := viewByTag("filter{k1}"), viewByTag(second)
		r.Section(fmt.Sprintf("criteria-pair/%s/L=%s/filter{k1}+%s", kinds[kind].name, l, second))
		for _, a := range singles {
			for _, b := range singles {
				if r.Expired() {
					return
				}
				if !r.Want() {
					continue
				}
				c := &multiCfg{job: "criteria-pair", insts: pop, views: []*mviewT{{a, va}, {b, vb}}, maskKind: kind, delta: delta, limit: l}
				h.runMulti(c, letters, seq, false, func(oracle string, im *instModel) string {
					if im == nil {
						return oracle + "|criteria-pair"
					}
					// (which criterion rejects is the subject of the single-view sections above)
					_, first := c.views[0].relation(im.p)
					_, second := c.views[1].relation(im.p)
					by := map[[2]bool]string{{false, false}: "neither view", {true, false}: "the first view", {false, true}: "the second view", {true, true}: "both views"}
					return fmt.Sprintf("%s|criteria-pair|instrument selected by %s", oracle, by[[2]bool{first, second}])
				})
				r.Count("histories", 1)
				r.Sample(func() any { return h.multiDesc(c, letters, seq) })
			}
		}
	}
}

// ---------------------------------------------------------------------------
// bystander jobs

func runBystander(r *enum.R, kind kindT, delta bool) {
	thorough := r.Thorough()
	h := newHarness(r, universe(false)[:3])
	pop := []*instT{
		{role: "target", scope: scRef, name: "m1", unit: "By", kind: kind},
		{role: "bystander-same-meter", scope: scRef, name: "m2", unit: "By", kind: kind},
		{role: "bystander-same-name-other-meter", scope: scName, name: "m1", unit: "By", kind: kind},
	}
	// letters: A={k1=a} and C={k1=a,k2=x} (one set under filter{k1}, two without) for the target and
	// the bystander of its meter, C for the bystander of the other meter; thorough: also B={k1=b}, and A
	letters := []letterT{{0, 0}, {0, 2}, {1, 0}, {1, 2}, {2, 2}}
	if thorough {
		letters = append(letters, letterT{0, 1}, letterT{1, 1}, letterT{2, 0})
	}
	maxLen, maxCollects := 5, 2
	limits := enum.Pick(r, []limitT{{"", 0}, {"2", 2}}, []limitT{{"", 0}, {"2", 2}, {"3", 3}})
	var views []*viewT
	for _, v := range viewAlphabet() {
		switch v.tag {
		case "filter{k2}", "filter{k1,k2}", "filter{k1=a}", "filter{k1,k2=x}", "rename(M1)", "reaggregate+rename(z)", "describe(d)":
			if !thorough {
				continue
			}
		}
		views = append(views, v)
	}
	// the criteria select the target alone: by name and scope name / by name and the whole scope
	crits := []critT{
		{name: "m1", kind: -1, scope: scopeT{name: scRef.name}},
		{name: "m1", kind: int(kind), unit: "By", scope: scRef},
	}
	r.Bound("bystander/instruments_per_provider", len(pop))
	r.Bound("bystander/letters_instrument_x_attribute_set", len(letters))
	r.Bound("bystander/max_sequence_length_incl_collects", maxLen)
	r.Bound("bystander/max_collects", maxCollects)
	r.Bound("bystander/limits", len(limits))
	r.Bound("bystander/views_on_the_target", len(views))
	async := kinds[kind].async
	role := func(job string) func(oracle string, im *instModel) string {
		return func(oracle string, im *instModel) string {
			if im == nil {
				return oracle + "|" + job
			}
			return fmt.Sprintf("%s|%s|%s", oracle, job, im.p.role)
		}
	}
	for vi, v := range views {
		for _, l := range limits {
			lim := "unlimited"
			if l.n > 0 {
				lim = "limited"
			}
			c := &multiCfg{job: "bystander", insts: pop, views: []*mviewT{{crits[vi%2], v}}, maskKind: kind, delta: delta, limit: l}
			r.Section("bystander/" + c.tag())
			key := role("bystander/view:" + v.class + "/" + lim)
			stop := false
			forSeqs(len(letters), maxLen, maxCollects, func(seq []int8) bool {
				if async && repeatsWithinCycle(seq) {
					return true
				}
				if r.Expired() {
					stop = true
					return false
				}
				if !r.Want() {
					return true
				}
				h.runMulti(c, letters, seq, true, key)
				r.Count("sequences", 1)
				r.Sample(func() any { return h.multiDesc(c, letters, seq) })
				return true
			})
			if stop {
				return
			}
		}
	}
	if !thorough {
		return
	}
	// every ordered pair of views on the target, shorter histories
	all := viewAlphabet()
	r.Bound("bystander/ordered_view_pairs_on_the_target", len(all)*len(all))
	r.Bound("bystander/pair_max_sequence_length_incl_collects", 4)
	for _, a := range all {
		for _, b := range all {
			for _, l := range []limitT{{"", 0}, {"2", 2}} {
				c := &multiCfg{job: "bystander-pair", insts: pop, views: []*mviewT{{crits[0], a}, {crits[1], b}}, maskKind: kind, delta: delta, limit: l}
				r.Section("bystander-pair/" + c.tag())
				key := role("bystander-pair")
				stop := false
				forSeqs(5, 4, 2, func(seq []int8) bool {
					if async && repeatsWithinCycle(seq) {
						return true
					}
					if r.Expired() {
						stop = true
						return false
					}
					if !r.Want() {
						return true
					}
					h.runMulti(c, letters, seq, true, key)
					r.Count("sequences", 1)
					return true
				})
				if stop {
					return
				}
			}
		}
	}
}
