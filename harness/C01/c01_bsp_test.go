package trace

// C01 — batch span processor: exactly-once delivery. The real batchSpanProcessor (instrumented
// copy) runs under the controlled scheduler; every interleaving of the driver threads, the
// worker goroutine, the goroutines ForceFlush/Shutdown spawn, the batch timer, the export
// deadline and the exporter's answers is enumerated up to the preemption / deviation bounds.

import (
	"context"
	"errors"
	"fmt"
	"sort"
	"strings"
	"testing"

	"verif/mc/enum"
	"verif/mc/sched"
	"verif/mc/vctx"
	"verif/mc/vsync"

	"go.opentelemetry.io/otel/trace"
)

type c01Exp struct {
	x         *sched.Exec
	maxBatch  int
	faults    bool
	inflight  int
	batches   [][]string
	seen      map[string]int
	returned  map[string]bool // the ExportSpans call that carried the span has returned
	shutdowns int
	closedOK  bool // a Shutdown of the processor returned nil
	// closedEarly: a provider Shutdown returned nil while another provider Shutdown was still in
	// progress (TracerProvider.Shutdown's "already shutting down" fast path: recorded finding)
	closedEarly bool
	// closedRepeat: a Shutdown returned nil after an EARLIER Shutdown had been cut short by its context
	// and was still draining (recorded finding "repeated Shutdown while an earlier Shutdown had not completed")
	closedRepeat bool
	lastErr      []string
}

func (e *c01Exp) ExportSpans(ctx context.Context, spans []ReadOnlySpan) error {
	x := e.x
	e.inflight++
	if e.inflight > 1 {
		x.Fail("C01|exporter-reentered", "ExportSpans entered while another ExportSpans call is still running")
	}
	if len(spans) > e.maxBatch {
		x.Fail("C01|batch-too-large", "export batch of %d spans exceeds MaxExportBatchSize %d", len(spans), e.maxBatch)
	}
	if e.closedOK {
		x.Fail("C01|export-after-shutdown", "ExportSpans called after Shutdown had returned nil")
	} else if e.closedRepeat {
		x.Fail("C01|export-after-shutdown|after a repeated Shutdown that returned nil while an earlier Shutdown, cut short by its context, had not completed", "ExportSpans called after the second Shutdown had returned nil (the first one, cut short by its context, was still draining)")
	} else if e.closedEarly {
		x.Fail("C01|export-after-shutdown|after a provider Shutdown that returned while another provider Shutdown was still in progress", "ExportSpans called after a TracerProvider.Shutdown had returned nil (another Shutdown call was still draining)")
	}
	if e.shutdowns > 0 {
		x.Fail("C01|export-after-exporter-shutdown", "ExportSpans called after the exporter's Shutdown")
	}
	var ids []string
	for _, s := range spans {
		n := s.Name()
		ids = append(ids, n)
		e.seen[n]++
		if e.seen[n] > 1 {
			x.Fail("C01|span-exported-twice", "span %s handed to the exporter %d times", n, e.seen[n])
		}
		if strings.HasPrefix(n, "u") {
			x.Fail("C01|unsampled-exported", "unsampled span %s exported", n)
		}
	}
	e.batches = append(e.batches, ids)
	// the export takes time: other threads may run while it is in flight
	sched.Yield("export-in-flight", e)
	var err error
	if e.faults {
		switch sched.Choose(3, "export-answer") {
		case 1:
			err = errors.New("export failed")
		case 2: // slow exporter: blocks until its context is done (export timeout / caller's ctx)
			sched.ChR(ctx.Done()).Recv()
			err = ctx.Err()
		}
	}
	// the slice belongs to this call until it returns: what it holds now is what it held on entry
	for i, sp := range spans {
		if i >= len(ids) || sp == nil || sp.Name() != ids[i] {
			x.Fail("C01|export-batch-changed-during-export", "the slice handed to ExportSpans changed while the call was running: on entry %v, position %d differs now", ids, i)
			break
		}
	}
	e.inflight--
	for _, n := range ids {
		e.returned[n] = true
	}
	return err
}

func (e *c01Exp) Shutdown(context.Context) error {
	if e.inflight > 0 {
		e.x.Fail("C01|exporter-shutdown-during-export", "the exporter's Shutdown was called while an ExportSpans call was still running")
	}
	e.shutdowns++ // shutdown counts are judged by C15
	return nil
}

type c01Span struct {
	ReadOnlySpan
	name    string
	sampled bool
}

func (s c01Span) Name() string { return s.name }
func (s c01Span) SpanContext() trace.SpanContext {
	var f trace.TraceFlags
	if s.sampled {
		f = trace.FlagsSampled
	}
	return trace.NewSpanContext(trace.SpanContextConfig{TraceID: trace.TraceID{1}, SpanID: trace.SpanID{1}, TraceFlags: f})
}

type c01Cfg struct {
	q, b     int
	blocking bool
	faults   bool
}

func (c c01Cfg) String() string {
	s := fmt.Sprintf("q%db%d", c.q, c.b)
	if c.blocking {
		s += "-blocking"
	}
	if c.faults {
		s += "-faults"
	}
	return s
}

// scenario: threads of ops. Ops: "E:<name>" End sampled span, "U:<name>" End unsampled span,
// "F" ForceFlush(background), "Fc" ForceFlush(cancellable ctx, cancelled by an extra thread),
// "S" Shutdown(background), "Sc" Shutdown(cancellable ctx). tail runs sequentially after the join.
type c01Scn struct {
	name    string
	threads [][]string
	tail    []string
}

func c01Body(cfg c01Cfg, sc c01Scn, res *string) func(x *sched.Exec) {
	return func(x *sched.Exec) {
		e := &c01Exp{x: x, maxBatch: cfg.b, faults: cfg.faults, seen: map[string]int{}, returned: map[string]bool{}}
		opts := []BatchSpanProcessorOption{WithMaxQueueSize(cfg.q), WithMaxExportBatchSize(cfg.b)}
		if cfg.blocking {
			opts = append(opts, WithBlocking())
		}
		bsp := NewBatchSpanProcessor(e, opts...).(*batchSpanProcessor)
		endedAt := map[string]int{}
		// harness clock: one tick per recorded event. Threads run one at a time, so the order of the
		// ticks is the real order of "End/Emit returned" and "ForceFlush/Shutdown called" -- within one
		// thread as well (the scheduler's step counter does not move between two harness statements)
		clk := 0
		tick := func() int { clk++; return clk }
		var results []string
		firstShutdownAt := -1 // step at which the first Shutdown call was made
		shutdownCalls := 0
		psInFlight := 0               // provider Shutdown calls that have not returned yet
		shutdownFailedBefore := false // an earlier Shutdown call had already returned an error (cut short by its context)
		var e2 *c01Exp                // scenario R4: the exporter of a second batch processor under the same provider
		var bsp2 *batchSpanProcessor
		checkFlush := func(what string, calledAt int, err error) {
			results = append(results, fmt.Sprintf("%s=%v", what, err))
			if err != nil {
				return
			}
			if e2 != nil {
				var missing2 []string
				for n, at := range endedAt {
					if at < calledAt && (firstShutdownAt < 0 || at < firstShutdownAt) && (e2.seen[n] == 0 || !e2.returned[n]) {
						missing2 = append(missing2, n)
					}
				}
				sort.Strings(missing2)
				if len(missing2) > int(bsp2.dropped) {
					x.Fail("C01|flush-returned-nil-span-not-exported|provider "+what+"|first of two processors", "provider %s returned nil but span(s) %v were not exported by the processor registered first (dropped=%d, batches=%v)", what, missing2, bsp2.dropped, e2.batches)
				}
			}
			var missing []string
			for n, at := range endedAt {
				// a span whose End had not returned before the first Shutdown call is telemetry
				// "after shutdown": the processor may legitimately ignore it
				if firstShutdownAt >= 0 && at >= firstShutdownAt {
					continue
				}
				// "handed to the exporter by the time the call returns": the ExportSpans call carrying it is
				// over (an export still in progress has flushed nothing yet)
				if at < calledAt && strings.HasPrefix(n, "s") && (e.seen[n] == 0 || !e.returned[n]) {
					missing = append(missing, n)
				}
			}
			if what == "ProviderShutdownEarly" {
				what = "provider Shutdown returning while another provider Shutdown is still in progress"
			} else if what == "Shutdown" && shutdownCalls > 1 {
				if shutdownFailedBefore {
					what = "repeated Shutdown while an earlier Shutdown had not completed"
				} else {
					what = "Shutdown overlapping a Shutdown that is still in progress"
				}
			}
			if what == "ForceFlush" && firstShutdownAt >= 0 {
				what = "ForceFlush overlapping or following a Shutdown call"
			}
			sort.Strings(missing)
			dropped := int(bsp.dropped)
			if len(missing) > dropped {
				x.Fail("C01|flush-returned-nil-span-not-exported|"+what, "%s returned nil but span(s) %v, whose End had returned before it was called, were neither exported nor counted as dropped (dropped=%d, batches=%v)", what, missing, dropped, e.batches)
			}
			if cfg.blocking && dropped > 0 {
				x.Fail("C01|dropped-in-blocking-mode", "%d span(s) counted as dropped in blocking mode", dropped)
			}
		}
		var tp *TracerProvider // provider-level ops (RE / PF / PS) go through a real TracerProvider and real spans
		provider := func() *TracerProvider {
			if tp == nil && sc.name == "R4" {
				// two batch processors under one provider, the monitored one registered last: a provider
				// ForceFlush / Shutdown has to reach every processor
				e2 = &c01Exp{x: x, maxBatch: cfg.b, seen: map[string]int{}, returned: map[string]bool{}}
				bsp2 = NewBatchSpanProcessor(e2, opts...).(*batchSpanProcessor)
				tp = NewTracerProvider(WithSpanProcessor(bsp2), WithSpanProcessor(bsp), WithSampler(AlwaysSample()))
			}
			if tp == nil {
				tp = NewTracerProvider(WithSpanProcessor(bsp), WithSampler(AlwaysSample()))
			}
			return tp
		}
		for _, ops := range append(append([][]string{}, sc.threads...), sc.tail) {
			for _, op := range ops {
				if strings.HasPrefix(op, "RE:") || op == "PF" || op == "PFc" || op == "PS" {
					provider()
				}
			}
		}
		runOp := func(op string) {
			switch {
			case strings.HasPrefix(op, "RE:"):
				_, sp := tp.Tracer("t").Start(context.Background(), op[3:])
				sp.End()
				endedAt[op[3:]] = tick()
			case op == "PF":
				at := tick()
				checkFlush("ForceFlush", at, tp.ForceFlush(context.Background()))
			case op == "PFc": // provider ForceFlush with a context another thread cancels meanwhile
				ctx, cancel := vctx.WithCancel(context.Background())
				sched.Go(cancel)
				at := tick()
				checkFlush("ForceFlush", at, tp.ForceFlush(ctx))
			case op == "PS":
				at := tick()
				if firstShutdownAt < 0 {
					firstShutdownAt = at
				}
				shutdownCalls++
				psInFlight++
				err := tp.Shutdown(context.Background())
				psInFlight--
				if psInFlight > 0 && err == nil {
					// returned while another provider Shutdown is still at work
					checkFlush("ProviderShutdownEarly", at, err)
					e.closedEarly = true
				} else {
					checkFlush("Shutdown", at, err)
					if err == nil {
						e.closedOK = true
					}
				}
			case strings.HasPrefix(op, "E:"), strings.HasPrefix(op, "U:"):
				n := op[2:]
				bsp.OnEnd(c01Span{name: n, sampled: op[0] == 'E'})
				endedAt[n] = tick()
			case op == "F":
				at := tick()
				err := bsp.ForceFlush(context.Background())
				checkFlush("ForceFlush", at, err)
			case op == "Fc":
				ctx, cancel := vctx.WithCancel(context.Background())
				sched.Go(cancel)
				at := tick()
				err := bsp.ForceFlush(ctx)
				checkFlush("ForceFlush", at, err)
			case op == "S":
				at := tick()
				if firstShutdownAt < 0 {
					firstShutdownAt = at
				}
				shutdownCalls++
				err := bsp.Shutdown(context.Background())
				checkFlush("Shutdown", at, err)
				if err == nil {
					if shutdownFailedBefore {
						e.closedRepeat = true
					} else {
						e.closedOK = true
					}
				}
				if err != nil {
					shutdownFailedBefore = true
				}
			case op == "Sc":
				ctx, cancel := vctx.WithCancel(context.Background())
				sched.Go(cancel)
				at := tick()
				if firstShutdownAt < 0 {
					firstShutdownAt = at
				}
				shutdownCalls++
				err := bsp.Shutdown(ctx)
				checkFlush("Shutdown", at, err)
				if err == nil {
					if shutdownFailedBefore {
						e.closedRepeat = true
					} else {
						e.closedOK = true
					}
				}
				if err != nil {
					shutdownFailedBefore = true
				}
			}
		}
		var wg vsync.WaitGroup
		wg.Add(len(sc.threads))
		for _, ops := range sc.threads {
			sched.Go(func() {
				defer wg.Done()
				for _, op := range ops {
					runOp(op)
				}
			})
		}
		wg.Wait()
		for _, op := range sc.tail {
			runOp(op)
		}
		// what the library's own goroutines (worker, helpers of ForceFlush / Shutdown) still do once
		// the callers are done: let them run until they have nothing left -- an export that follows a
		// Shutdown which returned nil is caught by the exporter's monitor
		for k := 0; k < 8; k++ {
			sched.SpinYield()
		}
		// a drop needs a full queue: with no more queue entries (sampled spans and flush markers) than
		// the queue holds, nothing can have been dropped
		entries := 0
		for _, ops := range append(append([][]string{}, sc.threads...), sc.tail) {
			for _, op := range ops {
				if strings.HasPrefix(op, "E:") || strings.HasPrefix(op, "RE:") || op == "F" || op == "Fc" || op == "PF" || op == "PFc" {
					entries++
				}
			}
		}
		if entries <= cfg.q && bsp.dropped > 0 {
			x.Fail("C01|dropped-although-the-queue-had-room", "%d span(s) counted as dropped; the scenario puts %d entries into a queue of %d", bsp.dropped, entries, cfg.q)
		}
		var keys []string
		for _, b := range e.batches {
			keys = append(keys, fmt.Sprint(b))
		}
		sort.Strings(keys)
		sort.Strings(results)
		*res = fmt.Sprintf("%v drop=%d sd=%d %v", keys, bsp.dropped, e.shutdowns, results)
	}
}

func c01Scenarios(thorough bool) []c01Scn {
	s := []c01Scn{
		{"S1", [][]string{{"E:s1", "E:s2"}, {"F"}}, []string{"S"}},
		{"S3", [][]string{{"E:s1", "E:s2"}, {"S"}}, nil},
		{"S5", [][]string{{"E:s1", "E:s2", "Fc"}}, []string{"S"}},
		{"S7", [][]string{{"E:s1", "U:u1", "E:s2"}, {"E:s3"}}, []string{"F", "S"}},
		{"R1", [][]string{{"RE:s1", "RE:s2"}, {"PF"}}, []string{"PS"}}, // real provider, real spans
		{"R2", [][]string{{"RE:s1", "RE:s2", "PFc"}}, []string{"PS"}},  // provider ForceFlush cut short by its context: an error, or everything exported
		{"R3", [][]string{{"RE:s1", "RE:s2"}, {"PS"}, {"PS"}}, nil},    // two provider Shutdown calls at once
		{"R4", [][]string{{"RE:s1", "PF"}}, []string{"PS"}},   // two batch processors under one provider (sequential caller, two workers)
		{"S6", [][]string{{"S"}, {"S"}, {"E:s1"}}, nil},
		{"S11", [][]string{{"E:s1", "E:s2", "E:s3", "S"}}, nil}, // sequential: several batches left to the shutdown drain
	}
	// S4 / S9 (ForceFlush against Shutdown; a Shutdown cut short, then another): in the quick tier
	// with the smallest configuration only -- they are where the two recorded findings show
	s = append(s,
		c01Scn{"S12", [][]string{{"F"}, {"E:s1", "F"}}, []string{"S"}}, // two ForceFlush calls in flight, a span ended between them
		// a ForceFlush whose own export (batch not full, timer not due) is cut short by its context while
		// the exporter is busy, then a normal span and flush: what the failed export carried must not come again
		c01Scn{"S13", [][]string{{"E:s1", "Fc"}}, []string{"E:s2", "F", "S"}},
		c01Scn{"S4", [][]string{{"E:s1"}, {"F"}, {"S"}}, nil},
		c01Scn{"S9", [][]string{{"E:s1", "E:s2"}, {"Sc"}}, []string{"S"}},
	)
	if thorough {
		s = append(s,
			c01Scn{"S2", [][]string{{"E:s1", "F", "E:s2"}, {"E:s3"}}, []string{"S"}},
			c01Scn{"S8", [][]string{{"E:s1", "E:s2", "E:s3"}, {"F"}, {"F"}}, []string{"S"}},
		)
	}
	return s
}

func c01Configs(thorough bool) []c01Cfg {
	c := []c01Cfg{
		{1, 1, false, false}, {2, 1, false, false}, {2, 2, false, true}, {1, 1, true, false}, {3, 2, false, false}, {3, 1, false, true},
		{1, 2, false, false}, // a batch size above the queue size (options are not clamped): S1 and S11 only
	}
	if thorough {
		c = append(c, c01Cfg{2, 2, false, false}, c01Cfg{2, 2, true, true}, c01Cfg{1, 1, false, true}, c01Cfg{3, 2, true, false}, c01Cfg{4, 3, false, true})
	}
	return c
}

func TestVerifC01(t *testing.T) {
	thorough := enum.Start("C01", "probe").Thorough()
	scs, cfgs := c01Scenarios(thorough), c01Configs(thorough)
	var jobs []string
	for _, sc := range scs {
		for _, c := range cfgs {
			if sc.name == "R4" && c.String() != "q2b1" {
				continue
			}
			if (sc.name == "R1" || sc.name == "R2" || sc.name == "R3") && !(c.String() == "q2b1" || (c.String() == "q1b1-blocking" && sc.name != "R3")) {
				continue // real spans have many more scheduling points: two configurations only
			}
			if !thorough && (sc.name == "S4" || sc.name == "S9") && c.String() != "q1b1" {
				continue
			}
			if c.b > c.q && sc.name != "S1" && sc.name != "S11" {
				continue
			}
			if sc.name == "S13" && !(c.faults && c.b >= 2) {
				continue // needs a span that stays in the batch and an exporter that can be slow
			}
			if !thorough && sc.name == "S12" && !(c.String() == "q2b1" || c.String() == "q3b2") {
				continue
			}
			jobs = append(jobs, sc.name+"/"+c.String())
		}
	}
	enum.Jobs(jobs, func(job string) {
		r := enum.Start("C01", "bsp")
		defer r.Finish()
		for _, sc := range scs {
			for _, c := range cfgs {
				if sc.name+"/"+c.String() != job {
					continue
				}
				p, e := 1, 1
				if sc.name == "R1" || sc.name == "R2" || sc.name == "R3" || sc.name == "S4" {
					e = 0 // (quick) three threads: preemptions only
				}
				if thorough {
					p, e = 2, 1
					if c.q == 1 && !c.faults && !c.blocking && (sc.name == "S3" || sc.name == "S5") {
						e = 2 // smallest configurations: one more environment deviation
					}
					if sc.name == "R1" || sc.name == "R2" || sc.name == "R3" || sc.name == "S8" || sc.name == "S2" || (c.blocking && (sc.name == "S1" || sc.name == "S4")) {
						p, e = 1, 1 // the largest drivers (3 spans + 2 flushes, blocking producers): measured > 40 CPU-minutes at (2,1)
					}
				}
				r.Bound("max_preemptions", p)
				r.Bound("max_env_deviations", e)
				r.Bound("scenarios", len(scs))
				r.Bound("configs(queue,batch,blocking,exporter-faults)", len(cfgs))
				var res string
				st := sched.Explore(r, sched.Config{Name: job, MaxP: p, MaxE: e, MaxSteps: 4000, Body: c01Body(c, sc, &res),
					Outcome: func(*sched.Exec) string { return res }, DeadlockOK: true})
				t.Logf("%s: execs=%d states=%d steps=%d pruned=%d deadlocks=%d horizon=%d outcomes=%d complete=%v keys=%v", job, st.Execs, st.States, st.Steps, st.Pruned, st.Deadlocks, st.Horizon, len(st.Outcomes), st.Complete, r.Keys())
			}
		}
	})
}
