package transform

// C13 — OTLP log records are encoded faithfully. This file is used unchanged in the HTTP and
// in the gRPC copy of the generated log transform (both are `package transform`).
//
// Every enumerated batch of sdk/log records goes through the real ResourceLogs transform, a
// wire marshal/unmarshal, and a decode into neutral items that is compared, as a multiset,
// with neutral items derived from the record descriptions (not from the transform).

import (
	"encoding/hex"
	"fmt"
	"math"
	"sort"
	"strconv"
	"strings"
	"testing"
	"time"

	lpb "go.opentelemetry.io/proto/otlp/logs/v1"
	"google.golang.org/protobuf/proto"

	"go.opentelemetry.io/otel/attribute"
	api "go.opentelemetry.io/otel/log"
	"go.opentelemetry.io/otel/sdk/instrumentation"
	"go.opentelemetry.io/otel/sdk/log"
	"go.opentelemetry.io/otel/sdk/log/logtest"
	"go.opentelemetry.io/otel/sdk/resource"
	"go.opentelemetry.io/otel/trace"
	"verif/mc/enum"
)

// xLogValue: an api.Value read back through its public accessors.
func xLogValue(v api.Value) string {
	switch v.Kind() {
	case api.KindEmpty:
		return "empty"
	case api.KindBool:
		return fmt.Sprintf("bool:%v", v.AsBool())
	case api.KindInt64:
		return fmt.Sprintf("int:%d", v.AsInt64())
	case api.KindFloat64:
		return "dbl:" + fb(v.AsFloat64())
	case api.KindString:
		return "str:" + short(v.AsString())
	case api.KindBytes:
		return "bytes:" + hex.EncodeToString(v.AsBytes())
	case api.KindSlice:
		var xs []string
		for _, e := range v.AsSlice() {
			xs = append(xs, xLogValue(e))
		}
		return "arr:[" + strings.Join(xs, " ") + "]"
	case api.KindMap:
		return "map:" + xLogAttrs(v.AsMap())
	}
	return "unknown-kind"
}

func xLogAttrs(kvs []api.KeyValue) string {
	xs := make([]string, 0, len(kvs))
	for _, a := range kvs {
		xs = append(xs, strconv.Quote(a.Key)+"="+xLogValue(a.Value))
	}
	return "{" + joinSorted(xs) + "}"
}

// containsEmpty reports whether v is, or contains, a value of KindEmpty.
func containsEmpty(v api.Value) bool {
	switch v.Kind() {
	case api.KindEmpty:
		return true
	case api.KindSlice:
		for _, e := range v.AsSlice() {
			if containsEmpty(e) {
				return true
			}
		}
	case api.KindMap:
		for _, e := range v.AsMap() {
			if containsEmpty(e.Value) {
				return true
			}
		}
	}
	return false
}

// valueClass: values that are or contain a KindEmpty value are one class of inputs of their
// own (whether they sit in the body or in an attribute); all other kinds are judged per field.
func valueClass(v api.Value) string {
	if containsEmpty(v) {
		return "=value is or contains KindEmpty"
	}
	return ""
}

// logCase is one record of a batch: the factory describing it and, for narrow finding keys,
// the family field it varies with the class of the variant.
type logCase struct {
	F     logtest.RecordFactory
	Field string
	Class string
	Solo  bool // not combined with other variants in one batch
}

func expectLog(f logtest.RecordFactory) item {
	var res *resource.Resource = f.Resource
	var sc instrumentation.Scope
	if f.InstrumentationScope != nil {
		sc = *f.InstrumentationScope
	}
	sev, alt := strconv.Itoa(int(f.Severity)), ""
	if f.Severity < 0 || f.Severity > 24 {
		// outside the 0..24 range of the data model: unspecified or the raw number, not judged further
		sev, alt = "0", strconv.Itoa(int(f.Severity))
	}
	tid, sid := f.TraceID, f.SpanID
	return item{
		Res:   xResource(res),
		Scope: xScope(sc),
		F: []kv{
			{K: "time", V: xTime(f.Timestamp)},
			{K: "observed_time", V: xTime(f.ObservedTimestamp)},
			{K: "event_name", V: short(f.EventName)},
			{K: "severity_number", V: sev, Alt: alt},
			{K: "severity_text", V: short(f.SeverityText)},
			{K: "body", V: xLogValue(f.Body)},
			{K: "attributes", V: xLogAttrs(f.Attributes)},
			{K: "dropped_attributes", V: xCount(f.DroppedAttributes)},
			{K: "trace_id", V: xID(tid[:])},
			{K: "span_id", V: xID(sid[:])},
			{K: "flags", V: strconv.Itoa(int(f.TraceFlags))},
		},
	}
}

func decodeLogs(d *lpb.LogsData) []item {
	var out []item
	for _, rl := range d.GetResourceLogs() {
		res := pResource(rl.GetResource(), rl.GetSchemaUrl())
		for _, sl := range rl.GetScopeLogs() {
			sc := pScope(sl.GetScope(), sl.GetSchemaUrl())
			for _, lr := range sl.GetLogRecords() {
				out = append(out, item{Res: res, Scope: sc, F: []kv{
					{K: "time", V: pTime(lr.GetTimeUnixNano())},
					{K: "observed_time", V: pTime(lr.GetObservedTimeUnixNano())},
					{K: "event_name", V: short(lr.GetEventName())},
					{K: "severity_number", V: strconv.Itoa(int(lr.GetSeverityNumber()))},
					{K: "severity_text", V: short(lr.GetSeverityText())},
					{K: "body", V: pValue(lr.GetBody())},
					{K: "attributes", V: pAttrs(lr.GetAttributes())},
					{K: "dropped_attributes", V: strconv.FormatUint(uint64(lr.GetDroppedAttributesCount()), 10)},
					{K: "trace_id", V: pID(lr.GetTraceId(), 16)},
					{K: "span_id", V: pID(lr.GetSpanId(), 8)},
					{K: "flags", V: strconv.FormatUint(uint64(lr.GetFlags()&0xff), 10)},
				}})
			}
		}
	}
	return out
}

type c13log struct {
	r  *enum.R
	pc *peerCmp
}

func (c *c13log) check(desc string, batch []logCase) {
	r := c.r
	r.Eval()
	exp := make([]item, len(batch))
	recs := make([]log.Record, len(batch))
	for i := range batch {
		exp[i] = expectLog(batch[i].F)
		recs[i] = batch[i].F.NewRecord()
	}
	cas := func() any {
		var xs []string
		for i := range exp {
			xs = append(xs, exp[i].String())
		}
		return map[string]any{"input": desc, "records": xs}
	}
	var out []*lpb.ResourceLogs
	if p := func() (p any) {
		defer func() { p = recover() }()
		out = ResourceLogs(recs)
		return nil
	}(); p != nil {
		r.FailHere("panic|log transform", cas(), "ResourceLogs panicked: %v", p)
		return
	}
	wire, err := proto.Marshal(&lpb.LogsData{ResourceLogs: out})
	if err != nil {
		r.FailHere("wire|log payload does not marshal", cas(), "proto.Marshal: %v", err)
		return
	}
	var back lpb.LogsData
	if err := proto.Unmarshal(wire, &back); err != nil {
		r.FailHere("wire|log payload does not unmarshal", cas(), "proto.Unmarshal: %v", err)
		return
	}
	got := decodeLogs(&back)
	r.Outcome(itemsOutcome(got))
	r.Sample(cas)
	if key, msg, idx := diffItemsIdx(exp, got); key != "" {
		key = classKey(key, idx, func(i int) string { return batch[i].Field }, func(i int) string { return batch[i].Class })
		r.FailHere("log|"+key, cas(), "%s", msg)
	}
	// canonical payload for the gRPC/HTTP comparison: deterministic marshal, groups sorted
	parts := make([][]byte, 0, len(out))
	for _, rl := range out {
		b, err := proto.MarshalOptions{Deterministic: true}.Marshal(rl)
		if err != nil {
			b = []byte("marshal error: " + err.Error())
		}
		parts = append(parts, b)
	}
	sort.Slice(parts, func(i, j int) bool { return string(parts[i]) < string(parts[j]) })
	c.pc.add(digest(parts), desc)
}

// ---------------------------------------------------------------------------- enumeration

var logBase = time.Date(2024, 5, 6, 7, 8, 9, 123456789, time.UTC)

func logTimes() []time.Time {
	return []time.Time{
		{},
		time.Unix(0, 0),
		time.Unix(0, 1),
		time.Date(2000, 1, 1, 0, 0, 0, 0, time.FixedZone("east", 5*3600)),
		time.Unix(0, math.MaxInt64), // 2262-04-11T23:47:16.854775807Z, the last representable instant
	}
}

func defaultLog(i int) logtest.RecordFactory {
	return logtest.RecordFactory{
		EventName:         fmt.Sprintf("rec-%d", i),
		Timestamp:         logBase.Add(time.Duration(i) * time.Millisecond),
		ObservedTimestamp: logBase.Add(time.Duration(i)*time.Millisecond + time.Microsecond),
		Severity:          api.SeverityInfo,
		SeverityText:      "INFO",
		Body:              api.Int64Value(int64(i)),
	}
}

func logValues() []api.Value {
	big64k := strings.Repeat("0123456789abcdef", 4096)
	return []api.Value{
		{}, // KindEmpty: no value
		api.BoolValue(true), api.BoolValue(false),
		api.Int64Value(0), api.Int64Value(1), api.Int64Value(math.MinInt64), api.Int64Value(math.MaxInt64),
		api.Float64Value(0), api.Float64Value(math.Copysign(0, -1)), api.Float64Value(1.5), api.Float64Value(math.NaN()), api.Float64Value(math.Inf(1)), api.Float64Value(math.Inf(-1)),
		api.StringValue(""), api.StringValue("x"), api.StringValue("Ünï ✓ \x00\n\""), api.StringValue(big64k),
		api.BytesValue(nil), api.BytesValue([]byte{}), api.BytesValue([]byte{0, 255, 10}),
		api.SliceValue(), api.SliceValue(api.Int64Value(1), api.StringValue("a")), api.SliceValue(api.SliceValue(api.BoolValue(true)), api.SliceValue()),
		api.SliceValue(api.Value{}, api.Int64Value(2)),
		api.MapValue(), api.MapValue(api.Int64("a", 1)), api.MapValue(api.Map("m", api.Map("n", api.String("deep", "v"))), api.Slice("s", api.Float64Value(2.5))),
		api.MapValue(api.Empty("e"), api.Int64("a", 1)), api.MapValue(api.String("", "empty key")),
	}
}

// logFamilies returns the field families: each is a list of variants of the default record.
func logFamilies() [][]logCase {
	var fams [][]logCase
	mk := func(field, class string, mod func(f *logtest.RecordFactory)) logCase {
		f := defaultLog(0)
		mod(&f)
		return logCase{F: f, Field: field, Class: class}
	}
	// severity: 0..24 and out of range
	var fam []logCase
	for s := -1; s <= 26; s++ {
		s := s
		fam = append(fam, mk("severity_number", "", func(f *logtest.RecordFactory) { f.Severity = api.Severity(s) }))
	}
	fams = append(fams, fam)
	// severity text, event name
	fam = nil
	for _, s := range []string{"", "WARN", "Ünï ✓"} {
		s := s
		fam = append(fam, mk("severity_text", "", func(f *logtest.RecordFactory) { f.SeverityText = s }))
		fam = append(fam, mk("event_name", "", func(f *logtest.RecordFactory) { f.EventName = s }))
	}
	fams = append(fams, fam)
	// body of every kind
	fam = nil
	for _, v := range logValues() {
		v := v
		fam = append(fam, mk("body", valueClass(v), func(f *logtest.RecordFactory) { f.Body = v }))
	}
	fams = append(fams, fam)
	// one attribute of every kind
	fam = nil
	for _, v := range logValues() {
		v := v
		fam = append(fam, mk("attributes", valueClass(v), func(f *logtest.RecordFactory) { f.Attributes = []api.KeyValue{{Key: "k", Value: v}} }))
	}
	fams = append(fams, fam)
	// attribute counts around the 5-element inline storage, empty key
	fam = nil
	for n := 0; n <= 8; n++ {
		var as []api.KeyValue
		for i := 0; i < n; i++ {
			as = append(as, api.Int(fmt.Sprintf("k%d", i), i))
		}
		fam = append(fam, mk("attributes", "count", func(f *logtest.RecordFactory) { f.Attributes = as }))
	}
	fam = append(fam, mk("attributes", "count", func(f *logtest.RecordFactory) {
		f.Attributes = []api.KeyValue{api.String("", "v"), api.Bool("b", true)}
	}))
	fams = append(fams, fam)
	// trace id x span id x flags
	fam = nil
	tids := []trace.TraceID{{}, {15: 1}, {0xff, 0xff, 0xff, 0xff, 0xff, 0xff, 0xff, 0xff, 0xff, 0xff, 0xff, 0xff, 0xff, 0xff, 0xff, 0xff}, {0: 0x80}}
	sids := []trace.SpanID{{}, {7: 1}, {0xff, 0xff, 0xff, 0xff, 0xff, 0xff, 0xff, 0xff}}
	for _, t := range tids {
		for _, s := range sids {
			for _, fl := range []trace.TraceFlags{0, 1, 255} {
				t, s, fl := t, s, fl
				fam = append(fam, mk("ids", "", func(f *logtest.RecordFactory) { f.TraceID, f.SpanID, f.TraceFlags = t, s, fl }))
			}
		}
	}
	fams = append(fams, fam)
	// timestamps
	fam = nil
	for _, a := range logTimes() {
		for _, b := range logTimes() {
			a, b := a, b
			fam = append(fam, mk("time", "", func(f *logtest.RecordFactory) { f.Timestamp, f.ObservedTimestamp = a, b }))
		}
	}
	fams = append(fams, fam)
	// dropped attribute counts
	fam = nil
	for _, n := range []int{0, 1, 2, math.MaxUint32 - 1, math.MaxUint32, math.MaxUint32 + 1, math.MaxUint32 + 2, math.MaxInt64} {
		n := n
		cl := "count > 0"
		if n == 0 {
			cl = "count = 0"
		}
		fam = append(fam, mk("dropped_attributes", cl, func(f *logtest.RecordFactory) { f.DroppedAttributes = n }))
	}
	fams = append(fams, fam)
	// resource and scope content: every attribute value type
	fam = nil
	for _, a := range attrFamily() {
		a := a
		fam = append(fam, mk("resource", "", func(f *logtest.RecordFactory) { f.Resource = resource.NewSchemaless(a) }))
		fam = append(fam, mk("scope", "", func(f *logtest.RecordFactory) {
			f.InstrumentationScope = &instrumentation.Scope{Name: "n", Attributes: attribute.NewSet(a)}
		}))
	}
	// a resource with a schema URL and no attributes: alone in its batch (next to a record without
	// resource it would be the same resource under another URL, which is not judged)
	solo := mk("resource", "", func(f *logtest.RecordFactory) {
		f.Resource = resource.NewWithAttributes("https://example.test/only-url")
	})
	solo.Solo = true
	fam = append(fam, solo)
	fam = append(fam, mk("resource", "", func(f *logtest.RecordFactory) { f.Resource = resource.NewSchemaless(attrFamily()...) }))
	fam = append(fam, mk("scope", "", func(f *logtest.RecordFactory) {
		f.InstrumentationScope = &instrumentation.Scope{SchemaURL: "https://example.test/only-url"}
	}))
	fam = append(fam, mk("scope", "", func(f *logtest.RecordFactory) {
		f.InstrumentationScope = &instrumentation.Scope{Version: "only-version"}
	}))
	fam = append(fam, mk("scope", "", func(f *logtest.RecordFactory) {
		f.InstrumentationScope = &instrumentation.Scope{Name: "only-attrs", Attributes: attribute.NewSet(attrFamily()...)}
	}))
	fams = append(fams, fam)
	// many attributes / a long body list: limits are configuration, not a bound of the encoding
	fam = nil
	for _, n := range []int{127, 128, 129, 300, 1000} {
		n := n
		fam = append(fam, mk("attributes.count", fmt.Sprintf("%d attributes", n), func(f *logtest.RecordFactory) {
			f.Attributes = make([]api.KeyValue, n)
			for i := range f.Attributes {
				f.Attributes[i] = api.Int(fmt.Sprintf("k%04d", i), i)
			}
		}))
		fam = append(fam, mk("body.count", fmt.Sprintf("slice of %d values", n), func(f *logtest.RecordFactory) {
			vs := make([]api.Value, n)
			for i := range vs {
				vs[i] = api.IntValue(i)
			}
			f.Body = api.SliceValue(vs...)
		}))
	}
	fams = append(fams, fam)
	return fams
}

func logJobs(thorough bool) []string {
	jobs := []string{"fields", "group/six"}
	if !thorough {
		return append(jobs, "group/all")
	}
	for i := 0; i < 30; i++ { // 5 resources x 6 scopes
		jobs = append(jobs, fmt.Sprintf("group/first=%02d", i))
	}
	return jobs
}

func TestVerifC13Log(t *testing.T) {
	thorough := enumTierThorough()
	enum.Jobs(logJobs(thorough), func(job string) {
		r := enum.Start("C13", "log-"+sideName())
		defer r.Finish()
		c := &c13log{r: r, pc: newPeerCmp(r, "log")}
		defer c.pc.finish()
		rs, ss := resAlphabet(true), scopeAlphabet()
		six := sixPairs()
		maxAll := enum.Pick(r, 3, 4)
		maxSix := enum.Pick(r, 4, 6)
		r.Bound("log_resources", len(rs))
		r.Bound("log_scopes", len(ss))
		r.Bound("log_max_batch_all_pairs", maxAll)
		r.Bound("log_max_batch_six_pairs", maxSix)
		r.Section(job)
		group := func(pairs [][2]int, seq []int) {
			if !r.Want() {
				return
			}
			batch := make([]logCase, len(seq))
			var names []string
			for i, p := range seq {
				f := defaultLog(i)
				f.Resource = rs[pairs[p][0]].R
				sc := ss[pairs[p][1]].S
				if sc != (instrumentation.Scope{}) || i%2 == 0 {
					f.InstrumentationScope = &sc // odd positions leave the empty scope as a nil pointer
				}
				batch[i] = logCase{F: f}
				names = append(names, rs[pairs[p][0]].Name+"/"+ss[pairs[p][1]].Name)
			}
			c.check("group "+strings.Join(names, " "), batch)
		}
		var all [][2]int
		for ri := range rs {
			for si := range ss {
				all = append(all, [2]int{ri, si})
			}
		}
		switch {
		case job == "fields":
			fams := logFamilies()
			n := 0
			for _, f := range fams {
				n += len(f)
			}
			r.Bound("log_field_variants", n)
			for fi, fam := range fams {
				for i := range fam { // singles
					if r.Want() {
						c.check(fmt.Sprintf("family %d (%s) variant %d", fi, fam[i].Field, i), []logCase{fam[i]})
					}
				}
				for i := range fam { // adjacent pairs in one batch, same resource and scope
					j := (i + 1) % len(fam)
					if r.Want() && !fam[i].Solo && !fam[j].Solo {
						c.check(fmt.Sprintf("family %d (%s) variants %d+%d", fi, fam[i].Field, i, j), []logCase{fam[i], fam[j]})
					}
				}
			}
		case job == "group/six":
			for L := 0; L <= maxSix && !r.Expired(); L++ {
				eachSeq(len(six), L, -1, func(seq []int) bool { group(six, seq); return !r.Expired() })
			}
		case job == "group/all":
			for L := 0; L <= maxAll && !r.Expired(); L++ {
				eachSeq(len(all), L, -1, func(seq []int) bool { group(all, seq); return !r.Expired() })
			}
		default:
			var first int
			fmt.Sscanf(job, "group/first=%d", &first)
			for L := 1; L <= maxAll && !r.Expired(); L++ {
				eachSeq(len(all), L, first, func(seq []int) bool { group(all, seq); return !r.Expired() })
			}
		}
	})
}
